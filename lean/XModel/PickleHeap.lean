/-
  PickleHeap — an executable HEAP model of Python containers, of
  `container[key] = number`, and of `pickle.loads(pickle.dumps(roots))`.

  Self-contained, core Lean only (no Mathlib, no import of the other model files).

  Why a separate model: the manager model (XModel/Manager.lean) keeps the
  containers in a purely functional tree-shaped `store`; aliasing cannot be
  expressed there, so "assignments to the original never affect the restored
  manager and vice versa" cannot even be stated.  Here containers are OBJECTS
  on a heap, members are REFERENCES (addresses), assignment MUTATES the parent
  object, and pickling copies everything reachable from the roots into FRESH
  objects, preserving sharing and cycles inside one dump (the pickle memo).

  Modelling choices (all stated, none hidden):
  * `Heap := List Obj`, the address of an object is its position, `next = length`.
    So "every address of an object is < next" holds by construction; the
    well-formedness predicate `WF` says there is no dangling reference.
  * numbers are immutable leaves stored INLINE in the member slot (`Val.num`);
    containers are referenced (`Val.ref a`).  Python does not preserve the
    identity of floats / ints through pickle (they are not memoised), and their
    identity is unobservable for immutable values, so this is the faithful choice;
    sharing of CONTAINER objects is fully expressible.
  * `dumps` = depth-first pre-order traversal (member order, first visit gets the
    next memo number) — exactly the order in which `pickle` memoises containers;
    the result is a position independent list of objects whose references are
    memo numbers.  `loads` relocates that list to the fresh addresses
    `next, next+1, …`.  `deepCopy = loads ∘ dumps`.  `canon = dumps`.
  * the traversal uses fuel; `dfsO_enough` proves that the fuel passed by
    `reachList` is always enough (no hypothesis at all), so `deepCopy` is total
    and never truncated.  CYCLES ARE ALLOWED everywhere.
-/

namespace PickleHeap

/-! ## Objects -/

abbrev Addr := Nat

/-- `omega` does not look through the abbreviation `Addr` in the type of a comparison -/
local macro "aomega" : tactic => `(tactic| ((try dsimp only [Addr] at *); omega))

inductive Key where
  | str (s : String)
  | int (i : Int)
  deriving DecidableEq, Repr

inductive Val where
  | num (n : Int)
  | ref (a : Addr)
  deriving DecidableEq, Repr

inductive Obj where
  | dict (items : List (Key × Val))
  | list (items : List Val)
  deriving DecidableEq, Repr

abbrev Heap := List Obj

def Val.addr? : Val → Option Addr
  | .num _ => none
  | .ref a => some a

def Val.rename (σ : Addr → Addr) : Val → Val
  | .num n => .num n
  | .ref a => .ref (σ a)

/-- the member slots of an object, in order -/
def Obj.vals : Obj → List Val
  | .dict items => items.map (·.2)
  | .list items => items

/-- the addresses of the container members of an object, in member order -/
def Obj.refs (o : Obj) : List Addr := o.vals.filterMap Val.addr?

def Obj.rename (σ : Addr → Addr) : Obj → Obj
  | .dict items => .dict (items.map fun kv => (kv.1, kv.2.rename σ))
  | .list items => .list (items.map (Val.rename σ))

def assocGet : List (Key × Val) → Key → Option Val
  | [], _ => none
  | kv :: xs, k => if kv.1 = k then some kv.2 else assocGet xs k

/-- `d[k] = v` on the item list of a dict: replace in place, or append a new key
    (Python dicts keep insertion order). -/
def assocSet : List (Key × Val) → Key → Val → List (Key × Val)
  | [], k, v => [(k, v)]
  | kv :: xs, k, v => if kv.1 = k then (kv.1, v) :: xs else kv :: assocSet xs k v

/-- `o[k]`; `none` models KeyError / IndexError / TypeError.
    Negative list indices are NOT modelled (they give `none`). -/
def Obj.get : Obj → Key → Option Val
  | .dict items, k => assocGet items k
  | .list items, .int i => if 0 ≤ i then items[i.toNat]? else none
  | .list _, .str _ => none

/-- `o[k] = v`; a dict accepts a new key, a list needs an index in range. -/
def Obj.set : Obj → Key → Val → Option Obj
  | .dict items, k, v => some (.dict (assocSet items k v))
  | .list items, .int i, v =>
      if 0 ≤ i ∧ i.toNat < items.length then some (.list (items.set i.toNat v)) else none
  | .list _, .str _, _ => none

/-- the keys of a dict are pairwise different (a Python dict invariant) -/
def Obj.KeysOk : Obj → Prop
  | .dict items => (items.map (·.1)).Nodup
  | .list _ => True

/-! ### lemmas about objects -/

theorem Val.rename_id (v : Val) : v.rename id = v := by cases v <;> rfl

theorem Val.rename_comp (σ τ : Addr → Addr) (v : Val) :
    (v.rename σ).rename τ = v.rename (fun a => τ (σ a)) := by cases v <;> rfl

theorem Val.addr?_rename (σ : Addr → Addr) (v : Val) :
    (v.rename σ).addr? = v.addr?.map σ := by cases v <;> rfl

theorem Obj.vals_rename (σ : Addr → Addr) (o : Obj) :
    (o.rename σ).vals = o.vals.map (Val.rename σ) := by
  cases o <;> simp [Obj.rename, Obj.vals, List.map_map, Function.comp_def]

theorem Obj.refs_rename (σ : Addr → Addr) (o : Obj) :
    (o.rename σ).refs = o.refs.map σ := by
  simp only [Obj.refs, Obj.vals_rename, List.filterMap_map, List.map_filterMap]
  congr 1; funext v; cases v <;> rfl

theorem Obj.mem_refs {o : Obj} {b : Addr} : b ∈ o.refs ↔ Val.ref b ∈ o.vals := by
  simp only [Obj.refs, List.mem_filterMap]
  constructor
  · rintro ⟨v, hv, hb⟩; cases v <;> simp [Val.addr?] at hb; subst hb; exact hv
  · intro h; exact ⟨_, h, rfl⟩

theorem Obj.rename_congr {σ τ : Addr → Addr} {o : Obj}
    (hst : ∀ b ∈ o.refs, σ b = τ b) : o.rename σ = o.rename τ := by
  have hv : ∀ v ∈ o.vals, v.rename σ = v.rename τ := by
    intro v hv
    cases v with
    | num n => rfl
    | ref b => simp [Val.rename, hst b (Obj.mem_refs.2 hv)]
  cases o with
  | dict items =>
    simp only [Obj.rename, Obj.dict.injEq]
    apply List.map_congr_left
    intro kv hkv
    rw [hv kv.2 (by simp only [Obj.vals, List.mem_map]; exact ⟨kv, hkv, rfl⟩)]
  | list items =>
    simp only [Obj.rename, Obj.list.injEq]
    exact List.map_congr_left hv

theorem Obj.rename_comp (σ τ : Addr → Addr) (o : Obj) :
    (o.rename σ).rename τ = o.rename (fun a => τ (σ a)) := by
  cases o <;> simp [Obj.rename, List.map_map, Function.comp_def, Val.rename_comp]

theorem Obj.rename_id (o : Obj) : o.rename id = o := by
  cases o with
  | dict items =>
    simp only [Obj.rename, Obj.dict.injEq]
    conv => rhs; rw [← List.map_id items]
    apply List.map_congr_left; intro kv _; simp [Val.rename_id]
  | list items =>
    simp only [Obj.rename, Obj.list.injEq]
    conv => rhs; rw [← List.map_id items]
    apply List.map_congr_left; intro v _; simp [Val.rename_id]

theorem assocGet_map (σ : Addr → Addr) (items : List (Key × Val)) (k : Key) :
    assocGet (items.map fun kv => (kv.1, kv.2.rename σ)) k
      = (assocGet items k).map (Val.rename σ) := by
  induction items with
  | nil => rfl
  | cons kv xs ih =>
    simp only [List.map_cons, assocGet]
    split <;> simp [ih]

theorem assocSet_map (σ : Addr → Addr) (items : List (Key × Val)) (k : Key) (v : Val) :
    assocSet (items.map fun kv => (kv.1, kv.2.rename σ)) k (v.rename σ)
      = (assocSet items k v).map fun kv => (kv.1, kv.2.rename σ) := by
  induction items with
  | nil => rfl
  | cons kv xs ih =>
    simp only [List.map_cons, assocSet]
    split <;> simp [ih]

theorem assocGet_mem {items : List (Key × Val)} {k : Key} {v : Val}
    (h : assocGet items k = some v) : v ∈ items.map (·.2) := by
  induction items with
  | nil => simp [assocGet] at h
  | cons kv xs ih =>
    simp only [assocGet] at h
    split at h
    · simp at h; simp [h]
    · have := ih h; simp at this ⊢; exact Or.inr this

theorem assocSet_vals {items : List (Key × Val)} {k : Key} {v w : Val}
    (h : w ∈ (assocSet items k v).map (·.2)) : w = v ∨ w ∈ items.map (·.2) := by
  induction items with
  | nil => simp [assocSet] at h; exact Or.inl h
  | cons kv xs ih =>
    simp only [assocSet] at h
    split at h
    · simp only [List.map_cons, List.mem_cons] at h ⊢
      rcases h with h | h
      · exact Or.inl h
      · exact Or.inr (Or.inr h)
    · simp only [List.map_cons, List.mem_cons] at h ⊢
      rcases h with h | h
      · exact Or.inr (Or.inl h)
      · rcases ih h with h | h
        · exact Or.inl h
        · exact Or.inr (Or.inr h)

theorem assocSet_keys_nodup {items : List (Key × Val)} (k : Key) (v : Val)
    (h : (items.map (·.1)).Nodup) : ((assocSet items k v).map (·.1)).Nodup := by
  induction items with
  | nil => simp [assocSet]
  | cons kv xs ih =>
    simp only [List.map_cons, List.nodup_cons] at h
    simp only [assocSet]
    split
    · simpa using h
    · rename_i hne
      simp only [List.map_cons, List.nodup_cons]
      refine ⟨?_, ih h.2⟩
      intro hmem
      apply h.1
      -- keys of assocSet are the old keys or k
      have : ∀ (ys : List (Key × Val)) (x : Key),
          x ∈ (assocSet ys k v).map (·.1) → x = k ∨ x ∈ ys.map (·.1) := by
        intro ys
        induction ys with
        | nil => intro x hx; simp [assocSet] at hx; exact Or.inl hx
        | cons y ys ihy =>
          intro x hx
          simp only [assocSet] at hx
          split at hx
          · simp only [List.map_cons, List.mem_cons] at hx ⊢
            exact Or.inr hx
          · simp only [List.map_cons, List.mem_cons] at hx ⊢
            rcases hx with hx | hx
            · exact Or.inr (Or.inl hx)
            · rcases ihy x hx with hx | hx
              · exact Or.inl hx
              · exact Or.inr (Or.inr hx)
      rcases this xs kv.1 hmem with h1 | h1
      · exact absurd h1 hne
      · exact h1

theorem Obj.get_rename (σ : Addr → Addr) (o : Obj) (k : Key) :
    (o.rename σ).get k = (o.get k).map (Val.rename σ) := by
  cases o with
  | dict items => exact assocGet_map σ items k
  | list items =>
    cases k with
    | str s => rfl
    | int i =>
      simp only [Obj.rename, Obj.get]
      split <;> simp

theorem Obj.set_rename (σ : Addr → Addr) (o : Obj) (k : Key) (v : Val) :
    (o.rename σ).set k (v.rename σ) = (o.set k v).map (Obj.rename σ) := by
  cases o with
  | dict items => simp [Obj.rename, Obj.set, assocSet_map]
  | list items =>
    cases k with
    | str s => rfl
    | int i =>
      simp only [Obj.rename, Obj.set, List.length_map]
      split <;> simp [Obj.rename, List.map_set]

theorem Obj.get_mem_vals {o : Obj} {k : Key} {v : Val} (h : o.get k = some v) :
    v ∈ o.vals := by
  cases o with
  | dict items => exact assocGet_mem h
  | list items =>
    cases k with
    | str s => simp [Obj.get] at h
    | int i =>
      simp only [Obj.get] at h
      split at h
      · exact List.mem_of_getElem? h
      · simp at h

theorem Obj.get_ref_mem {o : Obj} {k : Key} {b : Addr} (h : o.get k = some (.ref b)) :
    b ∈ o.refs := Obj.mem_refs.2 (Obj.get_mem_vals h)

theorem Obj.set_vals {o o' : Obj} {k : Key} {v w : Val} (h : o.set k v = some o')
    (hw : w ∈ o'.vals) : w = v ∨ w ∈ o.vals := by
  cases o with
  | dict items =>
    simp only [Obj.set, Option.some.injEq] at h
    subst h
    exact assocSet_vals hw
  | list items =>
    cases k with
    | str s => simp [Obj.set] at h
    | int i =>
      simp only [Obj.set] at h
      split at h
      · simp only [Option.some.injEq] at h
        subst h
        simp only [Obj.vals] at hw ⊢
        rcases List.mem_or_eq_of_mem_set hw with h1 | h1
        · exact Or.inr h1
        · exact Or.inl h1
      · simp at h

/-- assigning a NUMBER never creates a reference: the references only shrink -/
theorem Obj.set_num_refs {o o' : Obj} {k : Key} {n : Int} (h : o.set k (.num n) = some o')
    {b : Addr} (hb : b ∈ o'.refs) : b ∈ o.refs := by
  rw [Obj.mem_refs] at hb ⊢
  rcases Obj.set_vals h hb with h1 | h1
  · cases h1
  · exact h1

theorem Obj.set_keysOk {o o' : Obj} {k : Key} {v : Val} (h : o.set k v = some o')
    (hk : o.KeysOk) : o'.KeysOk := by
  cases o with
  | dict items =>
    simp only [Obj.set, Option.some.injEq] at h
    subst h
    exact assocSet_keys_nodup k v hk
  | list items =>
    cases k with
    | str s => simp [Obj.set] at h
    | int i =>
      simp only [Obj.set] at h
      split at h
      · simp only [Option.some.injEq] at h; subst h; trivial
      · simp at h

theorem Obj.rename_keysOk (σ : Addr → Addr) {o : Obj} (hk : o.KeysOk) :
    (o.rename σ).KeysOk := by
  cases o with
  | dict items => simpa [Obj.rename, Obj.KeysOk, List.map_map, Function.comp_def] using hk
  | list items => trivial

/-! ## Heap operations -/

/-- the object at an address; a dangling address behaves as an empty list
    (only used by the traversal; the reads below report a dangling address as `none`) -/
def objAt (h : Heap) (a : Addr) : Obj := (h[a]?).getD (.list [])

/-- no dangling reference: every address stored in an object of the heap is an
    address of the heap (`< next = h.length`); and dict keys are unique -/
def WF (h : Heap) : Prop :=
  ∀ (a : Addr) (o : Obj), h[a]? = some o → (∀ b ∈ o.refs, b < h.length) ∧ o.KeysOk

instance (o : Obj) : Decidable o.KeysOk := by
  cases o <;> simp only [Obj.KeysOk] <;> infer_instance

theorem WF_iff_forall_mem (h : Heap) :
    WF h ↔ ∀ o ∈ h, (∀ b ∈ Obj.refs o, b < h.length) ∧ Obj.KeysOk o := by
  constructor
  · intro H o ho
    obtain ⟨a, ha⟩ := List.mem_iff_getElem?.1 ho
    exact H a o ha
  · intro H a o hao
    exact H o (List.mem_of_getElem? hao)

instance (h : Heap) : Decidable (WF h) := decidable_of_iff _ (WF_iff_forall_mem h).symm

/-- member `k` of the container at address `a` -/
def getMember (h : Heap) (a : Addr) (k : Key) : Option Val :=
  match h[a]? with
  | none => none
  | some o => o.get k

/-- follow a path of keys starting from a value -/
def readVal (h : Heap) : Val → List Key → Option Val
  | v, [] => some v
  | .num _, _ :: _ => none
  | .ref a, k :: ks =>
    match getMember h a k with
    | none => none
    | some v => readVal h v ks

/-- `root[k1][k2]…` : `some (.num n)`, `some (.ref a)` (a container) or `none` (error) -/
def readPath (h : Heap) (root : Addr) (path : List Key) : Option Val :=
  readVal h (.ref root) path

/-- the container and key that `root[k1]…[kn] = …` assigns to -/
def writeTarget (h : Heap) : Addr → List Key → Option (Addr × Key)
  | _, [] => none
  | a, [k] => some (a, k)
  | a, k :: k' :: ks =>
    match getMember h a k with
    | some (.ref b) => writeTarget h b (k' :: ks)
    | _ => none

/-- `root[k1]…[kn] = n` : MUTATES the parent container (`List.set` at its address).
    `none` = the statement raises (nothing is changed). -/
def writePath (h : Heap) (root : Addr) (path : List Key) (n : Int) : Option Heap :=
  match writeTarget h root path with
  | none => none
  | some (p, k) =>
    match h[p]? with
    | none => none
    | some o =>
      match o.set k (.num n) with
      | none => none
      | some o' => some (h.set p o')

/-! ### pure tree values (what a program can observe by reading, up to a depth) -/

inductive Tree where
  | num (n : Int)
  | dict (items : List (Key × Tree))
  | list (items : List Tree)
  | cut          -- depth bound reached
  | bad          -- dangling address
  deriving Repr

def Obj.toTree (g : Val → Tree) : Obj → Tree
  | .dict items => .dict (items.map fun kv => (kv.1, g kv.2))
  | .list items => .list (items.map g)

def treeOf (h : Heap) : Nat → Val → Tree
  | _, .num n => .num n
  | 0, .ref _ => .cut
  | f + 1, .ref a =>
    match h[a]? with
    | none => .bad
    | some o => o.toTree (treeOf h f)

/-- the tree value (to depth `fuel`) of what `root[path]` evaluates to -/
def valueOf (h : Heap) (fuel : Nat) (root : Addr) (path : List Key) : Option Tree :=
  (readPath h root path).map (treeOf h fuel)

/-! ### equation lemmas (stated through the named functions) -/

theorem getMember_some {h : Heap} {a : Addr} {o : Obj} (hao : h[a]? = some o) (k : Key) :
    getMember h a k = o.get k := by simp [getMember, hao]

theorem getMember_none {h : Heap} {a : Addr} (hao : h[a]? = none) (k : Key) :
    getMember h a k = none := by simp [getMember, hao]

theorem getMember_eq_some {h : Heap} {a : Addr} {k : Key} {v : Val}
    (hg : getMember h a k = some v) : ∃ o, h[a]? = some o ∧ o.get k = some v := by
  unfold getMember at hg
  split at hg
  · simp at hg
  · exact ⟨_, ‹_›, hg⟩

theorem readVal_nil (h : Heap) (v : Val) : readVal h v [] = some v := by
  cases v <;> rfl

theorem readVal_num_cons (h : Heap) (n : Int) (k : Key) (ks : List Key) :
    readVal h (.num n) (k :: ks) = none := rfl

theorem readVal_ref_cons (h : Heap) (a : Addr) (k : Key) (ks : List Key) :
    readVal h (.ref a) (k :: ks) = (getMember h a k).bind (fun v => readVal h v ks) := by
  simp only [readVal]
  cases getMember h a k <;> rfl

theorem writeTarget_nil (h : Heap) (a : Addr) : writeTarget h a [] = none := rfl

theorem writeTarget_single (h : Heap) (a : Addr) (k : Key) :
    writeTarget h a [k] = some (a, k) := rfl

theorem writeTarget_cons_ref {h : Heap} {a b : Addr} {k : Key}
    (hg : getMember h a k = some (.ref b)) (k' : Key) (ks : List Key) :
    writeTarget h a (k :: k' :: ks) = writeTarget h b (k' :: ks) := by
  simp [writeTarget, hg]

theorem writeTarget_cons_none {h : Heap} {a : Addr} {k : Key}
    (hg : getMember h a k = none) (k' : Key) (ks : List Key) :
    writeTarget h a (k :: k' :: ks) = none := by
  simp [writeTarget, hg]

theorem writeTarget_cons_num {h : Heap} {a : Addr} {k : Key} {n : Int}
    (hg : getMember h a k = some (.num n)) (k' : Key) (ks : List Key) :
    writeTarget h a (k :: k' :: ks) = none := by
  simp [writeTarget, hg]

theorem treeOf_num (h : Heap) (f : Nat) (n : Int) : treeOf h f (.num n) = .num n := by
  cases f <;> rfl

theorem treeOf_zero_ref (h : Heap) (a : Addr) : treeOf h 0 (.ref a) = .cut := rfl

theorem treeOf_succ_ref_some {h : Heap} {a : Addr} {o : Obj} (hao : h[a]? = some o) (f : Nat) :
    treeOf h (f + 1) (.ref a) = o.toTree (treeOf h f) := by
  simp [treeOf, hao]

theorem treeOf_succ_ref_none {h : Heap} {a : Addr} (hao : h[a]? = none) (f : Nat) :
    treeOf h (f + 1) (.ref a) = .bad := by
  simp [treeOf, hao]

theorem Obj.toTree_congr {g g' : Val → Tree} {o : Obj} (hg : ∀ v ∈ o.vals, g v = g' v) :
    o.toTree g = o.toTree g' := by
  cases o with
  | dict items =>
    simp only [Obj.toTree, Tree.dict.injEq]
    apply List.map_congr_left
    intro kv hkv
    rw [hg kv.2 (by simp only [Obj.vals, List.mem_map]; exact ⟨kv, hkv, rfl⟩)]
  | list items =>
    simp only [Obj.toTree, Tree.list.injEq]
    exact List.map_congr_left hg

theorem Obj.toTree_rename (σ : Addr → Addr) (g : Val → Tree) (o : Obj) :
    (o.rename σ).toTree g = o.toTree (fun v => g (v.rename σ)) := by
  cases o <;> simp [Obj.rename, Obj.toTree, List.map_map, Function.comp_def]

/-- the result of a successful write, spelled out -/
theorem writePath_some {h h2 : Heap} {r : Addr} {path : List Key} {n : Int}
    (hw : writePath h r path n = some h2) :
    ∃ p k o o', writeTarget h r path = some (p, k) ∧ h[p]? = some o ∧
      o.set k (.num n) = some o' ∧ h2 = h.set p o' := by
  unfold writePath at hw
  split at hw
  · simp at hw
  · rename_i p k htgt
    split at hw
    · simp at hw
    · rename_i o hpo
      split at hw
      · simp at hw
      · rename_i o' hset
        simp only [Option.some.injEq] at hw
        exact ⟨p, k, o, o', htgt, hpo, hset, hw.symm⟩

theorem writePath_of {h : Heap} {r p : Addr} {path : List Key} {k : Key} {n : Int} {o o' : Obj}
    (htgt : writeTarget h r path = some (p, k)) (hpo : h[p]? = some o)
    (hset : o.set k (.num n) = some o') : writePath h r path n = some (h.set p o') := by
  simp [writePath, htgt, hpo, hset]

/-! ## Frame reasoning with closed sets of addresses

`Closed h S` : the set `S` of addresses is closed under "member of" in `h`.
The set of addresses reachable from some roots is the smallest closed set
containing them (`Reach`, below); all frame lemmas are proved for arbitrary closed
sets, which is what makes them composable. -/

def Closed (h : Heap) (S : Addr → Prop) : Prop :=
  ∀ (a : Addr) (o : Obj), S a → h[a]? = some o → ∀ b ∈ o.refs, S b

def AgreeOn (S : Addr → Prop) (h1 h2 : Heap) : Prop := ∀ a, S a → h1[a]? = h2[a]?

def Val.In (S : Addr → Prop) : Val → Prop
  | .num _ => True
  | .ref a => S a

theorem AgreeOn.refl (S : Addr → Prop) (h : Heap) : AgreeOn S h h := fun _ _ => rfl

theorem AgreeOn.symm {S : Addr → Prop} {h1 h2 : Heap} (H : AgreeOn S h1 h2) :
    AgreeOn S h2 h1 := fun a ha => (H a ha).symm

theorem AgreeOn.trans {S : Addr → Prop} {h1 h2 h3 : Heap} (H : AgreeOn S h1 h2)
    (H' : AgreeOn S h2 h3) : AgreeOn S h1 h3 := fun a ha => (H a ha).trans (H' a ha)

theorem Closed.of_agree {S : Addr → Prop} {h1 h2 : Heap} (hc : Closed h1 S)
    (hag : AgreeOn S h1 h2) : Closed h2 S := by
  intro a o ha hao b hb
  exact hc a o ha ((hag a ha).trans hao) b hb

theorem getMember_congr {h1 h2 : Heap} {a : Addr} (e : h1[a]? = h2[a]?) (k : Key) :
    getMember h1 a k = getMember h2 a k := by
  simp [getMember, e]

theorem getMember_In {h : Heap} {S : Addr → Prop} (hc : Closed h S) {a : Addr} (ha : S a)
    {k : Key} {v : Val} (hg : getMember h a k = some v) : v.In S := by
  obtain ⟨o, hao, hk⟩ := getMember_eq_some hg
  cases v with
  | num n => trivial
  | ref b => exact hc a o ha hao b (Obj.get_ref_mem hk)

theorem readVal_In {h : Heap} {S : Addr → Prop} (hc : Closed h S) :
    ∀ (path : List Key) (v w : Val), v.In S → readVal h v path = some w → w.In S := by
  intro path
  induction path with
  | nil => intro v w hv hr; rw [readVal_nil] at hr; cases hr; exact hv
  | cons k ks ih =>
    intro v w hv hr
    cases v with
    | num n => simp [readVal_num_cons] at hr
    | ref a =>
      rw [readVal_ref_cons] at hr
      cases hg : getMember h a k with
      | none => simp [hg] at hr
      | some v' =>
        simp only [hg, Option.bind_some] at hr
        exact ih v' w (getMember_In hc hv hg) hr

theorem readVal_agree {h1 h2 : Heap} {S : Addr → Prop} (hc : Closed h1 S)
    (hag : AgreeOn S h1 h2) :
    ∀ (path : List Key) (v : Val), v.In S → readVal h1 v path = readVal h2 v path := by
  intro path
  induction path with
  | nil => intro v _; rw [readVal_nil, readVal_nil]
  | cons k ks ih =>
    intro v hv
    cases v with
    | num n => rfl
    | ref a =>
      rw [readVal_ref_cons, readVal_ref_cons, ← getMember_congr (hag a hv) k]
      cases hg : getMember h1 a k with
      | none => rfl
      | some v' => exact ih v' (getMember_In hc hv hg)

theorem writeTarget_In {h : Heap} {S : Addr → Prop} (hc : Closed h S) :
    ∀ (path : List Key) (a q : Addr) (k : Key), S a → writeTarget h a path = some (q, k) → S q := by
  intro path
  induction path with
  | nil => intro a q k _ hw; simp [writeTarget_nil] at hw
  | cons k1 ks ih =>
    intro a q k ha hw
    cases ks with
    | nil =>
      rw [writeTarget_single] at hw
      simp only [Option.some.injEq, Prod.mk.injEq] at hw
      exact hw.1 ▸ ha
    | cons k2 ks' =>
      cases hg : getMember h a k1 with
      | none => rw [writeTarget_cons_none hg] at hw; simp at hw
      | some v =>
        cases v with
        | num n => rw [writeTarget_cons_num hg] at hw; simp at hw
        | ref b =>
          rw [writeTarget_cons_ref hg] at hw
          exact ih b q k (getMember_In hc ha hg) hw

theorem writeTarget_agree {h1 h2 : Heap} {S : Addr → Prop} (hc : Closed h1 S)
    (hag : AgreeOn S h1 h2) :
    ∀ (path : List Key) (a : Addr), S a → writeTarget h1 a path = writeTarget h2 a path := by
  intro path
  induction path with
  | nil => intro a _; rfl
  | cons k1 ks ih =>
    intro a ha
    cases ks with
    | nil => rfl
    | cons k2 ks' =>
      have e := getMember_congr (hag a ha) k1
      cases hg : getMember h1 a k1 with
      | none => rw [writeTarget_cons_none hg, writeTarget_cons_none (e ▸ hg)]
      | some v =>
        cases v with
        | num n => rw [writeTarget_cons_num hg, writeTarget_cons_num (e ▸ hg)]
        | ref b =>
          rw [writeTarget_cons_ref hg, writeTarget_cons_ref (e ▸ hg)]
          exact ih b (getMember_In hc ha hg)

theorem treeOf_agree {h1 h2 : Heap} {S : Addr → Prop} (hc : Closed h1 S)
    (hag : AgreeOn S h1 h2) :
    ∀ (f : Nat) (v : Val), v.In S → treeOf h1 f v = treeOf h2 f v := by
  intro f
  induction f with
  | zero => intro v _; cases v <;> rfl
  | succ f ih =>
    intro v hv
    cases v with
    | num n => rfl
    | ref a =>
      have e := hag a hv
      cases hao : h1[a]? with
      | none => rw [treeOf_succ_ref_none hao, treeOf_succ_ref_none (e ▸ hao)]
      | some o =>
        rw [treeOf_succ_ref_some hao, treeOf_succ_ref_some (e ▸ hao)]
        apply Obj.toTree_congr
        intro w hw
        apply ih
        cases w with
        | num n => trivial
        | ref b => exact hc a o hv hao b (Obj.mem_refs.2 hw)

/-- reads through a root of a closed set only depend on the objects of that set -/
theorem valueOf_agree {h1 h2 : Heap} {S : Addr → Prop} (hc : Closed h1 S)
    (hag : AgreeOn S h1 h2) {r : Addr} (hr : S r) (f : Nat) (path : List Key) :
    valueOf h1 f r path = valueOf h2 f r path := by
  unfold valueOf readPath
  rw [← readVal_agree hc hag path (.ref r) hr]
  cases hrd : readVal h1 (.ref r) path with
  | none => rfl
  | some w =>
    simp only [Option.map_some]
    rw [treeOf_agree hc hag f w (readVal_In hc path (.ref r) w hr hrd)]

theorem getElem?_set_of_some {h : Heap} {q : Addr} {o : Obj} (hq : h[q]? = some o)
    (o' : Obj) (a : Addr) : (h.set q o')[a]? = if q = a then some o' else h[a]? := by
  rw [List.getElem?_set]
  have : q < h.length := by
    rcases Nat.lt_or_ge q h.length with h1 | h1
    · exact h1
    · rw [List.getElem?_eq_none h1] at hq; cases hq
  simp [this]

/-- the assignment that a failing statement does not perform: the heap after
    `root[path] = n`, whether or not it raises -/
def assign (h : Heap) (root : Addr) (path : List Key) (n : Int) : Heap :=
  (writePath h root path n).getD h

theorem assign_of_some {h h2 : Heap} {r : Addr} {path : List Key} {n : Int}
    (hw : writePath h r path n = some h2) : assign h r path n = h2 := by
  simp [assign, hw]

theorem assign_of_none {h : Heap} {r : Addr} {path : List Key} {n : Int}
    (hw : writePath h r path n = none) : assign h r path n = h := by
  simp [assign, hw]

/-- (3) `write_frame`, closed-set form: a successful write through a root `r` of a
    closed set `S` replaces the object at exactly ONE address `q`, `q ∈ S`,
    the new object has no new reference, and nothing else changes. -/
theorem write_frame_closed {h h2 : Heap} {S : Addr → Prop} (hc : Closed h S) {r : Addr}
    (hr : S r) {path : List Key} {n : Int} (hw : writePath h r path n = some h2) :
    ∃ q o o', S q ∧ h[q]? = some o ∧ h2 = h.set q o' ∧ (∀ b ∈ o'.refs, b ∈ o.refs) ∧
      (o.KeysOk → o'.KeysOk) ∧ h2.length = h.length ∧
      h2[q]? = some o' ∧ ∀ a, a ≠ q → h2[a]? = h[a]? := by
  obtain ⟨q, k, o, o', htgt, hqo, hset, rfl⟩ := writePath_some hw
  refine ⟨q, o, o', writeTarget_In hc path r q k hr htgt, hqo, rfl,
    fun b hb => Obj.set_num_refs hset hb, Obj.set_keysOk hset, by simp, ?_, ?_⟩
  · rw [getElem?_set_of_some hqo]; simp
  · intro a ha
    rw [getElem?_set_of_some hqo]
    simp [Ne.symm ha]

theorem closed_set {h : Heap} {S : Addr → Prop} (hc : Closed h S) {q : Addr} {o o' : Obj}
    (hqo : h[q]? = some o) (hsub : ∀ b ∈ o'.refs, b ∈ o.refs) : Closed (h.set q o') S := by
  intro a o1 ha hao b hb
  rw [getElem?_set_of_some hqo] at hao
  split at hao
  · rename_i e
    subst e
    simp only [Option.some.injEq] at hao
    subst hao
    exact hc q o ha hqo b (hsub b hb)
  · exact hc a o1 ha hao b hb

/-- every closed set stays closed under any assignment of a number, through any root -/
theorem assign_closed {h : Heap} {S : Addr → Prop} (hc : Closed h S) (r : Addr)
    (path : List Key) (n : Int) : Closed (assign h r path n) S := by
  cases hw : writePath h r path n with
  | none => rw [assign_of_none hw]; exact hc
  | some h2 =>
    rw [assign_of_some hw]
    obtain ⟨q, k, o, o', _, hqo, hset, rfl⟩ := writePath_some hw
    exact closed_set hc hqo (fun b hb => Obj.set_num_refs hset hb)

theorem assign_length (h : Heap) (r : Addr) (path : List Key) (n : Int) :
    (assign h r path n).length = h.length := by
  cases hw : writePath h r path n with
  | none => rw [assign_of_none hw]
  | some h2 =>
    rw [assign_of_some hw]
    obtain ⟨q, k, o, o', _, _, _, rfl⟩ := writePath_some hw
    simp

/-- `WF` is preserved by assignments -/
theorem assign_WF {h : Heap} (hwf : WF h) (r : Addr) (path : List Key) (n : Int) :
    WF (assign h r path n) := by
  cases hw : writePath h r path n with
  | none => rw [assign_of_none hw]; exact hwf
  | some h2 =>
    rw [assign_of_some hw]
    obtain ⟨q, k, o, o', _, hqo, hset, rfl⟩ := writePath_some hw
    intro a o1 hao
    rw [getElem?_set_of_some hqo] at hao
    simp only [List.length_set]
    split at hao
    · simp only [Option.some.injEq] at hao
      subst hao
      exact ⟨fun b hb => (hwf q o hqo).1 b (Obj.set_num_refs hset hb),
        Obj.set_keysOk hset (hwf q o hqo).2⟩
    · exact hwf a o1 hao

/-- an assignment through a root of the closed set `S` changes nothing outside `S` -/
theorem assign_frame {h : Heap} {S : Addr → Prop} (hc : Closed h S) {r : Addr} (hr : S r)
    (path : List Key) (n : Int) {a : Addr} (ha : ¬ S a) :
    (assign h r path n)[a]? = h[a]? := by
  cases hw : writePath h r path n with
  | none => rw [assign_of_none hw]
  | some h2 =>
    rw [assign_of_some hw]
    obtain ⟨q, o, o', hq, _, _, _, _, _, _, hrest⟩ := write_frame_closed hc hr hw
    exact hrest a (fun e => ha (e ▸ hq))

/-- the same assignment on two heaps that agree on a closed set containing the root
    gives heaps that agree on that set (and it raises in both or in neither) -/
theorem assign_agree {h1 h2 : Heap} {S : Addr → Prop} (hc : Closed h1 S)
    (hag : AgreeOn S h1 h2) {r : Addr} (hr : S r) (path : List Key) (n : Int) :
    AgreeOn S (assign h1 r path n) (assign h2 r path n) ∧
      (writePath h1 r path n).isSome = (writePath h2 r path n).isSome := by
  have etgt := writeTarget_agree hc hag path r hr
  cases htgt : writeTarget h1 r path with
  | none =>
    have h1n : writePath h1 r path n = none := by simp [writePath, htgt]
    have h2n : writePath h2 r path n = none := by simp [writePath, ← etgt, htgt]
    rw [assign_of_none h1n, assign_of_none h2n, h1n, h2n]
    exact ⟨hag, rfl⟩
  | some qk =>
    obtain ⟨q, k⟩ := qk
    have hq : S q := writeTarget_In hc path r q k hr htgt
    have eq := hag q hq
    cases hqo : h1[q]? with
    | none =>
      have h1n : writePath h1 r path n = none := by simp [writePath, htgt, hqo]
      have h2n : writePath h2 r path n = none := by simp [writePath, ← etgt, htgt, ← eq, hqo]
      rw [assign_of_none h1n, assign_of_none h2n, h1n, h2n]
      exact ⟨hag, rfl⟩
    | some o =>
      cases hset : o.set k (.num n) with
      | none =>
        have h1n : writePath h1 r path n = none := by simp [writePath, htgt, hqo, hset]
        have h2n : writePath h2 r path n = none := by
          simp [writePath, ← etgt, htgt, ← eq, hqo, hset]
        rw [assign_of_none h1n, assign_of_none h2n, h1n, h2n]
        exact ⟨hag, rfl⟩
      | some o' =>
        have h1s := writePath_of htgt hqo hset
        have h2s := writePath_of (etgt ▸ htgt) (eq ▸ hqo) hset
        rw [assign_of_some h1s, assign_of_some h2s, h1s, h2s]
        refine ⟨?_, rfl⟩
        intro a ha
        rw [getElem?_set_of_some hqo, getElem?_set_of_some (eq ▸ hqo), hag a ha]

/-! ## Sequences of assignments -/

/-- `roots[idx][path] = val` -/
structure Assign where
  idx : Nat
  path : List Key
  val : Int
  deriving DecidableEq, Repr

inductive Side where
  | orig
  | copy
  deriving DecidableEq, Repr

def applyAssign (h : Heap) (roots : List Addr) (w : Assign) : Heap :=
  match roots[w.idx]? with
  | none => h
  | some r => assign h r w.path w.val

/-- a program that assigns through ONE family of roots -/
def runAssigns (h : Heap) (roots : List Addr) : List Assign → Heap
  | [] => h
  | w :: ws => runAssigns (applyAssign h roots w) roots ws

/-- a program that assigns, in any interleaving, through TWO families of roots that
    live in the same heap (the original manager and the restored one) -/
def runMixed (h : Heap) (rootsO rootsC : List Addr) : List (Side × Assign) → Heap
  | [] => h
  | (.orig, w) :: ws => runMixed (applyAssign h rootsO w) rootsO rootsC ws
  | (.copy, w) :: ws => runMixed (applyAssign h rootsC w) rootsO rootsC ws

/-- the assignments of one side, in order -/
def sideOf (s : Side) : List (Side × Assign) → List Assign
  | [] => []
  | (s', w) :: ws => if s' = s then w :: sideOf s ws else sideOf s ws

theorem applyAssign_closed {h : Heap} {S : Addr → Prop} (hc : Closed h S) (roots : List Addr)
    (w : Assign) : Closed (applyAssign h roots w) S := by
  unfold applyAssign
  split
  · exact hc
  · exact assign_closed hc _ _ _

theorem applyAssign_length (h : Heap) (roots : List Addr) (w : Assign) :
    (applyAssign h roots w).length = h.length := by
  unfold applyAssign
  split
  · rfl
  · exact assign_length _ _ _ _

theorem applyAssign_WF {h : Heap} (hwf : WF h) (roots : List Addr) (w : Assign) :
    WF (applyAssign h roots w) := by
  unfold applyAssign
  split
  · exact hwf
  · exact assign_WF hwf _ _ _

theorem applyAssign_frame {h : Heap} {S : Addr → Prop} (hc : Closed h S) {roots : List Addr}
    (hroots : ∀ r ∈ roots, S r) (w : Assign) {a : Addr} (ha : ¬ S a) :
    (applyAssign h roots w)[a]? = h[a]? := by
  unfold applyAssign
  split
  · rfl
  · rename_i r hr
    exact assign_frame hc (hroots r (List.mem_of_getElem? hr)) _ _ ha

theorem applyAssign_agree {h1 h2 : Heap} {S : Addr → Prop} (hc : Closed h1 S)
    (hag : AgreeOn S h1 h2) {roots : List Addr} (hroots : ∀ r ∈ roots, S r) (w : Assign) :
    AgreeOn S (applyAssign h1 roots w) (applyAssign h2 roots w) := by
  unfold applyAssign
  split
  · exact hag
  · rename_i r hr
    exact (assign_agree hc hag (hroots r (List.mem_of_getElem? hr)) _ _).1

theorem runAssigns_closed {S : Addr → Prop} (roots : List Addr) :
    ∀ (ws : List Assign) (h : Heap), Closed h S → Closed (runAssigns h roots ws) S := by
  intro ws
  induction ws with
  | nil => intro h hc; exact hc
  | cons w ws ih => intro h hc; exact ih _ (applyAssign_closed hc roots w)

theorem runAssigns_WF (roots : List Addr) :
    ∀ (ws : List Assign) (h : Heap), WF h → WF (runAssigns h roots ws) := by
  intro ws
  induction ws with
  | nil => intro h hc; exact hc
  | cons w ws ih => intro h hc; exact ih _ (applyAssign_WF hc roots w)

theorem runAssigns_length (roots : List Addr) :
    ∀ (ws : List Assign) (h : Heap), (runAssigns h roots ws).length = h.length := by
  intro ws
  induction ws with
  | nil => intro h; rfl
  | cons w ws ih => intro h; simp only [runAssigns]; rw [ih, applyAssign_length]

theorem runMixed_WF (rootsO rootsC : List Addr) :
    ∀ (ws : List (Side × Assign)) (h : Heap), WF h → WF (runMixed h rootsO rootsC ws) := by
  intro ws
  induction ws with
  | nil => intro h hc; exact hc
  | cons sw ws ih =>
    intro h hc
    obtain ⟨s, w⟩ := sw
    cases s
    · exact ih _ (applyAssign_WF hc rootsO w)
    · exact ih _ (applyAssign_WF hc rootsC w)

theorem runMixed_length (rootsO rootsC : List Addr) :
    ∀ (ws : List (Side × Assign)) (h : Heap),
      (runMixed h rootsO rootsC ws).length = h.length := by
  intro ws
  induction ws with
  | nil => intro h; rfl
  | cons sw ws ih =>
    intro h
    obtain ⟨s, w⟩ := sw
    cases s <;> simp only [runMixed] <;> rw [ih, applyAssign_length]

/-- one-sided programs on two heaps that agree on a closed set containing the roots -/
theorem runAssigns_agree {S : Addr → Prop} {roots : List Addr} (hroots : ∀ r ∈ roots, S r) :
    ∀ (ws : List Assign) (h1 h2 : Heap), Closed h1 S → AgreeOn S h1 h2 →
      AgreeOn S (runAssigns h1 roots ws) (runAssigns h2 roots ws) := by
  intro ws
  induction ws with
  | nil => intro h1 h2 _ hag; exact hag
  | cons w ws ih =>
    intro h1 h2 hc hag
    exact ih _ _ (applyAssign_closed hc roots w) (applyAssign_agree hc hag hroots w)

/-- GENERAL INDEPENDENCE.  `SO` and `SC` are disjoint closed sets of addresses of one
    heap `h`, containing the two families of roots.  Run ANY interleaving of
    assignments through the two families.  On `SO` the final heap is what the
    `orig` assignments alone produce (starting from any heap `hO` that agrees with `h`
    on `SO`), and on `SC` it is what the `copy` assignments alone produce. -/
theorem runMixed_independent {SO SC : Addr → Prop} (hdisj : ∀ a, SO a → SC a → False)
    {rootsO rootsC : List Addr} (hrO : ∀ r ∈ rootsO, SO r) (hrC : ∀ r ∈ rootsC, SC r) :
    ∀ (ws : List (Side × Assign)) (h hO hC : Heap), Closed h SO → Closed h SC →
      AgreeOn SO h hO → AgreeOn SC h hC →
      AgreeOn SO (runMixed h rootsO rootsC ws) (runAssigns hO rootsO (sideOf .orig ws)) ∧
      AgreeOn SC (runMixed h rootsO rootsC ws) (runAssigns hC rootsC (sideOf .copy ws)) ∧
      Closed (runMixed h rootsO rootsC ws) SO ∧ Closed (runMixed h rootsO rootsC ws) SC := by
  intro ws
  induction ws with
  | nil => intro h hO hC hcO hcC hagO hagC; exact ⟨hagO, hagC, hcO, hcC⟩
  | cons sw ws ih =>
    intro h hO hC hcO hcC hagO hagC
    obtain ⟨s, w⟩ := sw
    cases s with
    | orig =>
      simp only [runMixed, sideOf, if_true]
      have hne : (Side.orig = Side.copy) = False := by simp
      simp only [hne, if_false]
      apply ih _ _ _ (applyAssign_closed hcO rootsO w) (applyAssign_closed hcC rootsO w)
        (applyAssign_agree hcO hagO hrO w)
      intro a ha
      rw [applyAssign_frame hcO hrO w (fun hs => hdisj a hs ha)]
      exact hagC a ha
    | copy =>
      simp only [runMixed, sideOf, if_true]
      have hne : (Side.copy = Side.orig) = False := by simp
      simp only [hne, if_false]
      apply ih _ _ _ (applyAssign_closed hcO rootsC w) (applyAssign_closed hcC rootsC w) ?_
        (applyAssign_agree hcC hagC hrC w)
      intro a ha
      rw [applyAssign_frame hcC hrC w (fun hs => hdisj a ha hs)]
      exact hagO a ha

/-! ## Reachability and the depth-first traversal (the order of the pickle memo) -/

/-- reachable from the roots by following member references (a dangling address has
    no members) -/
inductive Reach (h : Heap) (roots : List Addr) : Addr → Prop
  | root {r : Addr} : r ∈ roots → Reach h roots r
  | step {a b : Addr} : Reach h roots a → b ∈ (objAt h a).refs → Reach h roots b

/-- depth-first traversal with an explicit stack (the continuation of the recursive
    traversal): pop an address; if it is already memoised skip it, otherwise give it
    the next memo position (append to `vis`) and push its members, in member order,
    in front of the rest.  `none` = out of fuel (never happens with `fuelFor`). -/
def dfsO (h : Heap) : Nat → List Addr → List Addr → Option (List Addr)
  | _, [], vis => some vis
  | 0, _ :: _, _ => none
  | f + 1, a :: stack, vis =>
    if a ∈ vis then dfsO h f stack vis
    else dfsO h f ((objAt h a).refs ++ stack) (vis ++ [a])

theorem dfsO_nil (h : Heap) (f : Nat) (vis : List Addr) : dfsO h f [] vis = some vis := by
  cases f <;> rfl

theorem dfsO_zero_cons (h : Heap) (a : Addr) (stack vis : List Addr) :
    dfsO h 0 (a :: stack) vis = none := rfl

theorem dfsO_seen (h : Heap) (f : Nat) {a : Addr} (stack : List Addr) {vis : List Addr}
    (ha : a ∈ vis) : dfsO h (f + 1) (a :: stack) vis = dfsO h f stack vis := by
  simp [dfsO, ha]

theorem dfsO_new (h : Heap) (f : Nat) {a : Addr} (stack : List Addr) {vis : List Addr}
    (ha : a ∉ vis) : dfsO h (f + 1) (a :: stack) vis
      = dfsO h f ((objAt h a).refs ++ stack) (vis ++ [a]) := by
  simp [dfsO, ha]

/-! ### the fuel is always enough -/

def cost (h : Heap) (a : Addr) : Nat := (objAt h a).refs.length + 1

/-- total cost of the not yet visited addresses of the list -/
def weight (h : Heap) (vis : List Addr) : List Addr → Nat
  | [] => 0
  | a :: L => (if a ∈ vis then 0 else cost h a) + weight h vis L

theorem weight_mono (h : Heap) {v v' : List Addr} (hsub : ∀ x, x ∈ v → x ∈ v') :
    ∀ L : List Addr, weight h v' L ≤ weight h v L := by
  intro L
  induction L with
  | nil => exact Nat.le_refl _
  | cons x L ih =>
    simp only [weight]
    by_cases hx : x ∈ v
    · simp only [hx, hsub x hx, if_true]; omega
    · by_cases hx' : x ∈ v'
      · simp only [hx, hx', if_true, if_false]; omega
      · simp only [hx, hx', if_false]; omega

theorem weight_visit (h : Heap) {v : List Addr} {a : Addr} (hav : a ∉ v) :
    ∀ L : List Addr, a ∈ L → weight h (v ++ [a]) L + cost h a ≤ weight h v L := by
  intro L
  induction L with
  | nil => intro hm; cases hm
  | cons x L ih =>
    intro hm
    simp only [weight]
    by_cases hxa : x = a
    · subst hxa
      have := weight_mono h (v := v) (v' := v ++ [x]) (fun y hy => List.mem_append_left _ hy) L
      simp only [hav, List.mem_append, List.mem_singleton, or_true, if_true, if_false]
      omega
    · have hm' : a ∈ L := by
        rcases List.mem_cons.1 hm with e | e
        · exact absurd e.symm hxa
        · exact e
      have := ih hm'
      by_cases hx : x ∈ v
      · have hx' : x ∈ v ++ [a] := List.mem_append_left _ hx
        simp only [hx, hx', if_true]; omega
      · have hx' : x ∉ v ++ [a] := by
          simp only [List.mem_append, List.mem_singleton, not_or]; exact ⟨hx, hxa⟩
        simp only [hx, hx', if_false]; omega

theorem objAt_of_ge {h : Heap} {a : Addr} (ha : h.length ≤ a) : objAt h a = .list [] := by
  simp [objAt, List.getElem?_eq_none ha]

theorem objAt_of_some {h : Heap} {a : Addr} {o : Obj} (ha : h[a]? = some o) : objAt h a = o := by
  simp [objAt, ha]

theorem dfsO_enough (h : Heap) :
    ∀ (f : Nat) (s v : List Addr), s.length + weight h v (List.range h.length) < f →
      ∃ R, dfsO h f s v = some R := by
  intro f
  induction f with
  | zero => intro s v hlt; omega
  | succ f ih =>
    intro s v hlt
    cases s with
    | nil => exact ⟨v, dfsO_nil _ _ _⟩
    | cons a stack =>
      simp only [List.length_cons] at hlt
      by_cases hav : a ∈ v
      · rw [dfsO_seen h f stack hav]
        exact ih _ _ (by omega)
      · rw [dfsO_new h f stack hav]
        apply ih
        simp only [List.length_append]
        rcases Nat.lt_or_ge a h.length with hlt' | hge
        · have := weight_visit h hav (List.range h.length) (List.mem_range.2 hlt')
          simp only [cost] at this
          omega
        · have := weight_mono h (v := v) (v' := v ++ [a])
            (fun y hy => List.mem_append_left _ hy) (List.range h.length)
          rw [objAt_of_ge hge]
          simp only [Obj.refs, Obj.vals, List.filterMap_nil, List.length_nil]
          omega

def fuelFor (h : Heap) (roots : List Addr) : Nat :=
  roots.length + weight h [] (List.range h.length) + 1

/-- the reachable addresses in memo order (first visit order of the depth-first
    traversal from the roots, left to right) -/
def reachList (h : Heap) (roots : List Addr) : List Addr :=
  (dfsO h (fuelFor h roots) roots []).getD []

/-- the traversal never runs out of fuel — no hypothesis on the heap -/
theorem dfsO_reachList (h : Heap) (roots : List Addr) :
    dfsO h (fuelFor h roots) roots [] = some (reachList h roots) := by
  obtain ⟨R, hR⟩ := dfsO_enough h (fuelFor h roots) roots [] (by simp [fuelFor])
  simp [reachList, hR]

theorem dfsO_mono (h : Heap) :
    ∀ (f : Nat) (s v R : List Addr), dfsO h f s v = some R →
      ∀ f', f ≤ f' → dfsO h f' s v = some R := by
  intro f
  induction f with
  | zero =>
    intro s v R hd f' _
    cases s with
    | nil => rw [dfsO_nil] at hd ⊢; exact hd
    | cons a stack => simp [dfsO_zero_cons] at hd
  | succ f ih =>
    intro s v R hd f' hle
    cases s with
    | nil => rw [dfsO_nil] at hd ⊢; exact hd
    | cons a stack =>
      cases f' with
      | zero => omega
      | succ f' =>
        by_cases hav : a ∈ v
        · rw [dfsO_seen h _ stack hav] at hd ⊢
          exact ih _ _ _ hd f' (by omega)
        · rw [dfsO_new h _ stack hav] at hd ⊢
          exact ih _ _ _ hd f' (by omega)

/-- the invariant of the traversal: the result contains the visited and the pending
    addresses and is closed under "member of" -/
theorem dfsO_spec (h : Heap) :
    ∀ (f : Nat) (s v R : List Addr), dfsO h f s v = some R →
      (∀ x ∈ v, ∀ b ∈ (objAt h x).refs, b ∈ v ∨ b ∈ s) →
      (∀ x ∈ v, x ∈ R) ∧ (∀ x ∈ s, x ∈ R) ∧ (∀ x ∈ R, ∀ b ∈ (objAt h x).refs, b ∈ R) := by
  intro f
  induction f with
  | zero =>
    intro s v R hd hinv
    cases s with
    | nil =>
      rw [dfsO_nil] at hd; cases hd
      refine ⟨fun x hx => hx, fun x hx => (by cases hx), ?_⟩
      intro x hx b hb
      rcases hinv x hx b hb with h1 | h1
      · exact h1
      · cases h1
    | cons a stack => simp [dfsO_zero_cons] at hd
  | succ f ih =>
    intro s v R hd hinv
    cases s with
    | nil =>
      rw [dfsO_nil] at hd; cases hd
      refine ⟨fun x hx => hx, fun x hx => (by cases hx), ?_⟩
      intro x hx b hb
      rcases hinv x hx b hb with h1 | h1
      · exact h1
      · cases h1
    | cons a stack =>
      by_cases hav : a ∈ v
      · rw [dfsO_seen h _ stack hav] at hd
        have hinv' : ∀ x ∈ v, ∀ b ∈ (objAt h x).refs, b ∈ v ∨ b ∈ stack := by
          intro x hx b hb
          rcases hinv x hx b hb with h1 | h1
          · exact Or.inl h1
          · rcases List.mem_cons.1 h1 with e | e
            · exact Or.inl (e ▸ hav)
            · exact Or.inr e
        obtain ⟨h1, h2, h3⟩ := ih _ _ _ hd hinv'
        refine ⟨h1, ?_, h3⟩
        intro x hx
        rcases List.mem_cons.1 hx with e | e
        · exact e ▸ h1 a hav
        · exact h2 x e
      · rw [dfsO_new h _ stack hav] at hd
        have hinv' : ∀ x ∈ v ++ [a], ∀ b ∈ (objAt h x).refs,
            b ∈ v ++ [a] ∨ b ∈ (objAt h a).refs ++ stack := by
          intro x hx b hb
          rcases List.mem_append.1 hx with hx | hx
          · rcases hinv x hx b hb with h1 | h1
            · exact Or.inl (List.mem_append_left _ h1)
            · rcases List.mem_cons.1 h1 with e | e
              · exact Or.inl (by simp [e])
              · exact Or.inr (List.mem_append_right _ e)
          · have : x = a := by simpa using hx
            subst this
            exact Or.inr (List.mem_append_left _ hb)
        obtain ⟨h1, h2, h3⟩ := ih _ _ _ hd hinv'
        refine ⟨fun x hx => h1 x (List.mem_append_left _ hx), ?_, h3⟩
        intro x hx
        rcases List.mem_cons.1 hx with e | e
        · exact e ▸ h1 a (by simp)
        · exact h2 x (List.mem_append_right _ e)

/-- each object gets ONE memo position -/
theorem dfsO_nodup (h : Heap) :
    ∀ (f : Nat) (s v R : List Addr), dfsO h f s v = some R → v.Nodup → R.Nodup := by
  intro f
  induction f with
  | zero =>
    intro s v R hd hn
    cases s with
    | nil => rw [dfsO_nil] at hd; cases hd; exact hn
    | cons a stack => simp [dfsO_zero_cons] at hd
  | succ f ih =>
    intro s v R hd hn
    cases s with
    | nil => rw [dfsO_nil] at hd; cases hd; exact hn
    | cons a stack =>
      by_cases hav : a ∈ v
      · rw [dfsO_seen h _ stack hav] at hd
        exact ih _ _ _ hd hn
      · rw [dfsO_new h _ stack hav] at hd
        apply ih _ _ _ hd
        rw [List.nodup_append]
        refine ⟨hn, by simp, ?_⟩
        intro x hx y hy
        have : y = a := by simpa using hy
        subst this
        intro e; subst e; exact hav hx

/-- everything the traversal returns satisfies any property that holds for the
    start addresses and is inherited by members -/
theorem dfsO_sound (h : Heap) (P : Addr → Prop)
    (hP : ∀ x, P x → ∀ b ∈ (objAt h x).refs, P b) :
    ∀ (f : Nat) (s v R : List Addr), dfsO h f s v = some R →
      (∀ x ∈ v, P x) → (∀ x ∈ s, P x) → ∀ x ∈ R, P x := by
  intro f
  induction f with
  | zero =>
    intro s v R hd hv hs
    cases s with
    | nil => rw [dfsO_nil] at hd; cases hd; exact hv
    | cons a stack => simp [dfsO_zero_cons] at hd
  | succ f ih =>
    intro s v R hd hv hs
    cases s with
    | nil => rw [dfsO_nil] at hd; cases hd; exact hv
    | cons a stack =>
      by_cases hav : a ∈ v
      · rw [dfsO_seen h _ stack hav] at hd
        exact ih _ _ _ hd hv (fun x hx => hs x (List.mem_cons_of_mem _ hx))
      · rw [dfsO_new h _ stack hav] at hd
        apply ih _ _ _ hd
        · intro x hx
          rcases List.mem_append.1 hx with hx | hx
          · exact hv x hx
          · have : x = a := by simpa using hx
            exact this ▸ hs a (by simp)
        · intro x hx
          rcases List.mem_append.1 hx with hx | hx
          · exact hP a (hs a (by simp)) x hx
          · exact hs x (List.mem_cons_of_mem _ hx)

/-- the traversal commutes with a renaming of addresses that is injective on a
    closed set `S` containing the start addresses, when the renamed heap `h'` has the
    renamed members at the renamed addresses (same fuel, same order) -/
theorem dfsO_map (h h' : Heap) (σ : Addr → Addr) (S : Addr → Prop)
    (hinj : ∀ a b, S a → S b → σ a = σ b → a = b)
    (hcl : ∀ a, S a → ∀ b ∈ (objAt h a).refs, S b)
    (hobj : ∀ a, S a → (objAt h' (σ a)).refs = (objAt h a).refs.map σ) :
    ∀ (f : Nat) (s v R : List Addr), (∀ x ∈ s, S x) → (∀ x ∈ v, S x) →
      dfsO h f s v = some R → dfsO h' f (s.map σ) (v.map σ) = some (R.map σ) := by
  intro f
  induction f with
  | zero =>
    intro s v R _ _ hd
    cases s with
    | nil => rw [dfsO_nil] at hd; cases hd; exact dfsO_nil _ _ _
    | cons a stack => simp [dfsO_zero_cons] at hd
  | succ f ih =>
    intro s v R hs hv hd
    cases s with
    | nil => rw [dfsO_nil] at hd; cases hd; exact dfsO_nil _ _ _
    | cons a stack =>
      have hSa : S a := hs a (by simp)
      have hmem : σ a ∈ v.map σ ↔ a ∈ v := by
        constructor
        · intro hm
          obtain ⟨x, hx, e⟩ := List.mem_map.1 hm
          exact (hinj x a (hv x hx) hSa e) ▸ hx
        · intro hm; exact List.mem_map.2 ⟨a, hm, rfl⟩
      simp only [List.map_cons]
      by_cases hav : a ∈ v
      · rw [dfsO_seen h _ stack hav] at hd
        rw [dfsO_seen h' _ _ (hmem.2 hav)]
        exact ih _ _ _ (fun x hx => hs x (List.mem_cons_of_mem _ hx)) hv hd
      · rw [dfsO_new h _ stack hav] at hd
        rw [dfsO_new h' _ _ (fun hm => hav (hmem.1 hm)), hobj a hSa]
        have := ih ((objAt h a).refs ++ stack) (v ++ [a]) R ?_ ?_ hd
        · simpa [List.map_append] using this
        · intro x hx
          rcases List.mem_append.1 hx with hx | hx
          · exact hcl a hSa x hx
          · exact hs x (List.mem_cons_of_mem _ hx)
        · intro x hx
          rcases List.mem_append.1 hx with hx | hx
          · exact hv x hx
          · have : x = a := by simpa using hx
            exact this ▸ hSa

/-! ### `reachList` = the reachable set -/

theorem reachList_closed (h : Heap) (roots : List Addr) :
    ∀ x ∈ reachList h roots, ∀ b ∈ (objAt h x).refs, b ∈ reachList h roots :=
  (dfsO_spec h _ _ _ _ (dfsO_reachList h roots) (fun x hx => by cases hx)).2.2

theorem roots_sub_reachList (h : Heap) (roots : List Addr) :
    ∀ r ∈ roots, r ∈ reachList h roots :=
  (dfsO_spec h _ _ _ _ (dfsO_reachList h roots) (fun x hx => by cases hx)).2.1

theorem reachList_nodup (h : Heap) (roots : List Addr) : (reachList h roots).Nodup :=
  dfsO_nodup h _ _ _ _ (dfsO_reachList h roots) List.nodup_nil

theorem mem_reachList_iff (h : Heap) (roots : List Addr) (a : Addr) :
    a ∈ reachList h roots ↔ Reach h roots a := by
  constructor
  · intro ha
    exact dfsO_sound h (Reach h roots) (fun x hx b hb => Reach.step hx hb) _ _ _ _
      (dfsO_reachList h roots) (fun x hx => by cases hx) (fun x hx => Reach.root hx) a ha
  · intro hr
    induction hr with
    | root hr => exact roots_sub_reachList h roots _ hr
    | step _ hb ih => exact reachList_closed h roots _ ih _ hb

theorem WF_refs_lt {h : Heap} (hwf : WF h) (a : Addr) : ∀ b ∈ (objAt h a).refs, b < h.length := by
  intro b hb
  cases hao : h[a]? with
  | none =>
    simp [objAt, hao, Obj.refs, Obj.vals] at hb
  | some o =>
    rw [objAt_of_some hao] at hb
    exact (hwf a o hao).1 b hb

/-- in a well-formed heap everything reachable from valid roots is a valid address -/
theorem reach_lt {h : Heap} (hwf : WF h) {roots : List Addr} (hroots : ∀ r ∈ roots, r < h.length)
    {a : Addr} (hr : Reach h roots a) : a < h.length := by
  induction hr with
  | root hr => exact hroots _ hr
  | step _ hb _ => exact WF_refs_lt hwf _ _ hb

theorem reachList_lt {h : Heap} (hwf : WF h) {roots : List Addr}
    (hroots : ∀ r ∈ roots, r < h.length) : ∀ a ∈ reachList h roots, a < h.length :=
  fun a ha => reach_lt hwf hroots ((mem_reachList_iff h roots a).1 ha)

/-- the reachable set is closed (in the sense used by the frame lemmas) -/
theorem closed_reach (h : Heap) (roots : List Addr) : Closed h (Reach h roots) := by
  intro a o ha hao b hb
  exact Reach.step ha (by rw [objAt_of_some hao]; exact hb)

/-! ## `pickle.dumps`, `pickle.loads`, and the canonical form -/

/-- the pickle of the objects `R` (in memo order): object number `i` is `R[i]`, with
    every reference replaced by the memo number of its target -/
def dumpsWith (h : Heap) (R roots : List Addr) : List Obj × List Nat :=
  (R.map (fun a => (objAt h a).rename (fun b => R.idxOf b)), roots.map (fun r => R.idxOf r))

/-- `pickle.dumps(roots)` : a position independent description of everything
    reachable from the roots (objects in first-visit order, references as memo
    numbers, and the memo numbers of the roots) -/
def dumps (h : Heap) (roots : List Addr) : List Obj × List Nat :=
  dumpsWith h (reachList h roots) roots

/-- `pickle.loads` into the heap `h` : memo number `i` becomes the FRESH address
    `h.length + i` -/
def loads (h : Heap) (p : List Obj × List Nat) : Heap × List Addr :=
  (h ++ p.1.map (Obj.rename (fun i => i + h.length)), p.2.map (fun i => i + h.length))

/-- `pickle.loads(pickle.dumps(roots))` : new heap and the addresses of the copies
    of the roots -/
def deepCopy (h : Heap) (roots : List Addr) : Heap × List Addr := loads h (dumps h roots)

/-- canonical form of a heap-with-roots, for comparison with real pickle: it IS the
    pickle.  Object number `i` is the `i`-th entry. -/
def canon (h : Heap) (roots : List Addr) : List Obj × List Nat := dumps h roots

/-- the same, with the numbers written out -/
def canonNumbered (h : Heap) (roots : List Addr) : List (Nat × Obj) × List Nat :=
  ((canon h roots).1.zipIdx.map (fun oi => (oi.2, oi.1)), (canon h roots).2)

/-- the memo as a function: old address ↦ address of its copy -/
def copyAddr (h : Heap) (roots : List Addr) (a : Addr) : Addr :=
  (reachList h roots).idxOf a + h.length

/-- the memo as a list old ↦ new -/
def copyMemo (h : Heap) (roots : List Addr) : List (Addr × Addr) :=
  (reachList h roots).map (fun a => (a, copyAddr h roots a))

theorem deepCopy_heap (h : Heap) (roots : List Addr) :
    (deepCopy h roots).1
      = h ++ (reachList h roots).map (fun a => (objAt h a).rename (copyAddr h roots)) := by
  simp only [deepCopy, loads, dumps, dumpsWith, List.map_map, Function.comp_def,
    Obj.rename_comp]
  rfl

theorem deepCopy_roots (h : Heap) (roots : List Addr) :
    (deepCopy h roots).2 = roots.map (copyAddr h roots) := by
  simp only [deepCopy, loads, dumps, dumpsWith, List.map_map, Function.comp_def]
  rfl

theorem deepCopy_length (h : Heap) (roots : List Addr) :
    (deepCopy h roots).1.length = h.length + (reachList h roots).length := by
  simp [deepCopy_heap]

/-! ### facts about `idxOf` -/

theorem getElem?_idxOf {R : List Addr} {a : Addr} (ha : a ∈ R) : R[R.idxOf a]? = some a := by
  have hlt : R.idxOf a < R.length := List.idxOf_lt_length_iff.2 ha
  rw [List.getElem?_eq_getElem hlt, List.getElem_idxOf hlt]

theorem idxOf_inj {R : List Addr} {a b : Addr} (ha : a ∈ R) (e : R.idxOf a = R.idxOf b) :
    a = b := by
  have hlt : R.idxOf a < R.length := List.idxOf_lt_length_iff.2 ha
  have hb : b ∈ R := List.idxOf_lt_length_iff.1 (e ▸ hlt)
  have h1 := getElem?_idxOf ha
  have h2 := getElem?_idxOf hb
  rw [e, h2] at h1
  exact (Option.some.inj h1).symm

theorem idxOf_map_inj (σ : Addr → Addr) (b : Addr) :
    ∀ L : List Addr, (∀ x ∈ L, σ x = σ b → x = b) → (L.map σ).idxOf (σ b) = L.idxOf b := by
  intro L
  induction L with
  | nil => intro _; rfl
  | cons x L ih =>
    intro hinj
    simp only [List.map_cons, List.idxOf_cons]
    by_cases hx : x = b
    · subst hx; simp
    · have hne : σ x ≠ σ b := fun e => hx (hinj x (by simp) e)
      have ih' := ih (fun y hy => hinj y (List.mem_cons_of_mem _ hy))
      have h1 : (σ x == σ b) = false := beq_false_of_ne hne
      have h2 : (x == b) = false := beq_false_of_ne hx
      simp [h1, h2, ih']

/-! ### the relation "hC at σ a is the σ-renamed object of hO at a", on a set `S` -/

def CopyRel (σ : Addr → Addr) (S : Addr → Prop) (hO hC : Heap) : Prop :=
  ∀ a, S a → ∃ o, hO[a]? = some o ∧ hC[σ a]? = some (o.rename σ) ∧ ∀ b ∈ o.refs, S b

theorem CopyRel.closed {σ : Addr → Addr} {S : Addr → Prop} {hO hC : Heap}
    (H : CopyRel σ S hO hC) : Closed hO S := by
  intro a o ha hao b hb
  obtain ⟨o', ho', _, hcl⟩ := H a ha
  rw [hao] at ho'; cases ho'
  exact hcl b hb

theorem Val.In_of_mem {S : Addr → Prop} {o : Obj} (hcl : ∀ b ∈ o.refs, S b) {v : Val}
    (hv : v ∈ o.vals) : v.In S := by
  cases v with
  | num n => trivial
  | ref b => exact hcl b (Obj.mem_refs.2 hv)

theorem readVal_copyRel {σ : Addr → Addr} {S : Addr → Prop} {hO hC : Heap}
    (H : CopyRel σ S hO hC) :
    ∀ (path : List Key) (v : Val), v.In S →
      readVal hC (v.rename σ) path = (readVal hO v path).map (Val.rename σ) := by
  intro path
  induction path with
  | nil => intro v _; rw [readVal_nil, readVal_nil]; rfl
  | cons k ks ih =>
    intro v hv
    cases v with
    | num n => rfl
    | ref a =>
      obtain ⟨o, hao, hca, hcl⟩ := H a hv
      show readVal hC (.ref (σ a)) (k :: ks) = _
      rw [readVal_ref_cons, readVal_ref_cons, getMember_some hao, getMember_some hca,
        Obj.get_rename]
      cases hg : o.get k with
      | none => rfl
      | some v' =>
        simp only [Option.map_some, Option.bind_some]
        exact ih v' (Val.In_of_mem hcl (Obj.get_mem_vals hg))

theorem treeOf_copyRel {σ : Addr → Addr} {S : Addr → Prop} {hO hC : Heap}
    (H : CopyRel σ S hO hC) :
    ∀ (f : Nat) (v : Val), v.In S → treeOf hC f (v.rename σ) = treeOf hO f v := by
  intro f
  induction f with
  | zero => intro v _; cases v <;> rfl
  | succ f ih =>
    intro v hv
    cases v with
    | num n => rfl
    | ref a =>
      obtain ⟨o, hao, hca, hcl⟩ := H a hv
      show treeOf hC (f + 1) (.ref (σ a)) = _
      rw [treeOf_succ_ref_some hao, treeOf_succ_ref_some hca, Obj.toTree_rename]
      apply Obj.toTree_congr
      intro w hw
      exact ih w (Val.In_of_mem hcl hw)

/-- isomorphic reads: same tree value, for every path and every depth -/
theorem valueOf_copyRel {σ : Addr → Addr} {S : Addr → Prop} {hO hC : Heap}
    (H : CopyRel σ S hO hC) {r : Addr} (hr : S r) (f : Nat) (path : List Key) :
    valueOf hC f (σ r) path = valueOf hO f r path := by
  unfold valueOf readPath
  have := readVal_copyRel H path (.ref r) hr
  rw [show Val.rename σ (.ref r) = .ref (σ r) from rfl] at this
  rw [this]
  cases hrd : readVal hO (.ref r) path with
  | none => rfl
  | some w =>
    simp only [Option.map_some]
    rw [treeOf_copyRel H f w (readVal_In H.closed path (.ref r) w hr hrd)]

theorem writeTarget_copyRel {σ : Addr → Addr} {S : Addr → Prop} {hO hC : Heap}
    (H : CopyRel σ S hO hC) :
    ∀ (path : List Key) (a : Addr), S a →
      writeTarget hC (σ a) path = (writeTarget hO a path).map (fun qk => (σ qk.1, qk.2)) := by
  intro path
  induction path with
  | nil => intro a _; rfl
  | cons k1 ks ih =>
    intro a ha
    cases ks with
    | nil => rfl
    | cons k2 ks' =>
      obtain ⟨o, hao, hca, hcl⟩ := H a ha
      have e : getMember hC (σ a) k1 = (getMember hO a k1).map (Val.rename σ) := by
        rw [getMember_some hao, getMember_some hca, Obj.get_rename]
      cases hg : getMember hO a k1 with
      | none =>
        rw [hg] at e
        rw [writeTarget_cons_none hg, writeTarget_cons_none e]; rfl
      | some v =>
        rw [hg] at e
        cases v with
        | num n => rw [writeTarget_cons_num hg, writeTarget_cons_num e]; rfl
        | ref b =>
          rw [writeTarget_cons_ref hg, writeTarget_cons_ref e]
          exact ih b (getMember_In H.closed ha hg)

/-- the same assignment through a root and through its copy keeps the relation
    (and raises on both sides or on neither) -/
theorem assign_copyRel {σ : Addr → Addr} {S : Addr → Prop} {hO hC : Heap}
    (hinj : ∀ a b, S a → S b → σ a = σ b → a = b)
    (H : CopyRel σ S hO hC) {r : Addr} (hr : S r) (path : List Key) (n : Int) :
    CopyRel σ S (assign hO r path n) (assign hC (σ r) path n) ∧
      (writePath hC (σ r) path n).isSome = (writePath hO r path n).isSome := by
  have etgt := writeTarget_copyRel H path r hr
  cases htgt : writeTarget hO r path with
  | none =>
    rw [htgt] at etgt
    have h1n : writePath hO r path n = none := by simp [writePath, htgt]
    have h2n : writePath hC (σ r) path n = none := by simp [writePath, etgt]
    rw [assign_of_none h1n, assign_of_none h2n, h1n, h2n]
    exact ⟨H, rfl⟩
  | some qk =>
    obtain ⟨q, k⟩ := qk
    rw [htgt] at etgt
    simp only [Option.map_some] at etgt
    have hq : S q := writeTarget_In H.closed path r q k hr htgt
    obtain ⟨o, hqo, hcq, hcl⟩ := H q hq
    have eset := Obj.set_rename σ o k (.num n)
    rw [show Val.rename σ (.num n) = .num n from rfl] at eset
    cases hset : o.set k (.num n) with
    | none =>
      rw [hset] at eset
      simp only [Option.map_none] at eset
      have h1n : writePath hO r path n = none := by simp [writePath, htgt, hqo, hset]
      have h2n : writePath hC (σ r) path n = none := by
        simp [writePath, etgt, hcq, eset]
      rw [assign_of_none h1n, assign_of_none h2n, h1n, h2n]
      exact ⟨H, rfl⟩
    | some o' =>
      rw [hset] at eset
      simp only [Option.map_some] at eset
      have h1s := writePath_of htgt hqo hset
      have h2s := writePath_of etgt hcq eset
      rw [assign_of_some h1s, assign_of_some h2s, h1s, h2s]
      refine ⟨?_, rfl⟩
      intro a ha
      obtain ⟨oa, hao, hca, hcla⟩ := H a ha
      rw [getElem?_set_of_some hqo, getElem?_set_of_some hcq]
      by_cases e : q = a
      · subst e
        simp only [if_true]
        exact ⟨o', rfl, rfl, fun b hb => hcl b (Obj.set_num_refs hset hb)⟩
      · have e' : σ q ≠ σ a := fun e2 => e (hinj q a hq ha e2)
        simp only [e, e', if_false]
        exact ⟨oa, hao, hca, hcla⟩

theorem applyAssign_copyRel {σ : Addr → Addr} {S : Addr → Prop} {hO hC : Heap}
    (hinj : ∀ a b, S a → S b → σ a = σ b → a = b)
    (H : CopyRel σ S hO hC) {roots : List Addr} (hroots : ∀ r ∈ roots, S r) (w : Assign) :
    CopyRel σ S (applyAssign hO roots w) (applyAssign hC (roots.map σ) w) := by
  unfold applyAssign
  rw [List.getElem?_map]
  cases hr : roots[w.idx]? with
  | none => exact H
  | some r => exact (assign_copyRel hinj H (hroots r (List.mem_of_getElem? hr)) _ _).1

theorem runAssigns_copyRel {σ : Addr → Addr} {S : Addr → Prop}
    (hinj : ∀ a b, S a → S b → σ a = σ b → a = b)
    {roots : List Addr} (hroots : ∀ r ∈ roots, S r) :
    ∀ (ws : List Assign) (hO hC : Heap), CopyRel σ S hO hC →
      CopyRel σ S (runAssigns hO roots ws) (runAssigns hC (roots.map σ) ws) := by
  intro ws
  induction ws with
  | nil => intro hO hC H; exact H
  | cons w ws ih => intro hO hC H; exact ih _ _ (applyAssign_copyRel hinj H hroots w)

/-! ## The theorems about `deepCopy`

Standing hypotheses: `WF h` (no dangling reference) and every root is an address
of the heap.  Arbitrary sharing and CYCLES are allowed. -/

theorem reach_sub_closed {h : Heap} {S : Addr → Prop} (hc : Closed h S) {roots : List Addr}
    (hroots : ∀ r ∈ roots, S r) {a : Addr} (hr : Reach h roots a) : S a := by
  induction hr with
  | root hr => exact hroots _ hr
  | @step a b _ hb ih =>
    cases hao : h[a]? with
    | none => simp [objAt, hao, Obj.refs, Obj.vals] at hb
    | some o => rw [objAt_of_some hao] at hb; exact hc a o ih hao b hb

/-- relocation of the reachable part behind any prefix `pre` (`pre = h` : `deepCopy`,
    `pre = []` : the canonical form) is related to the original by `CopyRel` -/
theorem copyRel_reloc {h : Heap} (hwf : WF h) {roots : List Addr}
    (hroots : ∀ r ∈ roots, r < h.length) (pre : List Obj) :
    CopyRel (fun b => (reachList h roots).idxOf b + pre.length) (· ∈ reachList h roots) h
      (pre ++ (reachList h roots).map
        (fun a => (objAt h a).rename (fun b => (reachList h roots).idxOf b + pre.length))) := by
  intro a ha
  have hlt : a < h.length := reachList_lt hwf hroots a ha
  have hao : h[a]? = some h[a] := List.getElem?_eq_getElem hlt
  refine ⟨h[a], hao, ?_, ?_⟩
  · rw [List.getElem?_append_right (by aomega), Nat.add_sub_cancel, List.getElem?_map,
      getElem?_idxOf ha, Option.map_some, objAt_of_some hao]
  · intro b hb
    have := reachList_closed h roots a ha b
    rw [objAt_of_some hao] at this
    exact this hb

theorem copyRel_deepCopy {h : Heap} (hwf : WF h) {roots : List Addr}
    (hroots : ∀ r ∈ roots, r < h.length) :
    CopyRel (copyAddr h roots) (· ∈ reachList h roots) h (deepCopy h roots).1 := by
  rw [deepCopy_heap]
  exact copyRel_reloc hwf hroots h

/-- the memo is injective -/
theorem copyAddr_inj {h : Heap} {roots : List Addr} {a b : Addr} (ha : a ∈ reachList h roots)
    (e : copyAddr h roots a = copyAddr h roots b) : a = b := by
  unfold copyAddr at e
  exact idxOf_inj ha (by aomega)

theorem copyAddr_ge (h : Heap) (roots : List Addr) (a : Addr) : h.length ≤ copyAddr h roots a := by
  unfold copyAddr; aomega

theorem copyAddr_lt {h : Heap} {roots : List Addr} {a : Addr} (ha : a ∈ reachList h roots) :
    copyAddr h roots a < (deepCopy h roots).1.length := by
  rw [deepCopy_length]
  have : (reachList h roots).idxOf a < (reachList h roots).length :=
    List.idxOf_lt_length_iff.2 ha
  unfold copyAddr; aomega

theorem deepCopy_roots_getElem? (h : Heap) (roots : List Addr) (i : Nat) :
    (deepCopy h roots).2[i]? = (roots[i]?).map (copyAddr h roots) := by
  rw [deepCopy_roots, List.getElem?_map]

theorem lookup_map_self (g : Addr → Addr) (a : Addr) :
    ∀ L : List Addr, a ∈ L → (L.map (fun x => (x, g x))).lookup a = some (g a) := by
  intro L
  induction L with
  | nil => intro hm; cases hm
  | cons x L ih =>
    intro hm
    simp only [List.map_cons, List.lookup_cons]
    by_cases e : a = x
    · subst e; simp
    · have hne : (a == x) = false := beq_false_of_ne e
      rw [hne]
      rcases List.mem_cons.1 hm with h1 | h1
      · exact absurd h1 e
      · exact ih h1

/-- the memo list: every reachable address is a key, exactly once, and is mapped to
    `copyAddr`; the restored roots are the memo images of the roots -/
theorem copyMemo_lookup {h : Heap} {roots : List Addr} {a : Addr} (ha : a ∈ reachList h roots) :
    (copyMemo h roots).lookup a = some (copyAddr h roots a) :=
  lookup_map_self _ a _ ha

theorem copyMemo_keys_nodup (h : Heap) (roots : List Addr) :
    ((copyMemo h roots).map (·.1)).Nodup := by
  simp only [copyMemo, List.map_map, Function.comp_def, List.map_id']
  exact reachList_nodup h roots

theorem deepCopy_roots_memo (h : Heap) (roots : List Addr) :
    (deepCopy h roots).2.map some = roots.map (fun r => (copyMemo h roots).lookup r) := by
  rw [deepCopy_roots, List.map_map]
  apply List.map_congr_left
  intro r hr
  exact (copyMemo_lookup (roots_sub_reachList h roots r hr)).symm

/-- the set of the copies -/
def CopySet (h : Heap) (roots : List Addr) : Addr → Prop :=
  fun x => ∃ b, b ∈ reachList h roots ∧ x = copyAddr h roots b

theorem objAt_copy {h : Heap} (hwf : WF h) {roots : List Addr}
    (hroots : ∀ r ∈ roots, r < h.length) {a : Addr} (ha : a ∈ reachList h roots) :
    objAt (deepCopy h roots).1 (copyAddr h roots a) = (objAt h a).rename (copyAddr h roots) := by
  obtain ⟨o, hao, hca, _⟩ := copyRel_deepCopy hwf hroots a ha
  rw [objAt_of_some hao, objAt_of_some hca]

theorem closed_copySet {h : Heap} (hwf : WF h) {roots : List Addr}
    (hroots : ∀ r ∈ roots, r < h.length) : Closed (deepCopy h roots).1 (CopySet h roots) := by
  intro x o hx hxo c hc
  obtain ⟨b, hb, rfl⟩ := hx
  obtain ⟨ob, _, hcb, hcl⟩ := copyRel_deepCopy hwf hroots b hb
  rw [hxo] at hcb
  cases hcb
  rw [Obj.refs_rename] at hc
  obtain ⟨d, hd, rfl⟩ := List.mem_map.1 hc
  exact ⟨d, hcl d hd, rfl⟩

/-- (2a) the old part of the heap is unchanged (no hypothesis) -/
theorem copy_old_unchanged (h : Heap) (roots : List Addr) {a : Addr} (ha : a < h.length) :
    (deepCopy h roots).1[a]? = h[a]? := by
  rw [deepCopy_heap, List.getElem?_append_left ha]

theorem closed_reachList_copy {h : Heap} (hwf : WF h) {roots : List Addr}
    (hroots : ∀ r ∈ roots, r < h.length) :
    Closed (deepCopy h roots).1 (· ∈ reachList h roots) :=
  (copyRel_deepCopy hwf hroots).closed.of_agree
    (fun a ha => (copy_old_unchanged h roots (reachList_lt hwf hroots a ha)).symm)

/-- (2b) what is reachable from the copied roots in the new heap is exactly the set
    of copies of what was reachable from the original roots -/
theorem copy_reach_iff {h : Heap} (hwf : WF h) {roots : List Addr}
    (hroots : ∀ r ∈ roots, r < h.length) (x : Addr) :
    Reach (deepCopy h roots).1 (deepCopy h roots).2 x
      ↔ ∃ b, Reach h roots b ∧ x = copyAddr h roots b := by
  constructor
  · intro hr
    have : CopySet h roots x := by
      apply reach_sub_closed (closed_copySet hwf hroots) _ hr
      intro r hr
      rw [deepCopy_roots] at hr
      obtain ⟨r0, hr0, rfl⟩ := List.mem_map.1 hr
      exact ⟨r0, roots_sub_reachList h roots r0 hr0, rfl⟩
    obtain ⟨b, hb, e⟩ := this
    exact ⟨b, (mem_reachList_iff h roots b).1 hb, e⟩
  · rintro ⟨b, hb, rfl⟩
    induction hb with
    | root hr =>
      apply Reach.root
      rw [deepCopy_roots]
      exact List.mem_map.2 ⟨_, hr, rfl⟩
    | @step a b ha hb ih =>
      apply Reach.step ih
      rw [objAt_copy hwf hroots ((mem_reachList_iff h roots a).2 ha), Obj.refs_rename]
      exact List.mem_map.2 ⟨b, hb, rfl⟩

/-- (2) `copy_fresh` : every address reachable from the copied roots is FRESH
    (≥ the old `next`) and is an address of the new heap -/
theorem copy_fresh {h : Heap} (hwf : WF h) {roots : List Addr}
    (hroots : ∀ r ∈ roots, r < h.length) {x : Addr}
    (hx : Reach (deepCopy h roots).1 (deepCopy h roots).2 x) :
    h.length ≤ x ∧ x < (deepCopy h roots).1.length := by
  obtain ⟨b, hb, rfl⟩ := (copy_reach_iff hwf hroots x).1 hx
  exact ⟨copyAddr_ge h roots b, copyAddr_lt ((mem_reachList_iff h roots b).2 hb)⟩

/-- (2c) in the new heap the original roots reach exactly what they reached before -/
theorem orig_reach_iff {h : Heap} (hwf : WF h) {roots : List Addr}
    (hroots : ∀ r ∈ roots, r < h.length) (a : Addr) :
    Reach (deepCopy h roots).1 roots a ↔ Reach h roots a := by
  constructor
  · intro hr
    have := reach_sub_closed (closed_reachList_copy hwf hroots)
      (roots_sub_reachList h roots) hr
    exact (mem_reachList_iff h roots a).1 this
  · intro hr
    induction hr with
    | root hr => exact Reach.root hr
    | @step a b ha hb ih =>
      apply Reach.step ih
      have hlt := reach_lt hwf hroots ha
      simp only [objAt, copy_old_unchanged h roots hlt]
      exact hb

/-- (2d) the two reachable sets are DISJOINT -/
theorem copy_disjoint {h : Heap} (hwf : WF h) {roots : List Addr}
    (hroots : ∀ r ∈ roots, r < h.length) (a : Addr)
    (hO : Reach (deepCopy h roots).1 roots a)
    (hC : Reach (deepCopy h roots).1 (deepCopy h roots).2 a) : False := by
  have h1 := reach_lt hwf hroots ((orig_reach_iff hwf hroots a).1 hO)
  have h2 := (copy_fresh hwf hroots hC).1
  aomega

/-- `WF` is preserved by `deepCopy`, and the copied roots are valid -/
theorem deepCopy_WF {h : Heap} (hwf : WF h) {roots : List Addr}
    (hroots : ∀ r ∈ roots, r < h.length) :
    WF (deepCopy h roots).1 ∧ ∀ r ∈ (deepCopy h roots).2, r < (deepCopy h roots).1.length := by
  constructor
  · intro a o hao
    rcases Nat.lt_or_ge a h.length with hlt | hge
    · rw [copy_old_unchanged h roots hlt] at hao
      refine ⟨fun b hb => ?_, (hwf a o hao).2⟩
      have := (hwf a o hao).1 b hb
      rw [deepCopy_length]; aomega
    · rw [deepCopy_heap, List.getElem?_append_right hge, List.getElem?_map] at hao
      cases hx : (reachList h roots)[a - h.length]? with
      | none => simp [hx] at hao
      | some x =>
        simp only [hx, Option.map_some, Option.some.injEq] at hao
        subst hao
        have hxR : x ∈ reachList h roots := List.mem_of_getElem? hx
        have hxlt := reachList_lt hwf hroots x hxR
        have hxo : h[x]? = some h[x] := List.getElem?_eq_getElem hxlt
        refine ⟨?_, Obj.rename_keysOk _ (by rw [objAt_of_some hxo]; exact (hwf x _ hxo).2)⟩
        intro b hb
        rw [Obj.refs_rename] at hb
        obtain ⟨d, hd, rfl⟩ := List.mem_map.1 hb
        exact copyAddr_lt (reachList_closed h roots x hxR d hd)
  · intro r hr
    rw [deepCopy_roots] at hr
    obtain ⟨r0, hr0, rfl⟩ := List.mem_map.1 hr
    exact copyAddr_lt (roots_sub_reachList h roots r0 hr0)

/-- (1) `copy_iso`, path form: a path from a copied root resolves iff it resolves from
    the original root, to the same number or to the copy of the same container -/
theorem copy_readPath {h : Heap} (hwf : WF h) {roots : List Addr}
    (hroots : ∀ r ∈ roots, r < h.length) {r : Addr} (hr : r ∈ roots) (path : List Key) :
    readPath (deepCopy h roots).1 (copyAddr h roots r) path
      = (readPath h r path).map (Val.rename (copyAddr h roots)) :=
  readVal_copyRel (copyRel_deepCopy hwf hroots) path (.ref r) (roots_sub_reachList h roots r hr)

/-- (1) `copy_iso` : reading through a copied root gives the same TREE VALUE as reading
    through the original root, for every path and every depth -/
theorem copy_iso {h : Heap} (hwf : WF h) {roots : List Addr}
    (hroots : ∀ r ∈ roots, r < h.length) {r : Addr} (hr : r ∈ roots)
    (f : Nat) (path : List Key) :
    valueOf (deepCopy h roots).1 f (copyAddr h roots r) path = valueOf h f r path :=
  valueOf_copyRel (copyRel_deepCopy hwf hroots) (roots_sub_reachList h roots r hr) f path

/-- `copy_iso`, indexed by the position of the root -/
theorem copy_iso_idx {h : Heap} (hwf : WF h) {roots : List Addr}
    (hroots : ∀ r ∈ roots, r < h.length) {i : Nat} {r : Addr} (hr : roots[i]? = some r) :
    ∃ r', (deepCopy h roots).2[i]? = some r' ∧ ∀ (f : Nat) (path : List Key),
      valueOf (deepCopy h roots).1 f r' path = valueOf h f r path :=
  ⟨copyAddr h roots r, by rw [deepCopy_roots_getElem?, hr]; rfl,
    fun f path => copy_iso hwf hroots (List.mem_of_getElem? hr) f path⟩

/-- and the original still has its value in the new heap -/
theorem copy_orig_value {h : Heap} (hwf : WF h) {roots : List Addr}
    (hroots : ∀ r ∈ roots, r < h.length) {r : Addr} (hr : r ∈ roots)
    (f : Nat) (path : List Key) :
    valueOf (deepCopy h roots).1 f r path = valueOf h f r path :=
  valueOf_agree (closed_reachList_copy hwf hroots)
    (fun a ha => copy_old_unchanged h roots (reachList_lt hwf hroots a ha))
    (roots_sub_reachList h roots r hr) f path

/-- (4) `copy_sharing` : two paths (from possibly different roots of the same dump) that
    reach containers in the original reach containers in the copy, and they reach the
    SAME container in the copy iff they reach the same container in the original -/
theorem copy_sharing {h : Heap} (hwf : WF h) {roots : List Addr}
    (hroots : ∀ r ∈ roots, r < h.length) {r1 r2 : Addr} (hr1 : r1 ∈ roots) (hr2 : r2 ∈ roots)
    {p1 p2 : List Key} {a1 a2 : Addr}
    (h1 : readPath h r1 p1 = some (.ref a1)) (h2 : readPath h r2 p2 = some (.ref a2)) :
    ∃ c1 c2, readPath (deepCopy h roots).1 (copyAddr h roots r1) p1 = some (.ref c1) ∧
      readPath (deepCopy h roots).1 (copyAddr h roots r2) p2 = some (.ref c2) ∧
      (c1 = c2 ↔ a1 = a2) := by
  refine ⟨copyAddr h roots a1, copyAddr h roots a2, ?_, ?_, ?_⟩
  · rw [copy_readPath hwf hroots hr1, h1]; rfl
  · rw [copy_readPath hwf hroots hr2, h2]; rfl
  · constructor
    · intro e
      have ha1 : a1 ∈ reachList h roots :=
        readVal_In (copyRel_deepCopy hwf hroots).closed p1 (.ref r1) (.ref a1)
          (roots_sub_reachList h roots r1 hr1) h1
      exact copyAddr_inj ha1 e
    · intro e; rw [e]

/-- (4, converse direction) a path from a copied root that reaches a container comes
    from a path of the original that reaches the container it is the copy of -/
theorem copy_sharing_conv {h : Heap} (hwf : WF h) {roots : List Addr}
    (hroots : ∀ r ∈ roots, r < h.length) {r : Addr} (hr : r ∈ roots)
    {p : List Key} {c : Addr}
    (hc : readPath (deepCopy h roots).1 (copyAddr h roots r) p = some (.ref c)) :
    ∃ a, readPath h r p = some (.ref a) ∧ c = copyAddr h roots a := by
  rw [copy_readPath hwf hroots hr] at hc
  cases hrd : readPath h r p with
  | none => simp [hrd] at hc
  | some v =>
    rw [hrd] at hc
    cases v with
    | num n => simp [Val.rename] at hc
    | ref a =>
      simp only [Option.map_some, Val.rename, Option.some.injEq, Val.ref.injEq] at hc
      exact ⟨a, rfl, hc.symm⟩

/-! ### (3) frame and independence -/

/-- (3) `write_frame` : a successful `r[path] = n` replaces the object at exactly ONE
    address `q`; `q` is reachable from `r`; the new object has no new reference;
    the length of the heap and every other object are unchanged -/
theorem write_frame {h h2 : Heap} {r : Addr} {path : List Key} {n : Int}
    (hw : writePath h r path n = some h2) :
    ∃ q o o', Reach h [r] q ∧ h[q]? = some o ∧ h2 = h.set q o' ∧
      (∀ b ∈ o'.refs, b ∈ o.refs) ∧ h2.length = h.length ∧
      h2[q]? = some o' ∧ ∀ a, a ≠ q → h2[a]? = h[a]? := by
  obtain ⟨q, o, o', hq, hqo, e, hsub, _, hlen, hq2, hrest⟩ :=
    write_frame_closed (closed_reach h [r]) (Reach.root (by simp)) hw
  exact ⟨q, o, o', hq, hqo, e, hsub, hlen, hq2, hrest⟩

/-- a write never makes more things reachable, from any roots -/
theorem assign_reach_sub {h : Heap} (r : Addr) (path : List Key) (n : Int) {roots : List Addr}
    {a : Addr} (ha : Reach (assign h r path n) roots a) : Reach h roots a :=
  reach_sub_closed (assign_closed (closed_reach h roots) r path n) (fun _ hr => Reach.root hr) ha

/-- (3) a write through a root `r` leaves every read through a root `r'` unchanged when
    nothing is reachable from both -/
theorem write_frame_read {h : Heap} {r r' : Addr}
    (hdisj : ∀ a, Reach h [r] a → Reach h [r'] a → False)
    (path : List Key) (n : Int) (f : Nat) (path' : List Key) :
    valueOf (assign h r path n) f r' path' = valueOf h f r' path' := by
  apply valueOf_agree (assign_closed (closed_reach h [r']) r path n) _ (Reach.root (by simp))
  intro a ha
  exact assign_frame (closed_reach h [r]) (Reach.root (by simp)) path n (fun hs => hdisj a hs ha)

theorem runAssigns_frame {S : Addr → Prop} {roots : List Addr} (hroots : ∀ r ∈ roots, S r) :
    ∀ (ws : List Assign) (h : Heap), Closed h S → ∀ a, ¬ S a →
      (runAssigns h roots ws)[a]? = h[a]? := by
  intro ws
  induction ws with
  | nil => intro h _ a _; rfl
  | cons w ws ih =>
    intro h hc a ha
    simp only [runAssigns]
    rw [ih _ (applyAssign_closed hc roots w) a ha, applyAssign_frame hc hroots w ha]

/-- FINAL THEOREM (3) `copies_independent`.
    Pickle the roots, then run ANY interleaving of assignments through the original
    roots and through the restored roots.  Afterwards
    * what can be read through an original root is what the `orig` assignments alone
      produce on the ORIGINAL heap (no pickling, no assignment to the copy), and
    * what can be read through a restored root is what the `copy` assignments alone
      produce on the heap just after unpickling (no assignment to the original). -/
theorem copies_independent {h : Heap} (hwf : WF h) {roots : List Addr}
    (hroots : ∀ r ∈ roots, r < h.length) (ws : List (Side × Assign))
    (f : Nat) (path : List Key) :
    (∀ r ∈ roots,
      valueOf (runMixed (deepCopy h roots).1 roots (deepCopy h roots).2 ws) f r path
        = valueOf (runAssigns h roots (sideOf .orig ws)) f r path) ∧
    (∀ r' ∈ (deepCopy h roots).2,
      valueOf (runMixed (deepCopy h roots).1 roots (deepCopy h roots).2 ws) f r' path
        = valueOf (runAssigns (deepCopy h roots).1 (deepCopy h roots).2 (sideOf .copy ws))
            f r' path) := by
  have hdisj : ∀ a, a ∈ reachList h roots → CopySet h roots a → False := by
    intro a ha hc
    obtain ⟨b, _, rfl⟩ := hc
    have h1 := reachList_lt hwf hroots _ ha
    have h2 := copyAddr_ge h roots b
    aomega
  have hrC : ∀ r ∈ (deepCopy h roots).2, CopySet h roots r := by
    intro r hr
    rw [deepCopy_roots] at hr
    obtain ⟨r0, hr0, rfl⟩ := List.mem_map.1 hr
    exact ⟨r0, roots_sub_reachList h roots r0 hr0, rfl⟩
  obtain ⟨agO, agC, clO, clC⟩ :=
    runMixed_independent (SO := (· ∈ reachList h roots)) (SC := CopySet h roots) hdisj
      (roots_sub_reachList h roots) hrC ws (deepCopy h roots).1 h (deepCopy h roots).1
      (closed_reachList_copy hwf hroots) (closed_copySet hwf hroots)
      (fun a ha => copy_old_unchanged h roots (reachList_lt hwf hroots a ha))
      (AgreeOn.refl _ _)
  exact ⟨fun r hr => valueOf_agree clO agO (roots_sub_reachList h roots r hr) f path,
    fun r' hr' => valueOf_agree clC agC (hrC r' hr') f path⟩

/-- corollary: assignments to the original never affect the restored manager -/
theorem writes_to_original_do_not_affect_copy {h : Heap} (hwf : WF h) {roots : List Addr}
    (hroots : ∀ r ∈ roots, r < h.length) (ws : List Assign) (f : Nat) (path : List Key)
    {r' : Addr} (hr' : r' ∈ (deepCopy h roots).2) :
    valueOf (runAssigns (deepCopy h roots).1 roots ws) f r' path
      = valueOf (deepCopy h roots).1 f r' path := by
  have hrC : CopySet h roots r' := by
    rw [deepCopy_roots] at hr'
    obtain ⟨r0, hr0, rfl⟩ := List.mem_map.1 hr'
    exact ⟨r0, roots_sub_reachList h roots r0 hr0, rfl⟩
  apply valueOf_agree (runAssigns_closed roots ws _ (closed_copySet hwf hroots)) _ hrC
  intro a ha
  apply runAssigns_frame (roots_sub_reachList h roots) ws _ (closed_reachList_copy hwf hroots)
  intro hR
  obtain ⟨b, _, rfl⟩ := ha
  have h1 := reachList_lt hwf hroots _ hR
  have h2 := copyAddr_ge h roots b
  aomega

/-- corollary: assignments to the restored manager never affect the original -/
theorem writes_to_copy_do_not_affect_original {h : Heap} (hwf : WF h) {roots : List Addr}
    (hroots : ∀ r ∈ roots, r < h.length) (ws : List Assign) (f : Nat) (path : List Key)
    {r : Addr} (hr : r ∈ roots) :
    valueOf (runAssigns (deepCopy h roots).1 (deepCopy h roots).2 ws) f r path
      = valueOf h f r path := by
  rw [← copy_orig_value hwf hroots hr]
  have hrC : ∀ r ∈ (deepCopy h roots).2, CopySet h roots r := by
    intro r hr
    rw [deepCopy_roots] at hr
    obtain ⟨r0, hr0, rfl⟩ := List.mem_map.1 hr
    exact ⟨r0, roots_sub_reachList h roots r0 hr0, rfl⟩
  apply valueOf_agree (runAssigns_closed _ ws _ (closed_reachList_copy hwf hroots)) _
    (roots_sub_reachList h roots r hr)
  intro a ha
  apply runAssigns_frame hrC ws _ (closed_copySet hwf hroots)
  intro hC
  obtain ⟨b, _, e⟩ := hC
  have h1 := reachList_lt hwf hroots _ ha
  have h2 := copyAddr_ge h roots b
  aomega

/-! ### (5) the copy behaves as the original -/

/-- the restored roots, assigned to, contain what the ORIGINAL roots would contain after
    the same assignments (done on the original heap) -/
theorem copy_clone {h : Heap} (hwf : WF h) {roots : List Addr}
    (hroots : ∀ r ∈ roots, r < h.length) (ws : List Assign) {r : Addr} (hr : r ∈ roots)
    (f : Nat) (path : List Key) :
    valueOf (runAssigns (deepCopy h roots).1 (deepCopy h roots).2 ws) f (copyAddr h roots r) path
      = valueOf (runAssigns h roots ws) f r path := by
  rw [deepCopy_roots]
  exact valueOf_copyRel
    (runAssigns_copyRel (fun a b ha _ e => copyAddr_inj ha e) (roots_sub_reachList h roots)
      ws _ _ (copyRel_deepCopy hwf hroots))
    (roots_sub_reachList h roots r hr) f path

/-- the strongest form: in ANY interleaved program, what is read through a restored
    root is what the original root would contain, on the original heap, had it received
    the assignments that were made to the copy -/
theorem restored_behaves_as_original {h : Heap} (hwf : WF h) {roots : List Addr}
    (hroots : ∀ r ∈ roots, r < h.length) (ws : List (Side × Assign)) {r : Addr}
    (hr : r ∈ roots) (f : Nat) (path : List Key) :
    valueOf (runMixed (deepCopy h roots).1 roots (deepCopy h roots).2 ws) f
        (copyAddr h roots r) path
      = valueOf (runAssigns h roots (sideOf .copy ws)) f r path := by
  have hmem : copyAddr h roots r ∈ (deepCopy h roots).2 := by
    rw [deepCopy_roots]; exact List.mem_map.2 ⟨r, hr, rfl⟩
  rw [(copies_independent hwf hroots ws f path).2 _ hmem]
  exact copy_clone hwf hroots _ hr f path

/-- (5) `copy_then_same_writes` : if the two sides receive the same sequence of
    assignments (in any interleaving), they stay isomorphic: equal tree values for every
    root, every path and every depth -/
theorem copy_then_same_writes {h : Heap} (hwf : WF h) {roots : List Addr}
    (hroots : ∀ r ∈ roots, r < h.length) (ws : List (Side × Assign))
    (hsame : sideOf .orig ws = sideOf .copy ws) {r : Addr} (hr : r ∈ roots)
    (f : Nat) (path : List Key) :
    valueOf (runMixed (deepCopy h roots).1 roots (deepCopy h roots).2 ws) f
        (copyAddr h roots r) path
      = valueOf (runMixed (deepCopy h roots).1 roots (deepCopy h roots).2 ws) f r path := by
  rw [restored_behaves_as_original hwf hroots ws hr,
    (copies_independent hwf hroots ws f path).1 r hr, hsame]

/-- the program "do every assignment on the original, then on the copy" -/
def mirror : List Assign → List (Side × Assign)
  | [] => []
  | w :: ws => (.orig, w) :: (.copy, w) :: mirror ws

theorem sideOf_mirror (s : Side) (ws : List Assign) : sideOf s (mirror ws) = ws := by
  induction ws with
  | nil => rfl
  | cons w ws ih => cases s <;> simp [mirror, sideOf, ih]

theorem copy_then_mirrored_writes {h : Heap} (hwf : WF h) {roots : List Addr}
    (hroots : ∀ r ∈ roots, r < h.length) (ws : List Assign) {r : Addr} (hr : r ∈ roots)
    (f : Nat) (path : List Key) :
    valueOf (runMixed (deepCopy h roots).1 roots (deepCopy h roots).2 (mirror ws)) f
        (copyAddr h roots r) path
      = valueOf (runMixed (deepCopy h roots).1 roots (deepCopy h roots).2 (mirror ws)) f r path :=
  copy_then_same_writes hwf hroots _ (by rw [sideOf_mirror, sideOf_mirror]) hr f path

/-! ### the canonical form -/

/-- the memo order of the copy is the image of the memo order of the original -/
theorem reachList_deepCopy {h : Heap} (hwf : WF h) {roots : List Addr}
    (hroots : ∀ r ∈ roots, r < h.length) :
    reachList (deepCopy h roots).1 (deepCopy h roots).2
      = (reachList h roots).map (copyAddr h roots) := by
  have h1 := dfsO_map h (deepCopy h roots).1 (copyAddr h roots) (· ∈ reachList h roots)
    (fun a b ha _ e => copyAddr_inj ha e) (reachList_closed h roots)
    (fun a ha => by rw [objAt_copy hwf hroots ha, Obj.refs_rename])
    (fuelFor h roots) roots [] (reachList h roots) (roots_sub_reachList h roots)
    (fun x hx => by cases hx) (dfsO_reachList h roots)
  have h2 := dfsO_reachList (deepCopy h roots).1 (deepCopy h roots).2
  rw [deepCopy_roots] at h2 ⊢
  have h1' := dfsO_mono _ _ _ _ _ h1
    (fuelFor h roots + fuelFor (deepCopy h roots).1 (roots.map (copyAddr h roots)))
    (Nat.le_add_right _ _)
  have h2' := dfsO_mono _ _ _ _ _ h2
    (fuelFor h roots + fuelFor (deepCopy h roots).1 (roots.map (copyAddr h roots)))
    (Nat.le_add_left _ _)
  simp only [List.map_nil] at h1'
  rw [h1'] at h2'
  exact (Option.some.inj h2').symm

/-- `canon (deepCopy h roots) = canon (h, roots)` : pickling the restored roots gives
    the SAME pickle — same objects, same member order, same sharing, same cycles -/
theorem canon_deepCopy {h : Heap} (hwf : WF h) {roots : List Addr}
    (hroots : ∀ r ∈ roots, r < h.length) :
    canon (deepCopy h roots).1 (deepCopy h roots).2 = canon h roots := by
  unfold canon dumps
  rw [reachList_deepCopy hwf hroots, deepCopy_roots]
  have hidx : ∀ b ∈ reachList h roots,
      ((reachList h roots).map (copyAddr h roots)).idxOf (copyAddr h roots b)
        = (reachList h roots).idxOf b :=
    fun b _ => idxOf_map_inj _ b _ (fun x hx e => copyAddr_inj hx e)
  unfold dumpsWith
  refine Prod.ext ?_ ?_
  · simp only [List.map_map]
    apply List.map_congr_left
    intro a ha
    simp only [Function.comp_def]
    rw [objAt_copy hwf hroots ha, Obj.rename_comp]
    apply Obj.rename_congr
    intro b hb
    exact hidx b (reachList_closed h roots a ha b hb)
  · simp only [List.map_map]
    apply List.map_congr_left
    intro r hr
    exact hidx r (roots_sub_reachList h roots r hr)

/-- the canonical form, read as a heap of its own, has the same tree values as the
    original: the canonical form DETERMINES everything observable -/
theorem canon_valueOf {h : Heap} (hwf : WF h) {roots : List Addr}
    (hroots : ∀ r ∈ roots, r < h.length) {r : Addr} (hr : r ∈ roots) (f : Nat) (path : List Key) :
    valueOf (canon h roots).1 f ((reachList h roots).idxOf r) path = valueOf h f r path := by
  have H := copyRel_reloc hwf hroots []
  simp only [List.length_nil, Nat.add_zero, List.nil_append] at H
  exact valueOf_copyRel H (roots_sub_reachList h roots r hr) f path

/-- equal canonical forms ⇒ isomorphic (equal tree values at corresponding roots).
    (The converse, "isomorphic including sharing ⇒ equal canonical forms", is proved
    only for the instance that matters: `canon_deepCopy`.) -/
theorem canon_eq_imp_iso {h1 h2 : Heap} (hwf1 : WF h1) (hwf2 : WF h2) {roots1 roots2 : List Addr}
    (hroots1 : ∀ r ∈ roots1, r < h1.length) (hroots2 : ∀ r ∈ roots2, r < h2.length)
    (e : canon h1 roots1 = canon h2 roots2) {i : Nat} {r1 r2 : Addr}
    (hr1 : roots1[i]? = some r1) (hr2 : roots2[i]? = some r2) (f : Nat) (path : List Key) :
    valueOf h1 f r1 path = valueOf h2 f r2 path := by
  rw [← canon_valueOf hwf1 hroots1 (List.mem_of_getElem? hr1),
    ← canon_valueOf hwf2 hroots2 (List.mem_of_getElem? hr2), e]
  have e2 : (canon h1 roots1).2[i]? = (canon h2 roots2).2[i]? := by rw [e]
  simp only [canon, dumps, dumpsWith, List.getElem?_map, hr1, hr2, Option.map_some,
    Option.some.injEq] at e2
  rw [e2]

/-! ## Concrete examples (all checked by `decide` / `rfl`) -/

namespace Example

/-- a diamond (object 2 is a member of both roots 0 and 1), a cycle (the list 3
    contains itself) and an object (4) that no root reaches -/
def exH : Heap :=
  [ .dict [(.str "a", .ref 2), (.str "n", .num 1)],   -- 0 : root A
    .list [.ref 2, .num 5],                            -- 1 : root B, shares object 2 with A
    .dict [(.str "x", .num 10)],                       -- 2 : the shared dict
    .list [.ref 3, .num 7],                            -- 3 : a list that contains itself
    .dict [(.str "unrelated", .num 0)] ]               -- 4 : not reachable from the roots

def exRoots : List Addr := [0, 1, 3]

/-- the hypotheses of all the theorems hold for it -/
theorem exH_WF : WF exH := by decide
theorem exRoots_lt : ∀ r ∈ exRoots, r < exH.length := by decide

/-- memo order = depth-first, first visit: A, the shared dict, B, the cyclic list -/
example : reachList exH exRoots = [0, 2, 1, 3] := by decide
example : copyMemo exH exRoots = [(0, 5), (2, 6), (1, 7), (3, 8)] := by decide

/-- the pickle / canonical form: sharing = both refer to number 1; cycle = 3 refers to 3 -/
example : canon exH exRoots =
    ([ .dict [(.str "a", .ref 1), (.str "n", .num 1)],
       .dict [(.str "x", .num 10)],
       .list [.ref 1, .num 5],
       .list [.ref 3, .num 7] ], [0, 2, 3]) := by decide

/-- `deepCopy`: the old heap is a prefix; four FRESH objects 5..8; the unreachable object
    4 is not copied; the copies of A and B share the ONE copy (6) of the shared dict;
    the copy of the cyclic list contains ITSELF (8), not the original (3) -/
example : deepCopy exH exRoots =
    (exH ++ [ .dict [(.str "a", .ref 6), (.str "n", .num 1)],
              .dict [(.str "x", .num 10)],
              .list [.ref 6, .num 5],
              .list [.ref 8, .num 7] ], [5, 7, 8]) := by decide

def exH' : Heap := (deepCopy exH exRoots).1
def exRoots' : List Addr := (deepCopy exH exRoots).2

example : WF exH' := by decide
example : canon exH' exRoots' = canon exH exRoots := by decide
example : canon exH' exRoots' = canon exH exRoots := canon_deepCopy exH_WF exRoots_lt

/-- (4) sharing: `A["a"]` and `B[0]` are the same object, before and after -/
example : readPath exH 0 [.str "a"] = some (.ref 2) ∧ readPath exH 1 [.int 0] = some (.ref 2) := by
  decide
example : readPath exH' 5 [.str "a"] = some (.ref 6) ∧ readPath exH' 7 [.int 0] = some (.ref 6) := by
  decide
/-- the cycle: `L[0][0][0] is L`, in the copy as in the original -/
example : readPath exH 3 [.int 0, .int 0, .int 0] = some (.ref 3) := by decide
example : readPath exH' 8 [.int 0, .int 0, .int 0] = some (.ref 8) := by decide

/-- (1) tree values -/
example : valueOf exH' 3 5 [] = some (.dict [(.str "a", .dict [(.str "x", .num 10)]),
    (.str "n", .num 1)]) := rfl
example : valueOf exH' 2 8 [] = some (.list [.list [.cut, .num 7], .num 7]) := rfl
example : valueOf exH' 3 5 [] = valueOf exH 3 0 [] :=
  copy_iso exH_WF exRoots_lt (r := 0) (by decide) 3 []

/-- (3) ALIASING IS VISIBLE inside the original: `A["a"]["x"] = 99` is seen through `B`
    (this is what the tree-shaped store of the manager model cannot express) … -/
example : readPath (assign exH' 0 [.str "a", .str "x"] 99) 1 [.int 0, .str "x"]
    = some (.num 99) := by decide
/-- … and it is NOT seen through the restored roots -/
example : readPath (assign exH' 0 [.str "a", .str "x"] 99) 5 [.str "a", .str "x"]
    = some (.num 10) := by decide
example : readPath (assign exH' 0 [.str "a", .str "x"] 99) 7 [.int 0, .str "x"]
    = some (.num 10) := by decide
/-- and vice versa: an assignment through the restored `B` is seen through the restored
    `A` (sharing was preserved) and not through the original -/
example : readPath (assign exH' 7 [.int 0, .str "x"] (-4)) 5 [.str "a", .str "x"]
    = some (.num (-4)) := by decide
example : readPath (assign exH' 7 [.int 0, .str "x"] (-4)) 0 [.str "a", .str "x"]
    = some (.num 10) := by decide
/-- the write changed exactly one object (address 2) -/
example : assign exH' 0 [.str "a", .str "x"] 99 = exH'.set 2 (.dict [(.str "x", .num 99)]) := by
  decide

/-- a mixed program: the hypotheses of `copies_independent`, `copy_then_same_writes`,
    `restored_behaves_as_original` are satisfiable and the conclusions are checked -/
def exProg : List (Side × Assign) :=
  [ (.orig, ⟨0, [.str "a", .str "x"], 99⟩),     -- A["a"]["x"] = 99
    (.copy, ⟨1, [.int 1], 8⟩),                   -- B'[1] = 8
    (.orig, ⟨2, [.int 0], 0⟩),                   -- L[0] = 0      (breaks the cycle in L only)
    (.copy, ⟨0, [.str "new"], 3⟩),               -- A'["new"] = 3 (new key)
    (.orig, ⟨0, [.str "zz", .str "x"], 1⟩) ]     -- KeyError: nothing happens

example : runMixed exH' exRoots exRoots' exProg =
    [ .dict [(.str "a", .ref 2), (.str "n", .num 1)],
      .list [.ref 2, .num 5],
      .dict [(.str "x", .num 99)],
      .list [.num 0, .num 7],
      .dict [(.str "unrelated", .num 0)],
      .dict [(.str "a", .ref 6), (.str "n", .num 1), (.str "new", .num 3)],
      .dict [(.str "x", .num 10)],
      .list [.ref 6, .num 8],
      .list [.ref 8, .num 7] ] := by decide

example : valueOf (runMixed exH' exRoots exRoots' exProg) 4 0 []
    = valueOf (runAssigns exH exRoots (sideOf .orig exProg)) 4 0 [] :=
  (copies_independent exH_WF exRoots_lt exProg 4 []).1 0 (by decide)

example : valueOf (runMixed exH' exRoots exRoots' (mirror (sideOf .orig exProg))) 4 5 []
    = valueOf (runMixed exH' exRoots exRoots' (mirror (sideOf .orig exProg))) 4 0 [] :=
  copy_then_mirrored_writes exH_WF exRoots_lt _ (r := 0) (by decide) 4 []

example : valueOf (runMixed exH' exRoots exRoots' (mirror (sideOf .orig exProg))) 4 5 []
    = some (.dict [(.str "a", .dict [(.str "x", .num 99)]), (.str "n", .num 1)]) := rfl

/-! ### what the MODEL does in corner cases (stated, not changed) -/

/-- negative list indices are not modelled: `L[-1]` is an error here (Python: last item) -/
example : readPath exH 3 [.int (-1)] = none := by decide
/-- assigning to a missing dict key APPENDS it; to a list index out of range: error -/
example : writePath exH 2 [.str "y"] 1
    = some (exH.set 2 (.dict [(.str "x", .num 10), (.str "y", .num 1)])) := by decide
example : writePath exH 1 [.int 2] 1 = none := by decide
/-- an empty path assigns to nothing: error -/
example : writePath exH 0 [] 1 = none := by decide
/-- a string key on a list: error -/
example : writePath exH 1 [.str "a"] 1 = none := by decide
/-- the dict keys `1` and `"1"` are different; int keys on dicts are allowed -/
example : writePath [.dict [(.int 1, .num 0)]] 0 [.str "1"] 5
    = some [.dict [(.int 1, .num 0), (.str "1", .num 5)]] := by decide

/-- WHY `WF` IS A HYPOTHESIS: with a dangling reference the traversal treats the missing
    object as an empty list, so the "copy" contains an empty list where the original has
    a dangling reference — not isomorphic -/
def badH : Heap := [ .list [.ref 5] ]
example : ¬ WF badH := by decide
example : deepCopy badH [0] = ([ .list [.ref 5], .list [.ref 2], .list [] ], [1]) := by decide
example : valueOf badH 2 0 [] = some (.list [.bad]) := rfl
example : valueOf (deepCopy badH [0]).1 2 1 [] = some (.list [.list []]) := rfl

/-- the traversal never runs out of fuel, well-formed heap or not -/
example : dfsO badH (fuelFor badH [0]) [0] [] = some [0, 5] := by decide

end Example

end PickleHeap
