import XModel.ManagerC11
import XModel.ManagerFnHist
/-!
# The manager's self-check passes, and managers with the same task table are bisimilar

(A) `verify_passes`: in every state that satisfies the index invariant `MInv` the model's `verify` returns no error.

(B) `SameTable`: two states with the same task table, containers, freeze flag, knob memory and fault counter, both
    satisfying `MInv` (the four indices and the event log may differ).  Every API call whose outcome does not depend
    on the schedule keeps two such states related and returns the same error on both.
-/
namespace Manager
open Store Push Index

/-! ## (A) `verify` passes under the invariant -/

theorem get_of_mem_rows {ρ κ : Type} [DecidableEq ρ] : ∀ (d : DD ρ κ), (DD.rows d).Nodup → ∀ r ∈ d, DD.get d r.1 = r.2
  | [], _, r, h => by cases h
  | (a, m) :: d, hnd, r, h => by
    have hn : a ∉ DD.rows d ∧ (DD.rows d).Nodup := by simpa [DD.rows] using hnd
    rcases List.mem_cons.mp h with rfl | hr
    · simp [DD.get]
    · have hne : a ≠ r.1 := fun e => hn.1 (e ▸ List.mem_map_of_mem hr)
      simp only [DD.get, hne, if_false]
      exact get_of_mem_rows d hn.2 r hr

/-- two reference-count tables with the same positive entries agree row by row (as `verify` compares them) -/
theorem ddAgree_of_cnt {ρ κ : Type} [DecidableEq ρ] [DecidableEq κ] (a b : DD ρ κ) (hnd : (DD.rows a).Nodup)
    (ha : DD.WF a) (hb : DD.WF b) (h : ∀ x k, DD.cnt2 a x k ≥ 1 ↔ DD.cnt2 b x k ≥ 1) : ddAgree a b = true := by
  unfold ddAgree support
  rw [List.all_eq_true]
  intro r hr
  obtain ⟨r0, hr0, rfl⟩ := List.mem_map.mp hr
  have hmem := (List.mem_filter.mp hr0).1
  have hget := get_of_mem_rows a hnd r0 hmem
  have key : ∀ k, k ∈ RC.keys r0.2 ↔ k ∈ RC.keys (DD.get b r0.1) := by
    intro k
    rw [← hget, RC.mem_keys_iff _ (ha r0.1), RC.mem_keys_iff _ (hb r0.1)]
    exact h r0.1 k
  simp only [sameSet, Bool.and_eq_true, List.all_eq_true, decide_eq_true_eq]
  exact ⟨fun k hk => (key k).mp hk, fun k hk => (key k).mpr hk⟩

/-- the indices regenerated from the task table satisfy the invariant for that table -/
theorem regen_GInv (s : MState) (hi : MInv s) : GInv (regen s.defs) s.defs := by
  have hnd : ∀ t ∈ s.defs, t.deps.Nodup ∧ t.tars.Nodup := by
    intro t ht
    exact hi.inv.wfT t.toIdx (by rw [hi.link]; exact List.mem_map.mpr ⟨t, ht, rfl⟩)
  have g := regen_fold s.defs [] Mgr.empty
    ⟨inv_empty, rfl, by simp [Mgr.empty, DD.rows], by simp [Mgr.empty, DD.rows], by simp [Mgr.empty, DD.rows], by simp [Mgr.empty, DD.rows]⟩
    (by simpa using hi.ids) hnd
  simpa [regen] using g

/-- **the manager's own consistency check passes in every state satisfying the index invariant** -/
theorem verify_passes (s : MState) (hi : MInv s) : (verify s).2 = none := by
  have hc := cleanup_MInv s hi
  have hg := regen_GInv s hi
  have hl : (cleanup s).idx.tasks = (regen s.defs).tasks := by rw [hc.link, hg.link]; rfl
  unfold verify
  simp only
  have e1 : ddAgree (cleanup s).idx.rdeps (regen (cleanup s).defs).rdeps = true :=
    ddAgree_of_cnt _ _ hc.rows1 hc.inv.wf1 hg.inv.wf1 (fun x k => by
      show DD.cnt2 (cleanup s).idx.rdeps x k ≥ 1 ↔ DD.cnt2 (regen s.defs).rdeps x k ≥ 1
      rw [hc.inv.rdeps, hg.inv.rdeps, hl])
  have e2 : ddAgree (cleanup s).idx.rtasks (regen (cleanup s).defs).rtasks = true :=
    ddAgree_of_cnt _ _ hc.rows2 hc.inv.wf2 hg.inv.wf2 (fun x k => by
      show DD.cnt2 (cleanup s).idx.rtasks x k ≥ 1 ↔ DD.cnt2 (regen s.defs).rtasks x k ≥ 1
      rw [hc.inv.rt, hg.inv.rt, hl])
  have e3 : ddAgree (cleanup s).idx.deptasks (regen (cleanup s).defs).deptasks = true :=
    ddAgree_of_cnt _ _ hc.rows3 hc.inv.wf3 hg.inv.wf3 (fun x k => by
      show DD.cnt2 (cleanup s).idx.deptasks x k ≥ 1 ↔ DD.cnt2 (regen s.defs).deptasks x k ≥ 1
      rw [hc.inv.dept, hg.inv.dept, hl])
  have e4 : ddAgree (cleanup s).idx.tartasks (regen (cleanup s).defs).tartasks = true :=
    ddAgree_of_cnt _ _ hc.rows4 hc.inv.wf4 hg.inv.wf4 (fun x k => by
      show DD.cnt2 (cleanup s).idx.tartasks x k ≥ 1 ↔ DD.cnt2 (regen s.defs).tartasks x k ≥ 1
      rw [hc.inv.tart, hg.inv.tart, hl])
  rw [e1, e2, e3, e4]
  rfl

/-- `verify` is `cleanup` plus the (passing) check -/
theorem verify_eq_cleanup (s : MState) (hi : MInv s) : verify s = (cleanup s, none) := by
  have h := verify_passes s hi
  have h1 : (verify s).1 = cleanup s := by
    unfold verify
    simp only
    split <;> rfl
  rw [← h1, ← h]

/-! ## (B) states with the same task table -/

/-- everything but the indices and the event log -/
def SameCore (s s' : MState) : Prop :=
  s'.defs = s.defs ∧ s'.store = s.store ∧ s'.frozen = s.frozen ∧ s'.prev = s.prev ∧ s'.faultIn = s.faultIn

/-- same task table, containers, freeze flag, knob memory and fault counter; both index states satisfy the
    invariant (the index states themselves and the event logs may differ) -/
def SameTable (s s' : MState) : Prop :=
  s'.defs = s.defs ∧ s'.store = s.store ∧ s'.frozen = s.frozen ∧ s'.prev = s.prev ∧ s'.faultIn = s.faultIn ∧
  MInv s ∧ MInv s'

theorem SameTable.core {s s' : MState} (h : SameTable s s') : SameCore s s' :=
  ⟨h.1, h.2.1, h.2.2.1, h.2.2.2.1, h.2.2.2.2.1⟩
theorem SameTable.left {s s' : MState} (h : SameTable s s') : MInv s := h.2.2.2.2.2.1
theorem SameTable.right {s s' : MState} (h : SameTable s s') : MInv s' := h.2.2.2.2.2.2
theorem SameTable.mk' {s s' : MState} (h : SameCore s s') (hi : MInv s) (hi' : MInv s') : SameTable s s' :=
  ⟨h.1, h.2.1, h.2.2.1, h.2.2.2.1, h.2.2.2.2, hi, hi'⟩

theorem SameCore.refl (s : MState) : SameCore s s := ⟨rfl, rfl, rfl, rfl, rfl⟩
theorem SameCore.symm {s s' : MState} (h : SameCore s s') : SameCore s' s :=
  ⟨h.1.symm, h.2.1.symm, h.2.2.1.symm, h.2.2.2.1.symm, h.2.2.2.2.symm⟩
theorem SameCore.trans {a b c : MState} (h1 : SameCore a b) (h2 : SameCore b c) : SameCore a c :=
  ⟨h2.1.trans h1.1, h2.2.1.trans h1.2.1, h2.2.2.1.trans h1.2.2.1, h2.2.2.2.1.trans h1.2.2.2.1,
   h2.2.2.2.2.trans h1.2.2.2.2⟩
theorem SameTable.refl {s : MState} (hi : MInv s) : SameTable s s := SameTable.mk' (SameCore.refl s) hi hi
theorem SameTable.symm {s s' : MState} (h : SameTable s s') : SameTable s' s :=
  SameTable.mk' h.core.symm h.right h.left
theorem SameTable.trans {a b c : MState} (h1 : SameTable a b) (h2 : SameTable b c) : SameTable a c :=
  SameTable.mk' (h1.core.trans h2.core) h1.left h2.right

/-- the second state is the first with other indices and another event log -/
theorem SameCore.form {s s' : MState} (h : SameCore s s') : s' = { s with idx := s'.idx, trace := s'.trace } := by
  cases s; cases s'
  simp only [SameCore] at h
  obtain ⟨rfl, rfl, rfl, rfl, rfl⟩ := h
  rfl

/-! ### nothing that runs reads the indices or the event log -/

theorem writeRef_core {s s' : MState} (h : SameCore s s') (p : Path) (v : Val) :
    SameCore (writeRef s p v).1 (writeRef s' p v).1 ∧ (writeRef s' p v).2 = (writeRef s p v).2 := by
  rw [h.form]
  generalize s'.idx = m
  generalize s'.trace = tr
  unfold writeRef
  simp only
  split
  · exact ⟨⟨rfl, rfl, rfl, rfl, rfl⟩, rfl⟩
  · split <;> exact ⟨⟨rfl, rfl, rfl, rfl, rfl⟩, rfl⟩

theorem evalE_core {s s' : MState} (h : SameCore s s') (e : Expr) : evalE s' e = evalE s e := by
  unfold evalE; rw [h.2.1]

theorem runBody_core : ∀ (body : List (Path × Expr)) {s s' : MState}, SameCore s s' →
    SameCore (runBody s body).1 (runBody s' body).1 ∧ (runBody s' body).2 = (runBody s body).2
  | [], _, _, h => ⟨h, rfl⟩
  | (p, e) :: rest, s, s', h => by
    simp only [runBody]
    rw [evalE_core h e]
    cases evalE s e with
    | error x => exact ⟨h, rfl⟩
    | ok v =>
      simp only
      have hw := writeRef_core h p v
      generalize writeRef s p v = r at hw
      generalize writeRef s' p v = r' at hw
      obtain ⟨s1, x⟩ := r
      obtain ⟨s1', x'⟩ := r'
      simp only at hw
      obtain ⟨hc, rfl⟩ := hw
      cases x' with
      | some x => exact ⟨hc, rfl⟩
      | none => exact runBody_core rest hc

theorem runKnobLoop_core (delta : Val) : ∀ (l : List (Int × Path)) {s s' : MState}, SameCore s s' →
    SameCore (runKnobLoop s delta l).1 (runKnobLoop s' delta l).1 ∧
      (runKnobLoop s' delta l).2 = (runKnobLoop s delta l).2
  | [], _, _, h => ⟨h, rfl⟩
  | (w, t) :: rest, s, s', h => by
    simp only [runKnobLoop]
    rw [h.2.1]
    cases get s.store t with
    | error x => exact ⟨h, rfl⟩
    | ok old =>
      simp only
      cases pyBin "Mul" (.int w) delta with
      | error x => exact ⟨h, rfl⟩
      | ok wd =>
        simp only
        cases pyBin "Add" old wd with
        | error x => exact ⟨h, rfl⟩
        | ok nv =>
          simp only
          have hw := writeRef_core h t nv
          generalize writeRef s t nv = r at hw
          generalize writeRef s' t nv = r' at hw
          obtain ⟨s1, x⟩ := r
          obtain ⟨s1', x'⟩ := r'
          simp only at hw
          obtain ⟨hc, rfl⟩ := hw
          cases x' with
          | some x => exact ⟨hc, rfl⟩
          | none => exact runKnobLoop_core delta rest hc

/-- `task.run()` of any kind of task reads and writes the containers, the knob memory and the fault counter only -/
theorem runTask_core {s s' : MState} (h : SameCore s s') (t : MTask) :
    SameCore (runTask s t).1 (runTask s' t).1 ∧ (runTask s' t).2 = (runTask s t).2 := by
  unfold runTask
  cases t.kind with
  | expr e =>
    simp only
    rw [evalE_core h e]
    cases evalE s e with
    | error x => exact ⟨h, rfl⟩
    | ok v => exact writeRef_core h t.id v
  | func body =>
    simp only
    have h0 : SameCore { s with trace := s.trace ++ [(false, t.id)] } { s' with trace := s'.trace ++ [(false, t.id)] } := h
    have hb := runBody_core body h0
    generalize runBody { s with trace := s.trace ++ [(false, t.id)] } body = r at hb
    generalize runBody { s' with trace := s'.trace ++ [(false, t.id)] } body = r' at hb
    obtain ⟨s1, x⟩ := r
    obtain ⟨s1', x'⟩ := r'
    exact ⟨hb.1, hb.2⟩
  | knob src ws tars =>
    simp only
    rw [h.2.1, h.2.2.2.1]
    cases get s.store src with
    | error x => exact ⟨h, rfl⟩
    | ok value =>
      simp only
      cases pyBin "Sub" value (lookPrev s.prev t.id) with
      | error x => exact ⟨h, rfl⟩
      | ok delta =>
        simp only
        have hk := runKnobLoop_core delta (ws.zip tars) h
        generalize runKnobLoop s delta (ws.zip tars) = r at hk
        generalize runKnobLoop s' delta (ws.zip tars) = r' at hk
        obtain ⟨s1, x⟩ := r
        obtain ⟨s1', x'⟩ := r'
        simp only at hk
        obtain ⟨hc, rfl⟩ := hk
        cases x' with
        | some x => exact ⟨hc, rfl⟩
        | none =>
          refine ⟨⟨hc.1, hc.2.1, hc.2.2.1, ?_, hc.2.2.2.2⟩, rfl⟩
          show setPrev s1'.prev t.id value = setPrev s1.prev t.id value
          rw [hc.2.2.2.1]

theorem runTasks_core : ∀ (l : List MTask) {s s' : MState}, SameCore s s' →
    SameCore (runTasks s l).1 (runTasks s' l).1 ∧ (runTasks s' l).2 = (runTasks s l).2
  | [], _, _, h => ⟨h, rfl⟩
  | t :: l, s, s', h => by
    simp only [runTasks]
    have ht := runTask_core h t
    generalize runTask s t = r at ht
    generalize runTask s' t = r' at ht
    obtain ⟨s1, x⟩ := r
    obtain ⟨s1', x'⟩ := r'
    simp only at ht
    obtain ⟨hc, rfl⟩ := ht
    cases x' with
    | some x => exact ⟨hc, rfl⟩
    | none => exact runTasks_core l hc

/-- `write + run_tasks` with a given execution list -/
theorem runList_core {s s' : MState} (h : SameCore s s') (p : Path) (v : Val) (π : List Path) :
    SameCore (runList s p v π).1 (runList s' p v π).1 ∧ (runList s' p v π).2 = (runList s p v π).2 := by
  unfold runList
  have hw := writeRef_core h p v
  generalize writeRef s p v = r at hw
  generalize writeRef s' p v = r' at hw
  obtain ⟨s1, x⟩ := r
  obtain ⟨s1', x'⟩ := r'
  simp only at hw
  obtain ⟨hc, rfl⟩ := hw
  cases x' with
  | some x => exact ⟨hc, rfl⟩
  | none =>
    simp only
    rw [hc.1]
    cases π.mapM (lookTask s1.defs) with
    | error x => exact ⟨hc, rfl⟩
    | ok l => exact runTasks_core l hc

/-! ### the structural operations: the task table, the flag and the knob memory change in the same way -/

theorem register_core {s s' : MState} (h : SameCore s s') (t : MTask) :
    SameCore (register s t).1 (register s' t).1 ∧ (register s' t).2 = (register s t).2 := by
  rw [h.form]
  generalize s'.idx = m
  generalize s'.trace = tr
  unfold register
  simp only
  split
  · exact ⟨⟨rfl, rfl, rfl, rfl, rfl⟩, rfl⟩
  · exact ⟨⟨rfl, rfl, rfl, rfl, rfl⟩, rfl⟩

theorem unregister_core {s s' : MState} (h : SameCore s s') (id : Path) :
    SameCore (unregister s id).1 (unregister s' id).1 ∧ (unregister s' id).2 = (unregister s id).2 := by
  rw [h.form]
  generalize s'.idx = m
  generalize s'.trace = tr
  unfold unregister
  simp only
  split
  · exact ⟨⟨rfl, rfl, rfl, rfl, rfl⟩, rfl⟩
  · split <;> exact ⟨⟨rfl, rfl, rfl, rfl, rfl⟩, rfl⟩

theorem load_core (ow : Bool) : ∀ (pairs : List (Path × Expr)) {s s' : MState}, SameCore s s' →
    SameCore (load s ow pairs).1 (load s' ow pairs).1 ∧ (load s' ow pairs).2 = (load s ow pairs).2
  | [], _, _, h => ⟨h, rfl⟩
  | (p, e) :: rest, s, s', h => by
    simp only [load]
    rw [h.1]
    cases lookDef s.defs p with
    | some t0 =>
      simp only
      cases ow with
      | false => simpa using load_core false rest h
      | true =>
        simp only [if_true]
        have hu := unregister_core h p
        generalize unregister s p = r at hu
        generalize unregister s' p = r' at hu
        obtain ⟨s1, x⟩ := r
        obtain ⟨s1', x'⟩ := r'
        simp only at hu
        obtain ⟨hc, rfl⟩ := hu
        cases x' with
        | some x => exact ⟨hc, rfl⟩
        | none =>
          simp only
          have hr := register_core hc (mkExprTask p e)
          generalize register s1 (mkExprTask p e) = r at hr
          generalize register s1' (mkExprTask p e) = r' at hr
          obtain ⟨s2, x⟩ := r
          obtain ⟨s2', x'⟩ := r'
          simp only at hr
          obtain ⟨hc2, rfl⟩ := hr
          cases x' with
          | some x => exact ⟨hc2, rfl⟩
          | none => exact load_core true rest hc2
    | none =>
      simp only
      have hr := register_core h (mkExprTask p e)
      generalize register s (mkExprTask p e) = r at hr
      generalize register s' (mkExprTask p e) = r' at hr
      obtain ⟨s2, x⟩ := r
      obtain ⟨s2', x'⟩ := r'
      simp only at hr
      obtain ⟨hc2, rfl⟩ := hr
      cases x' with
      | some x => exact ⟨hc2, rfl⟩
      | none => exact load_core ow rest hc2

theorem cleanup_core {s s' : MState} (h : SameCore s s') : SameCore (cleanup s) (cleanup s') := h

theorem refresh_core {s s' : MState} (h : SameCore s s') :
    SameCore (refresh s).1 (refresh s').1 ∧ (refresh s').2 = (refresh s).2 := by
  unfold refresh
  rw [h.2.2.1]
  split
  · exact ⟨h, rfl⟩
  · exact ⟨⟨h.1, h.2.1, rfl, h.2.2.2.1, h.2.2.2.2⟩, rfl⟩

theorem verify_core {s s' : MState} (h : SameCore s s') : SameCore (verify s).1 (verify s').1 := by
  unfold verify
  simp only
  split <;> split <;> exact h

/-! ### assignments: the same outcome under any legal schedules on the two sides -/

theorem preState_core {s s' : MState} (h : SameCore s s') (p : Path) : SameCore (preState s p) (preState s' p) := by
  unfold preState
  rw [h.1]
  cases lookDef s.defs p with
  | none => exact h
  | some t => exact (unregister_core h p).1

theorem defPart_core {s s' : MState} (h : SameCore s s') (p : Path) (e : Expr) :
    SameCore (defPart s p e) (defPart s' p e) :=
  (register_core (preState_core h p) (mkExprTask p e)).1

theorem setValue_eq_pre (sched : Sched) (s : MState) (p : Path) (v : Val)
    (hf : lookDef s.defs p ≠ none → s.frozen = false) :
    setValue sched s p v = writeAndRun sched (preState s p) p v := by
  unfold setValue preState
  cases hl : lookDef s.defs p with
  | none => rfl
  | some t =>
    simp only
    obtain ⟨hnone, _⟩ := unregister_present_eq s p t (hf (by simp [hl])) hl
    generalize unregister s p = r at hnone
    obtain ⟨s0, x0⟩ := r
    simp only at hnone
    subst hnone
    rfl

theorem setExpr_eq_def (sched : Sched) (s : MState) (p : Path) (e : Expr) (v : Val) (hf : s.frozen = false)
    (hev : evalE (defPart s p e) e = .ok v) :
    setExpr sched s p e = writeAndRun sched (defPart s p e) p v := by
  unfold setExpr
  unfold defPart at hev ⊢
  cases hl : lookDef s.defs p with
  | some t =>
    simp only [hl] at hev ⊢
    have hu : (unregister s p).2 = none := by simp [unregister, hf, hl]
    have hfz : (unregister s p).1.frozen = false := by simp [unregister, hf, hl]
    generalize unregister s p = r at hu hfz hev
    obtain ⟨s0, x0⟩ := r
    simp only at hu hfz
    subst hu
    simp only at hev ⊢
    have hr : (register s0 (mkExprTask p e)).2 = none := by simp [register, hfz]
    generalize register s0 (mkExprTask p e) = r at hr hev
    obtain ⟨s1, x1⟩ := r
    simp only at hr
    subst hr
    simp only at hev ⊢
    rw [hev]
  | none =>
    simp only [hl] at hev ⊢
    have hr : (register s (mkExprTask p e)).2 = none := by simp [register, hf]
    generalize register s (mkExprTask p e) = r at hr hev
    obtain ⟨s1, x1⟩ := r
    simp only at hr
    subst hr
    simp only at hev ⊢
    rw [hev]

/-- the common part of the two assignment theorems: a completed `write + run_tasks` in scope has the same outcome
    on a state with other indices, whatever legal schedule that state's manager uses -/
theorem writeAndRun_bisim (sched1 sched2 : Sched) (s s' : MState) (p : Path) (v : Val) (hc : SameCore s s')
    (hi : MInv s) (hi' : MInv s') (sc : Scope s p)
    (hvs1 : ValidSched (gOf s.idx) (findTaskids s.idx (chainR p)) (sched1 (findTaskids s.idx (chainR p))))
    (hvs2 : ValidSched (gOf s'.idx) (findTaskids s'.idx (chainR p)) (sched2 (findTaskids s'.idx (chainR p))))
    (hexist : ∀ t ∈ s.defs, t.id ≠ p → ∃ w, get s.store t.id = .ok w)
    (hok : (writeAndRun sched1 s p v).2 = none) :
    (writeAndRun sched2 s' p v).2 = none ∧ SameCore (writeAndRun sched1 s p v).1 (writeAndRun sched2 s' p v).1 := by
  have hok' : writeAndRun sched1 s p v = ((writeAndRun sched1 s p v).1, none) := by rw [← hok]
  have hvs2' := validSched_transfer s s' hi hi' hc.1 (chainR p) _ hvs2
  obtain ⟨s2, h2, e1, e2, _, e4, e5, e6⟩ := writeAndRun_sched_indep sched1
    (fun _ => sched2 (findTaskids s'.idx (chainR p))) s p v hi sc hvs1 hvs2' hexist _ hok'
  rw [writeAndRun_eq_runList] at h2
  have hr := runList_core hc p v (sched2 (findTaskids s'.idx (chainR p)))
  rw [h2] at hr
  rw [writeAndRun_eq_runList sched2 s' p v]
  refine ⟨hr.2, SameCore.trans ⟨e2, e1, e4, e5, e6⟩ hr.1⟩

/-- **`set_value(ref, value)` on two managers with the same task table**: if the assignment is in C01's scope and
    completes on the first under a legal schedule, it completes on the second under any schedule legal there, and
    the two end with the same task table, containers, flag, knob memory and fault counter. -/
theorem setValue_bisim (sched1 sched2 : Sched) (s s' : MState) (p : Path) (v : Val) (h : SameTable s s')
    (hc : Consistent s) (sc : Scope (preState s p) p)
    (hvs1 : ValidSched (gOf (preState s p).idx) (findTaskids (preState s p).idx (chainR p))
      (sched1 (findTaskids (preState s p).idx (chainR p))))
    (hvs2 : ValidSched (gOf (preState s' p).idx) (findTaskids (preState s' p).idx (chainR p))
      (sched2 (findTaskids (preState s' p).idx (chainR p))))
    (hok : (setValue sched1 s p v).2 = none) :
    (setValue sched2 s' p v).2 = none ∧ SameTable (setValue sched1 s p v).1 (setValue sched2 s' p v).1 := by
  have hcore := h.core
  have hf : lookDef s.defs p ≠ none → s.frozen = false := by
    intro hne
    cases hl : lookDef s.defs p with
    | none => exact absurd hl hne
    | some t =>
      cases hfz : s.frozen with
      | false => rfl
      | true =>
        rw [setValue_frozen_defined sched1 s p v t hfz hl] at hok
        cases hok
  have hf' : lookDef s'.defs p ≠ none → s'.frozen = false := by
    rw [hcore.1, hcore.2.2.1]; exact hf
  obtain ⟨hi0, hst, _, _, _, hsub⟩ := preState_facts s p h.left hf
  obtain ⟨hi0', _⟩ := preState_facts s' p h.right hf'
  rw [setValue_eq_pre sched1 s p v hf] at hok ⊢
  rw [setValue_eq_pre sched2 s' p v hf']
  obtain ⟨h1, h2⟩ := writeAndRun_bisim sched1 sched2 (preState s p) (preState s' p) p v (preState_core hcore p)
    hi0 hi0' sc hvs1 hvs2
    (fun t ht _ => by
      obtain ⟨w, _, hw⟩ := hc t (hsub t ht).1
      exact ⟨w, by rw [hst]; exact hw⟩) hok
  refine ⟨h1, SameTable.mk' h2 ?_ ?_⟩
  · rw [← setValue_eq_pre sched1 s p v hf]; exact setValue_MInv sched1 s p v h.left
  · rw [← setValue_eq_pre sched2 s' p v hf']; exact setValue_MInv sched2 s' p v h.right

/-- **`set_value(ref, expression)` on two managers with the same task table.** -/
theorem setExpr_bisim (sched1 sched2 : Sched) (s s' : MState) (p : Path) (e : Expr) (h : SameTable s s')
    (hc : Consistent s) (sc : Scope (defPart s p e) p)
    (hvs1 : ValidSched (gOf (defPart s p e).idx) (findTaskids (defPart s p e).idx (chainR p))
      (sched1 (findTaskids (defPart s p e).idx (chainR p))))
    (hvs2 : ValidSched (gOf (defPart s' p e).idx) (findTaskids (defPart s' p e).idx (chainR p))
      (sched2 (findTaskids (defPart s' p e).idx (chainR p))))
    (hok : (setExpr sched1 s p e).2 = none) :
    (setExpr sched2 s' p e).2 = none ∧ SameTable (setExpr sched1 s p e).1 (setExpr sched2 s' p e).1 := by
  have hcore := h.core
  have hf : s.frozen = false := by
    cases hfz : s.frozen with
    | false => rfl
    | true =>
      rw [setExpr_frozen sched1 s p e hfz] at hok
      cases hok
  have hf' : s'.frozen = false := by rw [hcore.2.2.1]; exact hf
  have hok' : setExpr sched1 s p e = ((setExpr sched1 s p e).1, none) := by rw [← hok]
  obtain ⟨v, hev, _⟩ := setExpr_eq sched1 s p e _ hf hok'
  have hdc := defPart_core hcore p e
  have hev' : evalE (defPart s' p e) e = .ok v := by rw [evalE_core hdc e]; exact hev
  obtain ⟨hi0, hst, hsub⟩ := defPart_facts s p e h.left hf
  obtain ⟨hi0', _, _⟩ := defPart_facts s' p e h.right hf'
  have hm := setExpr_MInv sched1 s p e h.left
  have hm' := setExpr_MInv sched2 s' p e h.right
  rw [setExpr_eq_def sched1 s p e v hf hev] at hok hm ⊢
  rw [setExpr_eq_def sched2 s' p e v hf' hev'] at hm' ⊢
  obtain ⟨h1, h2⟩ := writeAndRun_bisim sched1 sched2 (defPart s p e) (defPart s' p e) p v hdc hi0 hi0' sc hvs1 hvs2
    (by
      intro t ht hne
      rcases hsub t ht with ⟨h1, _⟩ | h
      · obtain ⟨w, _, hw⟩ := hc t h1
        exact ⟨w, by rw [hst]; exact hw⟩
      · exact absurd (by rw [h]; rfl) hne) hok
  exact ⟨h1, SameTable.mk' h2 hm hm'⟩

/-! ### in-place operators -/

theorem inplaceCall_core {s s' : MState} (h : SameCore s s') (op : String) (p : Path) (operand : Expr) :
    inplaceCall s' op p operand = inplaceCall s op p operand := by
  unfold inplaceCall exprOf
  rw [h.1, h.2.1]

/-- an in-place operator that raises before it assigns anything leaves the state alone, with an error that depends
    on the task table and the containers only -/
theorem inplace_none_core (sched1 sched2 : Sched) {s s' : MState} (h : SameCore s s') (op : String) (p : Path)
    (operand : Expr) (hn : inplaceCall s op p operand = none) :
    (inplace sched1 s op p operand).1 = s ∧ (inplace sched2 s' op p operand).1 = s' ∧
      (inplace sched2 s' op p operand).2 = (inplace sched1 s op p operand).2 := by
  have hn' := hn
  rw [← inplaceCall_core h] at hn'
  unfold inplaceCall at hn hn'
  unfold inplace
  have he : exprOf s' p = exprOf s p := by unfold exprOf; rw [h.1]
  rw [he] at hn' ⊢
  rw [h.2.1] at hn' ⊢
  cases hx : exprOf s p with
  | some e => simp [hx] at hn
  | none =>
    simp only [hx] at hn ⊢
    cases hg : get s.store p with
    | error x => exact ⟨rfl, rfl, rfl⟩
    | ok old =>
      simp only [hg] at hn ⊢
      cases operand with
      | lit w =>
        simp only at hn ⊢
        cases hb : pyBinRaw op old w with
        | error x => exact ⟨rfl, rfl, rfl⟩
        | ok v => simp [hb] at hn
      | ref r => simp at hn
      | bin o l r => simp at hn
      | un o a => simp at hn

/-! ## one call -/

/-- the hypotheses of `setValue_bisim`, at the two states where the call is made -/
def SetValueOK (sched1 sched2 : Sched) (s s' : MState) (p : Path) (v : Val) : Prop :=
  Consistent s ∧ Scope (preState s p) p ∧
  ValidSched (gOf (preState s p).idx) (findTaskids (preState s p).idx (chainR p))
    (sched1 (findTaskids (preState s p).idx (chainR p))) ∧
  ValidSched (gOf (preState s' p).idx) (findTaskids (preState s' p).idx (chainR p))
    (sched2 (findTaskids (preState s' p).idx (chainR p))) ∧
  (setValue sched1 s p v).2 = none

/-- the hypotheses of `setExpr_bisim`, at the two states where the call is made -/
def SetExprOK (sched1 sched2 : Sched) (s s' : MState) (p : Path) (e : Expr) : Prop :=
  Consistent s ∧ Scope (defPart s p e) p ∧
  ValidSched (gOf (defPart s p e).idx) (findTaskids (defPart s p e).idx (chainR p))
    (sched1 (findTaskids (defPart s p e).idx (chainR p))) ∧
  ValidSched (gOf (defPart s' p e).idx) (findTaskids (defPart s' p e).idx (chainR p))
    (sched2 (findTaskids (defPart s' p e).idx (chainR p))) ∧
  (setExpr sched1 s p e).2 = none

/-- What is asked of a call made in the related states `s` (first manager, scheduler `sched1`) and `s'` (second
    manager, scheduler `sched2`):
    * `register`: a fresh id and duplicate-free declared sets (`WFCall`, as in C03);
    * `unregister`, `load`, `refresh`, `cleanup`, `verify`: nothing;
    * `set_value` with a value or an expression: the state is consistent, the assignment is in C01's scope, both
      schedulers return a legal order for their own indices, and the assignment completes on the first manager;
    * an in-place operator: the same for the assignment it reduces to (`inplaceCall`); nothing if it raises before
      assigning. -/
def CallOK (sched1 sched2 : Sched) (s s' : MState) : Call → Prop
  | .setValue p v => SetValueOK sched1 sched2 s s' p v
  | .setExpr p e => SetExprOK sched1 sched2 s s' p e
  | .inplace op p operand =>
    match inplaceCall s op p operand with
    | some (.setValue q v) => SetValueOK sched1 sched2 s s' q v
    | some (.setExpr q e) => SetExprOK sched1 sched2 s s' q e
    | some _ => False
    | none => True
  | .register t => lookDef s.defs t.id = none ∧ t.deps.Nodup ∧ t.tars.Nodup
  | _ => True

theorem CallOK_WFCall {sched1 sched2 : Sched} {s s' : MState} {c : Call} (h : CallOK sched1 sched2 s s' c) :
    WFCall s c := by
  cases c <;> first | exact h | trivial

/-- **one call keeps two managers with the same task table related, and returns the same error on both** -/
theorem apply_bisim (sched1 sched2 : Sched) (s s' : MState) (c : Call) (h : SameTable s s')
    (hc : CallOK sched1 sched2 s s' c) :
    (apply sched2 s' c).2 = (apply sched1 s c).2 ∧ SameTable (apply sched1 s c).1 (apply sched2 s' c).1 := by
  have hw : WFCall s c := CallOK_WFCall hc
  have hw' : WFCall s' c := by
    cases c <;> first | trivial | (rw [WFCall, h.1]; exact hw)
  have hm := apply_MInv sched1 s c h.left hw
  have hm' := apply_MInv sched2 s' c h.right hw'
  have hcore := h.core
  cases c with
  | setValue p v =>
    obtain ⟨h1, h2, h3, h4, h5⟩ := hc
    obtain ⟨a, b⟩ := setValue_bisim sched1 sched2 s s' p v h h1 h2 h3 h4 h5
    exact ⟨by simp only [apply]; rw [a, h5], b⟩
  | setExpr p e =>
    obtain ⟨h1, h2, h3, h4, h5⟩ := hc
    obtain ⟨a, b⟩ := setExpr_bisim sched1 sched2 s s' p e h h1 h2 h3 h4 h5
    exact ⟨by simp only [apply]; rw [a, h5], b⟩
  | inplace op p operand =>
    simp only [CallOK] at hc
    simp only [apply] at hm hm' ⊢
    cases hcall : inplaceCall s op p operand with
    | none =>
      obtain ⟨a, b, e⟩ := inplace_none_core sched1 sched2 hcore op p operand hcall
      refine ⟨e, ?_⟩
      rw [a, b]; exact h
    | some c0 =>
      have heq := inplace_eq sched1 s op p operand c0 hcall
      have heq' := inplace_eq sched2 s' op p operand c0 (by rw [inplaceCall_core hcore]; exact hcall)
      rw [heq, heq']
      cases c0 with
      | setValue q v =>
        simp only [hcall] at hc
        obtain ⟨h1, h2, h3, h4, h5⟩ := hc
        obtain ⟨a, b⟩ := setValue_bisim sched1 sched2 s s' q v h h1 h2 h3 h4 h5
        exact ⟨by simp only [apply]; rw [a, h5], b⟩
      | setExpr q e =>
        simp only [hcall] at hc
        obtain ⟨h1, h2, h3, h4, h5⟩ := hc
        obtain ⟨a, b⟩ := setExpr_bisim sched1 sched2 s s' q e h h1 h2 h3 h4 h5
        exact ⟨by simp only [apply]; rw [a, h5], b⟩
      | inplace _ _ _ => simp [hcall] at hc
      | register _ => simp [hcall] at hc
      | unregister _ => simp [hcall] at hc
      | load _ _ => simp [hcall] at hc
      | refresh => simp [hcall] at hc
      | cleanup => simp [hcall] at hc
      | verify => simp [hcall] at hc
  | register t => exact ⟨(register_core hcore t).2, SameTable.mk' (register_core hcore t).1 hm hm'⟩
  | unregister id => exact ⟨(unregister_core hcore id).2, SameTable.mk' (unregister_core hcore id).1 hm hm'⟩
  | load ow pairs => exact ⟨(load_core ow pairs hcore).2, SameTable.mk' (load_core ow pairs hcore).1 hm hm'⟩
  | refresh => exact ⟨(refresh_core hcore).2, SameTable.mk' (refresh_core hcore).1 hm hm'⟩
  | cleanup => exact ⟨rfl, SameTable.mk' (cleanup_core hcore) hm hm'⟩
  | verify =>
    refine ⟨?_, SameTable.mk' (verify_core hcore) hm hm'⟩
    show (verify s').2 = (verify s).2
    rw [verify_passes s h.left, verify_passes s' h.right]

/-! ## histories -/

/-- the outcomes (state after the call, error) of the calls of a history, one after the other -/
def outcomes (sched : Sched) : MState → List Call → List Res
  | _, [] => []
  | s, c :: cs => apply sched s c :: outcomes sched (apply sched s c).1 cs

/-- two lists of outcomes of the same length: position by position the same error and related states -/
def RelatedOutcomes : List Res → List Res → Prop
  | [], [] => True
  | r :: rs, r' :: rs' => (r'.2 = r.2 ∧ SameTable r.1 r'.1) ∧ RelatedOutcomes rs rs'
  | _, _ => False

/-- every call of the history satisfies `CallOK` in the pair of states where it is made -/
def BisimRun (sched1 sched2 : Sched) : MState → MState → List Call → Prop
  | _, _, [] => True
  | s, s', c :: cs => CallOK sched1 sched2 s s' c ∧ BisimRun sched1 sched2 (apply sched1 s c).1 (apply sched2 s' c).1 cs

/-- **bisimulation over histories**: two managers with the same task table, run through the same good history
    with their own (legal) schedulers, return the same error at every call and stay related after every call -/
theorem bisim_history (sched1 sched2 : Sched) : ∀ (cs : List Call) (s s' : MState), SameTable s s' →
    BisimRun sched1 sched2 s s' cs →
    RelatedOutcomes (outcomes sched1 s cs) (outcomes sched2 s' cs)
  | [], _, _, _, _ => trivial
  | c :: cs, s, s', h, hg => by
    obtain ⟨h1, h2⟩ := apply_bisim sched1 sched2 s s' c h hg.1
    exact ⟨⟨h1, h2⟩, bisim_history sched1 sched2 cs _ _ h2 hg.2⟩

theorem outcomes_length (sched : Sched) : ∀ (cs : List Call) (s : MState), (outcomes sched s cs).length = cs.length
  | [], _ => rfl
  | c :: cs, s => by simp [outcomes, outcomes_length sched cs]

/-- the same errors, call by call -/
theorem bisim_history_errors (sched1 sched2 : Sched) : ∀ (cs : List Call) (s s' : MState), SameTable s s' →
    BisimRun sched1 sched2 s s' cs →
    (outcomes sched2 s' cs).map (·.2) = (outcomes sched1 s cs).map (·.2)
  | [], _, _, _, _ => rfl
  | c :: cs, s, s', h, hg => by
    obtain ⟨h1, h2⟩ := apply_bisim sched1 sched2 s s' c h hg.1
    simp only [outcomes, List.map_cons, h1, bisim_history_errors sched1 sched2 cs _ _ h2 hg.2]

/-- the final states are related -/
theorem bisim_history_final (sched1 sched2 : Sched) : ∀ (cs : List Call) (s s' : MState), SameTable s s' →
    BisimRun sched1 sched2 s s' cs → SameTable (applyAll sched1 s cs) (applyAll sched2 s' cs)
  | [], _, _, h, _ => h
  | c :: cs, s, s', h, hg => by
    obtain ⟨_, h2⟩ := apply_bisim sched1 sched2 s s' c h hg.1
    exact bisim_history_final sched1 sched2 cs _ _ h2 hg.2

/-- the self-check passes after every good history -/
theorem bisim_history_verify (sched1 sched2 : Sched) (cs : List Call) (s s' : MState) (h : SameTable s s')
    (hg : BisimRun sched1 sched2 s s' cs) :
    (verify (applyAll sched1 s cs)).2 = none ∧ (verify (applyAll sched2 s' cs)).2 = none :=
  ⟨verify_passes _ (bisim_history_final sched1 sched2 cs s s' h hg).left,
   verify_passes _ (bisim_history_final sched1 sched2 cs s s' h hg).right⟩

/-! ## the fresh manager loaded from a dump -/

/-- **C11 over histories**: load the dump of `s` into a fresh manager over the same containers.  The new manager has
    the same task table (other indices), and along every good history — each manager with its own legal scheduler —
    the two return the same errors call by call and keep the same task table, containers, flag, knob memory and
    fault counter. -/
theorem load_dump_bisim (s : MState) (ow : Bool) (hi : MInv s) (hfz : s.frozen = false) (hex : ExprDefs s.defs) :
    ∃ s', load (freshOver s) ow (dump s) = (s', none) ∧ SameTable s s' ∧
      ∀ (sched1 sched2 : Sched) (cs : List Call), BisimRun sched1 sched2 s s' cs →
        RelatedOutcomes (outcomes sched1 s cs) (outcomes sched2 s' cs) ∧
        (outcomes sched2 s' cs).map (·.2) = (outcomes sched1 s cs).map (·.2) ∧
        SameTable (applyAll sched1 s cs) (applyAll sched2 s' cs) := by
  obtain ⟨m, hm, hi'⟩ := load_dump_fresh s ow hi hfz hex
  have hst : SameTable s { s with idx := m } := ⟨rfl, rfl, rfl, rfl, rfl, hi, hi'⟩
  refine ⟨_, hm, hst, ?_⟩
  intro sched1 sched2 cs hg
  exact ⟨bisim_history sched1 sched2 cs _ _ hst hg, bisim_history_errors sched1 sched2 cs _ _ hst hg,
    bisim_history_final sched1 sched2 cs _ _ hst hg⟩

/-- the same for `refresh()` -/
theorem refresh_bisim (s : MState) (hi : MInv s) : SameTable s (refresh s).1 := by
  refine SameTable.mk' ?_ hi (refresh_MInv s hi)
  unfold refresh
  split <;> exact ⟨rfl, rfl, rfl, rfl, rfl⟩

/-! ### consistency along a history

`CallOK` asks for `Consistent s` at every assignment.  It need not be re-proved each time: every call other than
`register` and `load` (which install definitions without evaluating them) preserves it. -/

theorem Consistent_core {s s' : MState} (h : SameCore s s') (hc : Consistent s) : Consistent s' := by
  intro t ht
  rw [h.1] at ht
  rw [h.2.1]
  exact hc t ht

def keepsConsistency : Call → Bool
  | .register _ => false
  | .load _ _ => false
  | _ => true

theorem apply_consistent (sched1 sched2 : Sched) (s s' : MState) (c : Call) (h : SameTable s s')
    (hok : CallOK sched1 sched2 s s' c) (hc : Consistent s) (hk : keepsConsistency c = true) :
    Consistent (apply sched1 s c).1 ∧ Consistent (apply sched2 s' c).1 := by
  have hb := apply_bisim sched1 sched2 s s' c h hok
  suffices h1 : Consistent (apply sched1 s c).1 from ⟨h1, Consistent_core hb.2.core h1⟩
  have hi := h.left
  cases c with
  | setValue p v =>
    obtain ⟨_, sc, hvs, _, hok'⟩ := hok
    exact (setValue_consistent sched1 s p v hi hc sc hvs _ (by rw [← hok']; rfl)).1
  | setExpr p e =>
    obtain ⟨_, sc, hvs, _, hok'⟩ := hok
    exact (setExpr_consistent sched1 s p e hi hc sc hvs _ (by rw [← hok']; rfl)).1
  | inplace op p operand =>
    simp only [CallOK] at hok
    simp only [apply]
    cases hcall : inplaceCall s op p operand with
    | none =>
      rw [(inplace_none_core sched1 sched2 h.core op p operand hcall).1]; exact hc
    | some c0 =>
      rw [inplace_eq sched1 s op p operand c0 hcall]
      cases c0 with
      | setValue q v =>
        simp only [hcall] at hok
        obtain ⟨_, sc, hvs, _, hok'⟩ := hok
        exact (setValue_consistent sched1 s q v hi hc sc hvs _ (by rw [← hok']; rfl)).1
      | setExpr q e =>
        simp only [hcall] at hok
        obtain ⟨_, sc, hvs, _, hok'⟩ := hok
        exact (setExpr_consistent sched1 s q e hi hc sc hvs _ (by rw [← hok']; rfl)).1
      | inplace _ _ _ => simp [hcall] at hok
      | register _ => simp [hcall] at hok
      | unregister _ => simp [hcall] at hok
      | load _ _ => simp [hcall] at hok
      | refresh => simp [hcall] at hok
      | cleanup => simp [hcall] at hok
      | verify => simp [hcall] at hok
  | register t => simp [keepsConsistency] at hk
  | load _ _ => simp [keepsConsistency] at hk
  | unregister id => exact (unregister_consistent s id hi hc).1
  | refresh =>
    have hd := refresh_defs s
    intro t ht
    simp only [apply] at ht ⊢
    rw [hd.1] at ht; rw [hd.2]; exact hc t ht
  | cleanup => exact hc
  | verify =>
    have hd := verify_defs s
    intro t ht
    simp only [apply] at ht ⊢
    rw [hd.1] at ht; rw [hd.2.1]; exact hc t ht

/-! ## every hypothesis as a test that can be evaluated -/

-- `scalarEqB` / `scalarEqB_sound` come from XModel/ManagerFnHist.lean

/-- every expression-defined location holds the (scalar) value of its expression -/
def consistentB (s : MState) : Bool :=
  s.defs.all (fun t =>
    match eval pySem s.store (toE t).expr, get s.store t.id with
    | .ok v, .ok w => scalarEqB v w
    | _, _ => false)

theorem consistentB_sound (s : MState) (h : consistentB s = true) : Consistent s := by
  intro t ht
  unfold consistentB at h
  rw [List.all_eq_true] at h
  have := h t ht
  show ∃ v, eval pySem s.store (toE t).expr = .ok v ∧ get s.store (toE t).target = .ok v
  have htar : (toE t).target = t.id := rfl
  rw [htar]
  cases he : eval pySem s.store (toE t).expr with
  | error x => simp [he] at this
  | ok v =>
    cases hg : get s.store t.id with
    | error x => simp [he, hg] at this
    | ok w =>
      simp only [he, hg] at this
      rw [scalarEqB_sound v w this]
      exact ⟨w, rfl, rfl⟩

def setValueOKB (sched1 sched2 : Sched) (s s' : MState) (p : Path) (v : Val) : Bool :=
  consistentB s && scopeB (preState s p) p &&
  validSchedule (preState s p).idx (chainR p) (sched1 (findTaskids (preState s p).idx (chainR p))) &&
  acyclicFrom (preState s' p).idx (startOf (preState s' p).idx (chainR p)) &&
  validSchedule (preState s' p).idx (chainR p) (sched2 (findTaskids (preState s' p).idx (chainR p))) &&
  (setValue sched1 s p v).2.isNone

def setExprOKB (sched1 sched2 : Sched) (s s' : MState) (p : Path) (e : Expr) : Bool :=
  consistentB s && scopeB (defPart s p e) p &&
  validSchedule (defPart s p e).idx (chainR p) (sched1 (findTaskids (defPart s p e).idx (chainR p))) &&
  acyclicFrom (defPart s' p e).idx (startOf (defPart s' p e).idx (chainR p)) &&
  validSchedule (defPart s' p e).idx (chainR p) (sched2 (findTaskids (defPart s' p e).idx (chainR p))) &&
  (setExpr sched1 s p e).2.isNone

/-- `CallOK`, as a test -/
def callOKB (sched1 sched2 : Sched) (s s' : MState) : Call → Bool
  | .setValue p v => setValueOKB sched1 sched2 s s' p v
  | .setExpr p e => setExprOKB sched1 sched2 s s' p e
  | .inplace op p operand =>
    match inplaceCall s op p operand with
    | some (.setValue q v) => setValueOKB sched1 sched2 s s' q v
    | some (.setExpr q e) => setExprOKB sched1 sched2 s s' q e
    | some _ => false
    | none => true
  | .register t => (lookDef s.defs t.id).isNone && decide (dedup t.deps = t.deps) && decide (dedup t.tars = t.tars)
  | _ => true

/-- `BisimRun`, as a test -/
def bisimRunB (sched1 sched2 : Sched) : MState → MState → List Call → Bool
  | _, _, [] => true
  | s, s', c :: cs =>
    callOKB sched1 sched2 s s' c && bisimRunB sched1 sched2 (apply sched1 s c).1 (apply sched2 s' c).1 cs

theorem setValueOKB_sound (sched1 sched2 : Sched) (s s' : MState) (p : Path) (v : Val) (h : SameTable s s')
    (hb : setValueOKB sched1 sched2 s s' p v = true) : SetValueOK sched1 sched2 s s' p v := by
  simp only [setValueOKB, Bool.and_eq_true] at hb
  obtain ⟨⟨⟨⟨⟨hcb, hsc⟩, hv1⟩, hac2⟩, hv2⟩, hok⟩ := hb
  have hok' := isNone_eq _ hok
  have hf : lookDef s.defs p ≠ none → s.frozen = false := by
    intro hne
    cases hl : lookDef s.defs p with
    | none => exact absurd hl hne
    | some t =>
      cases hfz : s.frozen with
      | false => rfl
      | true =>
        rw [setValue_frozen_defined sched1 s p v t hfz hl] at hok'
        cases hok'
  have hi0 := (preState_facts s p h.left hf).1
  exact ⟨consistentB_sound s hcb, scopeB_sound _ hi0 p hsc,
    validSchedule_sound _ _ _ hv1 (scopeB_acyclic _ p hsc), validSchedule_sound _ _ _ hv2 hac2, hok'⟩

theorem setExprOKB_sound (sched1 sched2 : Sched) (s s' : MState) (p : Path) (e : Expr) (h : SameTable s s')
    (hb : setExprOKB sched1 sched2 s s' p e = true) : SetExprOK sched1 sched2 s s' p e := by
  simp only [setExprOKB, Bool.and_eq_true] at hb
  obtain ⟨⟨⟨⟨⟨hcb, hsc⟩, hv1⟩, hac2⟩, hv2⟩, hok⟩ := hb
  have hok' := isNone_eq _ hok
  have hf : s.frozen = false := by
    cases hfz : s.frozen with
    | false => rfl
    | true =>
      rw [setExpr_frozen sched1 s p e hfz] at hok'
      cases hok'
  have hi0 := (defPart_facts s p e h.left hf).1
  exact ⟨consistentB_sound s hcb, scopeB_sound _ hi0 p hsc,
    validSchedule_sound _ _ _ hv1 (scopeB_acyclic _ p hsc), validSchedule_sound _ _ _ hv2 hac2, hok'⟩

theorem callOKB_sound (sched1 sched2 : Sched) (s s' : MState) (c : Call) (h : SameTable s s')
    (hb : callOKB sched1 sched2 s s' c = true) : CallOK sched1 sched2 s s' c := by
  cases c with
  | setValue p v => exact setValueOKB_sound sched1 sched2 s s' p v h hb
  | setExpr p e => exact setExprOKB_sound sched1 sched2 s s' p e h hb
  | inplace op p operand =>
    simp only [callOKB] at hb
    simp only [CallOK]
    cases hcall : inplaceCall s op p operand with
    | none => trivial
    | some c0 =>
      cases c0 with
      | setValue q v => simp only [hcall] at hb ⊢; exact setValueOKB_sound sched1 sched2 s s' q v h hb
      | setExpr q e => simp only [hcall] at hb ⊢; exact setExprOKB_sound sched1 sched2 s s' q e h hb
      | inplace _ _ _ => simp [hcall] at hb
      | register _ => simp [hcall] at hb
      | unregister _ => simp [hcall] at hb
      | load _ _ => simp [hcall] at hb
      | refresh => simp [hcall] at hb
      | cleanup => simp [hcall] at hb
      | verify => simp [hcall] at hb
  | register t =>
    simp only [callOKB, Bool.and_eq_true, decide_eq_true_eq] at hb
    obtain ⟨⟨h1, h2⟩, h3⟩ := hb
    exact ⟨isNone_eq _ h1, by rw [← h2]; exact dedup_nodup _, by rw [← h3]; exact dedup_nodup _⟩
  | unregister _ => trivial
  | load _ _ => trivial
  | refresh => trivial
  | cleanup => trivial
  | verify => trivial

/-- a history accepted line by line by the test is a good history -/
theorem bisimRunB_sound (sched1 sched2 : Sched) : ∀ (cs : List Call) (s s' : MState), SameTable s s' →
    bisimRunB sched1 sched2 s s' cs = true → BisimRun sched1 sched2 s s' cs
  | [], _, _, _, _ => trivial
  | c :: cs, s, s', h, hb => by
    simp only [bisimRunB, Bool.and_eq_true] at hb
    have hc := callOKB_sound sched1 sched2 s s' c h hb.1
    exact ⟨hc, bisimRunB_sound sched1 sched2 cs _ _ (apply_bisim sched1 sched2 s s' c h hc).2 hb.2⟩

end Manager

/-! ## non-vacuity: a concrete pair of managers and a concrete history

`c = a + b`, `f = a * 2`, `e = c * a` (the last one defined twice, so the original manager's indices carry emptied
rows and another row order than those of the manager loaded from its dump).  The first manager runs its tasks in the
order `find_taskids` returns, the second one moves `f` to the end — another legal order.  The history contains every
kind of call: assignments of values and expressions, in-place operators (one of which raises before assigning),
`verify`, `cleanup`, `unregister` (once successfully, once of an unknown id), `refresh`, a `load` that registers one
pair and skips another, an assignment that overwrites a definition by a value, and the registration of a function task. -/
namespace BisimExample
open Manager Store Push Index

def da : Path := [.item (.str "d"), .item (.str "a")]
def db : Path := [.item (.str "d"), .item (.str "b")]
def dc : Path := [.item (.str "d"), .item (.str "c")]
def de : Path := [.item (.str "d"), .item (.str "e")]
def df : Path := [.item (.str "d"), .item (.str "f")]
def dz : Path := [.item (.str "d"), .item (.str "zz")]
def s0 : MState :=
  { MState.init with store := .dict [(.str "d", .dict [(.str "a", .int 1), (.str "b", .int 2), (.str "c", .int 0),
      (.str "e", .int 0), (.str "f", .int 0)])] }
def hist0 : List Call :=
  [.setExpr de (.bin "Mul" (.ref dc) (.ref da)), .setExpr dc (.bin "Add" (.ref da) (.ref db)),
   .setExpr df (.bin "Mul" (.ref da) (.lit (.int 2))), .setExpr de (.bin "Mul" (.ref dc) (.ref da))]
/-- the original manager -/
def sE : MState := applyAll id s0 hist0
/-- the fresh manager loaded from its dump -/
def sL : MState := (load (freshOver sE) true (dump sE)).1
/-- the second manager's iteration order: `f` last -/
def fLast : Sched := fun l => l.filter (fun x => !decide (x = df)) ++ l.filter (fun x => decide (x = df))
def fTask : MTask :=
  ⟨[.item (.str "#F")], .func [(de, .bin "Mul" (.ref dc) (.lit (.int 2)))], [dc], [de]⟩
def hist : List Call :=
  [.setValue da (.int 5), .inplace "Add" db (.lit (.int 1)), .verify, .setExpr df (.bin "Mul" (.ref da) (.lit (.int 3))),
   .cleanup, .inplace "Add" dz (.lit (.int 1)), .unregister df, .unregister df, .refresh,
   .load false [(df, .bin "Mul" (.ref da) (.lit (.int 3))), (dc, .lit (.int 0))], .setValue da (.int 7), .setValue dc (.int 9),
   .register fTask, .verify]

theorem s0_inv : MInv s0 := MInv_of_sameGraph (s := MState.init) ⟨rfl, rfl, rfl⟩ MInv.init
theorem sE_inv : MInv sE := applyAll_MInv id hist0 s0 s0_inv (by simp [hist0, WFHist, WFCall])
theorem sE_exprs : ExprDefs sE.defs := (scopeB_sound sE sE_inv da (by decide +kernel)).exprs

/-- `verify_passes` applies, and the model's `verify` indeed returns no error -/
example : (verify sE).2 = none := verify_passes sE sE_inv
example : (verify sE).2 = none := by decide +kernel

/-- what the MODEL's `verify` does not detect: it walks the rows of the current indices only, so indices that lost
    rows altogether pass (the converse of `verify_passes` is false) -/
example : (verify { sE with idx := Mgr.empty }).2 = none ∧ sE.defs.length = 3 := by decide +kernel

/-- the two managers are related, with genuinely different index states -/
theorem sE_sL : SameTable sE sL := by
  obtain ⟨s', h1, h2, _⟩ := load_dump_bisim sE true sE_inv rfl sE_exprs
  have : sL = s' := congrArg Prod.fst h1
  rw [this]; exact h2
example : sE.idx.deptasks ≠ sL.idx.deptasks := by decide +kernel

/-- the two schedulers run the three tasks an assignment to `a` triggers in different orders -/
example : findTaskids sE.idx (chainR da) = [df, dc, de] ∧ fLast (findTaskids sL.idx (chainR da)) = [dc, de, df] := by
  decide +kernel

/-- the hypotheses of `setValue_bisim` and `setExpr_bisim` hold for these two managers -/
example : SetValueOK id fLast sE sL da (.int 5) := setValueOKB_sound id fLast sE sL da _ sE_sL (by decide +kernel)
example : SetExprOK id fLast sE sL df (.bin "Mul" (.ref da) (.lit (.int 3))) :=
  setExprOKB_sound id fLast sE sL df _ sE_sL (by decide +kernel)
example : (setValue fLast sL da (.int 5)).2 = none ∧
    SameTable (setValue id sE da (.int 5)).1 (setValue fLast sL da (.int 5)).1 := by
  obtain ⟨h1, h2, h3, h4, h5⟩ := setValueOKB_sound id fLast sE sL da (.int 5) sE_sL (by decide +kernel)
  exact setValue_bisim id fLast sE sL da (.int 5) sE_sL h1 h2 h3 h4 h5
/-- the event logs differ (they record the order), the containers do not -/
example : (setValue id sE da (.int 5)).1.trace ≠ (setValue fLast sL da (.int 5)).1.trace := by decide +kernel
example : get (setValue fLast sL da (.int 5)).1.store de = .ok (.int 35) ∧
    get (setValue fLast sL da (.int 5)).1.store df = .ok (.int 10) := ⟨rfl, rfl⟩

/-- the whole history is good: the hypotheses of `bisim_history` hold -/
theorem hist_ok : BisimRun id fLast sE sL hist := bisimRunB_sound id fLast hist sE sL sE_sL (by decide +kernel)

example : RelatedOutcomes (outcomes id sE hist) (outcomes fLast sL hist) := bisim_history id fLast hist sE sL sE_sL hist_ok
example : SameTable (applyAll id sE hist) (applyAll fLast sL hist) := bisim_history_final id fLast hist sE sL sE_sL hist_ok
/-- the errors, call by call, as the model computes them on either side -/
example : (outcomes id sE hist).map (·.2) =
    [none, none, none, none, none, some .keyError, none, some .keyError, none, none, none, none, none, none] := by
  decide +kernel
example : (outcomes fLast sL hist).map (·.2) =
    [none, none, none, none, none, some .keyError, none, some .keyError, none, none, none, none, none, none] := by
  decide +kernel
example : get (applyAll fLast sL hist).store de = .ok (.int 63) ∧ get (applyAll id sE hist).store de = .ok (.int 63) :=
  ⟨rfl, rfl⟩

end BisimExample
