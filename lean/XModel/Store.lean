/-! Prototype: Python-like nested containers as a tree, get/set along a path, and the frame algebra. -/
namespace Store

inductive Key where
  | str (s : String)
  | int (i : Int)
deriving DecidableEq, Repr

inductive Step where
  | item (k : Key)
  | attr (a : String)
deriving DecidableEq, Repr

inductive Val where
  | int (i : Int)
  | none
  | nan                                   -- float NaN (result of a guarded division by zero)
  | dict (kvs : List (Key × Val))          -- insertion-ordered
  | list (xs : List Val)
  | obj (attrs : List (Key × Val))         -- attribute name stored as Key.str

inductive Err where
  | keyError | indexError | attributeError | typeError
  | zeroDiv | valueError | fault | overflow
deriving DecidableEq, Repr

abbrev KVs := List (Key × Val)
abbrev Vals := List Val

def KVs.lookup : KVs → Key → Option Val
  | [], _ => none
  | (k, v) :: rest, k' => if k = k' then some v else KVs.lookup rest k'

/-- dict assignment: replace in place or append at the end (insertion order) -/
def KVs.update : KVs → Key → Val → KVs
  | [], k', v' => [(k', v')]
  | (k, v) :: rest, k', v' => if k = k' then (k, v') :: rest else (k, v) :: KVs.update rest k' v'

def Vals.get? : Vals → Nat → Option Val
  | [], _ => none
  | v :: _, 0 => some v
  | _ :: rest, n+1 => Vals.get? rest n

def Vals.set? : Vals → Nat → Val → Option Vals
  | [], _, _ => none
  | _ :: rest, 0, v' => some (v' :: rest)
  | v :: rest, n+1, v' => (Vals.set? rest n v').map (v :: ·)

/-- Python index normalisation (negative indices from the end) -/
def normIdx (n : Nat) (i : Int) : Option Nat :=
  if 0 ≤ i then (if i.toNat < n then some i.toNat else none)
  else (if (-i).toNat ≤ n then some (n - (-i).toNat) else none)

/-- one step of `owner[key]` / `getattr(owner, name)` -/
def getStep (v : Val) (s : Step) : Except Err Val :=
  match v, s with
  | .dict kvs, .item k => match KVs.lookup kvs k with | some x => .ok x | none => .error .keyError
  | .list xs, .item (.int i) =>
      match normIdx (List.length xs) i with
      | some n => match Vals.get? xs n with | some x => .ok x | none => .error .indexError
      | none => .error .indexError
  | .list _, .item _ => .error .typeError
  | .obj as, .attr a => match KVs.lookup as (.str a) with | some x => .ok x | none => .error .attributeError
  | .obj _, .item _ => .error .typeError
  | _, .attr _ => .error .attributeError
  | _, .item _ => .error .typeError

/-- one step of `owner[key] = x` / `setattr(owner, name, x)` -/
def setStep (v : Val) (s : Step) (x : Val) : Except Err Val :=
  match v, s with
  | .dict kvs, .item k => .ok (.dict (KVs.update kvs k x))
  | .list xs, .item (.int i) =>
      match normIdx (List.length xs) i with
      | some n => match Vals.set? xs n x with | some ys => .ok (.list ys) | none => .error .indexError
      | none => .error .indexError
  | .list _, .item _ => .error .typeError
  | .obj as, .attr a => .ok (.obj (KVs.update as (.str a) x))
  | _, .attr _ => .error .attributeError
  | _, .item _ => .error .typeError

def get (v : Val) : List Step → Except Err Val
  | [] => .ok v
  | s :: p => do let c ← getStep v s; get c p

/-- `ref._set_value(x)`: evaluate the owner chain, then assign the last step (path must be non-empty) -/
def set (v : Val) : List Step → Val → Except Err Val
  | [], _ => .error .typeError
  | s :: p, x =>
    match p with
    | [] => setStep v s x
    | _ :: _ => do
      let c ← getStep v s
      let c' ← set c p x
      setStep v s c'

#eval get (Val.dict [(.str "a", .int 1)]) [.item (.str "a")] |> fun r => match r with | .ok (.int i) => i | _ => -1


/-! ### step-level algebra -/

theorem KVs.lookup_update_same (kvs : KVs) (k : Key) (x : Val) : KVs.lookup (KVs.update kvs k x) k = some x := by
  induction kvs with
  | nil => simp [KVs.update, KVs.lookup]
  | cons kv rest ih =>
    obtain ⟨k0, v0⟩ := kv
    simp only [KVs.update]
    split
    · next h => simp [KVs.lookup, h]
    · next h => simp [KVs.lookup, h, ih]

theorem KVs.lookup_update_other (kvs : KVs) (k k' : Key) (x : Val) (h : k ≠ k') :
    KVs.lookup (KVs.update kvs k x) k' = KVs.lookup kvs k' := by
  induction kvs with
  | nil => simp [KVs.update, KVs.lookup, h]
  | cons kv rest ih =>
    obtain ⟨k0, v0⟩ := kv
    simp only [KVs.update]
    split
    · next h0 =>
      subst h0
      simp [KVs.lookup, h]
    · next h0 =>
      simp only [KVs.lookup]
      split
      · rfl
      · exact ih

theorem Vals.length_set? {xs ys : Vals} {n : Nat} {x : Val} (h : Vals.set? xs n x = some ys) : List.length ys = List.length xs := by
  induction xs generalizing n ys with
  | nil => simp [Vals.set?] at h
  | cons v rest ih =>
    cases n with
    | zero => simp [Vals.set?] at h; subst h; simp
    | succ n =>
      simp only [Vals.set?, Option.map_eq_some_iff] at h
      obtain ⟨zs, hz, rfl⟩ := h
      simp [ih hz]

theorem Vals.get?_set?_same {xs ys : Vals} {n : Nat} {x : Val} (h : Vals.set? xs n x = some ys) : Vals.get? ys n = some x := by
  induction xs generalizing n ys with
  | nil => simp [Vals.set?] at h
  | cons v rest ih =>
    cases n with
    | zero => simp [Vals.set?] at h; subst h; simp [Vals.get?]
    | succ n =>
      simp only [Vals.set?, Option.map_eq_some_iff] at h
      obtain ⟨zs, hz, rfl⟩ := h
      simp [Vals.get?, ih hz]

theorem Vals.get?_set?_other {xs ys : Vals} {n m : Nat} {x : Val} (h : Vals.set? xs n x = some ys) (hne : n ≠ m) :
    Vals.get? ys m = Vals.get? xs m := by
  induction xs generalizing n m ys with
  | nil => simp [Vals.set?] at h
  | cons v rest ih =>
    cases n with
    | zero =>
      simp [Vals.set?] at h; subst h
      cases m with
      | zero => exact absurd rfl hne
      | succ m => simp [Vals.get?]
    | succ n =>
      simp only [Vals.set?, Option.map_eq_some_iff] at h
      obtain ⟨zs, hz, rfl⟩ := h
      cases m with
      | zero => simp [Vals.get?]
      | succ m => simp only [Vals.get?]; exact ih hz (fun h => hne (by omega))

/-- canonical steps: list positions are written non-negatively, so distinct steps are distinct places -/
def Step.canon : Step → Prop
  | .item (.int i) => 0 ≤ i
  | _ => True

theorem normIdx_nonneg {n : Nat} {i : Int} (h : 0 ≤ i) {m : Nat} (hm : normIdx n i = some m) : (m : Int) = i := by
  unfold normIdx at hm
  simp only [h, if_true] at hm
  split at hm
  · cases hm; omega
  · cases hm

theorem getStep_setStep_same {v v' : Val} {s : Step} {x : Val} (h : setStep v s x = .ok v') :
    getStep v' s = .ok x := by
  cases v <;> cases s <;> simp only [setStep] at h <;> try (cases h; done)
  all_goals first
    | (cases h; simp [getStep, KVs.lookup_update_same])
    | skip
  -- list case
  all_goals
    rename_i xs k
    cases k with
    | str s => simp [setStep] at h
    | int i =>
      simp only [setStep] at h
      split at h
      · next n hn =>
        split at h
        · next ys hy =>
          cases h
          simp [getStep, Vals.length_set? hy, hn, Vals.get?_set?_same hy]
        · cases h
      · cases h


theorem getStep_setStep_other {v v' : Val} {s s' : Step} {x : Val} (h : setStep v s x = .ok v')
    (hne : s ≠ s') (hc : s.canon) (hc' : s'.canon) : getStep v' s' = getStep v s' := by
  cases v <;> cases s <;> simp only [setStep] at h <;> try (cases h; done)
  · -- dict / item
    rename_i kvs k
    cases h
    cases s' with
    | item k' =>
      have : k ≠ k' := fun e => hne (by rw [e])
      simp [getStep, KVs.lookup_update_other _ _ _ _ this]
    | attr a => simp [getStep]
  · -- list / item
    rename_i xs k
    cases k with
    | str s => simp at h
    | int i =>
      simp only at h
      split at h
      · next n hn =>
        split at h
        · next ys hy =>
          cases h
          cases s' with
          | attr a => simp [getStep]
          | item k' =>
            cases k' with
            | str s => simp [getStep]
            | int j =>
              have hij : i ≠ j := fun e => hne (by rw [e])
              simp only [getStep, Vals.length_set? hy]
              cases hj : normIdx (List.length xs) j with
              | none => simp
              | some m =>
                have h1 := normIdx_nonneg (by simpa [Step.canon] using hc) hn
                have h2 := normIdx_nonneg (by simpa [Step.canon] using hc') hj
                have hnm : n ≠ m := fun e => hij (by omega)
                simp [Vals.get?_set?_other hy hnm]
        · cases h
      · cases h
  · -- obj / attr
    rename_i as a
    cases h
    cases s' with
    | item k' => simp [getStep]
    | attr a' =>
      have : Key.str a ≠ Key.str a' := fun e => hne (by cases e; rfl)
      simp [getStep, KVs.lookup_update_other _ _ _ _ this]

/-! ### path-level algebra -/

theorem set_cons_cons (v : Val) (s t : Step) (p : List Step) (x : Val) :
    set v (s :: t :: p) x = (do let c ← getStep v s; let c' ← set c (t :: p) x; setStep v s c') := by
  rw [set]

theorem get_set_same {v v' : Val} {p : List Step} {x : Val} (h : set v p x = .ok v') : get v' p = .ok x := by
  induction p generalizing v v' with
  | nil => simp [set] at h
  | cons s p ih =>
    cases p with
    | nil =>
      simp only [set] at h
      simp only [get, getStep_setStep_same h]
      rfl
    | cons t p =>
      rw [set_cons_cons] at h
      cases hc : getStep v s with
      | error e => simp [hc] at h; cases h
      | ok c =>
        simp only [hc] at h
        cases hc' : set c (t :: p) x with
        | error e => simp [hc', bind, Except.bind] at h
        | ok c' =>
          simp only [hc', bind, Except.bind] at h
          have := getStep_setStep_same h
          simp only [get, this, bind, Except.bind]
          exact ih hc'

theorem get_set_ext {v v' : Val} {p : List Step} {x : Val} (h : set v p x = .ok v') (q : List Step) :
    get v' (p ++ q) = get x q := by
  induction p generalizing v v' with
  | nil => simp [set] at h
  | cons s p ih =>
    cases p with
    | nil =>
      simp only [set] at h
      simp [get, getStep_setStep_same h, bind, Except.bind]
    | cons t p =>
      rw [set_cons_cons] at h
      cases hc : getStep v s with
      | error e => simp [hc] at h; cases h
      | ok c =>
        simp only [hc] at h
        cases hc' : set c (t :: p) x with
        | error e => simp [hc', bind, Except.bind] at h
        | ok c' =>
          simp only [hc', bind, Except.bind] at h
          have := getStep_setStep_same h
          simp only [List.cons_append, get, this, bind, Except.bind]
          exact ih hc'

/-- neither path is a prefix of the other -/
def Incomparable : List Step → List Step → Prop
  | [], _ => False
  | _, [] => False
  | s :: p, t :: q => s ≠ t ∨ Incomparable p q

theorem get_set_incomparable {v v' : Val} {p q : List Step} {x : Val} (h : set v p x = .ok v')
    (hi : Incomparable p q) (hp : ∀ s ∈ p, s.canon) (hq : ∀ s ∈ q, s.canon) : get v' q = get v q := by
  induction p generalizing v v' q with
  | nil => simp [set] at h
  | cons s p ih =>
    cases q with
    | nil => simp [Incomparable] at hi
    | cons t q =>
      have hsc : s.canon := hp s (List.mem_cons_self ..)
      have htc : t.canon := hq t (List.mem_cons_self ..)
      by_cases hst : s = t
      · subst hst
        have hi' : Incomparable p q := by
          simp only [Incomparable] at hi
          rcases hi with h | h
          · exact absurd rfl h
          · exact h
        cases p with
        | nil => cases q <;> simp [Incomparable] at hi'
        | cons t' p =>
          rw [set_cons_cons] at h
          cases hc : getStep v s with
          | error e => simp [hc] at h; cases h
          | ok c =>
            simp only [hc] at h
            cases hc' : set c (t' :: p) x with
            | error e => simp [hc', bind, Except.bind] at h
            | ok c' =>
              simp only [hc', bind, Except.bind] at h
              have h1 := getStep_setStep_same h
              simp only [get, h1, hc, bind, Except.bind]
              exact ih hc' hi' (fun s hs => hp s (List.mem_cons_of_mem _ hs))
                (fun s hs => hq s (List.mem_cons_of_mem _ hs))
      · -- first steps differ: the written subtree is elsewhere
        have key : ∀ w, setStep v s w = .ok v' → getStep v' t = getStep v t :=
          fun w hw => getStep_setStep_other hw hst hsc htc
        cases p with
        | nil =>
          simp only [set] at h
          simp only [get, key x h]
        | cons t' p =>
          rw [set_cons_cons] at h
          cases hc : getStep v s with
          | error e => simp [hc] at h; cases h
          | ok c =>
            simp only [hc] at h
            cases hc' : set c (t' :: p) x with
            | error e => simp [hc', bind, Except.bind] at h
            | ok c' =>
              simp only [hc', bind, Except.bind] at h
              simp only [get, key c' h]

end Store
