import XModel.ManagerMixed
/-!
# C18 and linear knobs: a witness that the recovery clause FAILS (model and code agree)

`LinearKnob.run` adds `w_i * (value - prev_value)` to each target in turn and remembers the new value only after the last
target.  If the write of a later target raises, the earlier targets have already received the increment while the
remembered value is still the old one: repeating the assignment adds the increment to them a second time.

`d = {x: 1, a: 10, b: 20}`, knob `#K` on `d.x` with weights `[2, -1]` and targets `d.a`, `d.b` (prescribed values
`a = 8 + 2x`, `b = 21 - x`).  `d.x := 5` with the write of `d.b` failing, then `d.x := 5` again: `a = 26`, not `18`.
The same history on the real code gives the same numbers (known finding D34).
-/
namespace Manager.KnobFaultWitness
open Manager Store MixedExample

/-- the state of `MixedExample` after registering the knob -/
def t0 : MState := s1
/-- arm the fault: two more writes succeed (`d.x`, `d.a`), the third (`d.b`) raises -/
def t1 : MState := { t0 with faultIn := some 2 }
def attempt := setValue id t1 (d "x") (.int 5)
def t2 : MState := attempt.1
def repeated := setValue id t2 (d "x") (.int 5)
def t3 : MState := repeated.1

-- the faulty attempt raises; `d.a` has received its increment, `d.b` has not, the remembered value is still 1
example : attempt.2.isSome = true := rfl
example : get t2.store (d "a") = .ok (.int 18) := rfl
example : get t2.store (d "b") = .ok (.int 20) := rfl
example : lookPrev t2.prev K.id = .int 1 := rfl
example : t2.faultIn = none := rfl
-- the fault-free repeat completes …
example : repeated.2 = none := rfl
-- … and leaves `d.a` at 26 where the knob prescribes `8 + 2*5 = 18`; `d.b` is right
theorem knob_not_recovered : get t3.store (d "a") = .ok (.int 26) ∧ get t3.store (d "b") = .ok (.int 16) :=
  ⟨rfl, rfl⟩
-- without the fault the same assignment gives 18
example : get (setValue id t0 (d "x") (.int 5)).1.store (d "a") = .ok (.int 18) := rfl

end Manager.KnobFaultWitness
