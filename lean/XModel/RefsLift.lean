import XModel.RefsTable
/-!
# Tie A, the lift over all OPERATORS: every conjunct of `Full.ValidOps` is used

("full" in the names `c04_lift_full` / `C04_eval_homomorphism_full` means: all operator dunders that
`ValidOps` talks about, as opposed to the 18-dunder fragment of `XModel/Tables.lean`.  It does NOT mean
every node kind of the library: see "Node kinds OUTSIDE this lift" below.)

`XModel/Tables.lean` lifts validity of the *binary* table (18 dunders) to all terms.  This file does the
same for everything `Full.ValidOps` checks:

* all 30 binary / reflected dunders of `pySpecFull` (bitwise, shifts, matmul included),
* the unary operators of `unarySpec`,
* the builtin calls of `builtinSpec` with their parameter lists,
* the in-place operators of `inplaceSpec`, value case (`old ⊕ v`, computed at once) and expression case
  (`old-expression ⊕ v`, a node),
* the `propagate` rows (a class that swallows an exception other than the documented
  `ZeroDivisionError` returns NaN instead of raising: the shape of a widened `except` clause).  The
  node semantics is FAIL-CLOSED on classes: a class for which the table does not have a propagating row
  for every exception of `probedExcs` is treated like a class that swallows (nothing is known about it,
  `classRes`); `ValidOps` is closed over the class universe `propClasses` and asks that every class of
  the table's operator rows is in it, so for a valid table every node that `build2` produces is of a
  probed class (`build_eval2_universe`).  `unprobedTable` below is a table with one arbitrary propagate
  row: it fails `ValidOps`, and the lift fails for it.  Only the classes of `propClasses` (subclasses of
  `BinOpExpr` / `UnaryOpExpr`) pass through `classRes`; `Node2.call` (`BuiltinRef`) and `Node2.imm` (no
  node at all) have no `except` clause in the source and are not probed: their `evalNode2` is
  hard-wired and the `propagate` conjunct is not used for them.  What is concluded for exception classes
  other than the five probed ones is an extrapolation (a row is per exception class; `swallows` is false
  for an exception without a row, for a probed class).

## Node kinds OUTSIDE this lift

`Term2` has the constructors `val | op | un | call | iopVal | iopExpr`, where `call` is ONLY the six
builtin dunders of `builtinSpec` (`abs`, `round`, `divmod`, `math.trunc`, `math.floor`, `math.ceil`, a
`BuiltinRef` with positional parameters).  The extracted table has NO rows that describe how the
following node kinds are built or in which order their operands are evaluated (the translator probes
them for `deps` and `reduce` only), so they are not terms of `Term2` and `build_eval2` says nothing
about them:

* general calls `f(a, b, k=c)` on a ref: `CallRef(func, args, kwargs)` (`__call__`), keyword arguments
  included; in the source `_get_value` evaluates `func`, then `args` left to right, then the `kwargs`
  values, then applies: not extracted, not modelled;
* subscripts `r[k]`: `ItemRef(owner, key)` (`__getitem__`), with a literal or a computed key (a key that
  is itself a ref / expression); `_get_value` evaluates owner, then key, then indexes;
* attribute access `r.name`: `AttrRef(owner, key)` (`__getattr__`), likewise;
* the comparison nodes `EqExpr` / `NeExpr` (built by `_eq` / `_neq`, not by `==` / `!=`): the classes are
  in the universe and probed for `propagate`, but no dunder of `pySpecFull` builds them;
* `LiteralExpr`, and the container references `Ref` / `ObjectAttrRef` themselves: leaves (`Term2.val`);
* `builtinSpec` functions called with keyword parameters (`round(x, ndigits=2)`).

For these kinds the project has: the `deps` / `reduce` rows (C05 / C12, `RefsTable.classSlots`), and the
differential tests of the harness; no evaluation theorem.

`build_eval2`: for a table with `ValidOps = true` and `Coherent = true`, every well-formed `Term2`
builds, and the node evaluates to what Python computes directly.  `Coherent` is a second decidable check
on the same table; it is NOT implied by `ValidOps`, and without it the lift is false
(`incoherentUnary`, `incoherentInplace` below are `ValidOps`-valid tables for which the node computes
something else).

`table_complete`: a valid table has a row, with the specified content, for every dunder of the four
specification lists.

`value_depends_only_on_reported`: C05's semantic statement for the recursive-union model of
`_get_dependencies` in `XModel/RefsTable.lean`, with the hypothesis `wellSlotted rows n` (rows and tree);
`value_depends_only_on_reported_universe`: the same for a table with `ValidDeps = true` and a tree with
`InUniverse n = true` (a property of the tree alone).
-/
namespace RefsLift
open Tables RefsTable

variable {V : Type}

/-! ### the operation algebra -/

/-- Python's operations on values: the binary operators of `Tables.PyOps`, the unary operators, the
    builtin functions (by name, applied to the argument and the extra parameters), and the class name
    of the exception an error stands for -/
structure PyOps2 (V : Type) extends PyOps V where
  un : UPrim → V → Except String V
  call : String → V → List V → Except String V
  excClass : String → String

/-- the documented deviation: a `ZeroDivisionError` of a guarded primitive gives NaN -/
def guardNaN (ops : PyOps V) (g : Bool) : Except String V → Except String V
  | .error e => if g && ops.isZeroDiv e then .ok ops.nan else .error e
  | .ok v => .ok v

/-- the table records that class `cls` did not let exception class `exc` through -/
def swallows (f : Full) (cls exc : String) : Bool :=
  f.propagate.any (fun r => r.cls = cls && r.exc = exc && !r.propagates)

/-- what a node of class `cls` does with the result of its primitive: the guard, and a recorded
    swallowed exception gives NaN too (a widened `except` clause).  FAIL-CLOSED on the class: when the
    table does not say, for every probed exception, that class `cls` let it through
    (`RefsTable.probedClass`), nothing is known about the class's `except` clause and the model takes
    the pessimistic reading (NaN, as for a recorded swallowed exception).  Everything else is passed on. -/
def classRes (f : Full) (ops : PyOps2 V) (cls : String) (g : Bool) : Except String V → Except String V
  | .error e =>
    if g && ops.isZeroDiv e then .ok ops.nan
    else if swallows f cls (ops.excClass e) || !probedClass f.propagate cls then .ok ops.nan else .error e
  | .ok v => .ok v

/-! ### nodes, as the library builds them -/

inductive Node2 (V : Type) where
  | val (v : V)
  | bin (cls : String) (l r : Node2 V)                 -- `BinOpExpr` subclass `cls`
  | un (cls : String) (arg : Node2 V)                  -- `UnaryOpExpr` subclass `cls`
  /-- `BuiltinRef(arg, op, params)`; `extra` counts parameters nobody asked for (a `round(x)` that
      passes `ndigits=0`): their values are not in the table, the node's value is then unknown -/
  | call (op : String) (extra : Nat) (arg : Node2 V) (params : List (Node2 V))
  /-- not a node: the in-place operator of a ref without expression returns `old ⊕ v` at once -/
  | imm (p : Prim) (a b : V)

mutual
def evalNode2 (f : Full) (ops : PyOps2 V) : Node2 V → Except String V
  | .val v => .ok v
  | .bin cls l r =>
    match f.bin.findClass cls with
    | none => .error "no such class"
    | some c => do
      let a ← evalNode2 f ops l
      let b ← evalNode2 f ops r
      classRes f ops cls c.guard (if c.swapped then ops.bin c.prim b a else ops.bin c.prim a b)
  | .un cls arg =>
    match f.unary.find? (·.cls = cls) with
    | none => .error "no such class"
    | some r => do
      let a ← evalNode2 f ops arg
      classRes f ops cls false (ops.un r.prim a)
  | .call op extra arg params =>
    if extra = 0 then do
      let a ← evalNode2 f ops arg
      let ps ← evalNodes2 f ops params
      ops.call op a ps
    else .error "parameters not in the table"
  | .imm p a b => ops.bin p a b
def evalNodes2 (f : Full) (ops : PyOps2 V) : List (Node2 V) → Except String (List V)
  | [] => .ok []
  | n :: ns => do
    let v ← evalNode2 f ops n
    let vs ← evalNodes2 f ops ns
    .ok (v :: vs)
end

/-! ### Python-level terms -/

inductive Term2 (V : Type) where
  | val (v : V)
  /-- `self.d(other)`, a binary or reflected dunder with Python meaning `m` -/
  | op (d : String) (m : Meaning) (self other : Term2 V)
  /-- `-self`, `+self`, `~self` -/
  | un (d : String) (p : UPrim) (self : Term2 V)
  /-- `abs(self)`, `round(self, *params)`, `divmod(self, *params)`, `math.floor(self)` …: Python calls
      `self.d(*params)`, meaning `op(self, *params)`; `u`: the function takes extra parameters -/
  | call (d : String) (op : String) (u : Bool) (self : Term2 V) (params : List (Term2 V))
  /-- `x ⊕= v` where `x` has no expression: `old` is its value -/
  | iopVal (d : String) (p : Prim) (old operand : V)
  /-- `x ⊕= v` where `x` has the expression `oldExpr` -/
  | iopExpr (d : String) (p : Prim) (oldExpr operand : Term2 V)

mutual
/-- what Python computes directly on the operand values (documented deviation: guarded operators give
    NaN inside an expression; the value case of an in-place operator is plain Python and raises) -/
def evalDirect2 (ops : PyOps2 V) : Term2 V → Except String V
  | .val v => .ok v
  | .op _ m self other => do
    let s ← evalDirect2 ops self
    let o ← evalDirect2 ops other
    guardNaN ops.toPyOps (guarded m.prim) (if m.selfFirst then ops.bin m.prim s o else ops.bin m.prim o s)
  | .un _ p self => do
    let s ← evalDirect2 ops self
    ops.un p s
  | .call _ op _ self params => do
    let s ← evalDirect2 ops self
    let ps ← evalDirects2 ops params
    ops.call op s ps
  | .iopVal _ p old v => ops.bin p old v
  | .iopExpr _ p oldExpr v => do
    let o ← evalDirect2 ops oldExpr
    let w ← evalDirect2 ops v
    guardNaN ops.toPyOps (guarded p) (ops.bin p o w)
def evalDirects2 (ops : PyOps2 V) : List (Term2 V) → Except String (List V)
  | [] => .ok []
  | t :: ts => do
    let v ← evalDirect2 ops t
    let vs ← evalDirects2 ops ts
    .ok (v :: vs)
end

/-- the node of a binary dunder row -/
def sideNode (row : DunderRow) (s o : Node2 V) : Node2 V :=
  match row.side with
  | .selfLhs => .bin row.cls s o
  | .selfRhs => .bin row.cls o s

/-- the result of an in-place row in the value case -/
def iopValNode (r : InplaceRow) (old v : V) : Option (Node2 V) :=
  if r.present then r.valuePrim.map (fun q => Node2.imm q old v) else none

/-- the result of an in-place row in the expression case -/
def iopExprNode (r : InplaceRow) (o v : Node2 V) : Option (Node2 V) :=
  if r.present then r.exprCls.map (fun c => Node2.bin c o v) else none

mutual
/-- the library's construction, read off the table -/
def build2 (f : Full) : Term2 V → Option (Node2 V)
  | .val v => some (.val v)
  | .op d _ self other =>
    match f.bin.findDunder d, build2 f self, build2 f other with
    | some row, some s, some o => some (sideNode row s o)
    | _, _, _ => none
  | .un d _ self =>
    match f.unary.find? (·.dunder = d), build2 f self with
    | some r, some s => some (.un r.cls s)
    | _, _ => none
  | .call d _ _ self params =>
    match f.builtin.find? (·.dunder = d), build2 f self, builds2 f params with
    | some r, some s, some ps => some (.call r.op r.defaultParams s (if r.passesUserParams then ps else []))
    | _, _, _ => none
  | .iopVal d _ old v =>
    match f.inplace.find? (·.dunder = d) with
    | some r => iopValNode r old v
    | none => none
  | .iopExpr d _ oldExpr v =>
    match f.inplace.find? (·.dunder = d), build2 f oldExpr, build2 f v with
    | some r, some o, some w => iopExprNode r o w
    | _, _, _ => none
def builds2 (f : Full) : List (Term2 V) → Option (List (Node2 V))
  | [] => some []
  | t :: ts =>
    match build2 f t, builds2 f ts with
    | some n, some ns => some (n :: ns)
    | _, _ => none
end

def isVal2 : Term2 V → Bool
  | .val _ => true
  | _ => false

mutual
/-- the dunder and its meaning are those of the specification; reflected dunders are only reached
    when the other (left) operand is a plain value; a function without extra parameters gets none -/
def WF2 : Term2 V → Prop
  | .val _ => True
  | .op d m s o => (d, m) ∈ pySpecFull ∧ WF2 s ∧ WF2 o ∧ (m.selfFirst = false → isVal2 o = true)
  | .un d p s => (d, p) ∈ unarySpec ∧ WF2 s
  | .call d op u s ps => (d, op, 0, u) ∈ builtinSpec ∧ WF2 s ∧ WFs2 ps ∧ (u = false → ps = [])
  | .iopVal d p _ _ => (d, p) ∈ inplaceSpec
  | .iopExpr d p o v => (d, p) ∈ inplaceSpec ∧ WF2 o ∧ WF2 v
def WFs2 : List (Term2 V) → Prop
  | [] => True
  | t :: ts => WF2 t ∧ WFs2 ts
end

/-! ### coherence: a second decidable check on the same table -/

/-- a class is ONE Python object: all unary rows naming a class agree on the primitive it applies, and
    a primitive has one unswapped binary class (the one `classOfPrim` finds), so that the class an
    in-place row names is the class the binary dunder of the same primitive builds.  The extractor
    cannot produce an incoherent table from a running interpreter, but `ValidOps` does not say so. -/
def _root_.RefsTable.Full.Coherent (f : Full) : Bool :=
  f.unary.all (fun r => decide ((f.unary.find? (·.cls = r.cls)).map (·.prim) = some r.prim)) &&
  f.bin.classes.all (fun c => c.swapped || decide (classOfPrim f.bin c.prim = some c.cls))

/-! ### what each conjunct of `ValidOps` says -/

theorem validOps_parts (f : Full) (h : f.ValidOps = true) :
    (∀ p ∈ pySpecFull, binRowOk f.bin p.1 p.2 = true) ∧
    (∀ p ∈ unarySpec, unaryOk f p.1 p.2 = true) ∧
    (∀ p ∈ builtinSpec, builtinOk f p.1 p.2.1 p.2.2.1 p.2.2.2 = true) ∧
    (∀ p ∈ inplaceSpec, inplaceOk f p.1 p.2 = true) ∧
    (∀ r ∈ f.propagate, r.propagates = true) ∧ f.propagate ≠ [] := by
  unfold Full.ValidOps Full.ValidOpRows Full.ValidPropagate at h
  simp only [Bool.and_eq_true, List.all_eq_true] at h
  obtain ⟨⟨⟨⟨h1, h2⟩, h3⟩, h4⟩, ⟨⟨⟨h5, h6⟩, _⟩, _⟩⟩ := h
  refine ⟨h1, h2, h3, h4, h5, ?_⟩
  intro he
  have := h6 "AddExpr" (by decide)
  simp [probedClass, probedExcs, he] at this

/-- the `propagate` part of `ValidOps`, closed over the universe: every class of `propClasses` is probed
    for every exception of `probedExcs`, and the classes of the table's operator rows are in the universe -/
theorem validPropagate_parts (f : Full) (h : f.ValidOps = true) :
    (∀ c ∈ propClasses, probedClass f.propagate c = true) ∧
    (∀ c ∈ f.bin.classes, c.cls ∈ binClasses) ∧ (∀ r ∈ f.unary, r.cls ∈ unaryClasses) := by
  unfold Full.ValidOps Full.ValidPropagate at h
  simp only [Bool.and_eq_true, List.all_eq_true] at h
  obtain ⟨_, ⟨⟨⟨_, h6⟩, h7⟩, h8⟩⟩ := h
  exact ⟨h6, fun c hc => by simpa using h7 c hc, fun r hr => by simpa using h8 r hr⟩

theorem probed_of_binClass (f : Full) (h : f.ValidOps = true) (c : ClassRow) (hc : c ∈ f.bin.classes) :
    probedClass f.propagate c.cls = true :=
  (validPropagate_parts f h).1 c.cls (by
    unfold propClasses; exact List.mem_append_left _ ((validPropagate_parts f h).2.1 c hc))

theorem probed_of_unary (f : Full) (h : f.ValidOps = true) (r : UnaryRow) (hr : r ∈ f.unary) :
    probedClass f.propagate r.cls = true :=
  (validPropagate_parts f h).1 r.cls (by
    unfold propClasses; exact List.mem_append_right _ ((validPropagate_parts f h).2.2 r hr))

/-- a probing row is a member of the table: the row `(c, e, true)` is in `f.propagate` -/
theorem probedClass_mem (rows : List PropagateRow) (c e : String) (hp : probedClass rows c = true)
    (he : e ∈ probedExcs) : (⟨c, e, true⟩ : PropagateRow) ∈ rows := by
  unfold probedClass at hp
  have := List.all_eq_true.mp hp e he
  obtain ⟨r, hr, hq⟩ := List.any_eq_true.mp this
  simp only [Bool.and_eq_true, decide_eq_true_eq] at hq
  obtain ⟨⟨h1, h2⟩, h3⟩ := hq
  have : r = ⟨c, e, true⟩ := by cases r; simp_all
  exact this ▸ hr

/-- conjunct 1: the row of a binary / reflected dunder -/
theorem bin_row (f : Full) (hv : f.ValidOps = true) (d : String) (m : Meaning) (h : (d, m) ∈ pySpecFull) :
    ∃ row c, f.bin.findDunder d = some row ∧ f.bin.findClass row.cls = some c ∧ c.prim = m.prim ∧
      c.guard = guarded m.prim ∧ c.swapped = false ∧ decide (row.side = .selfLhs) = m.selfFirst := by
  have hrow := (validOps_parts f hv).1 (d, m) h
  simp only [binRowOk] at hrow
  unfold rowOk at hrow
  cases hfd : f.bin.findDunder d with
  | none => simp [hfd] at hrow
  | some row =>
    simp only [hfd] at hrow
    cases hfc : f.bin.findClass row.cls with
    | none => simp [hfc] at hrow
    | some c =>
      simp only [hfc, Bool.and_eq_true, decide_eq_true_eq, beq_iff_eq] at hrow
      obtain ⟨⟨⟨hprim, hguard⟩, hnsw⟩, hside⟩ := hrow
      have hsw0 : c.swapped = false := by simpa using hnsw
      refine ⟨row, c, rfl, hfc, hprim, hguard, hsw0, ?_⟩
      simpa [hsw0] using hside

/-- conjunct 2: the row of a unary dunder -/
theorem un_row (f : Full) (hv : f.ValidOps = true) (d : String) (p : UPrim) (h : (d, p) ∈ unarySpec) :
    ∃ r, f.unary.find? (·.dunder = d) = some r ∧ r.prim = p := by
  have hrow := (validOps_parts f hv).2.1 (d, p) h
  unfold unaryOk at hrow
  cases hf : f.unary.find? (·.dunder = d) with
  | none => simp [hf] at hrow
  | some r => exact ⟨r, rfl, by simpa [hf] using hrow⟩

/-- conjunct 3: the row of a builtin dunder -/
theorem builtin_row (f : Full) (hv : f.ValidOps = true) (d op : String) (n : Nat) (u : Bool)
    (h : (d, op, n, u) ∈ builtinSpec) :
    ∃ r, f.builtin.find? (·.dunder = d) = some r ∧ r.op = op ∧ r.defaultParams = n ∧ r.passesUserParams = u := by
  have hrow := (validOps_parts f hv).2.2.1 (d, op, n, u) h
  unfold builtinOk at hrow
  cases hf : f.builtin.find? (·.dunder = d) with
  | none => simp [hf] at hrow
  | some r =>
    simp only [hf, Bool.and_eq_true, decide_eq_true_eq] at hrow
    exact ⟨r, rfl, hrow.1.1, hrow.1.2, hrow.2⟩

/-- conjunct 4: the row of an in-place dunder -/
theorem inplace_row (f : Full) (hv : f.ValidOps = true) (d : String) (p : Prim) (h : (d, p) ∈ inplaceSpec) :
    ∃ r cn, f.inplace.find? (·.dunder = d) = some r ∧ r.present = true ∧ r.valuePrim = some p ∧
      r.exprCls = some cn ∧ classOfPrim f.bin p = some cn := by
  have hrow := (validOps_parts f hv).2.2.2.1 (d, p) h
  unfold inplaceOk at hrow
  cases hf : f.inplace.find? (·.dunder = d) with
  | none => simp [hf] at hrow
  | some r =>
    simp only [hf, Bool.and_eq_true, decide_eq_true_eq] at hrow
    obtain ⟨⟨⟨hp, hvp⟩, hsome⟩, hcls⟩ := hrow
    cases hec : r.exprCls with
    | none => simp [hec] at hsome
    | some cn => exact ⟨r, cn, rfl, hp, hvp, hec, by rw [← hcls, hec]⟩

/-- conjunct 5: no class swallows an exception -/
theorem no_swallow (f : Full) (hv : f.ValidOps = true) (cls exc : String) : swallows f cls exc = false := by
  have hp := (validOps_parts f hv).2.2.2.2.1
  unfold swallows
  rw [List.any_eq_false]
  intro r hr
  simp [hp r hr]

/-- for a PROBED class of a valid table, the node does with the result of its primitive exactly what
    the documented guard does.  The hypothesis on the class is needed: `unprobedTable` below. -/
theorem classRes_eq (f : Full) (hv : f.ValidOps = true) (ops : PyOps2 V) (cls : String)
    (hp : probedClass f.propagate cls = true) (g : Bool)
    (res : Except String V) : classRes f ops cls g res = guardNaN ops.toPyOps g res := by
  cases res with
  | ok v => rfl
  | error e => simp [classRes, guardNaN, no_swallow f hv, hp]

/-- the same, with the hypothesis on the class stated without the table: the class is in the universe -/
theorem classRes_eq_universe (f : Full) (hv : f.ValidOps = true) (ops : PyOps2 V) (cls : String)
    (hc : cls ∈ propClasses) (g : Bool) (res : Except String V) :
    classRes f ops cls g res = guardNaN ops.toPyOps g res :=
  classRes_eq f hv ops cls ((validPropagate_parts f hv).1 cls hc) g res

theorem guardNaN_false (ops : PyOps V) (res : Except String V) : guardNaN ops false res = res := by
  cases res <;> simp [guardNaN]

/-- every in-place primitive has a binary dunder in the specification -/
theorem inplace_has_binary (d : String) (p : Prim) (h : (d, p) ∈ inplaceSpec) :
    ∃ d', (d', (⟨p, true⟩ : Meaning)) ∈ pySpecFull := by
  have hall : inplaceSpec.all (fun e => pySpecFull.any (fun s => decide (s.2 = ⟨e.2, true⟩))) = true := by decide
  have := List.all_eq_true.mp hall (d, p) h
  obtain ⟨s, hs, he⟩ := List.any_eq_true.mp this
  refine ⟨s.1, ?_⟩
  have he' : s.2 = ⟨p, true⟩ := by simpa using he
  rw [← he']
  exact hs

/-- conjuncts 1 and 4 with coherence: the class an in-place row names computes the primitive, unswapped,
    with the guard on exactly the guarded primitives -/
theorem inplace_class (f : Full) (hv : f.ValidOps = true) (hc : f.Coherent = true) (d : String) (p : Prim)
    (h : (d, p) ∈ inplaceSpec) :
    ∃ r cn c, f.inplace.find? (·.dunder = d) = some r ∧ r.present = true ∧ r.valuePrim = some p ∧
      r.exprCls = some cn ∧ f.bin.findClass cn = some c ∧ c.prim = p ∧ c.swapped = false ∧ c.guard = guarded p := by
  obtain ⟨r, cn, hf, hp, hvp, hec, hcp⟩ := inplace_row f hv d p h
  obtain ⟨d', hd'⟩ := inplace_has_binary d p h
  obtain ⟨row, c, _, hfc, hprim, hguard, hsw, _⟩ := bin_row f hv d' ⟨p, true⟩ hd'
  have hmem : c ∈ f.bin.classes := List.mem_of_find?_eq_some hfc
  have hname : c.cls = row.cls := by simpa using List.find?_some hfc
  unfold Full.Coherent at hc
  simp only [Bool.and_eq_true, List.all_eq_true, Bool.or_eq_true, decide_eq_true_eq] at hc
  have hcc := hc.2 c hmem
  rw [hsw] at hcc
  simp only [Bool.false_eq_true, false_or] at hcc
  simp only at hprim
  rw [hprim, hcp] at hcc
  have : cn = row.cls := by rw [← hname]; exact Option.some.inj hcc
  subst this
  exact ⟨r, row.cls, c, hf, hp, hvp, hec, hfc, hprim, hsw, hguard⟩

/-- conjunct 2 with coherence: the class a unary dunder builds applies the dunder's primitive -/
theorem un_class (f : Full) (hv : f.ValidOps = true) (hc : f.Coherent = true) (d : String) (p : UPrim)
    (h : (d, p) ∈ unarySpec) :
    ∃ r r', f.unary.find? (·.dunder = d) = some r ∧ f.unary.find? (·.cls = r.cls) = some r' ∧ r'.prim = p := by
  obtain ⟨r, hf, hp⟩ := un_row f hv d p h
  have hmem : r ∈ f.unary := List.mem_of_find?_eq_some hf
  unfold Full.Coherent at hc
  simp only [Bool.and_eq_true, List.all_eq_true, decide_eq_true_eq] at hc
  have hcc := hc.1 r hmem
  cases hf' : f.unary.find? (·.cls = r.cls) with
  | none => simp [hf'] at hcc
  | some r' =>
    refine ⟨r, r', hf, hf', ?_⟩
    rw [hf'] at hcc
    simpa [hp] using hcc

theorem isVal2_val (o : Term2 V) (h : isVal2 o = true) : ∃ v, o = .val v := by
  cases o <;> simp [isVal2] at h
  exact ⟨_, rfl⟩

theorem bind_congr' {α β : Type} (x : Except String α) (g h : α → Except String β) (e : ∀ a, g a = h a) :
    (x >>= g) = (x >>= h) := by
  have : g = h := funext e
  rw [this]

/-! ### the lift -/

mutual
/-- a property of the NODE alone (no table): every class occurring in it is a class of the universe
    (`BinOpExpr` nodes of a class of `binClasses`, `UnaryOpExpr` nodes of a class of `unaryClasses`) -/
def nodeInUniverse : Node2 V → Bool
  | .val _ => true
  | .bin cls l r => binClasses.contains cls && nodeInUniverse l && nodeInUniverse r
  | .un cls arg => unaryClasses.contains cls && nodeInUniverse arg
  | .call _ _ arg params => nodeInUniverse arg && nodesInUniverse params
  | .imm _ _ _ => true
def nodesInUniverse : List (Node2 V) → Bool
  | [] => true
  | n :: ns => nodeInUniverse n && nodesInUniverse ns
end

theorem binClass_of_find (f : Full) (hv : f.ValidOps = true) (cn : String) (c : ClassRow)
    (hfc : f.bin.findClass cn = some c) :
    cn ∈ binClasses ∧ probedClass f.propagate cn = true := by
  have hmem : c ∈ f.bin.classes := List.mem_of_find?_eq_some hfc
  have hname : c.cls = cn := by simpa using List.find?_some hfc
  rw [← hname]
  exact ⟨(validPropagate_parts f hv).2.1 c hmem, probed_of_binClass f hv c hmem⟩

mutual
/-- C04 (all operators), with the class universe: validity and coherence of the extracted tables lift to
    every term, and every node built is made of classes of the universe — the classes that `ValidOps`
    asks to be probed for `propagate`. -/
theorem build_eval2_universe (f : Full) (hv : f.ValidOps = true) (hc : f.Coherent = true) (ops : PyOps2 V) :
    ∀ t : Term2 V, WF2 t → ∃ node, build2 f t = some node ∧ evalNode2 f ops node = evalDirect2 ops t ∧
      nodeInUniverse node = true
  | .val v, _ => ⟨.val v, by simp [build2], by simp [evalNode2, evalDirect2], rfl⟩
  | .op d m s o, hw => by
    simp only [WF2] at hw
    obtain ⟨hmem, hs, ho, hrefl⟩ := hw
    obtain ⟨ns, bs, es, us⟩ := build_eval2_universe f hv hc ops s hs
    obtain ⟨no, bo, eo, uo⟩ := build_eval2_universe f hv hc ops o ho
    obtain ⟨row, c, hfd, hfc, hprim, hguard, hsw, hside⟩ := bin_row f hv d m hmem
    obtain ⟨hbc, hpc⟩ := binClass_of_find f hv row.cls c hfc
    refine ⟨sideNode row ns no, by simp [build2, hfd, bs, bo], ?_, ?_⟩
    · cases hsd : row.side with
      | selfLhs =>
        have hsf : m.selfFirst = true := by simpa [hsd] using hside.symm
        simp only [sideNode, hsd, evalNode2, hfc, es, eo, evalDirect2, classRes_eq f hv ops row.cls hpc, hprim, hguard, hsw, hsf]
        simp
      | selfRhs =>
        have hsf : m.selfFirst = false := by simpa [hsd] using hside.symm
        obtain ⟨v, rfl⟩ := isVal2_val o (hrefl hsf)
        have : no = .val v := by simpa [build2] using bo.symm
        subst this
        simp only [sideNode, hsd, evalNode2, hfc, es, evalDirect2, classRes_eq f hv ops row.cls hpc, hprim, hguard, hsw, hsf]
        cases evalDirect2 ops s <;> simp [bind, Except.bind]
    · cases hsd : row.side <;> simp [sideNode, hsd, nodeInUniverse, hbc, us, uo]
  | .un d p s, hw => by
    simp only [WF2] at hw
    obtain ⟨hmem, hs⟩ := hw
    obtain ⟨ns, bs, es, us⟩ := build_eval2_universe f hv hc ops s hs
    obtain ⟨r, r', hf, hf', hp⟩ := un_class f hv hc d p hmem
    have hr : r ∈ f.unary := List.mem_of_find?_eq_some hf
    refine ⟨.un r.cls ns, by simp [build2, hf, bs], ?_, ?_⟩
    · simp only [evalNode2, hf', es, evalDirect2, classRes_eq f hv ops r.cls (probed_of_unary f hv r hr),
        guardNaN_false, hp]
    · have := (validPropagate_parts f hv).2.2 r hr
      simp [nodeInUniverse, this, us]
  | .call d op u s ps, hw => by
    simp only [WF2] at hw
    obtain ⟨hmem, hs, hps, hnone⟩ := hw
    obtain ⟨ns, bs, es, us⟩ := build_eval2_universe f hv hc ops s hs
    obtain ⟨nps, bps, eps, ups⟩ := builds_eval2_universe f hv hc ops ps hps
    obtain ⟨r, hf, hop, hdef, hu⟩ := builtin_row f hv d op 0 u hmem
    refine ⟨.call r.op r.defaultParams ns (if r.passesUserParams then nps else []), by simp [build2, hf, bs, bps], ?_, ?_⟩
    · cases u with
      | true =>
        simp only [hu, if_true, evalNode2, hdef, es, eps, evalDirect2, hop]
      | false =>
        have : ps = [] := hnone rfl
        subst this
        simp [hu, evalNode2, hdef, es, evalDirect2, evalNodes2, evalDirects2, hop]
    · cases hpu : r.passesUserParams <;> simp [nodeInUniverse, nodesInUniverse, us, ups]
  | .iopVal d p old v, hw => by
    simp only [WF2] at hw
    obtain ⟨r, cn, hf, hp, hvp, _, _⟩ := inplace_row f hv d p hw
    exact ⟨.imm p old v, by simp [build2, hf, iopValNode, hp, hvp], by simp [evalNode2, evalDirect2], rfl⟩
  | .iopExpr d p o v, hw => by
    simp only [WF2] at hw
    obtain ⟨hmem, ho, hw'⟩ := hw
    obtain ⟨no, bo, eo, uo⟩ := build_eval2_universe f hv hc ops o ho
    obtain ⟨nv, bv, ev, uv⟩ := build_eval2_universe f hv hc ops v hw'
    obtain ⟨r, cn, c, hf, hp, _, hec, hfc, hprim, hsw, hguard⟩ := inplace_class f hv hc d p hmem
    obtain ⟨hbc, hpc⟩ := binClass_of_find f hv cn c hfc
    refine ⟨.bin cn no nv, by simp [build2, hf, bo, bv, iopExprNode, hp, hec], ?_, ?_⟩
    · simp only [evalNode2, hfc, eo, ev, evalDirect2, classRes_eq f hv ops cn hpc, hprim, hguard, hsw]
      simp
    · simp [nodeInUniverse, hbc, uo, uv]
theorem builds_eval2_universe (f : Full) (hv : f.ValidOps = true) (hc : f.Coherent = true) (ops : PyOps2 V) :
    ∀ ts : List (Term2 V), WFs2 ts →
      ∃ nodes, builds2 f ts = some nodes ∧ evalNodes2 f ops nodes = evalDirects2 ops ts ∧
        nodesInUniverse nodes = true
  | [], _ => ⟨[], by simp [builds2], by simp [evalNodes2, evalDirects2], rfl⟩
  | t :: ts, hw => by
    simp only [WFs2] at hw
    obtain ⟨n, bn, en, un⟩ := build_eval2_universe f hv hc ops t hw.1
    obtain ⟨ns, bns, ens, uns⟩ := builds_eval2_universe f hv hc ops ts hw.2
    exact ⟨n :: ns, by simp [builds2, bn, bns], by simp only [evalNodes2, evalDirects2, en, ens],
      by simp [nodesInUniverse, un, uns]⟩
end

/-- C04 (all operators): validity and coherence of the extracted tables lift to every term. -/
theorem build_eval2 (f : Full) (hv : f.ValidOps = true) (hc : f.Coherent = true) (ops : PyOps2 V)
    (t : Term2 V) (hw : WF2 t) :
    ∃ node, build2 f t = some node ∧ evalNode2 f ops node = evalDirect2 ops t := by
  obtain ⟨node, hb, he, _⟩ := build_eval2_universe f hv hc ops t hw
  exact ⟨node, hb, he⟩

theorem builds_eval2 (f : Full) (hv : f.ValidOps = true) (hc : f.Coherent = true) (ops : PyOps2 V)
    (ts : List (Term2 V)) (hw : WFs2 ts) :
    ∃ nodes, builds2 f ts = some nodes ∧ evalNodes2 f ops nodes = evalDirects2 ops ts := by
  obtain ⟨nodes, hb, he, _⟩ := builds_eval2_universe f hv hc ops ts hw
  exact ⟨nodes, hb, he⟩

/-! ### the binary fragment of `XModel/Tables.lean` is a sub-language -/

/-- a term of the 18-dunder fragment, read as a `Term2` -/
def up : Term V → Term2 V
  | .val v => .val v
  | .op d m s o => .op d m (up s) (up o)

theorem isVal2_up (t : Term V) : isVal2 (up t) = isVal t := by cases t <;> rfl

theorem wf2_up : ∀ t : Term V, WFTerm t → WF2 (up t)
  | .val _, _ => by simp [up, WF2]
  | .op d m s o, h => by
    obtain ⟨hm, hs, ho, hr⟩ := h
    simp only [up, WF2]
    exact ⟨by unfold pySpecFull; exact List.mem_append_left _ hm, wf2_up s hs, wf2_up o ho,
      fun e => by rw [isVal2_up]; exact hr e⟩

/-- on the fragment, "what Python computes directly" is the same function as in `XModel/Tables.lean` -/
theorem evalDirect2_up (ops : PyOps2 V) : ∀ t : Term V, evalDirect2 ops (up t) = evalDirect ops.toPyOps t
  | .val _ => by simp [up, evalDirect2, evalDirect]
  | .op d m s o => by
    simp only [up, evalDirect2, evalDirect, evalDirect2_up ops s, evalDirect2_up ops o]
    refine bind_congr' _ _ _ (fun a => bind_congr' _ _ _ (fun b => ?_))
    cases (if m.selfFirst = true then ops.bin m.prim a b else ops.bin m.prim b a) <;> simp [guardNaN]

/-! ### completeness: a valid table lists every dunder of the specification

`ValidOpRows` (the first half of `ValidOps`) is defined as "for every row of the four specification
lists, the table's row agrees", and a missing row makes `rowOk` / `unaryOk` / `builtinOk` / `inplaceOk` false: so completeness is immediate.
It is stated here anyway, with the rows as members of the table's lists. -/

theorem table_complete (f : Full) (hv : f.ValidOps = true) :
    (∀ d m, (d, m) ∈ pySpecFull → ∃ row c, row ∈ f.bin.dunders ∧ row.name = d ∧
        c ∈ f.bin.classes ∧ c.cls = row.cls ∧
        f.bin.findDunder d = some row ∧ f.bin.findClass row.cls = some c ∧
        c.prim = m.prim ∧ c.guard = guarded m.prim ∧ c.swapped = false ∧
        (row.side = .selfLhs ↔ m.selfFirst = true)) ∧
    (∀ d p, (d, p) ∈ unarySpec → ∃ r, r ∈ f.unary ∧ r.dunder = d ∧
        f.unary.find? (·.dunder = d) = some r ∧ r.prim = p) ∧
    (∀ d op n u, (d, op, n, u) ∈ builtinSpec → ∃ r, r ∈ f.builtin ∧ r.dunder = d ∧
        f.builtin.find? (·.dunder = d) = some r ∧ r.op = op ∧ r.defaultParams = n ∧ r.passesUserParams = u) ∧
    (∀ d p, (d, p) ∈ inplaceSpec → ∃ r cn, r ∈ f.inplace ∧ r.dunder = d ∧
        f.inplace.find? (·.dunder = d) = some r ∧ r.present = true ∧ r.valuePrim = some p ∧
        r.exprCls = some cn ∧ classOfPrim f.bin p = some cn) := by
  refine ⟨?_, ?_, ?_, ?_⟩
  · intro d m h
    obtain ⟨row, c, hfd, hfc, hprim, hguard, hsw, hside⟩ := bin_row f hv d m h
    refine ⟨row, c, List.mem_of_find?_eq_some hfd, by simpa using List.find?_some hfd,
      List.mem_of_find?_eq_some hfc, by simpa using List.find?_some hfc, hfd, hfc, hprim, hguard, hsw, ?_⟩
    rw [← hside]; simp
  · intro d p h
    obtain ⟨r, hf, hp⟩ := un_row f hv d p h
    exact ⟨r, List.mem_of_find?_eq_some hf, by simpa using List.find?_some hf, hf, hp⟩
  · intro d op n u h
    obtain ⟨r, hf, h1, h2, h3⟩ := builtin_row f hv d op n u h
    exact ⟨r, List.mem_of_find?_eq_some hf, by simpa using List.find?_some hf, hf, h1, h2, h3⟩
  · intro d p h
    obtain ⟨r, cn, hf, h1, h2, h3, h4⟩ := inplace_row f hv d p h
    exact ⟨r, cn, List.mem_of_find?_eq_some hf, by simpa using List.find?_some hf, hf, h1, h2, h3, h4⟩

/-! ### examples: a hand-written table with every row of the specification -/

/-- `Tables.pinned` (the 18 dunders / 11 classes of the binary fragment) completed by hand with the
    bitwise / shift / matmul rows and one list of each other kind; `propagate`, `deps` and `reduce` have
    one all-true row for every pair / class that the universe-closed tests ask for (what the translator
    emits for a tree without defects) -/
def sample : Full :=
  { bin :=
      { classes := Tables.pinned.classes ++
          [⟨"MatmulExpr", .matmul, false, false⟩, ⟨"BitwiseAndExpr", .and_, false, false⟩,
           ⟨"BitwiseOrExpr", .or_, false, false⟩, ⟨"XorExpr", .xor, false, false⟩,
           ⟨"RshiftExpr", .rshift, false, false⟩, ⟨"LshiftExpr", .lshift, false, false⟩],
        dunders := Tables.pinned.dunders ++
          [⟨"__matmul__", "MatmulExpr", .selfLhs⟩, ⟨"__rmatmul__", "MatmulExpr", .selfRhs⟩,
           ⟨"__and__", "BitwiseAndExpr", .selfLhs⟩, ⟨"__rand__", "BitwiseAndExpr", .selfRhs⟩,
           ⟨"__or__", "BitwiseOrExpr", .selfLhs⟩, ⟨"__ror__", "BitwiseOrExpr", .selfRhs⟩,
           ⟨"__xor__", "XorExpr", .selfLhs⟩, ⟨"__rxor__", "XorExpr", .selfRhs⟩,
           ⟨"__rshift__", "RshiftExpr", .selfLhs⟩, ⟨"__rrshift__", "RshiftExpr", .selfRhs⟩,
           ⟨"__lshift__", "LshiftExpr", .selfLhs⟩, ⟨"__rlshift__", "LshiftExpr", .selfRhs⟩] },
    propagate := propClasses.flatMap (fun c => probedExcs.map (fun e => ⟨c, e, true⟩)),
    unary := [⟨"__neg__", "NegExpr", .neg⟩, ⟨"__pos__", "PosExpr", .pos⟩, ⟨"__invert__", "InvertExpr", .invert⟩],
    builtin := [⟨"__abs__", "abs", 0, false⟩, ⟨"__round__", "round", 0, true⟩, ⟨"__divmod__", "divmod", 0, true⟩,
                ⟨"__trunc__", "math.trunc", 0, false⟩, ⟨"__floor__", "math.floor", 0, false⟩,
                ⟨"__ceil__", "math.ceil", 0, false⟩],
    inplace := [⟨"__iadd__", true, some .add, some "AddExpr"⟩, ⟨"__isub__", true, some .sub, some "SubExpr"⟩,
                ⟨"__imul__", true, some .mul, some "MulExpr"⟩, ⟨"__imatmul__", true, some .matmul, some "MatmulExpr"⟩,
                ⟨"__itruediv__", true, some .truediv, some "TruedivExpr"⟩,
                ⟨"__ifloordiv__", true, some .floordiv, some "FloordivExpr"⟩,
                ⟨"__imod__", true, some .mod, some "ModExpr"⟩, ⟨"__ipow__", true, some .pow, some "PowExpr"⟩,
                ⟨"__ilshift__", true, some .lshift, some "LshiftExpr"⟩, ⟨"__irshift__", true, some .rshift, some "RshiftExpr"⟩,
                ⟨"__iand__", true, some .and_, some "BitwiseAndExpr"⟩, ⟨"__ixor__", true, some .xor, some "XorExpr"⟩,
                ⟨"__ior__", true, some .or_, some "BitwiseOrExpr"⟩],
    deps := classSlots.flatMap (fun cs => cs.2.map (fun sl => ⟨cs.1, sl, true, true⟩)) ++
            leafClasses.map (fun c => ⟨c, "none", true, true⟩),
    reduce := (classSlots.map (·.1) ++ refClasses).map (fun c => ⟨c, true, true, true⟩) }

theorem sample_valid : sample.ValidOps = true := by decide
theorem sample_coherent : sample.Coherent = true := by decide
theorem sample_valid_deps : sample.ValidDeps = true := by decide
theorem sample_valid_reduce : sample.ValidReduce = true := by decide
example : sample.Valid = true := by decide
example : sample.propagate.length = 110 ∧ sample.deps.length = 51 ∧ sample.reduce.length = 29 := by decide

/-! ### the universe-closed tests reject the degenerate tables of the review

Each of the three tables below passed the earlier tests (listed rows all true, list non-empty). -/

/-- one arbitrary propagate row, about a class that does not exist -/
def unprobedTable : Full := { sample with propagate := [⟨"NoSuchClass", "Whatever", true⟩] }
example : unprobedTable.ValidOps = false := by decide
example : unprobedTable.ValidOpRows = true ∧ unprobedTable.Coherent = true := by decide
/-- two genuine rows (the former hand-written sample) are not enough either -/
example : ({ sample with propagate := [⟨"AddExpr", "OverflowError", true⟩, ⟨"NegExpr", "TypeError", true⟩] } : Full).ValidOps
    = false := by decide
/-- all rows but one: `ModExpr` was not probed with `ValueError` -/
example : ({ sample with propagate := sample.propagate.filter (fun r => !(r.cls = "ModExpr" && r.exc = "ValueError")) } : Full).ValidOps
    = false := by decide
/-- a class outside the universe among the operator rows -/
example : ({ sample with bin := { sample.bin with classes := sample.bin.classes ++ [⟨"FancyExpr", .add, false, false⟩] } } : Full).ValidOps
    = false := by decide
/-- one-row `deps`: the reviewer's table -/
example : ({ sample with deps := [⟨"AddExpr", "lhs", true, true⟩] } : Full).ValidDeps = false := by decide
/-- all binary and unary classes, nothing about calls / items / attributes -/
example : ({ sample with deps := sample.deps.filter (fun r => r.cls != "CallRef") } : Full).ValidDeps = false := by decide
/-- a slot that is listed but not visited (the shape of D6) -/
example : ({ sample with deps := sample.deps.map (fun r => if r.cls = "BuiltinRef" && r.slot = "param" then { r with covered := false } else r) } : Full).ValidDeps
    = false := by decide
/-- one-row `reduce` -/
example : ({ sample with reduce := [⟨"AddExpr", true, true, true⟩] } : Full).ValidReduce = false := by decide
example : ({ sample with reduce := sample.reduce.filter (fun r => r.cls != "ItemRef") } : Full).ValidReduce = false := by decide

/-- a toy value algebra on the integers: `-999` plays NaN, errors are exception class names -/
def intOps : PyOps2 Int :=
  { bin := fun p a b =>
      match p with
      | .add => .ok (a + b)
      | .sub => .ok (a - b)
      | .mul => .ok (a * b)
      | .truediv | .floordiv => if b = 0 then .error "ZeroDivisionError" else .ok (a / b)
      | .mod => if b = 0 then .error "ZeroDivisionError" else .ok (a % b)
      | .lt => .ok (if a < b then 1 else 0)
      | _ => .error "TypeError",
    nan := -999,
    isZeroDiv := fun e => e == "ZeroDivisionError",
    un := fun p a =>
      match p with
      | .neg => .ok (-a)
      | .pos => .ok a
      | .invert => .ok (-a - 1),
    call := fun op a ps =>
      match op, ps with
      | "abs", [] => .ok (Int.ofNat a.natAbs)
      | "round", [] => .ok a
      | "round", [n] => .ok (a - a % (10 ^ (-n).toNat))
      | "divmod", [b] => if b = 0 then .error "ZeroDivisionError" else .ok (a / b)
      | _, _ => .error "TypeError",
    excClass := id }

/-- `round(-(7 - 2*x), -1) + abs(y)` with the reflected `7 - …` and `2 * …`, at x = 30, y = -4 -/
def sampleTerm : Term2 Int :=
  .op "__add__" ⟨.add, true⟩
    (.call "__round__" "round" true
      (.un "__neg__" .neg
        (.op "__rsub__" ⟨.sub, false⟩ (.op "__rmul__" ⟨.mul, false⟩ (.val 30) (.val 2)) (.val 7)))
      [.val (-1)])
    (.call "__abs__" "abs" false (.val (-4)) [])

theorem sampleTerm_wf : WF2 sampleTerm := by
  simp [sampleTerm, WF2, WFs2, isVal2, pySpecFull, pySpec, unarySpec, builtinSpec]

/-- the hypotheses of `build_eval2` are satisfiable, and the common value is the expected one:
    -(7 - 60) = 53, round(53, -1) = 50, 50 + 4 = 54 -/
example : ∃ node, build2 sample sampleTerm = some node ∧
    evalNode2 sample intOps node = evalDirect2 intOps sampleTerm :=
  build_eval2 sample sample_valid sample_coherent intOps sampleTerm sampleTerm_wf
example : (build2 sample sampleTerm).map (evalNode2 sample intOps) = some (.ok 54) := rfl
example : evalDirect2 intOps sampleTerm = .ok 54 := rfl

/-- in-place, expression case: `x /= 0` where `x` has the expression `5 - y`: a node, NaN -/
def sampleIop : Term2 Int := .iopExpr "__itruediv__" .truediv (.op "__rsub__" ⟨.sub, false⟩ (.val 1) (.val 5)) (.val 0)
example : WF2 sampleIop := by simp [sampleIop, WF2, isVal2, pySpecFull, pySpec, inplaceSpec]
example : (build2 sample sampleIop).map (evalNode2 sample intOps) = some (.ok (-999)) := rfl
example : evalDirect2 intOps sampleIop = .ok (-999) := rfl
/-- in-place, value case: `x /= 0` where `x` holds the value 5: plain Python, the error is raised
    (what the code does: `self._get_value() / other` is evaluated outside any node, so no guard) -/
def sampleIopVal : Term2 Int := .iopVal "__itruediv__" .truediv 5 0
example : WF2 sampleIopVal := by simp [sampleIopVal, WF2, inplaceSpec]
example : (build2 sample sampleIopVal).map (evalNode2 sample intOps) = some (.error "ZeroDivisionError") := rfl
example : evalDirect2 intOps sampleIopVal = .error "ZeroDivisionError" := rfl

/-! ### `Coherent` is needed: two tables with `ValidOps = true` for which the lift fails -/

/-- `__neg__` and `__pos__` both build class `NegExpr`; one row says it negates, the other that it does
    nothing.  Every check of `ValidOps` looks at one row only and passes. -/
def incoherentUnary : Full :=
  { sample with unary := [⟨"__neg__", "NegExpr", .neg⟩, ⟨"__pos__", "NegExpr", .pos⟩, ⟨"__invert__", "InvertExpr", .invert⟩] }
example : incoherentUnary.ValidOps = true := by decide
example : incoherentUnary.Coherent = false := by decide
example : WF2 (Term2.un "__pos__" .pos (.val (5 : Int))) := by simp [WF2, unarySpec]
/-- `+5`: the node is of class `NegExpr`, which (first row) negates -/
example : (build2 incoherentUnary (Term2.un "__pos__" .pos (.val 5))).map (evalNode2 incoherentUnary intOps)
    = some (.ok (-5)) := rfl
example : evalDirect2 intOps (Term2.un "__pos__" .pos (.val 5)) = .ok 5 := rfl

/-- a second, unguarded true-division class stands before the guarded one (`EqExpr`, a class of the
    universe that no dunder of the specification builds, is given that role): `__truediv__` builds the
    guarded class, `classOfPrim` (first unswapped class of the primitive) finds the unguarded one, and the
    in-place row naming it passes `inplaceOk` -/
def incoherentInplace : Full :=
  { sample with
    bin := { sample.bin with classes := ⟨"EqExpr", .truediv, false, false⟩ :: sample.bin.classes },
    inplace := sample.inplace.map (fun r => if r.dunder = "__itruediv__" then { r with exprCls := some "EqExpr" } else r) }
example : incoherentInplace.ValidOps = true := by decide
example : incoherentInplace.Coherent = false := by decide
/-- `x /= 0` in the expression case raises instead of giving NaN -/
example : (build2 incoherentInplace sampleIop).map (evalNode2 incoherentInplace intOps)
    = some (.error "ZeroDivisionError") := rfl

/-- the `propagate` conjunct is needed, closed over the universe: for the table with one arbitrary
    propagate row every operator row is valid, yet nothing is known about `MatmulExpr`: the node semantics
    (fail-closed) gives NaN where Python raises.  With `sample`'s rows the same term raises. -/
example : (build2 unprobedTable (Term2.op "__matmul__" ⟨.matmul, true⟩ (.val (1 : Int)) (.val 2))).map
    (evalNode2 unprobedTable intOps) = some (.ok (-999)) := rfl
example : (build2 sample (Term2.op "__matmul__" ⟨.matmul, true⟩ (.val (1 : Int)) (.val 2))).map
    (evalNode2 sample intOps) = some (.error "TypeError") := rfl

/-- and with a row recording that `MatmulExpr` swallowed `TypeError`, the table is invalid, and the node
    returns NaN where Python raises -/
def swallowing : Full := { sample with propagate := ⟨"MatmulExpr", "TypeError", false⟩ :: sample.propagate }
example : swallowing.ValidOps = false := by decide
example : (build2 swallowing (Term2.op "__matmul__" ⟨.matmul, true⟩ (.val (1 : Int)) (.val 2))).map
    (evalNode2 swallowing intOps) = some (.ok (-999)) := rfl
example : evalDirect2 intOps (Term2.op "__matmul__" ⟨.matmul, true⟩ (.val 1) (.val 2)) = .error "TypeError" := rfl

/-! ### C05, semantically: the value depends only on the reported locations -/

/-- an interpretation of the node classes: a class maps the values of its slots (with their names, in
    order) to a value.  `DNode.lit` carries no payload, so all literals denote the same `lit`. -/
structure DSem (V : Type) where
  lit : V
  cls : String → List (String × V) → V

mutual
/-- the value of a tree in an environment giving every ref (location) a value -/
def evalD (I : DSem V) (env : Nat → V) : DNode → V
  | .ref id => env id
  | .lit => I.lit
  | .node cls slots => I.cls cls (evalSlots I env slots)
def evalSlots (I : DSem V) (env : Nat → V) : List (String × DNode) → List (String × V)
  | [] => []
  | (s, c) :: rest => (s, evalD I env c) :: evalSlots I env rest
end

mutual
theorem evalD_leafs (I : DSem V) (e1 e2 : Nat → V) :
    ∀ n : DNode, (∀ id ∈ leafs n, e1 id = e2 id) → evalD I e1 n = evalD I e2 n
  | .ref id, h => by simpa [evalD] using h id (by simp [leafs])
  | .lit, _ => by simp [evalD]
  | .node cls slots, h => by
    simp only [evalD]
    rw [evalSlots_leafs I e1 e2 slots (by simpa [leafs] using h)]
theorem evalSlots_leafs (I : DSem V) (e1 e2 : Nat → V) :
    ∀ slots : List (String × DNode), (∀ id ∈ leafsSlots slots, e1 id = e2 id) →
      evalSlots I e1 slots = evalSlots I e2 slots
  | [], _ => by simp [evalSlots]
  | (s, c) :: rest, h => by
    simp only [leafsSlots, List.mem_append] at h
    simp only [evalSlots]
    rw [evalD_leafs I e1 e2 c (fun id hid => h id (Or.inl hid)),
        evalSlots_leafs I e1 e2 rest (fun id hid => h id (Or.inr hid))]
end

/-- C05: two environments that agree on the reported dependencies give the same value -/
theorem value_depends_only_on_reported (rows : List DepRow) (I : DSem V) (n : DNode)
    (hw : wellSlotted rows n = true) (e1 e2 : Nat → V) (h : ∀ id ∈ depsOf rows n, e1 id = e2 id) :
    evalD I e1 n = evalD I e2 n := by
  rw [deps_exact rows n hw] at h
  exact evalD_leafs I e1 e2 n h

/-- C05, as the property is worded: whenever changing one location changes the value, that location is
    reported -/
theorem changed_location_reported (rows : List DepRow) (I : DSem V) (n : DNode)
    (hw : wellSlotted rows n = true) (env : Nat → V) (k : Nat) (v : V)
    (hne : evalD I (fun i => if i = k then v else env i) n ≠ evalD I env n) : k ∈ depsOf rows n := by
  by_cases hk : k ∈ depsOf rows n
  · exact hk
  · exfalso
    apply hne
    apply value_depends_only_on_reported rows I n hw
    intro id hid
    have : id ≠ k := fun e => hk (e ▸ hid)
    simp [this]

/-! #### over the class universe: the hypothesis is on the tree, the table only has to be valid -/

/-- C05 for a valid table: for every tree of the universe (`InUniverse n`: a property of the tree,
    decidable without the table), two environments that agree on the reported dependencies give the same
    value.  `ValidDeps` is what makes the reported dependencies contain every leaf
    (`wellSlotted_of_valid`); it is needed: `depRowsD6` below. -/
theorem value_depends_only_on_reported_universe (f : Full) (hv : f.ValidDeps = true) (I : DSem V) (n : DNode)
    (hu : InUniverse n = true) (e1 e2 : Nat → V) (h : ∀ id ∈ depsOf f.deps n, e1 id = e2 id) :
    evalD I e1 n = evalD I e2 n :=
  value_depends_only_on_reported f.deps I n (wellSlotted_of_valid f hv n hu) e1 e2 h

/-- C05 as worded, for a valid table and every tree of the universe -/
theorem changed_location_reported_universe (f : Full) (hv : f.ValidDeps = true) (I : DSem V) (n : DNode)
    (hu : InUniverse n = true) (env : Nat → V) (k : Nat) (v : V)
    (hne : evalD I (fun i => if i = k then v else env i) n ≠ evalD I env n) : k ∈ depsOf f.deps n :=
  changed_location_reported f.deps I n (wellSlotted_of_valid f hv n hu) env k v hne

/-- the classes add up their slots -/
def sumSem : DSem Int := { lit := 0, cls := fun _ vs => (vs.map (·.2)).foldl (· + ·) 0 }

def depRowsOk : List DepRow := [⟨"BuiltinRef", "arg", true, true⟩, ⟨"BuiltinRef", "param", true, true⟩]
def depNode : DNode := .node "BuiltinRef" [("arg", .ref 1), ("param", .node "BuiltinRef" [("arg", .ref 2), ("param", .lit)])]
example : wellSlotted depRowsOk depNode = true := by decide
example : depsOf depRowsOk depNode = [1, 2] := by decide
/-- changing location 2 changes the value, and 2 is reported -/
example : evalD sumSem (fun i => if i = 2 then 10 else 1) depNode ≠ evalD sumSem (fun _ => 1) depNode := by decide
/-- without `wellSlotted` the statement fails (the shape of D6: the `param` slot is not visited): the
    environments agree on everything reported, the values differ -/
def depRowsD6 : List DepRow := [⟨"BuiltinRef", "arg", true, true⟩, ⟨"BuiltinRef", "param", false, true⟩]
example : wellSlotted depRowsD6 depNode = false := by decide
example : depsOf depRowsD6 depNode = [1] := by decide
example : evalD sumSem (fun i => if i = 2 then 10 else 1) depNode ≠ evalD sumSem (fun _ => 1) depNode ∧
    ∀ id ∈ depsOf depRowsD6 depNode, (fun i => if i = 2 then (10 : Int) else 1) id = (fun _ => 1) id := by decide


/-- a tree of the universe using calls with several positional and keyword arguments, a subscript with a
    computed key, an attribute, a builtin with a parameter and a literal node:
    `f(a[b], -c, k = round(d.x, e)) + 1`, refs a … f numbered 1 … 6 -/
def universeNode : DNode :=
  .node "AddExpr"
    [("lhs", .node "CallRef"
        [("func", .ref 6),
         ("arg", .node "ItemRef" [("owner", .ref 1), ("key", .ref 2)]),
         ("arg", .node "NegExpr" [("arg", .ref 3)]),
         ("kwarg", .node "BuiltinRef" [("arg", .node "AttrRef" [("owner", .ref 4), ("key", .lit)]), ("param", .ref 5)])]),
     ("rhs", .node "LiteralExpr" [])]
example : InUniverse universeNode = true := by decide
example : InUniverse depNode = true := by decide
/-- the hypotheses of the universe theorems are satisfiable: `sample` is valid, the tree is in the universe -/
example : depsOf sample.deps universeNode = leafs universeNode :=
  deps_exact_universe sample sample_valid_deps universeNode (by decide)
example : depsOf sample.deps universeNode = [6, 1, 2, 3, 4, 5] := by decide
example : evalD sumSem (fun i => if i = 2 then 10 else 1) universeNode ≠ evalD sumSem (fun _ => 1) universeNode ∧
    2 ∈ depsOf sample.deps universeNode := by decide
/-- the reviewer's point: with the one-row table `wellSlotted` fails for `a + b`, so the earlier theorem
    applied to no such tree; the strengthened test rejects that table (above) -/
example : wellSlotted [⟨"AddExpr", "lhs", true, true⟩] (.node "AddExpr" [("lhs", .ref 1), ("rhs", .ref 2)]) = false := by decide
/-- trees outside the universe: an unknown class, an undeclared slot -/
example : InUniverse (.node "FancyExpr" [("lhs", .ref 1)]) = false := by decide
example : InUniverse (.node "AddExpr" [("lhs", .ref 1), ("middle", .ref 2)]) = false := by decide

end RefsLift
