import Mathlib.Algebra.Order.Field.Basic
import Mathlib.Algebra.Order.AbsoluteValue.Basic
import Mathlib.Tactic.Linarith
import Mathlib.Tactic.FieldSimp

/-! Prototype: `_clip_to_max_steps` (repaired form) over a linear ordered field. -/
namespace Clip
variable {K : Type} [Field K] [LinearOrder K] [IsStrictOrderedRing K]

/-- one loop iteration for coordinate `i`: rescale the whole step if coordinate `i` is too long -/
def clipAt (maxs : Nat → Option K) (out : Nat → K) (i : Nat) : Nat → K :=
  match maxs i with
  | none => out
  | some m => if |out i| > m then fun j => out j * (m / |out i|) else out

def clip (maxs : Nat → Option K) (n : Nat) (x : Nat → K) : Nat → K :=
  (List.range n).foldl (clipAt maxs) x

theorem clipAt_le (maxs : Nat → Option K) (out : Nat → K) (i j : Nat) (hpos : ∀ k m, maxs k = some m → 0 ≤ m) :
    |clipAt maxs out i j| ≤ |out j| := by
  unfold clipAt
  cases hm : maxs i with
  | none => simp
  | some m =>
    simp only
    split
    · next hgt =>
      have h0 : 0 ≤ m := hpos i m hm
      have hpos' : 0 < |out i| := lt_of_le_of_lt h0 hgt
      rw [abs_mul, abs_div, abs_abs, abs_of_nonneg h0]
      have : m / |out i| ≤ 1 := by
        rw [div_le_one hpos']; exact le_of_lt hgt
      calc |out j| * (m / |out i|) ≤ |out j| * 1 := by
            apply mul_le_mul_of_nonneg_left this (abs_nonneg _)
        _ = |out j| := mul_one _
    · simp

theorem clipAt_self (maxs : Nat → Option K) (out : Nat → K) (i : Nat) (m : K) (hm : maxs i = some m)
    (hpos : 0 ≤ m) : |clipAt maxs out i i| ≤ m := by
  unfold clipAt
  simp only [hm]
  split
  · next hgt =>
    have hpos' : 0 < |out i| := lt_of_le_of_lt hpos hgt
    rw [abs_mul, abs_div, abs_abs, abs_of_nonneg hpos]
    rw [mul_div_cancel₀ _ (ne_of_gt hpos')]
  · next h => exact not_lt.mp h

/-- C10: after the loop every coordinate with a `max_step` respects it. -/
theorem clip_bound (maxs : Nat → Option K) (n : Nat) (x : Nat → K)
    (hpos : ∀ k m, maxs k = some m → 0 ≤ m) (i : Nat) (hi : i < n) (m : K) (hm : maxs i = some m) :
    |clip maxs n x i| ≤ m := by
  unfold clip
  -- generalise: after processing indices < k, all processed coordinates are within bound
  have key : ∀ k, k ≤ n → ∀ j < k, ∀ mj, maxs j = some mj →
      |(List.range k).foldl (clipAt maxs) x j| ≤ mj := by
    intro k
    induction k with
    | zero => intro _ j hj; omega
    | succ k ih =>
      intro hk j hj mj hmj
      rw [List.range_succ, List.foldl_append]
      simp only [List.foldl_cons, List.foldl_nil]
      by_cases hjk : j = k
      · subst hjk
        exact clipAt_self maxs _ j mj hmj (hpos j mj hmj)
      · have hj' : j < k := by omega
        exact le_trans (clipAt_le maxs _ k j hpos) (ih (by omega) j hj' mj hmj)
  exact key n (le_refl n) i hi m hm

/-- the pinned code's behaviour on the witness: tests the *unscaled* step -/
def clipAtPinned (maxs : Nat → Option ℚ) (x out : Nat → ℚ) (i : Nat) : Nat → ℚ :=
  match maxs i with
  | none => out
  | some m => if |x i| > m then fun j => out j * (m / |out i|) else out

def clipPinned (maxs : Nat → Option ℚ) (n : Nat) (x : Nat → ℚ) : Nat → ℚ :=
  (List.range n).foldl (clipAtPinned maxs x) x

example : clipPinned (fun i => if i = 0 then some 1 else some 5) 2 (fun _ => 10) 0 = 5 := by
  norm_num [clipPinned, clipAtPinned, List.range_succ, List.foldl]

#print axioms clip_bound
end Clip
