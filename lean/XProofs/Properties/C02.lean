import XModel.Manager
import XModel.DfsIter
/-!
# C02 — one assignment runs exactly the downstream tasks, once each, in dependency order
Model: `Manager.findTaskids` = `Dfs3.toposort (gOf idx) fuel (startOf idx (chainR p))`, a literal
transcription of `find_taskids` / `toposort` / `_dfs` (`XModel/Dfs3.lean`).
-/
namespace Properties.C02
open Store Push Index Manager

variable (g : Path → List Path) (nodes start : List Path)

/-- each triggered task is scheduled at most once -/
theorem C02_once (fuel : Nat) (hfuel : fuel ≥ nodes.length) (hstart : ∀ s ∈ start, s ∈ nodes)
    (hclosed : ∀ u ∈ nodes, ∀ w ∈ g u, w ∈ nodes)
    (hac : ∀ a b, (∃ s ∈ start, Dfs3.Reach g s a) → a ≠ b → Dfs3.Reach g a b → Dfs3.Reach g b a → False) :
    (Dfs3.toposort g fuel start).Nodup :=
  Dfs3.toposort_nodup g nodes start fuel hfuel hstart hclosed hac

/-- exactly the tasks reachable from the start set are scheduled: nothing else runs -/
theorem C02_exact (fuel : Nat) (hfuel : fuel ≥ nodes.length) (hstart : ∀ s ∈ start, s ∈ nodes)
    (hclosed : ∀ u ∈ nodes, ∀ w ∈ g u, w ∈ nodes)
    (hac : ∀ a b, (∃ s ∈ start, Dfs3.Reach g s a) → a ≠ b → Dfs3.Reach g a b → Dfs3.Reach g b a → False)
    (x : Path) : x ∈ Dfs3.toposort g fuel start ↔ ∃ s ∈ start, Dfs3.Reach g s x :=
  Dfs3.toposort_mem_iff g nodes start fuel hfuel hstart hclosed hac x

/-- never before a triggered task that produces one of its inputs -/
theorem C02_order (fuel : Nat) (hfuel : fuel ≥ nodes.length) (hstart : ∀ s ∈ start, s ∈ nodes)
    (hclosed : ∀ u ∈ nodes, ∀ w ∈ g u, w ∈ nodes)
    (hac : ∀ a b, (∃ s ∈ start, Dfs3.Reach g s a) → a ≠ b → Dfs3.Reach g a b → Dfs3.Reach g b a → False)
    (u w : Path) (hu : u ∈ Dfs3.toposort g fuel start) (hw : w ∈ g u) (hne : w ≠ u) :
    Dfs3.Before (Dfs3.toposort g fuel start) u w :=
  Dfs3.toposort_before g nodes start fuel hfuel hstart hclosed hac u w hu hw hne

end Properties.C02
