import XModel.ManagerInv
import XModel.Acyclic
import XModel.DfsIter
import XModel.ManagerTrace
/-!
# C02 — one assignment runs exactly the downstream tasks, once each, in dependency order
Model: `Manager.findTaskids` = `Dfs3.toposort (gOf idx) fuel (startOf idx (chainR p))`, a literal
transcription of `find_taskids` / `toposort` / `_dfs` (`XModel/Dfs3.lean`).

**Which tree.**  The model transcribes `/repo` as it stands now: the pinned commit plus the `fix:` commits recorded in
`/verif/KNOWN_FINDINGS.json` (status `fixed`).  Where a theorem below rests on repaired code — the repaired `unregister` behind `MInv`, the iterative DFS (no recursion limit: termination on long chains) — it is false of
the tree as first pinned; the witnesses are kept (defects D2, D3).
-/
namespace Properties.C02
open Store Push Index Manager

variable (g : Path → List Path) (nodes start : List Path)

/-- each triggered task is scheduled at most once — every graph, cyclic ones included -/
theorem C02_once (fuel : Nat) (hfuel : fuel ≥ nodes.length) (hstart : ∀ s ∈ start, s ∈ nodes)
    (hclosed : ∀ u ∈ nodes, ∀ w ∈ g u, w ∈ nodes) :
    (Dfs3.toposort g fuel start).Nodup :=
  Dfs3.toposort_nodup' g nodes start fuel hfuel hstart hclosed

/-- exactly the tasks reachable from the start set are scheduled: nothing else runs — every graph -/
theorem C02_exact (fuel : Nat) (hfuel : fuel ≥ nodes.length) (hstart : ∀ s ∈ start, s ∈ nodes)
    (hclosed : ∀ u ∈ nodes, ∀ w ∈ g u, w ∈ nodes)
    (x : Path) : x ∈ Dfs3.toposort g fuel start ↔ ∃ s ∈ start, Dfs3.Reach g s x :=
  Dfs3.toposort_mem_iff' g nodes start fuel hfuel hstart hclosed x

/-- never before a triggered task that produces one of its inputs -/
theorem C02_order (fuel : Nat) (hfuel : fuel ≥ nodes.length) (hstart : ∀ s ∈ start, s ∈ nodes)
    (hclosed : ∀ u ∈ nodes, ∀ w ∈ g u, w ∈ nodes)
    (hac : ∀ a b, (∃ s ∈ start, Dfs3.Reach g s a) → a ≠ b → Dfs3.Reach g a b → Dfs3.Reach g b a → False)
    (u w : Path) (hu : u ∈ Dfs3.toposort g fuel start) (hw : w ∈ g u) (hne : w ≠ u) :
    Dfs3.Before (Dfs3.toposort g fuel start) u w :=
  Dfs3.toposort_before g nodes start fuel hfuel hstart hclosed hac u w hu hw hne

/-- **on the executable manager**: in every state reachable through the API, the list `find_taskids` computes for
    an assigned location has no duplicates, is exactly the set of tasks reachable in the ordering graph
    from the tasks that read the location or a container enclosing it, and puts every producer before
    its consumers, provided no cycle through two distinct tasks is reachable from the start set.
    The graph hypotheses of the three theorems above are discharged from the index invariant. -/
theorem C02_findTaskids (s : MState) (hi : MInv s) (p : Path)
    (hac : ∀ a b, (∃ s0 ∈ startOf s.idx (chainR p), Dfs3.Reach (gOf s.idx) s0 a) → a ≠ b →
      Dfs3.Reach (gOf s.idx) a b → Dfs3.Reach (gOf s.idx) b a → False) :
    (findTaskids s.idx (chainR p)).Nodup ∧
    (∀ x, x ∈ findTaskids s.idx (chainR p) ↔ ∃ s0 ∈ startOf s.idx (chainR p), Dfs3.Reach (gOf s.idx) s0 x) ∧
    (∀ u w, u ∈ findTaskids s.idx (chainR p) → w ∈ gOf s.idx u → w ≠ u →
      Dfs3.Before (findTaskids s.idx (chainR p)) u w) :=
  findTaskids_spec s hi (chainR p) hac

/-- on the executable manager, without any acyclicity assumption: once each, exactly the reachable tasks -/
theorem C02_findTaskids_once_exact (s : MState) (hi : MInv s) (p : Path) :
    (findTaskids s.idx (chainR p)).Nodup ∧
    (∀ x, x ∈ findTaskids s.idx (chainR p) ↔ ∃ s0 ∈ startOf s.idx (chainR p), Dfs3.Reach (gOf s.idx) s0 x) :=
  findTaskids_once_exact s hi (chainR p)

/-- the Boolean acyclicity test of the driver (`acyclicFrom`: the depth-first order respects every edge)
    implies the hypothesis of `C02_order` / `C02_findTaskids` -/
theorem C02_acyclic_test_sound (s : MState) (hi : MInv s) (p : Path)
    (h : acyclicFrom s.idx (startOf s.idx (chainR p)) = true) :
    ∀ a b, (∃ s0 ∈ startOf s.idx (chainR p), Dfs3.Reach (gOf s.idx) s0 a) → a ≠ b →
      Dfs3.Reach (gOf s.idx) a b → Dfs3.Reach (gOf s.idx) b a → False :=
  acyclicFrom_sound s hi (chainR p) h

/-- `run_tasks` executes the list in order and nothing else: it is the left fold of `runTask` -/
theorem C02_runs_in_order (l1 l2 : List MTask) (s s1 : MState) (h : runTasks s l1 = (s1, none)) :
    runTasks s (l1 ++ l2) = runTasks s1 l2 := runTasks_ok_append l1 l2 s s1 h

/-! ### wrappers of the model-level results (statements as printed by `#check`) -/
section wrapped

/-- **the execution itself** (expression tasks, plain location, completed call, any legal schedule): the trace of the call is the write of the assigned location followed by exactly one write per task of a duplicate-free list π; π consists exactly of the tasks reachable, along DECLARED edges (a target of one task is a dependency of the next), from a task that declares a dependency on the assigned location or on a container enclosing it; and a task never runs before a triggered task that produces one of its inputs -/
theorem C02_execution :
    ∀ (sched : Manager.Sched) (s : Manager.MState),
      Manager.MInv s →
        ∀ (p : Manager.Path) (v : Store.Val),
          (∀ (t : Manager.MTask), t ∈ s.defs → ∃ e, t.kind = Manager.Kind.expr e) →
            Manager.lookDef s.defs p = none →
              Manager.ValidSched (Manager.gOf s.idx) (Manager.findTaskids s.idx (Manager.chainR p))
                  (sched (Manager.findTaskids s.idx (Manager.chainR p))) →
                ∀ (s' : Manager.MState),
                  Manager.setValue sched s p v = (s', none) →
                    ∃ π,
                      s'.trace = s.trace ++ (true, p) :: List.map (fun id => (true, id)) π ∧
                        List.Nodup π ∧
                          (∀ (x : Manager.Path),
                              x ∈ π ↔
                                ∃ t,
                                  t ∈ s.defs ∧
                                    (∃ d, d ∈ t.deps ∧ 2 ≤ List.length d ∧ d <+: p) ∧ Manager.DeclChain s.defs t.id x) ∧
                            ∀ (u w : Manager.Path), u ∈ π → w ∈ π → Manager.declEdge s.defs u w → w ≠ u → Dfs3.Before π u w :=
  @Manager.C02_execution

/-- the same when the schedule is the toposort run on ANY permutation of the start set and ANY adjacency lists with the same neighbour sets: whatever order Python's sets are iterated in -/
theorem C02_execution_any_order :
    ∀ (s : Manager.MState),
      Manager.MInv s →
        ∀ (p : Manager.Path) (v : Store.Val) (g' : Manager.Path → List Manager.Path) (start' : List Manager.Path),
          (∀ (u w : Manager.Path), w ∈ g' u ↔ w ∈ Manager.gOf s.idx u) →
            List.Perm start' (Manager.startOf s.idx (Manager.chainR p)) →
              (∀ (a b : Manager.Path),
                  (∃ s0, s0 ∈ Manager.startOf s.idx (Manager.chainR p) ∧ Dfs3.Reach (Manager.gOf s.idx) s0 a) →
                    a ≠ b → Dfs3.Reach (Manager.gOf s.idx) a b → Dfs3.Reach (Manager.gOf s.idx) b a → False) →
                (∀ (t : Manager.MTask), t ∈ s.defs → ∃ e, t.kind = Manager.Kind.expr e) →
                  Manager.lookDef s.defs p = none →
                    ∀ (s' : Manager.MState),
                      Manager.setValue (fun x => Dfs3.toposort g' (Manager.fuelOf s.idx) start') s p v = (s', none) →
                        ∃ π,
                          s'.trace = s.trace ++ (true, p) :: List.map (fun id => (true, id)) π ∧
                            List.Nodup π ∧
                              (∀ (x : Manager.Path),
                                  x ∈ π ↔
                                    ∃ t,
                                      t ∈ s.defs ∧
                                        (∃ d, d ∈ t.deps ∧ 2 ≤ List.length d ∧ d <+: p) ∧ Manager.DeclChain s.defs t.id x) ∧
                                ∀ (u w : Manager.Path),
                                  u ∈ π → w ∈ π → Manager.declEdge s.defs u w → w ≠ u → Dfs3.Before π u w :=
  @Manager.C02_execution_any_order

/-- the bridge used by C01 / C13 / C18 / C20: every iteration order of the start set and of the adjacency sets yields a legal schedule (`ValidSched`) when the triggered subgraph is acyclic -/
theorem C02_any_set_order_is_legal :
    ∀ (s : Manager.MState),
      Manager.MInv s →
        ∀ (D : List Manager.Path) (g' : Manager.Path → List Manager.Path) (start' : List Manager.Path),
          (∀ (u w : Manager.Path), w ∈ g' u ↔ w ∈ Manager.gOf s.idx u) →
            List.Perm start' (Manager.startOf s.idx D) →
              Manager.acyclicFrom s.idx (Manager.startOf s.idx D) = true →
                Manager.ValidSched (Manager.gOf s.idx) (Manager.findTaskids s.idx D)
                  (Dfs3.toposort g' (Manager.fuelOf s.idx) start') :=
  @Manager.toposort_perm_valid_decided

/-- the triggered set in terms of the tasks' declared dependencies and targets, not of the internal indices -/
theorem C02_triggered_iff_declared_chain :
    ∀ (s : Manager.MState),
      Manager.MInv s →
        ∀ (p x : Manager.Path),
          x ∈ Manager.findTaskids s.idx (Manager.chainR p) ↔
            ∃ t, t ∈ s.defs ∧ (∃ d, d ∈ t.deps ∧ 2 ≤ List.length d ∧ d <+: p) ∧ Manager.DeclChain s.defs t.id x :=
  @Manager.findTaskids_assign_iff

/-- a call that raises has run a prefix of the schedule's events and nothing else (all task kinds) -/
theorem C02_failing_call_runs_a_prefix :
    ∀ (sched : Manager.Sched) (s : Manager.MState) (p : Manager.Path) (v : Store.Val),
      Manager.lookDef s.defs p = none →
        ∀ (s' : Manager.MState) (e : Store.Err),
          Manager.setValue sched s p v = (s', some e) →
            ∃ pre,
              pre <+:
                  (true, p) :: List.flatMap (Manager.evsAt s.defs) (sched (Manager.findTaskids s.idx (Manager.chainR p))) ∧
                s'.trace = s.trace ++ pre :=
  @Manager.setValue_trace_fail

end wrapped

end Properties.C02
