import XModel.ManagerInv
import XModel.Acyclic
import XModel.DfsIter
import XModel.ManagerTrace
import XModel.ManagerTrace2
/-!
# C02 — one assignment runs exactly the downstream tasks, once each, in dependency order
Model: `Manager.findTaskids` = `Dfs3.toposort (gOf idx) fuel (startOf idx (chainR p))` (`XModel/Manager.lean`); this is
the function the driver executes and the one every theorem below is about.

**Which function is `_dfs`.**  Today's `xdeps/sorting.py::_dfs` is the explicit-stack loop
(`todo = [(source, iter(graph[source]))]; while todo: …`, fix commit for defect D2).  Its statement-by-statement
transcription is `DfsIter.iterStep` (`XModel/DfsIter.lean`: one pass through the `while` body — the next neighbour is
skipped if visited, else marked and its frame pushed; an exhausted frame is popped and its node prepended to `stack`),
iterated by `DfsIter.iterN`.  `Dfs3.dfs` (`XModel/Dfs3.lean`: recursive, fuel-indexed) transcribes `_dfs` AS FIRST
PINNED (the recursive one); `Dfs3.toposort` is the `for vertex in start` loop around it, and it is what
`Manager.findTaskids` calls.  The two are proved to compute the same thing: `C02_iterative_dfs_is_recursive_dfs`
(= `DfsIter.dfs_claim`, one call of `_dfs`) and `C02_iterative_toposort_is_recursive_toposort` (the whole `toposort`).
So: the theorems are stated for the recursive transcription and transfer to today's loop through these two; no theorem
below mentions `DfsIter` otherwise.  What the repair changed in Python — no `RecursionError` on chains longer than the
recursion limit — has no counterpart in either Lean function (both are total); D2's witness is a Python-side test.

**Which tree.**  The model transcribes `/repo` as it stands now: the pinned commit plus the `fix:` commits recorded in
`/verif/KNOWN_FINDINGS.json` (status `fixed`).  Where a theorem below rests on repaired code — the repaired `unregister`
behind `MInv` (defect D3) — it is false of the tree as first pinned; the witnesses are kept (defects D2, D3).

**What to read.**  List level: `C02_findTaskids` (acyclic: once, exact, ordered), `C02_findTaskids_once_exact` (every
graph).  Execution level: `C02_execution_all_kinds` (trace of a completed assignment, expression + function + knob
tasks, legal schedule) and `C02_execution_all_kinds_cyclic` / `_cyclic_any_order` (every graph: terminates, each task
once, exactly the reachable ones); `C02_execution` / `C02_execution_any_order` are the earlier expression-only forms.
In `C02_execution*` the conjuncts "no duplicates / exactly the declared-reachable / order" restate the scheduler
hypothesis (`ValidSched`, resp. what is proved of the depth-first sort) through `gOf_iff_declEdge` /
`findTaskids_assign_iff`; the derived content is the trace identity, and with the `_any_order` forms the fact that the
depth-first sort satisfies the hypothesis whatever the iteration order.  `C02_runs_in_order` is a superseded fold
identity, kept for reference only.
-/
namespace Properties.C02
open Store Push Index Manager

variable (g : Path → List Path) (nodes start : List Path)

/-- each triggered task is scheduled at most once — every graph, cyclic ones included -/
theorem C02_once (fuel : Nat) (hfuel : fuel ≥ nodes.length) (hstart : ∀ s ∈ start, s ∈ nodes)
    (hclosed : ∀ u ∈ nodes, ∀ w ∈ g u, w ∈ nodes) :
    (Dfs3.toposort g fuel start).Nodup :=
  Dfs3.toposort_nodup' g nodes start fuel hfuel hstart hclosed

/-- exactly the tasks reachable from the start set are scheduled: nothing else runs — every graph -/
theorem C02_exact (fuel : Nat) (hfuel : fuel ≥ nodes.length) (hstart : ∀ s ∈ start, s ∈ nodes)
    (hclosed : ∀ u ∈ nodes, ∀ w ∈ g u, w ∈ nodes)
    (x : Path) : x ∈ Dfs3.toposort g fuel start ↔ ∃ s ∈ start, Dfs3.Reach g s x :=
  Dfs3.toposort_mem_iff' g nodes start fuel hfuel hstart hclosed x

/-- never before a triggered task that produces one of its inputs -/
theorem C02_order (fuel : Nat) (hfuel : fuel ≥ nodes.length) (hstart : ∀ s ∈ start, s ∈ nodes)
    (hclosed : ∀ u ∈ nodes, ∀ w ∈ g u, w ∈ nodes)
    (hac : ∀ a b, (∃ s ∈ start, Dfs3.Reach g s a) → a ≠ b → Dfs3.Reach g a b → Dfs3.Reach g b a → False)
    (u w : Path) (hu : u ∈ Dfs3.toposort g fuel start) (hw : w ∈ g u) (hne : w ≠ u) :
    Dfs3.Before (Dfs3.toposort g fuel start) u w :=
  Dfs3.toposort_before g nodes start fuel hfuel hstart hclosed hac u w hu hw hne

/-- **on the executable manager**: in every state reachable through the API, the list `find_taskids` computes for
    an assigned location has no duplicates, is exactly the set of tasks reachable in the ordering graph
    from the tasks that read the location or a container enclosing it, and puts every producer before
    its consumers, provided no cycle through two distinct tasks is reachable from the start set.
    The graph hypotheses of the three theorems above are discharged from the index invariant. -/
theorem C02_findTaskids (s : MState) (hi : MInv s) (p : Path)
    (hac : ∀ a b, (∃ s0 ∈ startOf s.idx (chainR p), Dfs3.Reach (gOf s.idx) s0 a) → a ≠ b →
      Dfs3.Reach (gOf s.idx) a b → Dfs3.Reach (gOf s.idx) b a → False) :
    (findTaskids s.idx (chainR p)).Nodup ∧
    (∀ x, x ∈ findTaskids s.idx (chainR p) ↔ ∃ s0 ∈ startOf s.idx (chainR p), Dfs3.Reach (gOf s.idx) s0 x) ∧
    (∀ u w, u ∈ findTaskids s.idx (chainR p) → w ∈ gOf s.idx u → w ≠ u →
      Dfs3.Before (findTaskids s.idx (chainR p)) u w) :=
  findTaskids_spec s hi (chainR p) hac

/-- on the executable manager, without any acyclicity assumption: once each, exactly the reachable tasks -/
theorem C02_findTaskids_once_exact (s : MState) (hi : MInv s) (p : Path) :
    (findTaskids s.idx (chainR p)).Nodup ∧
    (∀ x, x ∈ findTaskids s.idx (chainR p) ↔ ∃ s0 ∈ startOf s.idx (chainR p), Dfs3.Reach (gOf s.idx) s0 x) :=
  findTaskids_once_exact s hi (chainR p)

/-- the Boolean acyclicity test of the driver (`acyclicFrom`: the depth-first order respects every edge)
    implies the hypothesis of `C02_order` / `C02_findTaskids` -/
theorem C02_acyclic_test_sound (s : MState) (hi : MInv s) (p : Path)
    (h : acyclicFrom s.idx (startOf s.idx (chainR p)) = true) :
    ∀ a b, (∃ s0 ∈ startOf s.idx (chainR p), Dfs3.Reach (gOf s.idx) s0 a) → a ≠ b →
      Dfs3.Reach (gOf s.idx) a b → Dfs3.Reach (gOf s.idx) b a → False :=
  acyclicFrom_sound s hi (chainR p) h

/-- SUPERSEDED (kept for reference): a fold identity — `run_tasks` on `l1 ++ l2`, when the part `l1` completes, continues
    with `l2` from the state `l1` left.  It says nothing about which tasks are listed or what they write; the
    execution-level statements are `C02_execution_all_kinds` and `C02_execution_all_kinds_cyclic` below. -/
theorem C02_runs_in_order (l1 l2 : List MTask) (s s1 : MState) (h : runTasks s l1 = (s1, none)) :
    runTasks s (l1 ++ l2) = runTasks s1 l2 := runTasks_ok_append l1 l2 s s1 h

/-! ### wrappers of the model-level results (statements as printed by `#check`) -/
section wrapped

/-- **the execution itself** (expression tasks, plain location, completed call, any legal schedule): the trace of the call is the write of the assigned location followed by exactly one write per task of a duplicate-free list π; π consists exactly of the tasks reachable, along DECLARED edges (a target of one task is a dependency of the next), from a task that declares a dependency on the assigned location or on a container enclosing it; and a task never runs before a triggered task that produces one of its inputs -/
theorem C02_execution :
    ∀ (sched : Manager.Sched) (s : Manager.MState),
      Manager.MInv s →
        ∀ (p : Manager.Path) (v : Store.Val),
          (∀ (t : Manager.MTask), t ∈ s.defs → ∃ e, t.kind = Manager.Kind.expr e) →
            Manager.lookDef s.defs p = none →
              Manager.ValidSched (Manager.gOf s.idx) (Manager.findTaskids s.idx (Manager.chainR p))
                  (sched (Manager.findTaskids s.idx (Manager.chainR p))) →
                ∀ (s' : Manager.MState),
                  Manager.setValue sched s p v = (s', none) →
                    ∃ π,
                      s'.trace = s.trace ++ (true, p) :: List.map (fun id => (true, id)) π ∧
                        List.Nodup π ∧
                          (∀ (x : Manager.Path),
                              x ∈ π ↔
                                ∃ t,
                                  t ∈ s.defs ∧
                                    (∃ d, d ∈ t.deps ∧ 2 ≤ List.length d ∧ d <+: p) ∧ Manager.DeclChain s.defs t.id x) ∧
                            ∀ (u w : Manager.Path), u ∈ π → w ∈ π → Manager.declEdge s.defs u w → w ≠ u → Dfs3.Before π u w :=
  @Manager.C02_execution

/-- the same when the schedule is the toposort run on ANY permutation of the start set and ANY adjacency lists with the same neighbour sets: whatever order Python's sets are iterated in -/
theorem C02_execution_any_order :
    ∀ (s : Manager.MState),
      Manager.MInv s →
        ∀ (p : Manager.Path) (v : Store.Val) (g' : Manager.Path → List Manager.Path) (start' : List Manager.Path),
          (∀ (u w : Manager.Path), w ∈ g' u ↔ w ∈ Manager.gOf s.idx u) →
            List.Perm start' (Manager.startOf s.idx (Manager.chainR p)) →
              (∀ (a b : Manager.Path),
                  (∃ s0, s0 ∈ Manager.startOf s.idx (Manager.chainR p) ∧ Dfs3.Reach (Manager.gOf s.idx) s0 a) →
                    a ≠ b → Dfs3.Reach (Manager.gOf s.idx) a b → Dfs3.Reach (Manager.gOf s.idx) b a → False) →
                (∀ (t : Manager.MTask), t ∈ s.defs → ∃ e, t.kind = Manager.Kind.expr e) →
                  Manager.lookDef s.defs p = none →
                    ∀ (s' : Manager.MState),
                      Manager.setValue (fun x => Dfs3.toposort g' (Manager.fuelOf s.idx) start') s p v = (s', none) →
                        ∃ π,
                          s'.trace = s.trace ++ (true, p) :: List.map (fun id => (true, id)) π ∧
                            List.Nodup π ∧
                              (∀ (x : Manager.Path),
                                  x ∈ π ↔
                                    ∃ t,
                                      t ∈ s.defs ∧
                                        (∃ d, d ∈ t.deps ∧ 2 ≤ List.length d ∧ d <+: p) ∧ Manager.DeclChain s.defs t.id x) ∧
                                ∀ (u w : Manager.Path),
                                  u ∈ π → w ∈ π → Manager.declEdge s.defs u w → w ≠ u → Dfs3.Before π u w :=
  @Manager.C02_execution_any_order

/-- the bridge used by C01 / C13 / C18 / C20: every iteration order of the start set and of the adjacency sets yields a legal schedule (`ValidSched`) when the triggered subgraph is acyclic -/
theorem C02_any_set_order_is_legal :
    ∀ (s : Manager.MState),
      Manager.MInv s →
        ∀ (D : List Manager.Path) (g' : Manager.Path → List Manager.Path) (start' : List Manager.Path),
          (∀ (u w : Manager.Path), w ∈ g' u ↔ w ∈ Manager.gOf s.idx u) →
            List.Perm start' (Manager.startOf s.idx D) →
              Manager.acyclicFrom s.idx (Manager.startOf s.idx D) = true →
                Manager.ValidSched (Manager.gOf s.idx) (Manager.findTaskids s.idx D)
                  (Dfs3.toposort g' (Manager.fuelOf s.idx) start') :=
  @Manager.toposort_perm_valid_decided

/-- the triggered set in terms of the tasks' declared dependencies and targets, not of the internal indices -/
theorem C02_triggered_iff_declared_chain :
    ∀ (s : Manager.MState),
      Manager.MInv s →
        ∀ (p x : Manager.Path),
          x ∈ Manager.findTaskids s.idx (Manager.chainR p) ↔
            ∃ t, t ∈ s.defs ∧ (∃ d, d ∈ t.deps ∧ 2 ≤ List.length d ∧ d <+: p) ∧ Manager.DeclChain s.defs t.id x :=
  @Manager.findTaskids_assign_iff

/-- a call that raises has run a prefix of the schedule's events and nothing else (all task kinds) -/
theorem C02_failing_call_runs_a_prefix :
    ∀ (sched : Manager.Sched) (s : Manager.MState) (p : Manager.Path) (v : Store.Val),
      Manager.lookDef s.defs p = none →
        ∀ (s' : Manager.MState) (e : Store.Err),
          Manager.setValue sched s p v = (s', some e) →
            ∃ pre,
              pre <+:
                  (true, p) :: List.flatMap (Manager.evsAt s.defs) (sched (Manager.findTaskids s.idx (Manager.chainR p))) ∧
                s'.trace = s.trace ++ pre :=
  @Manager.setValue_trace_fail

end wrapped

/-! ### today's `_dfs` (explicit stack) and the recursive transcription compute the same thing -/
section iter
open Dfs3 DfsIter
variable {α : Type} [DecidableEq α] (g : α → List α) (nodes : List α) (hclosed : ∀ u ∈ nodes, ∀ w ∈ g u, w ∈ nodes)

include hclosed in
/-- one call `_dfs(graph, v, stack, visited)`: started on the frame `(v, iter(graph[v]))` with `v` marked visited,
    the `while todo:` loop reaches — after some number `k` of passes — the state the recursive `_dfs` returns, with
    the frames underneath untouched; for every fuel `n` of the recursive version not below the number of unvisited
    nodes -/
theorem C02_iterative_dfs_is_recursive_dfs (n : Nat) (v : α) (st : St α) (fs : Frames α) (hv : v ∈ nodes)
    (hnv : v ∉ st.visited) (hfuel : n ≥ unv nodes st.visited) :
    ∃ k, iterN g k ((v, g v) :: fs, { st with visited := v :: st.visited }) = (fs, dfs g n v st) :=
  dfs_claim g nodes hclosed n v st fs hv hnv hfuel

include hclosed in
/-- the whole `toposort(graph, start)`: the loop `for vertex in start: if vertex not in visited: _dfs(…)` is the frame
    `(root, start)` (a vertex not yet visited is marked and its frame pushed, exactly the first two statements of
    `_dfs`); run from empty `stack` / `visited`, it ends with that frame exhausted and `stack` = the list
    `Dfs3.toposort` returns -/
theorem C02_iterative_toposort_is_recursive_toposort (fuel : Nat) (start : List α) (root : α)
    (hfuel : fuel ≥ nodes.length) (hstart : ∀ s ∈ start, s ∈ nodes) :
    ∃ k st', iterN g k ([(root, start)], ⟨[], []⟩) = ([(root, [])], st') ∧ st'.stack = toposort g fuel start := by
  obtain ⟨k, hk⟩ := list_of_dfs g nodes hclosed fuel (dfs_claim g nodes hclosed fuel) start ⟨[], []⟩ root [] hstart
    (Nat.le_trans (unv_le_length nodes []) hfuel)
  exact ⟨k, _, hk, rfl⟩

end iter

/-! ### the execution, all task kinds -/

/-- **C02 on the execution, expression + function + linear-knob tasks** (any manager state reachable through the API,
    completed `set_value(ref, value)`, any legal schedule).  With `pre = preState s p` — the state after `set_value`
    has removed a definition AT `p` if there was one; `pre = s` otherwise (`C02_execution_all_kinds_plain`) — there is
    a list `π` of task ids such that: the call appended to the trace exactly the write of the assigned location
    followed by one block of events per element of `π`, in order; `π` has no duplicates (each task once); every element
    is a registered task and its block is, by kind, the write of its target (expression task) / ONE action-call event
    (function task) / one write per (weight, target) pair (linear knob) (`BlockOf`); the elements are exactly the
    tasks reachable along DECLARED edges from a task declaring a dependency on the assigned location or a container
    enclosing it; and a task never runs before a triggered task that produces one of its inputs. -/
theorem C02_execution_all_kinds (sched : Sched) (s : MState) (hi : MInv s) (p : Path) (v : Val)
    (hvs : ValidSched (gOf (preState s p).idx) (findTaskids (preState s p).idx (chainR p))
      (sched (findTaskids (preState s p).idx (chainR p))))
    (s' : MState) (hok : setValue sched s p v = (s', none)) :
    ∃ π : List Path,
      s'.trace = s.trace ++ (true, p) :: π.flatMap (evsAt (preState s p).defs) ∧
      π.Nodup ∧
      (∀ x ∈ π, ∃ t, BlockOf (preState s p).defs x t) ∧
      (∀ x, x ∈ π ↔ ∃ t ∈ (preState s p).defs, (∃ d ∈ t.deps, 2 ≤ d.length ∧ d <+: p) ∧
        DeclChain (preState s p).defs t.id x) ∧
      (∀ u w, u ∈ π → w ∈ π → declEdge (preState s p).defs u w → w ≠ u → Dfs3.Before π u w) :=
  setValue_execution_all_kinds sched s hi p v hvs s' hok

/-- the task table the call runs on: the call state's table without the definition at the assigned location -/
theorem C02_execution_table (sched : Sched) (s : MState) (hi : MInv s) (p : Path) (v : Val) (s' : MState)
    (hok : setValue sched s p v = (s', none)) :
    (preState s p).defs = s.defs.filter (fun x => !decide (x.id = p)) ∧
    (lookDef s.defs p = none → preState s p = s) :=
  ⟨preState_defs_of_ok sched s hi p v s' hok, preState_of_nodef s p⟩

/-- the assigned location has no definition: everything in terms of the call state -/
theorem C02_execution_all_kinds_plain (sched : Sched) (s : MState) (hi : MInv s) (p : Path) (v : Val)
    (hnodef : lookDef s.defs p = none)
    (hvs : ValidSched (gOf s.idx) (findTaskids s.idx (chainR p)) (sched (findTaskids s.idx (chainR p))))
    (s' : MState) (hok : setValue sched s p v = (s', none)) :
    ∃ π : List Path,
      s'.trace = s.trace ++ (true, p) :: π.flatMap (evsAt s.defs) ∧
      π.Nodup ∧
      (∀ x ∈ π, ∃ t, BlockOf s.defs x t) ∧
      (∀ x, x ∈ π ↔ ∃ t ∈ s.defs, (∃ d ∈ t.deps, 2 ≤ d.length ∧ d <+: p) ∧ DeclChain s.defs t.id x) ∧
      (∀ u w, u ∈ π → w ∈ π → declEdge s.defs u w → w ≠ u → Dfs3.Before π u w) :=
  setValue_execution_all_kinds_plain sched s hi p v hnodef hvs s' hok

/-- the same when the schedule is the depth-first sort run on ANY permutation of the start set and ANY adjacency lists
    with the same neighbour sets (acyclic triggered subgraph) -/
theorem C02_execution_all_kinds_any_order (s : MState) (hi : MInv s) (p : Path) (v : Val)
    (hnodef : lookDef s.defs p = none)
    (g' : Path → List Path) (start' : List Path)
    (hg : ∀ u w, w ∈ g' u ↔ w ∈ gOf s.idx u)
    (hperm : start'.Perm (startOf s.idx (chainR p)))
    (hac : ∀ a b, (∃ s0 ∈ startOf s.idx (chainR p), Dfs3.Reach (gOf s.idx) s0 a) → a ≠ b →
      Dfs3.Reach (gOf s.idx) a b → Dfs3.Reach (gOf s.idx) b a → False)
    (s' : MState)
    (hok : setValue (fun _ => Dfs3.toposort g' (fuelOf s.idx) start') s p v = (s', none)) :
    ∃ π : List Path,
      s'.trace = s.trace ++ (true, p) :: π.flatMap (evsAt s.defs) ∧
      π.Nodup ∧
      (∀ x ∈ π, ∃ t, BlockOf s.defs x t) ∧
      (∀ x, x ∈ π ↔ ∃ t ∈ s.defs, (∃ d ∈ t.deps, 2 ≤ d.length ∧ d <+: p) ∧ DeclChain s.defs t.id x) ∧
      (∀ u w, u ∈ π → w ∈ π → declEdge s.defs u w → w ≠ u → Dfs3.Before π u w) :=
  setValue_execution_all_kinds_any_order s hi p v hnodef g' start' hg hperm hac s' hok

/-- **cyclic graphs, on the execution** — NO hypothesis on the graph, the model's own order (`sched = id`): the call
    terminates (every model function is total; the fuel of the depth-first sort is never exhausted, which is what
    exactness says), and if it completes, its trace is the assigned write followed by one block per element of a
    duplicate-free `π` whose elements are exactly the tasks reachable from the start set: each triggered task ran once,
    nothing else ran.  (Nothing is said about the order, and the result need not satisfy the definitions: C01 needs
    acyclicity.) -/
theorem C02_execution_all_kinds_cyclic (s : MState) (hi : MInv s) (p : Path) (v : Val)
    (s' : MState) (hok : setValue id s p v = (s', none)) :
    ∃ π : List Path,
      s'.trace = s.trace ++ (true, p) :: π.flatMap (evsAt (preState s p).defs) ∧
      π.Nodup ∧
      (∀ x ∈ π, ∃ t, BlockOf (preState s p).defs x t) ∧
      (∀ x, x ∈ π ↔ ∃ t ∈ (preState s p).defs, (∃ d ∈ t.deps, 2 ≤ d.length ∧ d <+: p) ∧
        DeclChain (preState s p).defs t.id x) ∧
      (∀ x, x ∈ π ↔ ∃ s0 ∈ startOf (preState s p).idx (chainR p), Dfs3.Reach (gOf (preState s p).idx) s0 x) :=
  setValue_execution_cyclic s hi p v s' hok

/-- cyclic graphs, ANY iteration order of the start set and of the neighbour sets -/
theorem C02_execution_all_kinds_cyclic_any_order (s : MState) (hi : MInv s) (p : Path) (v : Val)
    (hnodef : lookDef s.defs p = none)
    (g' : Path → List Path) (start' : List Path)
    (hg : ∀ u w, w ∈ g' u ↔ w ∈ gOf s.idx u)
    (hperm : start'.Perm (startOf s.idx (chainR p)))
    (s' : MState)
    (hok : setValue (fun _ => Dfs3.toposort g' (fuelOf s.idx) start') s p v = (s', none)) :
    ∃ π : List Path,
      s'.trace = s.trace ++ (true, p) :: π.flatMap (evsAt s.defs) ∧
      π.Nodup ∧
      (∀ x ∈ π, ∃ t, BlockOf s.defs x t) ∧
      (∀ x, x ∈ π ↔ ∃ t ∈ s.defs, (∃ d ∈ t.deps, 2 ≤ d.length ∧ d <+: p) ∧ DeclChain s.defs t.id x) ∧
      (∀ x, x ∈ π ↔ ∃ s0 ∈ startOf s.idx (chainR p), Dfs3.Reach (gOf s.idx) s0 x) :=
  setValue_execution_cyclic_any_order s hi p v hnodef g' start' hg hperm s' hok

/-- any scheduler that lists the triggered tasks once each, in whatever order (the general form of the two above) -/
theorem C02_execution_all_kinds_once_exact (sched : Sched) (s : MState) (hi : MInv s) (p : Path) (v : Val)
    (hoe : OnceExact (findTaskids (preState s p).idx (chainR p)) (sched (findTaskids (preState s p).idx (chainR p))))
    (s' : MState) (hok : setValue sched s p v = (s', none)) :
    ∃ π : List Path,
      s'.trace = s.trace ++ (true, p) :: π.flatMap (evsAt (preState s p).defs) ∧
      π.Nodup ∧
      (∀ x ∈ π, ∃ t, BlockOf (preState s p).defs x t) ∧
      (∀ x, x ∈ π ↔ ∃ t ∈ (preState s p).defs, (∃ d ∈ t.deps, 2 ≤ d.length ∧ d <+: p) ∧
        DeclChain (preState s p).defs t.id x) ∧
      (∀ x, x ∈ π ↔ ∃ s0 ∈ startOf (preState s p).idx (chainR p), Dfs3.Reach (gOf (preState s p).idx) s0 x) :=
  setValue_execution_once_exact sched s hi p v hoe s' hok

/-- the action of a function task is called at most once per assignment: its action-call event occurs in what the
    call appended exactly once if the task is triggered, not at all otherwise (any graph, any duplicate-free schedule) -/
theorem C02_action_called_at_most_once (sched : Sched) (s : MState) (p : Path) (v : Val)
    (hnd : (sched (findTaskids (preState s p).idx (chainR p))).Nodup)
    (F : MTask) (body : List (Path × Expr)) (hF : lookDef (preState s p).defs F.id = some F) (hk : F.kind = .func body)
    (s' : MState) (hok : setValue sched s p v = (s', none)) :
    ∃ ext, s'.trace = s.trace ++ (true, p) :: ext ∧
      ext.count (false, F.id) = if F.id ∈ sched (findTaskids (preState s p).idx (chainR p)) then 1 else 0 :=
  action_events_once sched s p v hnd F body hF hk s' hok

/-! non-vacuity: `Manager.Trace2Example` (knob `#K`, expression `d.c`, function task `#F`, all triggered by `d.x := 5`:
    trace `x, a, b, c, #F-call`) and `Manager.Trace2Cyclic` (`c = e + a`, `e = c + a`: each runs once) in
    `XModel/ManagerTrace2.lean`; here the all-kinds theorem on the former -/
example (v : Val) (s' : MState) (hok : setValue id Trace2Example.s3 (Trace2Example.d "x") v = (s', none)) :
    ∃ π : List Path,
      s'.trace = Trace2Example.s3.trace ++ (true, Trace2Example.d "x") :: π.flatMap (evsAt Trace2Example.s3.defs) ∧
      π.Nodup :=
  have ⟨π, h1, h2, _⟩ := C02_execution_all_kinds_plain id Trace2Example.s3 Trace2Example.s3_inv (Trace2Example.d "x") v
    Trace2Example.s3_hyps.1 (validSchedule_sound _ _ _ Trace2Example.s3_hyps.2.1 Trace2Example.s3_hyps.2.2) s' hok
  ⟨π, h1, h2⟩

end Properties.C02
