import XModel.ManagerFrame
/-!
# C13 — generated setter functions are equivalent to assigning through the manager
Model: `Manager.execGen` (the body `mk_fun` prints: argument assignments, then the listed tasks in
order, executed on the containers without the manager).
-/
namespace Properties.C13
open Store Push Index Manager

/-- for one argument without a definition, the generated function *is* the assignment through the
    manager: same write, same task list, same order, same outcome (including a failure in the middle) -/
theorem C13_single_argument (sched : Sched) (s : MState) (p : Path) (v : Val) (hl : lookDef s.defs p = none) :
    execGen sched s [(p, v)] = setValue sched s p v := by
  unfold execGen setValue
  simp only [hl, execGen.assign, List.flatMap_cons, List.flatMap_nil, List.append_nil]
  unfold writeAndRun
  cases writeRef s p v with
  | mk s1 x => cases x <;> rfl

/-- the generated function never touches the task table, the indices or the freeze flag -/
theorem C13_graph_untouched (sched : Sched) (s : MState) (args : List (Path × Val)) :
    SameGraph s (execGen sched s args).1 := by
  unfold execGen
  have hassign : ∀ (l : List (Path × Val)) (s0 : MState), SameGraph s0 (execGen.assign s0 l).1 := by
    intro l
    induction l with
    | nil => intro s0; exact SameGraph.refl s0
    | cons a rest ih =>
      intro s0
      obtain ⟨p, v⟩ := a
      simp only [execGen.assign]
      have hw := writeRef_graph s0 p v
      generalize writeRef s0 p v = r at hw ⊢
      obtain ⟨s1, x⟩ := r
      cases x with
      | some x => exact hw
      | none => exact hw.trans (ih s1)
  have h1 := hassign args s
  generalize execGen.assign s args = r at h1 ⊢
  obtain ⟨s1, x⟩ := r
  cases x with
  | some x => exact h1
  | none =>
    simp only
    split
    · exact h1
    · next l _ => exact h1.trans (runTasks_graph l s1)

end Properties.C13
