import XModel.ManagerFrame
import XModel.ManagerC13
import XModel.ManagerC13Fn
import XModel.ManagerC13b
import XProofs.Properties.C01
/-!
# C13 — generated setter functions are equivalent to assigning through the manager
Model: `Manager.execGen` (the body `mk_fun` prints: argument assignments, then the listed tasks in
order, executed on the containers without the manager).

`C13_equivalent` is the property's main clause on the executable model: for any list of arguments — plain existing
locations away from every definition — any legal order of the generated listing and any legal schedules of the
manager's own propagations, the function and the sequence of assignments through the manager end with the *same*
container tree (and the same definitions and indices).  The proof: both end with every definition holding (C01),
both only ever write argument locations and triggered targets (`Store.Reach`), values at triggered targets are
unique along the dependency order, and a tree reached by such writes is determined by its values there
(`Store.Reach.eq_of_agree`, the normal form of `XModel/StoreNF.lean`).  `C13_listing`: the listing has each
triggered task once, exactly the downstream ones, producers first (C02).  `C13_equivalent` assumes that both runs
complete; `C13_manager_completes_implies_generated_completes` needs only the manager's completion (the generated
function's follows), and `C13_converse_fails_witness` shows that the other direction is false: the manager re-evaluates
the definitions on INTERMEDIATE argument vectors (after each single assignment), which may raise although the final
vector does not.  "Any argument values" therefore means: argument lists the manager itself can assign one by one.
Outside the theorems: `exec` of the
printed source (C11's parser assumption); division by zero is excluded by the property.

**Which tree.**  The model transcribes `/repo` as it stands now: the pinned commit plus the `fix:` commits recorded in
`/verif/KNOWN_FINDINGS.json` (status `fixed`).  Where a theorem below rests on repaired code — `Manager.execGen` uses the repaired start set of `mk_fun` (owner chains of all arguments) and `gen_fun`'s namespace holds `math` — it is false of
the tree as first pinned; the witnesses are kept (defects D25, D28).
-/
namespace Properties.C13
open Store Push Index Manager

/-- for one argument without a definition, the generated function *is* the assignment through the
    manager: same write, same task list, same order, same outcome (including a failure in the middle) -/
theorem C13_single_argument (sched : Sched) (s : MState) (p : Path) (v : Val) (hl : lookDef s.defs p = none) :
    execGen sched s [(p, v)] = setValue sched s p v := by
  unfold execGen setValue
  simp only [hl, execGen.assign, List.flatMap_cons, List.flatMap_nil, List.append_nil]
  unfold writeAndRun
  cases writeRef s p v with
  | mk s1 x => cases x <;> rfl

/-- the generated function never touches the task table, the indices or the freeze flag -/
theorem C13_graph_untouched (sched : Sched) (s : MState) (args : List (Path × Val)) :
    SameGraph s (execGen sched s args).1 := by
  unfold execGen
  have hassign : ∀ (l : List (Path × Val)) (s0 : MState), SameGraph s0 (execGen.assign s0 l).1 := by
    intro l
    induction l with
    | nil => intro s0; exact SameGraph.refl s0
    | cons a rest ih =>
      intro s0
      obtain ⟨p, v⟩ := a
      simp only [execGen.assign]
      have hw := writeRef_graph s0 p v
      generalize writeRef s0 p v = r at hw ⊢
      obtain ⟨s1, x⟩ := r
      cases x with
      | some x => exact hw
      | none => exact hw.trans (ih s1)
  have h1 := hassign args s
  generalize execGen.assign s args = r at h1 ⊢
  obtain ⟨s1, x⟩ := r
  cases x with
  | some x => exact h1
  | none =>
    simp only
    split
    · exact h1
    · next l _ => exact h1.trans (runTasks_graph l s1)

/-- **the generated function ≡ assigning through the manager**, any number of arguments -/
theorem C13_equivalent (schedG schedS : Sched) (s : MState) (args : List (Path × Val)) (hi : MInv s)
    (hc : Consistent s) (gs : GenScope s args)
    (hvsG : ValidSched (gOf s.idx) (findTaskids s.idx (argDeps args)) (schedG (findTaskids s.idx (argDeps args))))
    (hvsS : ∀ a ∈ args, ValidSched (gOf s.idx) (findTaskids s.idx (chainR a.1)) (schedS (findTaskids s.idx (chainR a.1))))
    (sG : MState) (hG : execGen schedG s args = (sG, none))
    (sS : MState) (hS : assignAll schedS s args = (sS, none)) :
    sG.store = sS.store ∧ sG.defs = sS.defs ∧ sG.idx = sS.idx :=
  execGen_equiv_assignAll schedG schedS s args hi hc gs hvsG hvsS sG hG sS hS

/-- after the generated function every definition holds (and the arguments hold their values) -/
theorem C13_generated_consistent (sched : Sched) (s : MState) (args : List (Path × Val)) (hi : MInv s)
    (hc : Consistent s) (gs : GenScope s args)
    (hvs : ValidSched (gOf s.idx) (findTaskids s.idx (argDeps args)) (sched (findTaskids s.idx (argDeps args))))
    (s' : MState) (hok : execGen sched s args = (s', none)) :
    Consistent s' ∧ ∀ a ∈ args, get s'.store a.1 = .ok a.2 :=
  ⟨(execGen_facts sched s args hi hc gs hvs s' hok).1, (execGen_facts sched s args hi hc gs hvs s' hok).2.2.2.2⟩

/-- the listing `mk_fun` prints: each triggered task once, exactly the downstream ones, producers first -/
theorem C13_listing (s : MState) (hi : MInv s) (args : List (Path × Val))
    (hac : ∀ a b, (∃ s0 ∈ startOf s.idx (argDeps args), Dfs3.Reach (gOf s.idx) s0 a) → a ≠ b →
      Dfs3.Reach (gOf s.idx) a b → Dfs3.Reach (gOf s.idx) b a → False) :
    (findTaskids s.idx (argDeps args)).Nodup ∧
    (∀ x, x ∈ findTaskids s.idx (argDeps args) ↔ ∃ s0 ∈ startOf s.idx (argDeps args), Dfs3.Reach (gOf s.idx) s0 x) ∧
    (∀ u w, u ∈ findTaskids s.idx (argDeps args) → w ∈ gOf s.idx u → w ≠ u →
      Dfs3.Before (findTaskids s.idx (argDeps args)) u w) :=
  findTaskids_spec s hi (argDeps args) hac

/-- the decidable scope test is sound -/
theorem C13_scope_test_sound (s : MState) (hi : MInv s) (args : List (Path × Val)) (h : genScopeB s args = true) :
    GenScope s args := genScopeB_sound s hi args h

/-! non-vacuity: the chain of `Properties.C01` (c = a + b, e = c * a) and the two arguments a, b -/
section example_
open Properties.C01
def base : MState := applyAll id s0 (hist.take 2)
def twoArgs : List (Path × Val) := [(da, .int 5), (db, .int 4)]
example : genScopeB base twoArgs = true := by decide
example : (execGen id base twoArgs).2 = none ∧ (assignAll id base twoArgs).2 = none := ⟨rfl, rfl⟩
example : get (execGen id base twoArgs).1.store de = .ok (.int 45) ∧
    get (assignAll id base twoArgs).1.store de = .ok (.int 45) := ⟨rfl, rfl⟩
end example_

/-- **generated setter vs assignments, with function tasks in the manager**: for ANY list of arguments (plain existing
    locations away from every item target, `GenScopeF`), any legal order of the generated listing and any legal
    schedules of the manager's own propagations — triggered sets may overlap arbitrarily, a shared dependant runs once
    in the generated function and once per argument in the manager — both end with the same container tree, definitions
    and indices -/
theorem C13_equivalent_function_tasks (schedG schedS : Sched) (s : MState) (args : List (Path × Val)) (hi : MInv s)
    (hc : ConsistentF s) (gs : GenScopeF s args)
    (hvsG : ValidSched (gOf s.idx) (findTaskids s.idx (argDeps args)) (schedG (findTaskids s.idx (argDeps args))))
    (hvsS : ∀ a ∈ args, ValidSched (gOf s.idx) (findTaskids s.idx (chainR a.1)) (schedS (findTaskids s.idx (chainR a.1))))
    (sG : MState) (hG : execGen schedG s args = (sG, none))
    (sS : MState) (hS : assignAll schedS s args = (sS, none)) :
    sG.store = sS.store ∧ sG.defs = sS.defs ∧ sG.idx = sS.idx :=
  execGen_equiv_assignAllF schedG schedS s args hi hc gs hvsG hvsS sG hG sS hS

/-- the same with every hypothesis a decidable test -/
theorem C13_equivalent_function_tasks_decided (schedG schedS : Sched) (s : MState) (args : List (Path × Val))
    (hi : MInv s) (hsc : genScopeFB s args = true) (hc : consistentFB s = true)
    (hvG : validSchedule s.idx (argDeps args) (schedG (findTaskids s.idx (argDeps args))) = true)
    (hvS : argSchedsB schedS s args = true)
    (sG : MState) (hG : execGen schedG s args = (sG, none))
    (sS : MState) (hS : assignAll schedS s args = (sS, none)) :
    sG.store = sS.store ∧ sG.defs = sS.defs ∧ sG.idx = sS.idx :=
  execGen_equiv_assignAllF_decided schedG schedS s args hi hsc hc hvG hvS sG hG sS hS

/-- one argument, any task kinds, SAME scheduler on both sides: the generated function is literally the tail
    `write + run_tasks` of the manager's `set_value` (an unfolding identity, all outcomes included).  Nothing is said
    here about different schedules or about completion; that is `C13_single_argument_function_tasks_indep`. -/
theorem C13_single_argument_function_tasks (sched : Sched) (s : MState) (p : Path) (v : Val) :
    execGen sched s [(p, v)] = writeAndRun sched s p v :=
  execGen_single sched s p v

/-- one argument, expression and function tasks, two DIFFERENT legal orders: if the generated function completes under
    one legal order of its listing, then `write + run_tasks` through the manager completes under any legal schedule,
    with the same container tree, definitions, indices, freeze flag, knob memory and fault flag.  (`hexist`: the item
    targets of the triggered tasks exist beforehand.) -/
theorem C13_single_argument_function_tasks_indep (schedG schedS : Sched) (s : MState) (p : Path) (v : Val)
    (hi : MInv s) (sc : ScopeF s p)
    (hvsG : ValidSched (gOf s.idx) (findTaskids s.idx (chainR p)) (schedG (findTaskids s.idx (chainR p))))
    (hvsS : ValidSched (gOf s.idx) (findTaskids s.idx (chainR p)) (schedS (findTaskids s.idx (chainR p))))
    (hexist : ∀ t ∈ s.defs, t.id ∈ findTaskids s.idx (chainR p) → ∀ it ∈ itemsOf t, ∃ w, get s.store it.target = .ok w)
    (sG : MState) (hG : execGen schedG s [(p, v)] = (sG, none)) :
    ∃ sS, writeAndRun schedS s p v = (sS, none) ∧ sS.store = sG.store ∧ sS.defs = sG.defs ∧ sS.idx = sG.idx ∧
      sS.frozen = sG.frozen ∧ sS.prev = sG.prev ∧ sS.faultIn = sG.faultIn :=
  execGen_single_indepF schedG schedS s p v hi sc hvsG hvsS hexist sG hG

/-! ### completion: which of the two runs may be assumed to complete

`C13_equivalent` assumes that both runs complete.  Only one of the two assumptions is needed, and it has to be the
manager's: -/

/-- **the manager's sequence of assignments completes ⇒ the generated function completes, with the same result**
    (expression-task managers, the hypotheses of `C13_equivalent` minus `hG`).  The generated function evaluates each
    triggered expression once, on the final argument values; all its reads have the values of the manager's final
    state, where every definition evaluates without error. -/
theorem C13_manager_completes_implies_generated_completes (schedG schedS : Sched) (s : MState)
    (args : List (Path × Val)) (hi : MInv s) (hc : Consistent s) (gs : GenScope s args)
    (hvsG : ValidSched (gOf s.idx) (findTaskids s.idx (argDeps args)) (schedG (findTaskids s.idx (argDeps args))))
    (hvsS : ∀ a ∈ args, ValidSched (gOf s.idx) (findTaskids s.idx (chainR a.1)) (schedS (findTaskids s.idx (chainR a.1))))
    (sS : MState) (hS : assignAll schedS s args = (sS, none)) :
    ∃ sG, execGen schedG s args = (sG, none) ∧ sG.store = sS.store ∧ sG.defs = sS.defs ∧ sG.idx = sS.idx :=
  assignAll_completes_execGen schedG schedS s args hi hc gs hvsG hvsS sS hS

/-- the same with every hypothesis but the manager's completion a Boolean test -/
theorem C13_manager_completes_implies_generated_completes_decided (schedG schedS : Sched) (s : MState)
    (args : List (Path × Val)) (hi : MInv s) (hsc : genScopeB s args = true) (hc : consistentB s = true)
    (hvG : validSchedule s.idx (argDeps args) (schedG (findTaskids s.idx (argDeps args))) = true)
    (hvS : argSchedsB schedS s args = true)
    (sS : MState) (hS : assignAll schedS s args = (sS, none)) :
    ∃ sG, execGen schedG s args = (sG, none) ∧ sG.store = sS.store ∧ sG.defs = sS.defs ∧ sG.idx = sS.idx :=
  assignAll_completes_execGen_decided schedG schedS s args hi hsc hc hvG hvS sS hS

/-- **the converse FAILS.**  `c = a + b`, `e = c * a`, `b` holds `2^1024`; arguments `a := NaN`, `b := 1`.  Every
    hypothesis of `C13_equivalent` other than completion holds, the generated function completes (it evaluates
    `NaN + 1`), the manager's sequence of assignments raises `OverflowError` at its first step (it evaluates
    `NaN + 2^1024`, as Python does: "int too large to convert to float").  So "called with any argument values" holds
    for the generated function on argument lists on which the manager itself fails at an intermediate state. -/
theorem C13_converse_fails_witness :
    MInv C13bWitness.base2 ∧ Consistent C13bWitness.base2 ∧ GenScope C13bWitness.base2 C13bWitness.args2 ∧
    ValidSched (gOf C13bWitness.base2.idx) (findTaskids C13bWitness.base2.idx (argDeps C13bWitness.args2))
      (id (findTaskids C13bWitness.base2.idx (argDeps C13bWitness.args2))) ∧
    (∀ a ∈ C13bWitness.args2, ValidSched (gOf C13bWitness.base2.idx) (findTaskids C13bWitness.base2.idx (chainR a.1))
      (id (findTaskids C13bWitness.base2.idx (chainR a.1)))) ∧
    (∃ sG, execGen id C13bWitness.base2 C13bWitness.args2 = (sG, none)) ∧
    (∃ sS, assignAll id C13bWitness.base2 C13bWitness.args2 = (sS, some .overflow)) :=
  converse_fails

/-- hence no theorem "the generated function completes ⇒ the manager's assignments complete" under these hypotheses -/
theorem C13_converse_fails :
    ¬ (∀ (schedG schedS : Sched) (s : MState) (args : List (Path × Val)), MInv s → Consistent s → GenScope s args →
      ValidSched (gOf s.idx) (findTaskids s.idx (argDeps args)) (schedG (findTaskids s.idx (argDeps args))) →
      (∀ a ∈ args, ValidSched (gOf s.idx) (findTaskids s.idx (chainR a.1)) (schedS (findTaskids s.idx (chainR a.1)))) →
      ∀ sG, execGen schedG s args = (sG, none) → ∃ sS, assignAll schedS s args = (sS, none)) :=
  not_execGen_completes_assignAll

/-- the witness state is this file's `base` after `d['b'] = 2**1024` -/
example : C13bWitness.base = base ∧ C13bWitness.da = Properties.C01.da ∧ C13bWitness.db = Properties.C01.db ∧
    C13bWitness.base2 = (setValue id C13bWitness.base C13bWitness.db (.int C13bWitness.big)).1 ∧
    C13bWitness.big = 2 ^ 1024 ∧ C13bWitness.args2 = [(C13bWitness.da, .nan), (C13bWitness.db, .int 1)] :=
  ⟨rfl, rfl, rfl, rfl, by decide +kernel, rfl⟩

end Properties.C13
