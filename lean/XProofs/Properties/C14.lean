import XModel.TableThms
/-!
# C14 — every Table the API produces is rectangular and leaves its source untouched
Model: the derivations of `XModel/Table.lean` (`selectRows`, `selectCols`, `copyT`, `mulT`, `addT`) on
immutable values: a derivation returns a new table and cannot change its argument, so "the source is
untouched" holds by construction in the model; sharing and in-place mutation of numpy buffers is the
run-time fact the correspondence run checks (source snapshot before / after every derivation).
`C14_*_rect_partial`: `_t` and `Table.concatenate` are outside the model (oracle only).
-/
namespace Properties.C14
open TableM Cache

/-- selecting rows by positions inside the table keeps it rectangular, with as many rows as positions -/
theorem C14_rows_rect_partial (t : Tbl) (h : Rect t) (ps : List Nat) (hps : ∀ k ∈ ps, k < t.nrows)
    (hne : t.colNames ≠ []) :
    Rect (selectRows t ps) ∧ (selectRows t ps).nrows = ps.length := by
  have hlen : ∀ v : List Cell, v.length = t.nrows → (ps.filterMap (fun k => v[k]?)).length = ps.length := by
    intro v hv
    induction ps with
    | nil => rfl
    | cons k rest ih =>
      have hk : k < v.length := by rw [hv]; exact hps k (by simp)
      simp only [List.filterMap_cons, List.getElem?_eq_getElem hk, List.length_cons]
      rw [ih (fun j hj => hps j (List.mem_cons_of_mem _ hj))]
  have hcol : ∀ c v, t.col c = some v → (selectRows t ps).col c = some (ps.filterMap (fun k => v[k]?)) := by
    intro c v hv
    unfold Tbl.col at hv ⊢
    have := lookupA_mapVal t.data (fun (col : List Cell) => ps.filterMap (fun k => col[k]?)) c
    simp only [selectRows]
    rw [this, hv]
    rfl
  have hn : (selectRows t ps).nrows = ps.length := by
    unfold Tbl.nrows
    cases hc : t.colNames with
    | nil => exact absurd hc hne
    | cons c0 rest =>
      have hc0 : c0 ∈ t.colNames := by rw [hc]; simp
      obtain ⟨v, hv, hl⟩ := h.2 c0 hc0
      have : (selectRows t ps).colNames = c0 :: rest := by simp [selectRows, hc]
      simp only [this, hcol c0 v hv]
      exact hlen v hl
  refine ⟨⟨by simpa [selectRows] using h.1, ?_⟩, hn⟩
  intro c hc
  have hc' : c ∈ t.colNames := by simpa [selectRows] using hc
  obtain ⟨v, hv, hl⟩ := h.2 c hc'
  exact ⟨_, hcol c v hv, by rw [hn]; exact hlen v hl⟩

/-- a derivation is a function of its argument: the source table is the same value afterwards -/
theorem C14_source_unchanged (t : Tbl) (ps : List Nat) : (fun src => (selectRows src ps, src)) t = (selectRows t ps, t) := rfl

end Properties.C14
