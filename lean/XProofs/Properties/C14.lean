import XModel.TableRect
import XModel.TableRect2
import XModel.TableExpr
/-!
# C14 — every Table the API produces is rectangular and leaves its source untouched
Model: the derivations of `XModel/Table.lean` (`selectRows`, `selectCols`, `copyT`, `mulT`, `addT`) on
immutable values: a derivation returns a new table and cannot change its argument, so "the source is
untouched" holds by construction in the model; sharing and in-place mutation of numpy buffers is the
run-time fact the correspondence run checks (source snapshot before / after every derivation).
Transposition and `Table.concatenate` are in the model too (`transposeT`, `concatT`); for them the correspondence
compares shapes (numpy renders the transposed cells, and `concatenate` lists the common columns in set order).

**Which tree.**  The model transcribes `/repo` as it stands now (pinned commit plus the `fix:` commits, here D27: a string
scalar of the table's length no longer becomes a column).

**Column expressions** (`t['a+2*b']`, `t.cols['a', 'a+b']`) are modelled in `XModel/TableExpr.lean` for ONE FRAGMENT: column
names, integer literals, `+`, `-`, `*` and unary minus over INTEGER columns (unbounded integers; a literal is a scalar that
is broadcast, two arrays combine element-wise).  `C14_expression_column_length`, `C14_expression_column_cells`,
`C14_expression_columns_rect`, `C14_chain_with_expressions` speak about that fragment only and are conditional on the
model's evaluation succeeding.  The model is stricter than Python: a non-integer cell under an operator, arrays of different
lengths (no numpy broadcasting of a length-1 array) and an expression without any column (`t['2']`, a scalar in Python, and
`t.cols['2']`, which in Python lists a scalar — NOT a rectangular table) are errors of the model, hence outside the theorems;
an unknown name is `keyError` (Python: `NameError`).  Function calls, comparisons, `/`, `**`, floats, the names of `gblmath`,
the parser of the text and numpy broadcasting stay with the oracle.  The driver runs `getExpr` (= `evalCol`) on generated integer expressions (`colexpr` lines of suite `table`, compared cell by
cell with `t[text]`); `colsExpr` / `applyDerivE` are not run by the driver.

**What has NO formal content here** (oracle / correspondence only): column expressions outside the fragment just described;
SCALAR entries do not exist in `newT` (every entry is a column) and for the nearest analogue — an unlisted data
entry — the model's `selectCols` / `copyT` drop it while the property says scalars are carried over; `C14_source_unchanged`
is `rfl` on immutable values (its docstring says so); `C14_chain_rect` is the older chain theorem over `Deriv`, superseded by
`C14_chain_from_constructor` over `Deriv2` (which includes assignments and a second table).  The chain theorems conclude
`Rect` only; `Coherent` along the same steps is C07's `TOp` history theorem, over a different op language.
-/
namespace Properties.C14
open TableM Cache

/-- selecting rows by positions inside the table keeps it rectangular, with as many rows as positions -/
theorem C14_rows_rect_partial (t : Tbl) (h : Rect t) (ps : List Nat) (hps : ∀ k ∈ ps, k < t.nrows)
    (hne : t.colNames ≠ []) :
    Rect (selectRows t ps) ∧ (selectRows t ps).nrows = ps.length := by
  have hlen : ∀ v : List Cell, v.length = t.nrows → (ps.filterMap (fun k => v[k]?)).length = ps.length := by
    intro v hv
    induction ps with
    | nil => rfl
    | cons k rest ih =>
      have hk : k < v.length := by rw [hv]; exact hps k (by simp)
      simp only [List.filterMap_cons, List.getElem?_eq_getElem hk, List.length_cons]
      rw [ih (fun j hj => hps j (List.mem_cons_of_mem _ hj))]
  have hcol : ∀ c v, t.col c = some v → (selectRows t ps).col c = some (ps.filterMap (fun k => v[k]?)) := by
    intro c v hv
    unfold Tbl.col at hv ⊢
    have := lookupA_mapVal t.data (fun (col : List Cell) => ps.filterMap (fun k => col[k]?)) c
    simp only [selectRows]
    rw [this, hv]
    rfl
  have hn : (selectRows t ps).nrows = ps.length := by
    unfold Tbl.nrows
    cases hc : t.colNames with
    | nil => exact absurd hc hne
    | cons c0 rest =>
      have hc0 : c0 ∈ t.colNames := by rw [hc]; simp
      obtain ⟨v, hv, hl⟩ := h.2 c0 hc0
      have : (selectRows t ps).colNames = c0 :: rest := by simp [selectRows, hc]
      simp only [this, hcol c0 v hv]
      exact hlen v hl
  refine ⟨⟨by simpa [selectRows] using h.1, ?_⟩, hn⟩
  intro c hc
  have hc' : c ∈ t.colNames := by simpa [selectRows] using hc
  obtain ⟨v, hv, hl⟩ := h.2 c hc'
  exact ⟨_, hcol c v hv, by rw [hn]; exact hlen v hl⟩

/-- `_copy()` keeps the rectangle and the length -/
theorem C14_copy_rect (t : Tbl) (h : Rect t) : Rect (copyT t) ∧ (copyT t).nrows = t.nrows := copyT_rect t h

/-- `t * k` (k ≥ 1): rectangular, k times the length -/
theorem C14_mul_rect (t : Tbl) (h : Rect t) (k : Nat) (r : Tbl) (hr : mulT t k = .ok r) :
    Rect r ∧ r.nrows = k * t.nrows := mulT_rect t h k r hr

/-- `a + b` for tables listing the same columns: rectangular, the lengths add -/
theorem C14_add_rect (a b : Tbl) (ha : Rect a) (hb : Rect b) (hsame : ∀ c ∈ a.colNames, c ∈ b.colNames)
    (r : Tbl) (hr : addT a b = .ok r) : Rect r ∧ r.nrows = a.nrows + b.nrows := addT_rect a b ha hb hsame r hr

/-- `cols[names]` for listed names: rectangular (the index column is added when it was not listed), same length -/
theorem C14_cols_rect (t : Tbl) (h : Rect t) (names : List String) (hn : ∀ c ∈ names, c ∈ t.colNames)
    (r : Tbl) (hr : selectCols t names = .ok r) : Rect r ∧ r.nrows = t.nrows := selectCols_rect t h names hn r hr

/-- `t._t`: rectangular, one row per column of the source (the index column `columns` holds the column names) -/
theorem C14_transpose_rect (t : Tbl) : Rect (transposeT t) ∧ (transposeT t).nrows = t.colNames.length :=
  transposeT_rect t

/-- `Table.concatenate(tables)` of rectangular tables: rectangular, the lengths add -/
theorem C14_concat_rect (ts : List Tbl) (r : Tbl) (h : ∀ t ∈ ts, Rect t) (hr : concatT ts = .ok r) :
    Rect r ∧ r.nrows = (ts.map (·.nrows)).sum := concatT_rect ts r h hr

/-- the derivations the model covers, as one language; chains of any length stay rectangular -/
inductive Deriv where
  | rows (ps : List Nat)
  | cols (names : List String)
  | copy
  | mul (k : Nat)
  | addSelf
  | transpose
  | concatSelf

def applyDeriv (t : Tbl) : Deriv → Except TErr Tbl
  | .rows ps => if ps.all (· < t.nrows) then .ok (selectRows t ps) else .error .indexError
  | .cols names => if names.all (· ∈ t.colNames) then selectCols t names else .error .keyError
  | .copy => .ok (copyT t)
  | .mul k => mulT t k
  | .addSelf => addT t t
  | .transpose => .ok (transposeT t)
  | .concatSelf => concatT [t, t]

theorem C14_step_rect (t : Tbl) (h : Rect t) (d : Deriv) (r : Tbl) (hr : applyDeriv t d = .ok r) : Rect r := by
  cases d with
  | rows ps =>
    simp only [applyDeriv] at hr
    split at hr
    · next hall =>
      cases hr
      have hne : t.colNames ≠ [] := fun e => by have := h.1; rw [e] at this; cases this
      exact (C14_rows_rect_partial t h ps (fun k hk => by simpa using List.all_eq_true.mp hall k hk) hne).1
    · cases hr
  | cols names =>
    simp only [applyDeriv] at hr
    split at hr
    · next hall => exact (selectCols_rect t h names (fun c hc => by simpa using List.all_eq_true.mp hall c hc) r hr).1
    · cases hr
  | copy => simp only [applyDeriv, Except.ok.injEq] at hr; subst hr; exact (copyT_rect t h).1
  | mul k => exact (mulT_rect t h k r hr).1
  | addSelf => exact (addT_rect t t h h (fun _ hc => hc) r hr).1
  | transpose => simp only [applyDeriv, Except.ok.injEq] at hr; subst hr; exact (transposeT_rect t).1
  | concatSelf => exact (concatT_rect [t, t] r (by intro u hu; simp at hu; rcases hu with rfl | rfl <;> exact h) hr).1

/-- **every chain of derivations** that succeeds ends in a rectangular table -/
theorem C14_chain_rect : ∀ (ds : List Deriv) (t r : Tbl), Rect t →
    ds.foldlM applyDeriv t = .ok r → Rect r
  | [], t, r, h, hr => by
    simp only [List.foldlM_nil, pure, Except.pure, Except.ok.injEq] at hr
    subst hr; exact h
  | d :: ds, t, r, h, hr => by
    simp only [List.foldlM_cons, bind, Except.bind] at hr
    cases h1 : applyDeriv t d with
    | error e => simp [h1] at hr
    | ok t1 =>
      simp only [h1] at hr
      exact C14_chain_rect ds t1 r (C14_step_rect t h d t1 h1) hr

/-- NO CONTENT beyond the modelling decision: in the functional model a derivation returns a new value and cannot touch
    its argument, so this holds by `rfl` for any function.  The real hazard (numpy views sharing buffers between a table
    and its source) cannot be expressed here; it is checked on the implementation by the snapshot oracle only. -/
theorem C14_source_unchanged (t : Tbl) (ps : List Nat) : (fun src => (selectRows src ps, src)) t = (selectRows t ps, t) := rfl

/-! ### wrappers of the model-level results (statements as printed by `#check`) -/
section wrapped

/-- **the checked constructor** (`newT`: raises unless all columns have one length and the index column is among them) yields a rectangular, cache-coherent table -/
theorem C14_constructor_rect :
    ∀ (cols : List (String × List TableM.Cell)) (index : String) (t : TableM.Tbl),
      TableM.newT cols index = Except.ok t →
        TableM.Rect t ∧
          TableM.Coherent t ∧
            t.index = index ∧
              t.colNames = List.map (fun x => x.fst) cols ∧
                t.data = cols ∧ TableM.Tbl.nrows t = List.length (List.headD cols ("", [])).snd :=
  @TableM.newT_rect

/-- … and accepts exactly those inputs -/
theorem C14_constructor_accepts_iff :
    ∀ (cols : List (String × List TableM.Cell)) (index : String),
      (∃ t, TableM.newT cols index = Except.ok t) ↔
        index ∈ List.map (fun x => x.fst) cols ∧
          ∀ (p : String × List TableM.Cell),
            p ∈ cols → ∀ (q : String × List TableM.Cell), q ∈ cols → List.length p.snd = List.length q.snd :=
  @TableM.newT_ok_iff

/-- column assignment keeps the table rectangular, whatever its outcome -/
theorem C14_column_assignment_rect :
    ∀ (t : TableM.Tbl),
      TableM.Rect t →
        ∀ (name : String) (vals : List TableM.Cell),
          TableM.Rect (TableM.setCol t name vals).fst ∧
            TableM.Tbl.nrows (TableM.setCol t name vals).fst = TableM.Tbl.nrows t :=
  @TableM.setCol_rect

/-- cell assignment keeps it rectangular -/
theorem C14_cell_assignment_rect :
    ∀ (t : TableM.Tbl),
      TableM.Rect t →
        ∀ (col : String) (row : TableM.Row) (v : TableM.Cell),
          TableM.Rect (TableM.setCell t col row v).fst ∧
            TableM.Tbl.nrows (TableM.setCell t col row v).fst = TableM.Tbl.nrows t ∧
              (TableM.setCell t col row v).fst.colNames = t.colNames ∧ (TableM.setCell t col row v).fst.index = t.index :=
  @TableM.setCell_rect

/-- deleting a non-index column keeps it rectangular -/
theorem C14_column_deletion_rect :
    ∀ (t : TableM.Tbl),
      TableM.Rect t →
        ∀ (name : String),
          name ≠ t.index →
            TableM.Rect (TableM.delCol t name).fst ∧ TableM.Tbl.nrows (TableM.delCol t name).fst = TableM.Tbl.nrows t :=
  @TableM.delCol_rect

/-- VALUES, not only shape: cell (c, k) of a row selection is cell (c, ps[k]) of the source -/
theorem C14_row_selection_cells :
    ∀ (t : TableM.Tbl),
      TableM.Rect t →
        ∀ (ps : List Nat),
          (∀ (j : Nat), j ∈ ps → j < TableM.Tbl.nrows t) →
            ∀ (c : String),
              c ∈ t.colNames →
                ∀ (k : Nat),
                  TableM.Tbl.cell (TableM.selectRows t ps) c k = Option.bind ps[k]? fun j => TableM.Tbl.cell t c j :=
  @TableM.selectRows_cell

/-- a copy has the source's cells -/
theorem C14_copy_cells :
    ∀ (t : TableM.Tbl) (c : String),
      c ∈ t.colNames → ∀ (k : Nat), TableM.Tbl.cell (TableM.copyT t) c k = TableM.Tbl.cell t c k :=
  @TableM.copyT_cell

/-- k repetitions: cell j is the source's cell j mod nrows -/
theorem C14_repetition_cells :
    ∀ (t : TableM.Tbl),
      TableM.Rect t →
        ∀ (k : Nat) (r : TableM.Tbl),
          TableM.mulT t k = Except.ok r →
            ∀ (c : String),
              c ∈ t.colNames →
                ∀ (j : Nat),
                  TableM.Tbl.cell r c j =
                    if j < k * TableM.Tbl.nrows t then TableM.Tbl.cell t c (j % TableM.Tbl.nrows t) else none :=
  @TableM.mulT_cell

/-- a + b with ANOTHER table b: a's cells, then b's -/
theorem C14_add_cells :
    ∀ (a b r : TableM.Tbl),
      TableM.Rect a →
        TableM.addT a b = Except.ok r →
          ∀ (c : String),
            c ∈ a.colNames →
              c ∈ b.colNames →
                ∀ (j : Nat),
                  TableM.Tbl.cell r c j =
                    if j < TableM.Tbl.nrows a then TableM.Tbl.cell a c j else TableM.Tbl.cell b c (j - TableM.Tbl.nrows a) :=
  @TableM.addT_cell

/-- concatenate of two tables with the same columns -/
theorem C14_concatenate_cells :
    ∀ (a b r : TableM.Tbl),
      TableM.Rect a →
        TableM.concatT [a, b] = Except.ok r →
          (∀ (c : String), c ∈ a.colNames → c ∈ b.colNames) →
            ∀ (c : String),
              c ∈ a.colNames →
                ∀ (j : Nat),
                  TableM.Tbl.cell r c j =
                    if j < TableM.Tbl.nrows a then TableM.Tbl.cell a c j else TableM.Tbl.cell b c (j - TableM.Tbl.nrows a) :=
  @TableM.concatT_two_cell

/-- transposition: row k of the source becomes column 'row k', cells rendered as text -/
theorem C14_transpose_cells :
    ∀ (t : TableM.Tbl),
      TableM.Rect t →
        ∀ (k : Nat),
          k < TableM.Tbl.nrows t →
            ∀ (i : Nat) (hi : i < List.length t.colNames),
              ∃ x,
                TableM.Tbl.cell t t.colNames[i] k = some x ∧
                  TableM.Tbl.cell (TableM.transposeT t) ("row" ++ toString k) i = some (TableM.Cell.str (TableM.cellStr x)) :=
  @TableM.transposeT_cell_rect

/-- **every chain** of derivations (rows, cols, copy, repetition, `+` and `concatenate` with OTHER rectangular tables, transposition) and column / cell assignments / deletions, starting from a table the checked constructor accepted, ends rectangular -/
theorem C14_chain_from_constructor :
    ∀ (cols : List (String × List TableM.Cell)) (index : String) (t : TableM.Tbl),
      TableM.newT cols index = Except.ok t →
        ∀ (ds : List TableM.Deriv2) (r : TableM.Tbl),
          (∀ (d : TableM.Deriv2), d ∈ ds → TableM.Deriv2.Valid d) →
            List.foldlM TableM.applyDeriv2 t ds = Except.ok r → TableM.Rect r :=
  @TableM.chain2_from_new

/-- **`t['a+2*b']` has the table's length.**  MODEL FRAGMENT ONLY: column names, integer literals, `+`, `-`, `*`, unary minus
    over integer columns (`TableM.CExpr`); functions, comparisons, floats and numpy broadcasting stay with the oracle; the driver
    runs `evalCol` against `t[text]` on generated integer expressions.  Hypotheses: the table is rectangular; every name the expression mentions is a
    LISTED column (`t[...]` also reads unlisted entries of the dict, whose length is arbitrary); the model's evaluation
    succeeded (it fails on a missing name, a non-integer cell under an operator, arrays of different lengths, and — a
    refusal of the model, Python returns a scalar — an expression without any column). -/
theorem C14_expression_column_length :
    ∀ (t : TableM.Tbl),
      TableM.Rect t →
        ∀ (e : TableM.CExpr),
          (∀ (n : String), n ∈ e.names → n ∈ t.colNames) →
            ∀ (v : List TableM.Cell), TableM.evalCol t e = Except.ok v → v.length = t.nrows :=
  @TableM.evalCol_length

/-- VALUES of an expression column, same fragment and hypotheses: cell `k` of `t['a+2*b']` is the expression evaluated on
    the cells of row `k` alone (`evalAt`: integer arithmetic on that row's cells), for every row `k` of the table -/
theorem C14_expression_column_cells :
    ∀ (t : TableM.Tbl),
      TableM.Rect t →
        ∀ (e : TableM.CExpr),
          (∀ (n : String), n ∈ e.names → n ∈ t.colNames) →
            ∀ (v : List TableM.Cell),
              TableM.evalCol t e = Except.ok v → ∀ (k : Nat), k < t.nrows → v[k]? = TableM.evalAt t k e :=
  @TableM.evalCol_cell

/-- **`t.cols['a', 'a+b']` is rectangular**, with the source's length and index.  MODEL FRAGMENT ONLY (as above; the driver
    does not run `colsExpr` yet).  An item is a text with the expression it parses to (`none`: a plain name); `itemOK`: a
    text that is a key of the dict is a listed column, a plain name is listed, the names inside an expression are listed.
    Without it the model (like the code) lists an unlisted entry of any length (`TableExpr.lean`, last section). -/
theorem C14_expression_columns_rect :
    ∀ (t : TableM.Tbl),
      TableM.Rect t →
        ∀ (items : List (String × Option TableM.CExpr)),
          (∀ (it : String × Option TableM.CExpr), it ∈ items → TableM.itemOK t it = true) →
            ∀ (r : TableM.Tbl),
              TableM.colsExpr t items = Except.ok r → TableM.Rect r ∧ r.nrows = t.nrows ∧ r.index = t.index :=
  @TableM.colsExpr_rect

/-- with plain names only, the expression form of `t.cols[…]` IS the `selectCols` of `C14_cols_rect` (same table, same error) -/
theorem C14_expression_columns_plain_names :
    ∀ (t : TableM.Tbl) (names : List String),
      TableM.colsExpr t (List.map (fun n => (n, none)) names) = TableM.selectCols t names :=
  @TableM.colsExpr_plain

/-- **every chain** mixing `t.cols[…]` with expressions (model fragment only: `+ - *`, unary minus, integer columns; each such
    step guarded by `itemOK`) with the steps of `C14_chain_from_constructor` (`DerivE.base`), starting from a table the
    checked constructor accepted, ends rectangular.  The driver does not run `applyDerivE` yet. -/
theorem C14_chain_with_expressions :
    ∀ (cols : List (String × List TableM.Cell)) (index : String) (t : TableM.Tbl),
      TableM.newT cols index = Except.ok t →
        ∀ (ds : List TableM.DerivE) (r : TableM.Tbl),
          (∀ (d : TableM.DerivE), d ∈ ds → d.Valid) →
            List.foldlM TableM.applyDerivE t ds = Except.ok r → TableM.Rect r :=
  @TableM.chainE_from_new

end wrapped

end Properties.C14
