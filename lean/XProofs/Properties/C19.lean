import XModel.MadxThms
import XModel.MadxParen
import XModel.MadxPrec
import XModel.MadxAssign
/-!
# C19 — MAD-X expressions mean the same deferred as evaluated immediately
Model: `XModel/Madx.lean`.  `evalI ops false` is `MadxEval` over plain variables (the callbacks are
Python's operators), `evalI ops true` is the value of the deferred expression the same callbacks build
over refs (true division is a guarded class: C04).  The value algebra `ops` is a parameter.
By design the two evaluators are ONE recursion with a flag at the division node: that the deferred path (operator
callbacks building reference nodes which are evaluated later) computes what the immediate path computes node by node
is C04's subject and Tie A's obligation for `MadxEval` (every grammar alias is bound to the Python operator of the same
name); `C19_agree` then isolates the only intended difference, the NaN guard.

Parsing.  `C19_full_paren_parse` is the round trip for FULLY parenthesised text (the grammar decides nothing).
Precedence and associativity of UNparenthesised text are theorems too (`XModel/MadxPrec.lean`):
`C19_minimal_paren_parse` (the minimal-parentheses printer `render`, which wraps a child iff its grammar level is lower
than its position requires, is inverted by `parse` on every tree of the parser's range), `C19_left_associative`,
`C19_precedence`, `C19_two_operator_table`, `C19_unary_minus` (all for arbitrary operands, not examples).  One point is
contrary to Python and to ordinary notation and is what the grammar `atom: "-" atom`, `power: power "^" atom` says:
the bare text `-a^b` is `(-a)^b`.  What is NOT covered: the lexer (NUMBER forms, the merge of `**` and `^` into one token)
is `tokOfJson` in the driver, outside every theorem; there is no derivation relation for the grammar, so "the model
parser implements the lark grammar" rests on the transcription plus the driver's correspondence with lark's trees.

Statements.  The second alternative of the start rule, `NAME "=" sum -> assign_var`, is `XModel/MadxAssign.lean`:
`parseStmt`, the immediate run `runImm` (each `n = e` stores the number `e` evaluates to) and the deferred run `runDef`
(each `n = e` DEFINES `n` by the tree; the variables hold `settle`: the definitions re-evaluated in list order over the
plain values, with the guarded division).  `C19_assign_deferred_eq_immediate`, `C19_assign_follows_updates` and
`C19_assign_parse` are the three clauses of the property for statements; `C19_assign_push_model` ties the list-order
`settle` to the push-model specification (`Consistent`: every defined variable holds the value of its tree on the
current environment — what C01 proves of the manager) on the scope `WellOrdered`, and `C19_assign_scope_needed` shows
that both fail outside it.
-/
namespace Properties.C19
open Madx

/-- for every parse tree and every environment: unless a division by zero occurs, the deferred value
    is the immediate value (and the same exception is raised when there is one) -/
theorem C19_agree {V : Type} (ops : Ops V) (hd : DivOnly ops) (t : MTree)
    (h : evalI ops false t ≠ .error .zeroDiv) : evalI ops true t = evalI ops false t :=
  agree ops hd t h

/-- the deferred evaluator never raises `ZeroDivisionError` from a division: at that node it yields NaN -/
theorem C19_div_guard {V : Type} (ops : Ops V) (l r : MTree) (a b : V)
    (hl : evalI ops true l = .ok a) (hr : evalI ops true r = .ok b) (hz : ops.div a b = .error .zeroDiv) :
    evalI ops true (.div l r) = .ok ops.nan := by
  simp [evalI, hl, hr, hz, bind, Except.bind]

/- non-vacuity / precedence on two concrete inputs (the general statements are `C19_unary_minus`, `C19_left_associative`):
   unary minus binds tighter than `^`, `^` is left-associative -/
#guard (parse [.minus, .num "2", .pow, .num "2"]).isSome
#guard match parse [.minus, .num "2", .pow, .num "2"] with | some (.pow (.neg (.number "2")) (.number "2")) => true | _ => false
#guard match parse [.num "2", .pow, .num "3", .pow, .num "2"] with
  | some (.pow (.pow (.number "2") (.number "3")) (.number "2")) => true | _ => false

/-- **fully parenthesised input**: rendering a tree with every compound node in parentheses and parsing it gives the
    tree back — no precedence or associativity decision is left to the grammar — for every tree the grammar can produce
    (`WFTree` is exactly the range of the parser: `wfTree_iff_parse`) -/
theorem C19_full_paren_parse (t : MTree) (h : WFTree t) : parse (fullParen t) = some t :=
  parse_fullParen t h

/-- a corollary of `C19_full_paren_parse` with little content of its own: evaluating the parse of the fully parenthesised
    text is evaluating the tree (immediate), and the deferred evaluation agrees unless a division by zero occurs.  "Ordinary
    Python arithmetic" is represented by the same evaluator `evalI` on the tree — there is no separate model of Python's
    precedence (`**` right-associative, unary minus below `**`) to compare with; that comparison is made by the oracle
    (`harness/w_madx.py` evaluates the mirrored term with Python itself).  Precedence / associativity of UNparenthesised
    input is the subject of `C19_minimal_paren_parse`, `C19_left_associative`, `C19_precedence`, `C19_two_operator_table`
    and `C19_unary_minus` below (theorems for all operands); the correspondence of the model parser with lark's own tree
    remains a driver check. -/
theorem C19_full_paren_value {V : Type} (ops : Ops V) (hd : DivOnly ops) (t : MTree) (h : WFTree t) :
    (parse (fullParen t)).map (evalI ops false) = some (evalI ops false t) ∧
    (evalI ops false t ≠ .error .zeroDiv →
      (parse (fullParen t)).map (evalI ops true) = some (evalI ops false t)) :=
  ⟨eval_fullParen ops t h, fun hz => eval_fullParen_deferred ops hd t h hz⟩

/-- the trees the theorem speaks about are exactly the parser's outputs -/
theorem C19_parser_range (t : MTree) : WFTree t ↔ ∃ toks, parse toks = some t := wfTree_iff_parse t

/-! ### precedence and associativity of unparenthesised input -/

/-- **minimal parentheses**: `render t` prints `t` with a child in parentheses iff the child's grammar level (`level`:
    0 sum, 1 product, 2 power, 3 atom; the unary signs are atoms) is lower than its position requires — left operand of
    `+ -` any, right `≥ 1`; left operand of `* /` `≥ 1`, right `≥ 2`; left operand of `^` `≥ 2`, right `= 3`; operand of a
    unary sign `= 3`; call arguments any — and `parse` reads that text back as `t`, for every tree of the parser's range
    (`WFTree`: calls have at least one argument; needed because `f()` is not in the grammar).  So the grammar's precedence
    and associativity are exactly this level discipline. -/
theorem C19_minimal_paren_parse (t : MTree) (h : WFTree t) : parse (render t) = some t :=
  parse_render t h

/-- the same for every position: `wrapAt k t` (the text of `t` for a position where the grammar expects level `k`:
    `render t` if `k ≤ level t`, `( render t )` otherwise) is read AT level `k` as `t` — `ReadsAt k w t` says, through the
    parser's own functions, that after the tokens `w` the loop of level `k` continues with `t` as its left operand
    (`k = 0, 1, 2`), respectively that `parseAtom` returns `t` and consumes exactly `w` (`k ≥ 3`) -/
theorem C19_minimal_paren_in_position (t : MTree) (h : WFTree t) (k : Nat) : ReadsAt k (wrapAt k t) t :=
  readsAt_wrapAt t h k

/-- a text that reads as `t` at some level is parsed as `t` (so `ReadsAt` hypotheses below are about `parse`) -/
theorem C19_reads_parse {k : Nat} {w : List Tok} {t : MTree} (h : ReadsAt k w t) : parse w = some t :=
  parse_of_readsAt h

/-- the minimal rendering determines the tree (on the parser's range) -/
theorem C19_minimal_paren_injective {t t' : MTree} (h : WFTree t) (h' : WFTree t') (heq : render t = render t') :
    t = t' := render_injective h h' heq

/-- the minimal rendering contains no parenthesis token iff the tree is `Flat`: built from numbers, names and attribute
    accesses (a call carries its own parentheses) with every child already at the level its position requires -/
theorem C19_no_paren_iff_flat (t : MTree) : (Tok.lpar ∉ render t ∧ Tok.rpar ∉ render t) ↔ Flat t :=
  render_noParen_iff t

/-- **left associativity**, all operands: for operators `op`, `op'` of the same grammar level (`+ -`; `* /`; `^ ^`) and
    well-formed trees `a` (level at least the operators'), `b`, `c` (level strictly higher — in particular any atoms), the
    unparenthesised text `a op b op' c` is read as `(a op b) op' c`.  The level hypotheses say that the three operand
    texts are themselves unparenthesised operands of that rule; without them the text means something else
    (`C19_precedence`). -/
theorem C19_left_associative (op op' : BinOp) (heq : op.level = op'.level) (a b c : MTree)
    (wa : WFTree a) (wb : WFTree b) (wc : WFTree c)
    (ha : op.level ≤ level a) (hb : op.level < level b) (hc : op'.level < level c) :
    parse (render a ++ op.tok :: (render b ++ op'.tok :: render c)) = some (op'.mk (op.mk a b) c) :=
  parse_render_left_assoc op op' heq a b c wa wb wc ha hb hc

/-- the five operators spelled out, for arbitrary atom-level operands `b`, `c` (numbers, names, `el->attr`, calls with any
    arguments, signed atoms) and a power- or atom-level `a` -/
theorem C19_left_associative_explicit (a b c : MTree) (wa : WFTree a) (wb : WFTree b) (wc : WFTree c)
    (ha : 2 ≤ level a) (hb : level b = 3) (hc : level c = 3) :
    parse (render a ++ .plus :: (render b ++ .plus :: render c)) = some (.add (.add a b) c) ∧
    parse (render a ++ .minus :: (render b ++ .minus :: render c)) = some (.sub (.sub a b) c) ∧
    parse (render a ++ .star :: (render b ++ .star :: render c)) = some (.mul (.mul a b) c) ∧
    parse (render a ++ .slash :: (render b ++ .slash :: render c)) = some (.div (.div a b) c) ∧
    parse (render a ++ .pow :: (render b ++ .pow :: render c)) = some (.pow (.pow a b) c) ∧
    parse (render a ++ .minus :: (render b ++ .plus :: render c)) = some (.add (.sub a b) c) ∧
    parse (render a ++ .slash :: (render b ++ .star :: render c)) = some (.mul (.div a b) c) := by
  have h0 : ∀ op : BinOp, op.level ≤ level a := fun op => by cases op <;> simp [BinOp.level] <;> omega
  have h1 : ∀ op : BinOp, op.level < level b := fun op => by rw [hb]; cases op <;> simp [BinOp.level]
  have h2 : ∀ op : BinOp, op.level < level c := fun op => by rw [hc]; cases op <;> simp [BinOp.level]
  exact ⟨parse_render_left_assoc .add .add rfl a b c wa wb wc (h0 _) (h1 _) (h2 _),
    parse_render_left_assoc .sub .sub rfl a b c wa wb wc (h0 _) (h1 _) (h2 _),
    parse_render_left_assoc .mul .mul rfl a b c wa wb wc (h0 _) (h1 _) (h2 _),
    parse_render_left_assoc .div .div rfl a b c wa wb wc (h0 _) (h1 _) (h2 _),
    parse_render_left_assoc .pow .pow rfl a b c wa wb wc (h0 _) (h1 _) (h2 _),
    parse_render_left_assoc .sub .add rfl a b c wa wb wc (h0 _) (h1 _) (h2 _),
    parse_render_left_assoc .div .mul rfl a b c wa wb wc (h0 _) (h1 _) (h2 _)⟩

/-- n-ary: a chain `a op₁ b₁ … opₙ bₙ` of operators of one level `k`, the operands given as texts with their readings, is
    the left-nested tree -/
theorem C19_left_associative_chain (k : Nat) (items : List (BinOp × List Tok × MTree))
    (h : ∀ it ∈ items, it.1.level = k ∧ ReadsAt (k + 1) it.2.1 it.2.2)
    {wa : List Tok} {a : MTree} (ha : ReadsAt k wa a) :
    parse (wa ++ items.flatMap (fun it => it.1.tok :: it.2.1))
      = some (items.foldl (fun acc it => it.1.mk acc it.2.2) a) :=
  parse_chain k items h ha

/-- **precedence**, all operands: if `op'` belongs to a higher grammar level than `op` (`* /` above `+ -`, `^` above both),
    then `a op b op' c` is `a op (b op' c)` and `a op' b op c` is `(a op' b) op c`; the operands are well-formed trees whose
    levels make their bare renderings operands of the respective rules (any atoms qualify) -/
theorem C19_precedence (op op' : BinOp) (hlt : op.level < op'.level) (a b c : MTree)
    (wa : WFTree a) (wb : WFTree b) (wc : WFTree c) :
    (op.level ≤ level a → op'.level ≤ level b → op'.level < level c →
      parse (render a ++ op.tok :: (render b ++ op'.tok :: render c)) = some (op.mk a (op'.mk b c))) ∧
    (op'.level ≤ level a → op'.level < level b → op.level < level c →
      parse (render a ++ op'.tok :: (render b ++ op.tok :: render c)) = some (op.mk (op'.mk a b) c)) :=
  ⟨fun ha hb hc => parse_render_prec_right op op' hlt a b c wa wb wc ha hb hc,
   fun ha hb hc => parse_render_prec_left op op' hlt a b c wa wb wc ha hb hc⟩

/-- spelled out for arbitrary atom-level operands: `a + b * c`, `a * b ^ c`, `a ^ b * c`, `a * b + c`, `a - b ^ c` -/
theorem C19_precedence_explicit (a b c : MTree) (wa : WFTree a) (wb : WFTree b) (wc : WFTree c)
    (ha : level a = 3) (hb : level b = 3) (hc : level c = 3) :
    parse (render a ++ .plus :: (render b ++ .star :: render c)) = some (.add a (.mul b c)) ∧
    parse (render a ++ .star :: (render b ++ .pow :: render c)) = some (.mul a (.pow b c)) ∧
    parse (render a ++ .pow :: (render b ++ .star :: render c)) = some (.mul (.pow a b) c) ∧
    parse (render a ++ .star :: (render b ++ .plus :: render c)) = some (.add (.mul a b) c) ∧
    parse (render a ++ .minus :: (render b ++ .pow :: render c)) = some (.sub a (.pow b c)) := by
  have h0 : ∀ op : BinOp, op.level < level a := fun op => by rw [ha]; cases op <;> simp [BinOp.level]
  have h1 : ∀ op : BinOp, op.level < level b := fun op => by rw [hb]; cases op <;> simp [BinOp.level]
  have h2 : ∀ op : BinOp, op.level < level c := fun op => by rw [hc]; cases op <;> simp [BinOp.level]
  exact ⟨parse_render_prec_right .add .mul (by decide) a b c wa wb wc (Nat.le_of_lt (h0 _)) (Nat.le_of_lt (h1 _)) (h2 _),
    parse_render_prec_right .mul .pow (by decide) a b c wa wb wc (Nat.le_of_lt (h0 _)) (Nat.le_of_lt (h1 _)) (h2 _),
    parse_render_prec_left .mul .pow (by decide) a b c wa wb wc (Nat.le_of_lt (h0 _)) (h1 _) (h2 _),
    parse_render_prec_left .add .mul (by decide) a b c wa wb wc (Nat.le_of_lt (h0 _)) (h1 _) (h2 _),
    parse_render_prec_right .sub .pow (by decide) a b c wa wb wc (Nat.le_of_lt (h0 _)) (Nat.le_of_lt (h1 _)) (h2 _)⟩

/-- **the complete table for two binary operators**: over operand texts that read as atoms (`ReadsAtom w t`: `parseAtom`
    returns `t` and consumes exactly `w` whatever follows, except `(` and `->` which would extend a name; e.g. rendered
    atom-level trees, fully parenthesised trees `readsAtom_fullParen`), `a op b op' c` is `a op (b op' c)` if `op'` binds
    tighter than `op` and `(a op b) op' c` in all other cases -/
theorem C19_two_operator_table (op op' : BinOp) {wa wb wc : List Tok} {a b c : MTree}
    (ha : ReadsAtom wa a) (hb : ReadsAtom wb b) (hc : ReadsAtom wc c) :
    parse (wa ++ op.tok :: (wb ++ op'.tok :: wc))
      = some (if op.level < op'.level then op.mk a (op'.mk b c) else op'.mk (op.mk a b) c) :=
  parse_two_ops op op' ha hb hc

/-- **unary minus**, all atom-level operands.  The grammar's `atom: "-" atom` makes the sign part of the atom, so it binds
    tighter than every binary operator INCLUDING `^`:
    (1) the bare text `-a^b` is `(-a)^b` — contrary to Python (`-a**b = -(a**b)`) and to ordinary notation; this is what the
        grammar says and what the model does (immediate value of `-2^2`: `4`, see the `#guard` below);
    (2) `a^-b` is `a^(-b)` (the right operand of `^` is an atom, and a signed atom is an atom);
    (3) to write `-(a^b)` the parentheses are needed: they are what `render` prints, and that text is read back as `-(a^b)`;
    (4) the two trees are different.
    More generally `-a op b` is `(-a) op b` and `a op -b` is `a op (-b)` for every binary operator. -/
theorem C19_unary_minus (a b : MTree) (wa : WFTree a) (wb : WFTree b) (ha : level a = 3) (hb : level b = 3) :
    parse (.minus :: (render a ++ .pow :: render b)) = some (.pow (.neg a) b) ∧
    parse (render a ++ .pow :: .minus :: render b) = some (.pow a (.neg b)) ∧
    (render (.neg (.pow a b)) = .minus :: .lpar :: (render a ++ .pow :: render b ++ [.rpar]) ∧
      parse (.minus :: .lpar :: (render a ++ .pow :: render b ++ [.rpar])) = some (.neg (.pow a b))) ∧
    MTree.pow (.neg a) b ≠ .neg (.pow a b) ∧
    (∀ op : BinOp, parse (.minus :: (render a ++ op.tok :: render b)) = some (op.mk (.neg a) b) ∧
      parse (render a ++ op.tok :: .minus :: render b) = some (op.mk a (.neg b))) := by
  have ra : ReadsAtom (render a) a := by have := readsAt_render a wa; rwa [ha] at this
  have rb : ReadsAtom (render b) b := by have := readsAt_render b wb; rwa [hb] at this
  have hr : render (.neg (.pow a b)) = .minus :: .lpar :: (render a ++ .pow :: render b ++ [.rpar]) := by
    rw [render_neg, wrapAt_of_lt (show level (.pow a b) < 3 from Nat.lt_succ_self 2),
      show render (.pow a b) = wrapAt 2 a ++ .pow :: wrapAt 3 b from render_mk .pow a b,
      wrapAt_of_le (show 2 ≤ level a by omega), wrapAt_of_le (show 3 ≤ level b by omega)]
  refine ⟨parse_neg_pow ra rb, parse_pow_neg ra.power rb, ⟨hr, ?_⟩, by simp, fun op =>
    ⟨parse_neg_binop op ra (rb.at _), parse_binop_neg op (ra.at _) rb⟩⟩
  rw [← hr]
  exact parse_render _ (by simp only [WFTree]; exact ⟨wa, wb⟩)

section Examples
/-- a small value algebra over `Int` to make the reading of `-2^2` visible as a value -/
private def intOps : Ops Int where
  number := fun s => s.toInt?.getD 0
  add := fun a b => .ok (a + b)
  sub := fun a b => .ok (a - b)
  mul := fun a b => .ok (a * b)
  div := fun a b => if b = 0 then .error .zeroDiv else .ok (a / b)
  pow := fun a b => .ok (a ^ b.toNat)
  neg := fun a => .ok (-a)
  pos := fun a => .ok a
  var := fun _ => .error (.other "name")
  getitem := fun _ _ => .error (.other "name")
  call := fun _ _ => .error (.other "name")
  nan := 0

-- `-2^2` is `(-2)^2 = 4` in the model (Python: `-2**2 = -4`); `-(2^2)` is `-4`; `2^3^2` is `(2^3)^2 = 64` (Python: 512)
#guard match (parse [.minus, .num "2", .pow, .num "2"]).map (evalI intOps false) with
  | some (.ok 4) => true | _ => false
#guard match (parse [.minus, .lpar, .num "2", .pow, .num "2", .rpar]).map (evalI intOps false) with
  | some (.ok (-4)) => true | _ => false
#guard match (parse [.num "2", .pow, .num "3", .pow, .num "2"]).map (evalI intOps false) with
  | some (.ok 64) => true | _ => false
#guard match (parse [.num "7", .minus, .num "2", .minus, .num "1"]).map (evalI intOps false) with
  | some (.ok 4) => true | _ => false

/-- hypotheses of the theorems are satisfiable on non-trivial operands: a call with a sum argument, a signed attribute
    access and a number; `f(x+1) - -el->k - 2` is `(f(x+1) - (-el->k)) - 2` -/
example : parse ([.name "f", .lpar, .name "x", .plus, .num "1", .rpar] ++ Tok.minus ::
      ([.minus, .name "el", .arrow, .name "k"] ++ Tok.minus :: [.num "2"]))
    = some (.sub (.sub (.call "f" [.add (.var "x") (.number "1")]) (.neg (.getitem "el" "k"))) (.number "2")) :=
  (C19_left_associative_explicit (.call "f" [.add (.var "x") (.number "1")]) (.neg (.getitem "el" "k")) (.number "2")
    (by simp [WFTree, WFArgs]) (by simp [WFTree]) trivial (by decide) rfl rfl).2.1

example : parse [.name "a", .plus, .name "b", .star, .name "c"]
    = some (.add (.var "a") (.mul (.var "b") (.var "c"))) :=
  (C19_precedence_explicit (.var "a") (.var "b") (.var "c") trivial trivial trivial rfl rfl rfl).1

example : parse [.minus, .name "a", .pow, .num "2"] = some (.pow (.neg (.var "a")) (.number "2")) :=
  (C19_unary_minus (.var "a") (.number "2") trivial trivial rfl rfl).1

example : parse (render (.mul (.add (.var "a") (.var "b")) (.neg (.pow (.var "c") (.number "2")))))
    = some (.mul (.add (.var "a") (.var "b")) (.neg (.pow (.var "c") (.number "2")))) :=
  C19_minimal_paren_parse _ (by simp [WFTree])
example : render (.mul (.add (.var "a") (.var "b")) (.neg (.pow (.var "c") (.number "2"))))
    = [.lpar, .name "a", .plus, .name "b", .rpar, .star, .minus, .lpar, .name "c", .pow, .num "2", .rpar] := rfl
end Examples

/-! ### the assignment statement `NAME = sum` -/

/-- **statements, deferred = immediate**: for every value algebra, all plain values and every `WellOrdered` statement
    list (each assignment reads only variables that are plain or assigned earlier; none is assigned twice or assigned
    after being read), unless a division by zero occurs in the immediate run (the hypothesis of `C19_agree`, on the whole
    run), running the statements deferred — every `n = e` a definition through the manager — and reading the variables
    gives what running them immediately gives: the same environment, hence the same value for every assigned variable,
    or the same exception.  Of `WellOrdered` the proof uses "no variable assigned twice"; the reading conditions are
    what makes the list-order `settle` the manager's push model (`C19_assign_push_model`). -/
theorem C19_assign_deferred_eq_immediate {V : Type} (ops : Ops V) (hd : DivOnly ops) (plain : Env V) (ss : List Stmt)
    (hw : WellOrdered ss = true) (h : runImm ops plain ss ≠ .error .zeroDiv) :
    (runDef ops ⟨plain, []⟩ ss).bind (fun st => st.env ops) = runImm ops plain ss :=
  deferred_eq_immediate ops hd plain ss hw h

/-- the same for a successful immediate run, with the deferred state spelled out -/
theorem C19_assign_deferred_state {V : Type} (ops : Ops V) (hd : DivOnly ops) (plain : Env V) (ss : List Stmt)
    (hw : WellOrdered ss = true) (envI : Env V) (hI : runImm ops plain ss = .ok envI) :
    ∃ st, runDef ops ⟨plain, []⟩ ss = .ok st ∧ st.plain = plain ∧ st.defs = defsOf ss ∧ st.env ops = .ok envI ∧
      Consistent ops plain (defsOf ss) envI :=
  deferred_eq_immediate_ok ops hd plain ss hw envI hI

/-- **statements keep agreeing after the variables change through the manager**: after any list of later plain updates
    of variables the statements do not assign, the deferred variables hold what the statements give when run
    immediately FROM SCRATCH on the updated plain values, and that environment solves the push-model specification of
    the updated state.  (The immediate environment itself stays stale: `C19_assign_immediate_stale`.) -/
theorem C19_assign_follows_updates {V : Type} (ops : Ops V) (hd : DivOnly ops) (plain : Env V) (ss : List Stmt)
    (hw : WellOrdered ss = true) (st : DState V) (hrun : runDef ops ⟨plain, []⟩ ss = .ok st)
    (us : List (String × V)) (hus : ∀ u ∈ us, u.1 ∉ assigned ss)
    (envI : Env V) (hI : runImm ops (plain.sets us) ss = .ok envI) :
    (st.updates us).env ops = .ok envI ∧ Consistent ops (plain.sets us) (defsOf ss) envI :=
  deferred_follows_updates_list ops hd plain ss hw st hrun us hus envI hI

/-- one update -/
theorem C19_assign_follows_update {V : Type} (ops : Ops V) (hd : DivOnly ops) (plain : Env V) (ss : List Stmt)
    (hw : WellOrdered ss = true) (st : DState V) (hrun : runDef ops ⟨plain, []⟩ ss = .ok st)
    (x : String) (v : V) (hx : x ∉ assigned ss) (envI : Env V) (hI : runImm ops (plain.set x v) ss = .ok envI) :
    (st.update x v).env ops = .ok envI :=
  deferred_follows_updates ops hd plain ss hw st hrun x v hx envI hI

/-- as an equation, exceptions included, for lists of assignments only and under the hypothesis of `C19_agree` on the
    re-run -/
theorem C19_assign_follows_updates_eq {V : Type} (ops : Ops V) (hd : DivOnly ops) (plain : Env V)
    (ds : List (String × MTree)) (hw : OrderedDefs ds = true) (st : DState V)
    (hrun : runDef ops ⟨plain, []⟩ (ds.map (fun d => Stmt.assign d.1 d.2)) = .ok st)
    (us : List (String × V)) (hus : ∀ u ∈ us, u.1 ∉ names ds)
    (h : runImm ops (plain.sets us) (ds.map (fun d => Stmt.assign d.1 d.2)) ≠ .error .zeroDiv) :
    (st.updates us).env ops = runImm ops (plain.sets us) (ds.map (fun d => Stmt.assign d.1 d.2)) :=
  deferred_follows_updates_eq ops hd plain ds hw st hrun us hus h

/-- **the model's deferred state is the push model**: on `OrderedDefs` (the definitions of a `WellOrdered` list) what
    `settle` returns satisfies `Consistent` — undefined variables hold their plain values, every defined variable holds
    the value of its tree on that very environment — and it is the only environment that does -/
theorem C19_assign_push_model {V : Type} (ops : Ops V) (plain : Env V) (ds : List (String × MTree))
    (ho : OrderedDefs ds = true) :
    (∀ env, settle ops plain ds = .ok env → Consistent ops plain ds env) ∧
    (∀ e1 e2, Consistent ops plain ds e1 → Consistent ops plain ds e2 → ∀ x, e1 x = e2 x) :=
  ⟨fun env h => settle_consistent ops ds plain env ho h, fun e1 e2 h1 h2 => consistent_unique ops plain ds ho e1 e2 h1 h2⟩

/-- the value of a tree depends on the environment only through the variables the tree reads -/
theorem C19_assign_reads {V : Type} (ops : Ops V) (g : Bool) (e1 e2 : Env V) (t : MTree)
    (h : ∀ r ∈ reads t, e1 r = e2 r) : evalI (ops.withEnv e1) g t = evalI (ops.withEnv e2) g t :=
  evalI_congr ops g e1 e2 t h

/-- **statement-level parser**: `name = <text>` is the assignment of the tree, for the fully parenthesised text
    (`C19_full_paren_parse`) and for the minimal-parentheses text (`C19_minimal_paren_parse`) of every tree of the
    parser's range; the text alone is an expression statement; and an assignment comes from `NAME "=" …` only -/
theorem C19_assign_parse (n : String) (t : MTree) (h : WFTree t) :
    parseStmt (.name n :: .assign :: fullParen t) = some (.assign n t) ∧
    parseStmt (.name n :: .assign :: render t) = some (.assign n t) ∧
    parseStmt (fullParen t) = some (.expr t) ∧
    (∀ toks, parseStmt toks = some (.assign n t) ↔ ∃ rest, toks = .name n :: .assign :: rest ∧ parse rest = some t) :=
  ⟨parseStmt_assign_fullParen n t h, parseStmt_assign_render n t h, parseStmt_expr_fullParen t h,
   fun toks => parseStmt_assign_iff toks n t⟩

/-- the immediate environment stays stale — the witness `t = a*2; x = t + b; a := 5` over `a = 2, b = 3`: with the
    update made to it the immediate environment still holds `t = 4, x = 7`, the deferred one holds `t = 10, x = 13` -/
theorem C19_assign_immediate_stale :
    runImm demoOps demoPlain demoStmts = .ok ((demoPlain.set "t" 4).set "x" 7) ∧
    (((demoPlain.set "t" 4).set "x" 7).set "a" 5) "t" = some 4 ∧
    (((demoPlain.set "t" 4).set "x" 7).set "a" 5) "x" = some 7 ∧
    (∃ st, runDef demoOps ⟨demoPlain, []⟩ demoStmts = .ok st ∧
      (match (st.update "a" 5).env demoOps with | .ok e => (e "t", e "x") | _ => (none, none)) = (some 10, some 13)) :=
  ⟨demo_imm, immediate_stale_witness.1, immediate_stale_witness.2.1, _, demo_def, by decide⟩

/-- **the scope is needed**: (1) `x = t + 1; t = a*2` (a variable read before it is assigned): settling in list order
    gives `x = 1, t = 4`, which does NOT satisfy the push-model specification — the manager pushes `x = 5`, the
    immediate run gives `x = 1`, the semantics differ; (2) `t = a; u = t; t = 3` (a variable assigned twice): immediately
    `u = 2`, deferred in the model `u = 0` (through the manager `u = 3`); (3) and the division guard: `t = a/(b-3)`
    raises immediately and holds NaN deferred -/
theorem C19_assign_scope_needed :
    (WellOrdered demoLate = false ∧
      settle demoOps demoPlain (defsOf demoLate) = .ok ((demoPlain.set "x" 1).set "t" 4) ∧
      ¬ Consistent demoOps demoPlain (defsOf demoLate) ((demoPlain.set "x" 1).set "t" 4)) ∧
    (WellOrdered demoTwice = false ∧
      (match runImm demoOps demoPlain demoTwice with | .ok e => e "u" | _ => none) = some 2 ∧
      (match (runDef demoOps ⟨demoPlain, []⟩ demoTwice).bind (fun st => st.env demoOps) with
        | .ok e => e "u" | _ => none) = some 0) ∧
    (runImm demoOps demoPlain [.assign "t" (.div (.var "a") (.sub (.var "b") (.number "3")))] = .error .zeroDiv ∧
      (runDef demoOps ⟨demoPlain, []⟩ [.assign "t" (.div (.var "a") (.sub (.var "b") (.number "3")))]).bind
        (fun st => st.env demoOps) = .ok (demoPlain.set "t" demoOps.nan)) :=
  ⟨not_consistent_outside, redefinition_witness, zero_division_witness⟩

section AssignExamples
/- non-vacuity: the hypotheses of the three statement theorems hold on `t = a*2; x = t + b` over `a = 2, b = 3` with the
   integer algebra `demoOps` (`DivOnly`: `demoOps_divOnly`), and the conclusions are the expected numbers -/
example : WellOrdered demoStmts = true := by decide
example : (runDef demoOps ⟨demoPlain, []⟩ demoStmts).bind (fun st => st.env demoOps)
    = .ok ((demoPlain.set "t" 4).set "x" 7) := by
  rw [C19_assign_deferred_eq_immediate demoOps demoOps_divOnly demoPlain demoStmts (by decide) (by rw [demo_imm]; nofun)]
  exact demo_imm
example : (DState.updates ⟨demoPlain, defsOf demoStmts⟩ [("a", 5), ("b", 1)]).env demoOps
    = .ok ((((demoPlain.set "a" 5).set "b" 1).set "t" 10).set "x" 11) :=
  (C19_assign_follows_updates demoOps demoOps_divOnly demoPlain demoStmts (by decide) _ demo_def [("a", 5), ("b", 1)]
    (by decide) _ rfl).1
example : Consistent demoOps demoPlain (defsOf demoStmts) ((demoPlain.set "t" 4).set "x" 7) :=
  (C19_assign_push_model demoOps demoPlain (defsOf demoStmts) (by decide)).1 _ rfl
-- the tokens of `t = a*2`, `t = (a*2)`, `(a*2)`
example : parseStmt [.name "t", .assign, .name "a", .star, .num "2"]
    = some (.assign "t" (.mul (.var "a") (.number "2"))) :=
  (C19_assign_parse "t" (.mul (.var "a") (.number "2")) ⟨trivial, trivial⟩).2.1
example : parseStmt [.name "t", .assign, .lpar, .name "a", .star, .num "2", .rpar]
    = some (.assign "t" (.mul (.var "a") (.number "2"))) :=
  (C19_assign_parse "t" (.mul (.var "a") (.number "2")) ⟨trivial, trivial⟩).1
end AssignExamples

end Properties.C19
