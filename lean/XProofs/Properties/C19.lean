import XModel.MadxThms
import XModel.MadxParen
/-!
# C19 — MAD-X expressions mean the same deferred as evaluated immediately
Model: `XModel/Madx.lean`.  `evalI ops false` is `MadxEval` over plain variables (the callbacks are
Python's operators), `evalI ops true` is the value of the deferred expression the same callbacks build
over refs (true division is a guarded class: C04).  The value algebra `ops` is a parameter.
By design the two evaluators are ONE recursion with a flag at the division node: that the deferred path (operator
callbacks building reference nodes which are evaluated later) computes what the immediate path computes node by node
is C04's subject and Tie A's obligation for `MadxEval` (every grammar alias is bound to the Python operator of the same
name); `C19_agree` then isolates the only intended difference, the NaN guard.
-/
namespace Properties.C19
open Madx

/-- for every parse tree and every environment: unless a division by zero occurs, the deferred value
    is the immediate value (and the same exception is raised when there is one) -/
theorem C19_agree {V : Type} (ops : Ops V) (hd : DivOnly ops) (t : MTree)
    (h : evalI ops false t ≠ .error .zeroDiv) : evalI ops true t = evalI ops false t :=
  agree ops hd t h

/-- the deferred evaluator never raises `ZeroDivisionError` from a division: at that node it yields NaN -/
theorem C19_div_guard {V : Type} (ops : Ops V) (l r : MTree) (a b : V)
    (hl : evalI ops true l = .ok a) (hr : evalI ops true r = .ok b) (hz : ops.div a b = .error .zeroDiv) :
    evalI ops true (.div l r) = .ok ops.nan := by
  simp [evalI, hl, hr, hz, bind, Except.bind]

/- non-vacuity / precedence: unary minus binds tighter than `^`, `^` is left-associative -/
#guard (parse [.minus, .num "2", .pow, .num "2"]).isSome
#guard match parse [.minus, .num "2", .pow, .num "2"] with | some (.pow (.neg (.number "2")) (.number "2")) => true | _ => false
#guard match parse [.num "2", .pow, .num "3", .pow, .num "2"] with
  | some (.pow (.pow (.number "2") (.number "3")) (.number "2")) => true | _ => false

/-- **fully parenthesised input**: rendering a tree with every compound node in parentheses and parsing it gives the
    tree back — no precedence or associativity decision is left to the grammar — for every tree the grammar can produce
    (`WFTree` is exactly the range of the parser: `wfTree_iff_parse`) -/
theorem C19_full_paren_parse (t : MTree) (h : WFTree t) : parse (fullParen t) = some t :=
  parse_fullParen t h

/-- a corollary of `C19_full_paren_parse` with little content of its own: evaluating the parse of the fully parenthesised
    text is evaluating the tree (immediate), and the deferred evaluation agrees unless a division by zero occurs.  "Ordinary
    Python arithmetic" is represented by the same evaluator `evalI` on the tree — there is no separate model of Python's
    precedence (`**` right-associative, unary minus below `**`) to compare with; that comparison is made by the oracle
    (`harness/w_madx.py` evaluates the mirrored term with Python itself).  Precedence / associativity of UNparenthesised
    input is checked by examples (`#guard`) and by the correspondence with lark's tree, not by a theorem. -/
theorem C19_full_paren_value {V : Type} (ops : Ops V) (hd : DivOnly ops) (t : MTree) (h : WFTree t) :
    (parse (fullParen t)).map (evalI ops false) = some (evalI ops false t) ∧
    (evalI ops false t ≠ .error .zeroDiv →
      (parse (fullParen t)).map (evalI ops true) = some (evalI ops false t)) :=
  ⟨eval_fullParen ops t h, fun hz => eval_fullParen_deferred ops hd t h hz⟩

/-- the trees the theorem speaks about are exactly the parser's outputs -/
theorem C19_parser_range (t : MTree) : WFTree t ↔ ∃ toks, parse toks = some t := wfTree_iff_parse t

end Properties.C19
