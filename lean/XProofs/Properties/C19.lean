import XModel.MadxThms
/-!
# C19 — MAD-X expressions mean the same deferred as evaluated immediately
Model: `XModel/Madx.lean`.  `evalI ops false` is `MadxEval` over plain variables (the callbacks are
Python's operators), `evalI ops true` is the value of the deferred expression the same callbacks build
over refs (true division is a guarded class: C04).  The value algebra `ops` is a parameter.
-/
namespace Properties.C19
open Madx

/-- for every parse tree and every environment: unless a division by zero occurs, the deferred value
    is the immediate value (and the same exception is raised when there is one) -/
theorem C19_agree {V : Type} (ops : Ops V) (hd : DivOnly ops) (t : MTree)
    (h : evalI ops false t ≠ .error .zeroDiv) : evalI ops true t = evalI ops false t :=
  agree ops hd t h

/-- the deferred evaluator never raises `ZeroDivisionError` from a division: at that node it yields NaN -/
theorem C19_div_guard {V : Type} (ops : Ops V) (l r : MTree) (a b : V)
    (hl : evalI ops true l = .ok a) (hr : evalI ops true r = .ok b) (hz : ops.div a b = .error .zeroDiv) :
    evalI ops true (.div l r) = .ok ops.nan := by
  simp [evalI, hl, hr, hz, bind, Except.bind]

/- non-vacuity / precedence: unary minus binds tighter than `^`, `^` is left-associative -/
#guard (parse [.minus, .num "2", .pow, .num "2"]).isSome
#guard match parse [.minus, .num "2", .pow, .num "2"] with | some (.pow (.neg (.number "2")) (.number "2")) => true | _ => false
#guard match parse [.num "2", .pow, .num "3", .pow, .num "2"] with
  | some (.pow (.pow (.number "2") (.number "3")) (.number "2")) => true | _ => false

end Properties.C19
