import XModel.ManagerFrame
import XModel.Sched2
import XModel.ManagerC18
import XModel.ManagerC18Fn
import XModel.ManagerC18Multi
import XModel.KnobFaultWitness
import XModel.ManagerC18Expr
import XProofs.Properties.C01
/-!
# C18 — a failure in the middle of an update is reported and fully recoverable
Model: `XModel/Manager.lean` with fault injection (`faultIn`: the k-th container write raises).

**Which tree.**  The model transcribes `/repo` as it stands now (the pinned commit plus the `fix:` commits of
`/verif/KNOWN_FINDINGS.json`); the index invariant `MInv` these theorems assume rests on the repaired `unregister`.

**What is proved and what is NOT.**  The first three clauses (the exception reaches the caller, definitions and indices are
unchanged, exactly a prefix of the schedule has run) hold for every kind of task (`C18_prefix`,
`C18_graph_untouched_while_running`, `C18_definitions_committed`, `C02_failing_call_runs_a_prefix`).  The RECOVERY
clause — repeating the assignment once the fault is gone re-establishes every dependant — is proved for managers whose
tasks are expression and function tasks (`C18_recover*`; the hypotheses `Scope` / `ScopeF` require every task of the
manager to be one of these, so a single linear knob anywhere in the manager puts the state outside them, and the
conclusion `ConsistentF` does not speak about knob targets at all), for a plain value assigned to a location without a
definition, assuming the repeat completes.  **For linear knobs the recovery clause is FALSE, of the model and of the
code alike** (`C18_knob_recovery_fails` below; known finding D34): `LinearKnob.run` adds `w_i * (value - prev_value)` to
each target in turn and remembers the new value only after the last one, so a fault between two targets makes the
repeat add the increment to the earlier targets a second time.  In that sense all `C18_recover*` theorems are `_partial`.

**Expression assignments** (`ref[k] = <expression>` / `set_value(ref, expr)`): `C18_recover_expression_assignment` (one
faulty attempt, all four clauses of the property), `C18_recover_expression_after_several_faults`(`_by_value`) (any number
of faulty attempts).  Reading of "the definitions are unchanged": unchanged BY THE FAULT — `set_value` unregisters the old
task and registers the new `ExprTask` before the first container write, so after a fault at any write, the write of
the assigned location itself included, the new definition is in force while the data are partially updated.  The
hypotheses are those of the fault-free theorem `C01_set_expr` (`Scope` at the committed state, a legal schedule); the
repeat re-registers the task, so its schedule is asked to be legal for the re-registered indices.
-/
namespace Properties.C18
open Store Push Index Manager

/-- The exception reaches the caller: if running the scheduled list fails, the call returns that
    very error, and exactly a prefix of the list has run (none scheduled after the failing task). -/
theorem C18_prefix (l : List MTask) (s s' : MState) (e : Err) (h : runTasks s l = (s', some e)) :
    ∃ pre t post s1, l = pre ++ t :: post ∧ runTasks s pre = (s1, none) ∧ runTask s1 t = (s', some e) :=
  runTasks_prefix l s s' e h

/-- Nothing touches the task table, the indices or the freeze flag while tasks run, whether the run
    completes or fails at any point: definitions and query answers are unchanged by the fault. -/
theorem C18_graph_untouched_while_running (l : List MTask) (s : MState) : SameGraph s (runTasks s l).1 :=
  runTasks_graph l s

/-- The definitional effect of an expression assignment is complete before the first data write and
    is the same whichever write is going to fail (including none). -/
theorem C18_definitions_committed (sched : Sched) (s : MState) (p : Path) (e : Expr) (k : Option Nat)
    (h : s.frozen = false) :
    SameGraph (defPart s p e) (setExpr sched { s with faultIn := k } p e).1 :=
  (defPart_fault_independent s p e k).trans (setExpr_graph sched { s with faultIn := k } p e h)

/-- A plain-value assignment never changes the graph, with or without a fault. -/
theorem C18_value_assignment_graph (sched : Sched) (s : MState) (p : Path) (v : Val) (k : Option Nat)
    (hl : lookDef s.defs p = none) :
    SameGraph s (setValue sched { s with faultIn := k } p v).1 := by
  have := setValue_plain_graph sched { s with faultIn := k } p v hl
  exact ⟨this.1, this.2.1, this.2.2⟩

/-- Recovery (abstract scheduling lemma): after running a list in which no later task disturbs an
    earlier one, every listed task and every undisturbed kept task is quiescent — the listed tasks
    need NOT have been quiescent beforehand, which is exactly the situation after a failed update. -/
theorem C18_recover {S T : Type} (sys : Sched2.Sys S T) (l : List T) (σ : S) (keep : T → Prop)
    (hgood : ∀ t ∈ l, sys.good t)
    (hkeep : ∀ t, keep t → sys.Q t σ) (hsafe : ∀ t, keep t → ∀ u ∈ l, sys.NI u t)
    (hord : List.Pairwise (fun t u => sys.NI u t) l) :
    (∀ t, keep t → sys.Q t (Sched2.runAll sys l σ)) ∧ (∀ t ∈ l, sys.Q t (Sched2.runAll sys l σ)) :=
  Sched2.runAll_Q sys l σ keep hgood hkeep hsafe hord

/-- **on the executable manager**: whatever a first attempt of `set_value(ref, value)` did — completed, or failed
    at the k-th container write — the definitions outside the triggered list still hold afterwards -/
theorem C18_outside_untouched (sched : Sched) (s : MState) (p : Path) (v : Val) (hi : MInv s)
    (sc : Scope { s with faultIn := none } p)
    (hvs : ValidSched (gOf s.idx) (findTaskids s.idx (chainR p)) (sched (findTaskids s.idx (chainR p))))
    (hbefore : ∀ t ∈ s.defs, t.id ≠ p → (exprSys pySem).Q (toE t) s.store) :
    ∀ t ∈ s.defs, t.id ≠ p → t.id ∉ sched (findTaskids s.idx (chainR p)) →
      (exprSys pySem).Q (toE t) (writeAndRun sched s p v).1.store :=
  writeAndRun_outside sched s p v hi sc hvs hbefore

/-- **recovery on the executable manager**: repeating the assignment after a failed attempt, when it completes,
    leaves every expression-defined location equal to its definition -/
theorem C18_recover_exec (sched : Sched) (s : MState) (p : Path) (v : Val) (k : Option Nat) (hi : MInv s)
    (hc : Consistent s) (hfz : lookDef s.defs p ≠ none → s.frozen = false)
    (sc : Scope (preState s p) p)
    (hvs : ValidSched (gOf (preState s p).idx) (findTaskids (preState s p).idx (chainR p))
      (sched (findTaskids (preState s p).idx (chainR p))))
    (s' : MState)
    (hok : setValue sched { (setValue sched { s with faultIn := k } p v).1 with faultIn := none } p v = (s', none)) :
    Consistent s' :=
  setValue_recover sched s p v k hi hc hfz sc hvs s' hok

/-- **recovery with function tasks**: the manager holds expression tasks and `FunctionTask`s; an assignment to a plain
    location fails at any point (`faultIn := k`: in the assigned write, in a definition's write, in the MIDDLE of a
    function body …); the repeat after the fault is gone — under any legal schedule, not necessarily the first
    attempt's — when it completes, leaves every definition and every line of every function body holding -/
theorem C18_recover_function_tasks (sched1 sched2 : Sched) (s : MState) (p : Path) (v : Val) (k : Option Nat)
    (hi : MInv s) (hnodef : lookDef s.defs p = none) (sc : ScopeF s p)
    (hvs1 : ValidSched (gOf s.idx) (findTaskids s.idx (chainR p)) (sched1 (findTaskids s.idx (chainR p))))
    (hvs2 : ValidSched (gOf s.idx) (findTaskids s.idx (chainR p)) (sched2 (findTaskids s.idx (chainR p))))
    (hc : ConsistentF s) (s' : MState)
    (hok : setValue sched2 { (setValue sched1 { s with faultIn := k } p v).1 with faultIn := none } p v = (s', none)) :
    ConsistentF s' :=
  setValue_recoverF sched1 sched2 s p v k hi hnodef sc hvs1 hvs2 hc s' hok

/-- **several faulty updates in a row, then a fault-free repeat**: any number of attempts to assign the plain location
    `p`, each with its own value, its own legal schedule and its own fault point (`faultIn`: cut anywhere, also inside a
    function body, or not at all), leave the damage confined to the tasks the assignment triggers; the final fault-free
    repeat under any legal schedule, when it completes, leaves every definition and every line of every function body
    holding, with the task table and indices untouched -/
theorem C18_recover_after_several_faults (s : MState) (p : Path) (l : List (Sched × Option Nat × Val)) (sched' : Sched)
    (v : Val) (hi : MInv s) (hc : ConsistentF s) (sc : ScopeF s p) (hnodef : lookDef s.defs p = none)
    (hvs : ∀ a ∈ l, ValidSched (gOf s.idx) (findTaskids s.idx (chainR p)) (a.1 (findTaskids s.idx (chainR p))))
    (hvs' : ValidSched (gOf s.idx) (findTaskids s.idx (chainR p)) (sched' (findTaskids s.idx (chainR p))))
    (s' : MState) (hok : setValue sched' { attemptsS s p l with faultIn := none } p v = (s', none)) :
    ConsistentF s' ∧ s'.defs = s.defs ∧ s'.idx = s.idx ∧ s'.frozen = s.frozen :=
  setValue_recoverF_multiS s p l sched' v hi hc sc hnodef hvs hvs' s' hok

/-- the expression-task form, in C01's vocabulary -/
theorem C18_recover_after_several_faults_expr (sched sched' : Sched) (s : MState) (p : Path)
    (l : List (Option Nat × Val)) (v : Val) (hi : MInv s) (hc : Consistent s) (sc : Scope s p)
    (hnodef : lookDef s.defs p = none)
    (hvs : ValidSched (gOf s.idx) (findTaskids s.idx (chainR p)) (sched (findTaskids s.idx (chainR p))))
    (hvs' : ValidSched (gOf s.idx) (findTaskids s.idx (chainR p)) (sched' (findTaskids s.idx (chainR p))))
    (s' : MState) (hok : setValue sched' { attempts sched s p l with faultIn := none } p v = (s', none)) :
    Consistent s' ∧ s'.defs = s.defs ∧ s'.idx = s.idx ∧ s'.frozen = s.frozen :=
  setValue_recover_multi sched sched' s p l v hi hc sc hnodef hvs hvs' s' hok

/-- whatever a run does — completes, faults, meets an evaluation error — it changes the containers only at locations
    comparable with the assigned one or with a target of a triggered expression / function task -/
theorem C18_writes_only_triggered_targets (sched : Sched) (s : MState) (p : Path) (v : Val) (hp : canonPath p)
    (q : Path) (hq : canonPath q) (hpq : Incomparable p q)
    (htr : ∀ t ∈ s.defs, t.id ∈ sched (findTaskids s.idx (chainR p)) →
      ((∃ e, t.kind = .expr e) ∨ ∃ body, t.kind = .func body) ∧
      ∀ it ∈ itemsOf t, canonPath it.target ∧ Incomparable it.target q) :
    get (writeAndRun sched s p v).1.store q = get s.store q :=
  writeAndRun_frameF sched s p v hp q hq hpq htr

/-- non-vacuity for the function-task form: `c = a + b` and `#F : e := c*2 ; f := a+1`; a fault in the middle of the
    body leaves `e` new and `f` stale, the repeat repairs it -/
example : lookDef C18FnExample.sF.defs C18FnExample.da = none ∧ scopeFB C18FnExample.sF C18FnExample.da = true :=
  ⟨C18FnExample.sF_hyps.1, C18FnExample.sF_hyps.2.1⟩

/-! non-vacuity: the chain of `Properties.C01` (c = a + b, e = c * a); `a = 5` with a fault at the third container
    write leaves `e` stale; repeating the assignment repairs it -/
section example_
open Properties.C01
def base : MState := applyAll id s0 (hist.take 2)
def failed : MState := (setValue id { base with faultIn := some 2 } da (.int 5)).1
example : (setValue id { base with faultIn := some 2 } da (.int 5)).2 = some .fault := rfl
example : get failed.store dc = .ok (.int 7) ∧ get failed.store de = .ok (.int 3) := ⟨rfl, rfl⟩
example : (setValue id { failed with faultIn := none } da (.int 5)).2 = none ∧
    get (setValue id { failed with faultIn := none } da (.int 5)).1.store de = .ok (.int 35) := ⟨rfl, rfl⟩
end example_


/-! ### a failure in the middle of an EXPRESSION assignment -/

/-- **`ref[k] = <expression>` with a failing container write, all clauses of C18.**  `s` is a state reachable through the
    API in which every definition holds, not frozen; `Scope (defPart s p e) p` and `hvs` are the hypotheses of
    `C01_set_expr` (`defPart s p e` = the manager after `unregister(old task)`, `register(ExprTask(p, e))`).  Run
    `set_value(p, e)` with the k-th container write raising (`k = some 0`: the write of `p` itself; `none`: no fault):
    (i) `Manager.tasks` and the four indices are those of the fault-free call — the new definition is committed,
        nothing touches the graph while tasks run;
    (ii) every definition other than the new one whose task was not scheduled still holds;
    (iii) if the call raised `x`, the caller got the exception of the failing step: `expr._get_value()` raised it and
        nothing was written, or `ref._set_value` did and the containers are as before, or the task `t` of the schedule
        did after exactly the tasks scheduled before it (`pre`) had completed, and none scheduled after it (`post`) ran;
    (iv) once the fault is gone, repeating `ref[k] = <the same expression>` — under any iteration order of the sets that
        is a legal schedule for the re-registered indices — when it completes leaves EVERY expression-defined location
        equal to its definition; and so does `q = <any value>` for any plain location `q` the new expression reads. -/
theorem C18_recover_expression_assignment (sched : Sched) (s : MState) (p : Path) (e : Expr) (k : Option Nat)
    (hi : MInv s) (hc : Consistent s) (hf : s.frozen = false) (sc : Scope (defPart s p e) p)
    (hvs : ValidSched (gOf (defPart s p e).idx) (findTaskids (defPart s p e).idx (chainR p))
      (sched (findTaskids (defPart s p e).idx (chainR p)))) :
    SameGraph (defPart s p e) (setExpr sched { s with faultIn := k } p e).1 ∧
    (∀ t ∈ (defPart s p e).defs, t.id ≠ p → t.id ∉ sched (findTaskids (defPart s p e).idx (chainR p)) →
      (exprSys pySem).Q (toE t) (setExpr sched { s with faultIn := k } p e).1.store) ∧
    (∀ (sf : MState) (x : Err), setExpr sched { s with faultIn := k } p e = (sf, some x) →
      (evalE (defPart s p e) e = .error x ∧ sf = { defPart s p e with faultIn := k }) ∨
      ∃ v, evalE (defPart s p e) e = .ok v ∧
        ((writeRef { defPart s p e with faultIn := k } p v = (sf, some x) ∧ sf.store = s.store) ∨
         ∃ sw pre t post sm, writeRef { defPart s p e with faultIn := k } p v = (sw, none) ∧
           t ∈ (defPart s p e).defs ∧ t.id ∈ findTaskids (defPart s p e).idx (chainR p) ∧
           (pre ++ t :: post).map (·.id) = sched (findTaskids (defPart s p e).idx (chainR p)) ∧
           runTasks sw pre = (sm, none) ∧ runTask sm t = (sf, some x))) ∧
    (∀ (sched' : Sched) (s' : MState),
      ValidSched (gOf (defPart (defPart s p e) p e).idx) (findTaskids (defPart (defPart s p e) p e).idx (chainR p))
        (sched' (findTaskids (defPart (defPart s p e) p e).idx (chainR p))) →
      setExpr sched' { (setExpr sched { s with faultIn := k } p e).1 with faultIn := none } p e = (s', none) →
      Consistent s' ∧ s'.defs = (defPart s p e).defs ∧ MInv s') ∧
    (∀ (sched' : Sched) (q : Path) (w : Val) (s' : MState), q ∈ leafRefs e →
      lookDef (defPart s p e).defs q = none → Scope (defPart s p e) q →
      ValidSched (gOf (defPart s p e).idx) (findTaskids (defPart s p e).idx (chainR q))
        (sched' (findTaskids (defPart s p e).idx (chainR q))) →
      setValue sched' { (setExpr sched { s with faultIn := k } p e).1 with faultIn := none } q w = (s', none) →
      Consistent s' ∧ s'.defs = (defPart s p e).defs ∧ s'.idx = (defPart s p e).idx ∧ MInv s') :=
  recover_exec_setExpr sched s p e k hi hc hf sc hvs

/-- the recovery half alone, every hypothesis a Boolean test the driver evaluates: the line of the faulty attempt
    passes `exprFaultScopeB` (evidence counter `lines_in_expression_fault_scope`), the line of the repeat passes the
    ordinary scope test of an expression assignment -/
theorem C18_recover_expression_assignment_decided (sched sched' : Sched) (s : MState) (p : Path) (e : Expr)
    (k : Option Nat) (hi : MInv s) (h : exprFaultScopeB sched s p e = true)
    (hsc' : scopeB (defPart (defPart { s with faultIn := none } p e) p e) p = true)
    (hv' : validSchedule (defPart (defPart { s with faultIn := none } p e) p e).idx (chainR p)
      (sched' (findTaskids (defPart (defPart { s with faultIn := none } p e) p e).idx (chainR p))) = true)
    (s' : MState)
    (hok : setExpr sched' { (setExpr sched { s with faultIn := k } p e).1 with faultIn := none } p e = (s', none)) :
    Consistent s' ∧ s'.defs = (defPart { s with faultIn := none } p e).defs ∧ MInv s' ∧ s'.frozen = false ∧
      s'.faultIn = none :=
  recover_exec_setExpr_decided sched sched' s p e k hi h hsc' hv' s' hok

/-- **several faulty updates in a row, then the fault-free repeat of the expression assignment**: the first attempt of
    `ref[k] = <expression>` (cut at `k0` or not) commits the definition; any number of retries follow, each with its own
    fault point and its own iteration order of the sets (`LegalFor`: a legal schedule for every index state of the
    committed task table — a retry re-registers the task, which may permute the insertion order of the indices; the
    order `find_taskids` computes and every fixed legal list are such, `legalFor_id`, `legalFor_const`); the final
    fault-free repeat, when it completes, leaves every definition holding and the task table is the committed one -/
theorem C18_recover_expression_after_several_faults (s : MState) (p : Path) (e : Expr) (sched0 : Sched)
    (k0 : Option Nat) (l : List EAttempt) (sched' : Sched) (q : Path) (hi : MInv s) (hc : Consistent s)
    (hf : s.frozen = false) (sc : Scope (defPart s p e) p)
    (hvs0 : ValidSched (gOf (defPart s p e).idx) (findTaskids (defPart s p e).idx (chainR p))
      (sched0 (findTaskids (defPart s p e).idx (chainR p))))
    (hex : ∀ a ∈ l, a.isExpr = true) (hl : ∀ a ∈ l, a.Legal (defPart s p e).defs p q)
    (hl' : LegalFor (defPart s p e).defs p sched') (s' : MState)
    (hok : setExpr sched'
      { attemptsE p e q (setExpr sched0 { s with faultIn := k0 } p e).1 l with faultIn := none } p e = (s', none)) :
    Consistent s' ∧ s'.defs = (defPart s p e).defs ∧ MInv s' ∧ s'.frozen = false ∧ s'.faultIn = none :=
  setExpr_recover_multi s p e sched0 k0 l sched' q hi hc hf sc hvs0 hex hl hl' s' hok

/-- **several faulty updates of expression AND value assignments in a row**: after the first attempt of
    `ref[k] = <expression>`, any number of attempts, each either a retry of it or `q = <value>` for a plain location `q`
    the expression reads, each with its own fault point, schedule and value; a final fault-free `q = <value>`, when it
    completes, leaves every definition holding -/
theorem C18_recover_expression_after_several_faults_by_value (s : MState) (p : Path) (e : Expr) (sched0 : Sched)
    (k0 : Option Nat) (l : List EAttempt) (sched' : Sched) (q : Path) (w : Val) (hi : MInv s) (hc : Consistent s)
    (hf : s.frozen = false) (sc : Scope (defPart s p e) p)
    (hvs0 : ValidSched (gOf (defPart s p e).idx) (findTaskids (defPart s p e).idx (chainR p))
      (sched0 (findTaskids (defPart s p e).idx (chainR p))))
    (hq : q ∈ leafRefs e) (hqd : lookDef (defPart s p e).defs q = none) (scq : Scope (defPart s p e) q)
    (hl : ∀ a ∈ l, a.Legal (defPart s p e).defs p q)
    (hl' : LegalFor (defPart s p e).defs q sched') (s' : MState)
    (hok : setValue sched'
      { attemptsE p e q (setExpr sched0 { s with faultIn := k0 } p e).1 l with faultIn := none } q w = (s', none)) :
    Consistent s' ∧ s'.defs = (defPart s p e).defs ∧ MInv s' ∧ s'.frozen = false ∧ s'.faultIn = none :=
  setExpr_recover_multi_by_value s p e sched0 k0 l sched' q w hi hc hf sc hvs0 hq hqd scq hl hl' s' hok

/-! non-vacuity: `d = {a: 5, b: 2, c: 7, e: 14}`, `c = a + b`, `e = c * 2`; the assignment `d.c = a * b` -/
section example_expr
open Manager.C18ExprExample
open Manager.C18MultiExample (sE)
open Manager.C18FnExample (da dc de)

/-- every hypothesis of the theorems holds for this state and expression (Boolean tests, `decide`) -/
example : exprFaultScopeB id sE dc eNew = true ∧ scopeB (defPart dE dc eNew) dc = true ∧
    validSchedule (defPart dE dc eNew).idx (chainR dc) (id (findTaskids (defPart dE dc eNew).idx (chainR dc))) = true :=
  ⟨sE_expr_hyps.1, sE_expr_hyps.2.1, sE_expr_hyps.2.2.1⟩

/-- the write of `e` raises (position 1): definition committed, `c = 10` new, `e = 14` stale; the repeat gives `e = 20` -/
example : (setExpr id { sE with faultIn := some 1 } dc eNew).2 = some .fault ∧ exprOf failed1 dc = some eNew ∧
    get failed1.store dc = .ok (.int 10) ∧ get failed1.store de = .ok (.int 14) ∧
    (setExpr id { failed1 with faultIn := none } dc eNew).2 = none ∧
    get (setExpr id { failed1 with faultIn := none } dc eNew).1.store de = .ok (.int 20) :=
  ⟨rfl, rfl, rfl, rfl, rfl, rfl⟩

/-- the write of `c` itself raises (position 0): definition committed, no data changed; the repeat repairs -/
example : (setExpr id { sE with faultIn := some 0 } dc eNew).2 = some .fault ∧ exprOf failed0 dc = some eNew ∧
    failed0.store = sE.store ∧ (setExpr id { failed0 with faultIn := none } dc eNew).2 = none ∧
    get (setExpr id { failed0 with faultIn := none } dc eNew).1.store dc = .ok (.int 10) ∧
    get (setExpr id { failed0 with faultIn := none } dc eNew).1.store de = .ok (.int 20) :=
  ⟨rfl, rfl, rfl, rfl, rfl, rfl⟩

/-- the conclusions, obtained from the theorems: repeat after a fault at position 1 / 0, the value assignment `a = 3`,
    four more faulty attempts then `a = 6`, three faulty retries then the repeat -/
example : Consistent (setExpr id { failed1 with faultIn := none } dc eNew).1 ∧
    Consistent (setExpr id { failed0 with faultIn := none } dc eNew).1 ∧
    Consistent (setValue id { failed1 with faultIn := none } da (.int 3)).1 ∧
    Consistent (setValue id { afterMixed with faultIn := none } da (.int 6)).1 ∧
    Consistent (setExpr id { attemptsE dc eNew da failed1 retries with faultIn := none } dc eNew).1 :=
  ⟨failed1_recovered, failed0_recovered, failed1_recovered_by_value, mixed_recovered, retries_recovered⟩
end example_expr

/-- **outside the scope: a new expression that reads its own target** (`d.c = d.c + d.a`; `Scope` excludes it, H3, exactly
    as `C01_set_expr` does; the Boolean tests reject it).  `set_value` evaluates `7 + 5`, writes `12`, then runs the new
    task once more because it depends on the location just written: the fault-free call ends with `c = 17`, `e = 34`.
    With the second write of `c` raising and the assignment repeated: `c = 22`, `e = 44` — neither the state of the
    fault-free call, nor one in which `c` equals its definition.  The real code gives the same numbers. -/
theorem C18_expression_self_read_outside_scope :
    scopeB (defPart Manager.C18MultiExample.sE Manager.C18FnExample.dc Manager.C18ExprExample.eSelf)
      Manager.C18FnExample.dc = false ∧
    get (setExpr id Manager.C18MultiExample.sE Manager.C18FnExample.dc Manager.C18ExprExample.eSelf).1.store
      Manager.C18FnExample.dc = .ok (.int 17) ∧
    get (setExpr id { (setExpr id { Manager.C18MultiExample.sE with faultIn := some 1 } Manager.C18FnExample.dc
        Manager.C18ExprExample.eSelf).1 with faultIn := none } Manager.C18FnExample.dc
        Manager.C18ExprExample.eSelf).1.store Manager.C18FnExample.dc = .ok (.int 22) :=
  ⟨Manager.C18ExprExample.self_read_outside_scope.1, Manager.C18ExprExample.self_read_recovery_fails.2.1,
   Manager.C18ExprExample.self_read_recovery_fails.2.2.2.2.2.2.1⟩

/-! ### the recovery clause fails for linear knobs (known finding D34) -/

/-- **witness**: `d = {x: 1, a: 10, b: 20}`, knob `#K` on `d.x` with weights `[2, -1]` and targets `d.a`, `d.b` (it
    prescribes `a = 8 + 2x`, `b = 21 - x`); `d.x := 5` with the write of `d.b` raising, then — the fault gone —
    `d.x := 5` again, which completes: `d.a = 26`, where the knob prescribes `18` (`d.b = 16` is right).  The real code
    gives the same numbers on the same history. -/
theorem C18_knob_recovery_fails :
    Manager.KnobFaultWitness.attempt.2.isSome = true ∧ Manager.KnobFaultWitness.repeated.2 = none ∧
    get Manager.KnobFaultWitness.t3.store (Manager.MixedExample.d "a") = .ok (.int 26) ∧
    get Manager.KnobFaultWitness.t3.store (Manager.MixedExample.d "b") = .ok (.int 16) ∧
    get (setValue id Manager.KnobFaultWitness.t0 (Manager.MixedExample.d "x") (.int 5)).1.store (Manager.MixedExample.d "a")
      = .ok (.int 18) :=
  ⟨rfl, rfl, rfl, rfl, rfl⟩

end Properties.C18
