import XProofs.Clip
import XProofs.Limits
import XModel.Opt
import XModel.OptFix
import XModel.OptLimits
import XModel.OptPerCall
import XProofs.MaxStep
import XModel.MeritNum
/-!
# C10 — accepted optimizer iterates respect limits, max_step and disabled knobs

**Which tree.**  The model transcribes `/repo` as it stands now: the pinned commit plus the `fix:` commits recorded in
`/verif/KNOWN_FINDINGS.json` (status `fixed`).  Where a theorem below rests on repaired code — `Clip.clip` is the repaired `_clip_to_max_steps` — it is false of
the tree as first pinned; the witnesses are kept (`clipPinned` below violates the bound).

**What the `max_step` theorems assume.**  They are over a linear ordered field (exact arithmetic, exact positive weights);
the Float runs of the driver are NOT instances of them.  The link to the runs is the hypothesis `MaxStep.LoopTrialOK`: the
last point of every executed non-early solver step equals `OptNum.trialPoint` of the model's start point and of
`OptNum.clip` of some raw step, with a scaling in `[0, 1]`.  The driver checks exactly these equalities, bit for bit, on
doubles, for every executed step whose raw and clipped step the trace recorded (`clip_ok`, `trial_ok`); the theorems are
their exact-arithmetic reading.  Rounding is outside: in doubles `out * (m / |out_i|)` may exceed `m` by an ulp, and no
rounding bound is proved.  The slack `e` of the first link is a parameter (the code's `np.allclose(atol=1e-12)` test is
not modelled; `resync` is an oracle flag).

**NOT covered.**
* "a disabled target has no influence on the steps taken": the steps (Jacobian probes, trial points) are oracle
  parameters of the skeleton, so the statement cannot be expressed;
* of the per-call `disable_*` / `enable_*` arguments of `step` (modelled: `Opt.optStepWith`, section "per-call arguments"
  below): the resolution of ids / tags / names to positions (done by the harness, `re.fullmatch`), the Boolean forms
  `enable_vary=True/False`, and `_clip_to_limits` under `check_limits=False`;
  parameters of the skeleton, so the statement cannot be expressed about the steps; what IS proved
  (`C10_disabled_target_no_influence`, over `XModel/MeritNum.lean`) is that everything the merit function hands to the
  solver — the returned vector, `last_point_within_tol`, the penalty — does not depend on the raw value of a disabled
  target; that the solver drops the rows of the disabled targets from the Jacobian (`jacobian.py`) stays with the oracle;
* the per-call `disable_*` / `enable_*` arguments of `step` (not modelled);
* `solve()`'s restore path: it reloads a row logged BEFORE the call, which may write out-of-limit values and change a
  knob that is disabled now (`Opt.LimitsExample`); every theorem below is about one `optStep`, with `take_best` reloading
  a row logged during the call;
* sequences of calls, beyond the two-call corollary `C10_two_calls_within_max_step`.
-/
namespace Properties.C10
variable {K : Type} [Field K] [LinearOrder K] [IsStrictOrderedRing K]

/-- after `_clip_to_max_steps` (repaired form) every coordinate with a `max_step` moves by at most it.
    SUPERSEDED (kept for reference): same content as `MaxStep.clip_bound`, which is about `OptNum.clip` — the function the
    driver replays — and is what `C10_step_within_max_step` uses; `Clip.clip` here is the stand-alone prototype. -/
theorem C10_clip_bound (maxs : Nat → Option K) (n : Nat) (x : Nat → K)
    (hpos : ∀ k m, maxs k = some m → 0 ≤ m) (i : Nat) (hi : i < n) (m : K) (hm : maxs i = some m) :
    |Clip.clip maxs n x i| ≤ m :=
  Clip.clip_bound maxs n x hpos i hi m hm

/-- `max_step` is a bound in knob units: it has to be divided by the weight in solver units -/
theorem C10_max_step_units (w m s : K) (hw : 0 < w) : |s| ≤ m / w ↔ |s * w| ≤ m :=
  Limits.max_step_units w m s hw

/-- the per-coordinate clamp of the bisection loop keeps an iterate that starts inside the closed limits inside.
    SUPERSEDED (kept for reference): `C10_trial_point_inside` says the same of `OptNum.trialPoint`, the function the driver
    replays; `Limits.clampStep` here is the stand-alone scalar prototype. -/
theorem C10_limit_clamp (lo hi x s : K) (h : lo ≤ x ∧ x ≤ hi) :
    lo ≤ x - Limits.clampStep lo hi x s ∧ x - Limits.clampStep lo hi x s ≤ hi :=
  Limits.clamp_inside lo hi x s h

/-- limits in knob units and in solver units select the same points (positive weights) -/
theorem C10_weight_limits (w lo hi x : K) (hw : 0 < w) : (lo / w ≤ x ∧ x ≤ hi / w) ↔ (lo ≤ x * w ∧ x * w ≤ hi) :=
  Limits.weight_limits w lo hi x hw

/-- a knob that is inactive is never written by a merit call: the writing loop skips it.
    SUPERSEDED (kept for reference): a statement about the inner loop `writeKnobs` only; it is contained in
    `C10_disabled_knob_never_changed`, which is about the whole of `step()`. -/
theorem C10_inactive_knob_untouched {R : Type} (c : Opt.Cfg R) (check : Bool) (x : Nat → R) (k : Nat) (s s' : Opt.St R)
    (r : Except Opt.Err Unit) (h : Opt.writeKnobs c check x k s = (r, s')) (j : Nat) (hj : s.vAct j = false) :
    s'.knobs j = s.knobs j ∧ s'.vAct = s.vAct := by
  induction k generalizing s s' r with
  | zero => simp [Opt.writeKnobs, Opt.pure'] at h; obtain ⟨_, rfl⟩ := h; exact ⟨rfl, rfl⟩
  | succ k ih =>
    simp only [Opt.writeKnobs, Opt.bind'] at h
    cases h1 : Opt.writeKnobs c check x k s with
    | mk r1 s1 =>
      rw [h1] at h
      have := ih s s1 r1 h1 hj
      cases r1 with
      | error e => simp only at h; obtain ⟨_, rfl⟩ := h; exact this
      | ok u =>
        simp only at h
        by_cases ha : s1.vAct k = true
        · simp only [ha, if_true] at h
          split at h
          · obtain ⟨_, rfl⟩ := h; exact this
          · obtain ⟨_, rfl⟩ := h
            refine ⟨?_, this.2⟩
            simp only
            have hne : j ≠ k := by
              intro e; subst e
              rw [this.2] at ha; rw [hj] at ha; exact absurd ha (by simp)
            simp [hne, this.1]
        · simp only [ha] at h
          obtain ⟨_, rfl⟩ := h; exact this

/-- **a disabled knob is never changed by `step()`**: on the control skeleton of `Optimize.step` (start row, loop of
    Jacobian steps with arbitrary numerics, `set_knobs_from_x`, log rows, `take_best` reload of any row logged during
    the call), for every outcome — normal return or exception — a knob that is inactive when the call starts holds
    the same value afterwards, is still inactive, and every row logged by the call records that value -/
theorem C10_disabled_knob_never_changed {R : Type} (c : Opt.Cfg R) (its : List (Opt.Iter R)) (tb : Option Nat) (k : Nat)
    (s s' : Opt.St R) (r : Except Opt.Err Unit) (hk : s.vAct k = false)
    (htb : ∀ i, tb = some i → s.log.length ≤ i) (h : Opt.optStep c its tb s = (r, s')) :
    s'.knobs k = s.knobs k ∧ s'.vAct k = false ∧
    ∀ i row, s.log.length ≤ i → s'.log[i]? = some row → row.knobs k = s.knobs k ∧ row.vAct k = false :=
  Opt.optStep_disabled_fixed c its tb k s s' r hk htb h

/-- **every accepted knob vector lies within the limits**: on the control skeleton of `Optimize.step` (arbitrary
    numerics; Jacobian probes are evaluated WITHOUT the limit check and may leave the limits temporarily), starting with
    every knob inside its limits and `take_best` reloading a row logged during the call: every row the call appends to
    the log — whatever the outcome, normal return or exception — has every knob inside its limits, the disabled ones
    holding their start value; on normal return so does the container -/
theorem C10_rows_within_limits {R : Type} (c : Opt.Cfg R) (its : List (Opt.Iter R)) (tb : Option Nat) (s s' : Opt.St R)
    (r : Except Opt.Err Unit) (hall : ∀ j, j < c.n → c.inLimits j (s.knobs j) = true)
    (htb : ∀ i, tb = some i → s.log.length ≤ i) (h : Opt.optStep c its tb s = (r, s')) :
    (∀ i row, s.log.length ≤ i → s'.log[i]? = some row →
      ∀ j, j < c.n → c.inLimits j (row.knobs j) = true ∧ (s.vAct j = false → row.knobs j = s.knobs j)) ∧
    (r = .ok () → ∀ j, j < c.n → c.inLimits j (s'.knobs j) = true) ∧
    (∀ j, s.vAct j = false → s'.knobs j = s.knobs j) :=
  Opt.optStep_all_within_limits c its tb s s' r hall htb h

/-- the container claim is for normal return only: after an exception a Jacobian probe's value may be left in the
    container (concrete runs in `Opt.LimitsExample`); the active-knob form with the weakest start hypothesis -/
theorem C10_rows_within_limits_active {R : Type} (c : Opt.Cfg R) (its : List (Opt.Iter R)) (tb : Option Nat)
    (s s' : Opt.St R) (r : Except Opt.Err Unit)
    (hstart : ∀ j, j < c.n → s.vAct j = true → c.inLimits j (s.knobs j) = true)
    (htb : ∀ i, tb = some i → s.log.length ≤ i) (h : Opt.optStep c its tb s = (r, s')) :
    s'.vAct = s.vAct ∧
    (∀ i row, s.log.length ≤ i → s'.log[i]? = some row →
      row.vAct = s.vAct ∧ ∀ j, j < c.n → row.vAct j = true → c.inLimits j (row.knobs j) = true) ∧
    (r = .ok () → ∀ j, j < c.n → s'.vAct j = true → c.inLimits j (s'.knobs j) = true) :=
  Opt.optStep_rows_within_limits c its tb s s' r hstart htb h

/-! ### `max_step`, connected to the skeleton of `Optimize.step`

`OptNum.clip` and `OptNum.trialPoint` are the functions the driver replays on IEEE doubles, bit for bit, against every
recorded call of `_clip_to_max_steps` and every recorded trial point of `JacobianSolver.step` (fields `clip_ok`,
`trial_ok` of suite `opt`); the theorems below instantiate them with exact arithmetic.  What stays outside: rounding
(in doubles `out * (m / |out_i|)` may exceed `m` by an ulp). -/

/-- **one Jacobian step moves no knob by more than its `max_step`**: the point the solver moves to is a trial point
    `x - scal * clip(raw)` (`0 ≤ scal ≤ 1`, coordinates that would leave the limits stay put) of the clipped step, for
    ANY raw step the least-squares solve produced; times the weight it is within `max_step` of `x` times the weight.
    Exact arithmetic; hypotheses: `max_step ≥ 0`, weights `> 0`. -/
theorem C10_step_within_max_step (maxStep wt : Nat → Option K) (n : Nat) (raw lo hi x : Nat → K) (scal : K)
    (h0 : 0 ≤ scal) (h1 : scal ≤ 1) (hms : ∀ k m, maxStep k = some m → 0 ≤ m) (hw : ∀ k w, wt k = some w → 0 < w)
    (i : Nat) (hi' : i < n) (m : K) (hm : maxStep i = some m) :
    |OptNum.trialPoint MaxStep.fo lo hi x (OptNum.clip MaxStep.fo (OptNum.maxsOf MaxStep.fo maxStep wt) n raw) scal i - x i|
      * (wt i).getD 1 ≤ m :=
  MaxStep.step_within_max_step maxStep wt n raw lo hi x scal h0 h1 hms hw i hi' m hm

/-- a trial point stays inside limits that hold at the start point (the clamp of the bisection loop, as replayed) -/
theorem C10_trial_point_inside (lo hi x xs : Nat → K) (scal : K) (i : Nat) (hx : lo i ≤ x i ∧ x i ≤ hi i) :
    lo i ≤ OptNum.trialPoint MaxStep.fo lo hi x xs scal i ∧ OptNum.trialPoint MaxStep.fo lo hi x xs scal i ≤ hi i :=
  MaxStep.trialPoint_inside lo hi x xs scal i hx

/-- the bridge from what the driver checks to the bound: an iteration of the checked form (`MaxStep.TrialOK`: its last
    point is `OptNum.trialPoint` of the MODEL's start point `iterX0`, of `OptNum.clip` of some raw step and of a scaling in
    `[0, 1]`) moves every knob that has a `max_step` by at most it, in knob units (`MaxStep.StepOK`) -/
theorem C10_checked_step_is_bounded (c : Opt.Cfg K) (W : Nat → K) (ms wt : Nat → Option K) (lo hi : Nat → K)
    (s : Opt.St K) (it : Opt.Iter K) (hW : ∀ i, W i = (wt i).getD 1) (hms : ∀ k m, ms k = some m → 0 ≤ m)
    (hw : ∀ k w, wt k = some w → 0 < w) (h : MaxStep.TrialOK c ms wt lo hi s it) : MaxStep.StepOK c W ms s it :=
  h.stepOK hW hms hw

/-- **between consecutive Jacobian steps no knob moves by more than its `max_step`** — on the control skeleton of
    `Optimize.step`, whatever its outcome (normal return or exception), in exact arithmetic.

    ASSUMED: (`hc`) the configuration multiplies / divides by exact positive weights `W`, (`hW`) given in the optional form
    `wt` that `OptNum.maxsOf` takes; (`hms`) `max_step ≥ 0`; (`hnear`) when the first iteration does not re-assign
    `solver.x`, container and `solver.x` agree up to `e` on the active knobs at entry (`e` is a free parameter: the code's
    `np.allclose(atol=1e-12)` test is not modelled); (`hok`) `MaxStep.LoopTrialOK`: every EXECUTED non-early solver step
    ends at a trial point of the clipped step, computed from the model's own start point.  `hok` is the exact-arithmetic
    form of what the driver checks bit for bit on doubles for every executed step (`clip_ok`, `trial_ok`); no bound on the
    move is assumed — it is derived (`C10_checked_step_is_bounded`).  NOT assumed: anything about the raw steps, the
    limits `lo hi`, the Jacobian probes, the user function, `take_best`.

    CONCLUSION: either the start evaluation raised and the log is unchanged; or the call appended exactly
    `start row :: suf ++ tail` where the start row is the container at entry; `suf` is EXACTLY what the loop appended
    (`s2.log = s1.log ++ suf`), one row per iteration that returned normally (`MaxStep.doneIters`), each within `max_step`
    of its predecessor on every active knob (`MaxStep.Chain`; the first is compared with the start row, up to `e`; exact
    from then on) — so for `step(n_steps=1)` the one row IS bounded; and `tail` is empty unless `take_best` reloaded
    (`tb = some i`, loop returned normally, tolerance not met), and then it is empty (the reload raised) or a copy of log
    row `i`.  After a normal return of a loop of at least one iteration container and `solver.x` agree exactly on the
    active knobs (what a following call needs: `C10_two_calls_within_max_step`). -/
theorem C10_consecutive_rows_within_max_step (c : Opt.Cfg K) (W : Nat → K) (ms wt : Nat → Option K) (lo hi : Nat → K)
    (hc : MaxStep.Weights c W) (hW : ∀ i, W i = (wt i).getD 1)
    (hms : ∀ k m, ms k = some m → 0 ≤ m) (its : List (Opt.Iter K)) (tb : Option Nat)
    (e : K) (he : 0 ≤ e) (s s' : Opt.St K) (r : Except Opt.Err Unit)
    (hnear : ∀ it rest, its = it :: rest → it.resync = false → MaxStep.Near c W e s)
    (hok : ∀ s1, Opt.addPoint c s = (.ok (), s1) → MaxStep.LoopTrialOK c ms wt lo hi s1 its)
    (h : Opt.optStep c its tb s = (r, s')) :
    (∃ e1, Opt.addPoint c s = (.error e1, s') ∧ r = .error e1 ∧ s'.log = s.log) ∨
    ∃ (s1 s2 : Opt.St K) (r2 : Except Opt.Err Unit) (suf tail : List (Opt.Row K)),
      Opt.addPoint c s = (.ok (), s1) ∧ Opt.optLoop c its s1 = (r2, s2) ∧
      s1.log = s.log ++ [⟨s.knobs, s.vAct, s.tAct⟩] ∧ s2.log = s1.log ++ suf ∧ s'.log = s2.log ++ tail ∧
      suf.length = MaxStep.doneIters c its s1 ∧
      MaxStep.Chain c.n s.vAct ms e s.knobs suf ∧
      (r2 = .ok () → its ≠ [] → MaxStep.Near c W 0 s2) ∧
      ((tail = [] ∧ s' = s2 ∧ r = r2) ∨
       ∃ i, tb = some i ∧ r2 = .ok () ∧ s2.lastWithin = false ∧ Opt.reload c i s2 = (r, s') ∧
         (tail = [] ∨ ∃ row, s2.log[i]? = some row ∧ tail = [row])) :=
  MaxStep.optStep_chain c W ms wt lo hi hc hW hms its tb e he s s' r hnear hok h

/-- the same with the bound on each executed step ASSUMED (`MaxStep.LoopOK`) instead of derived — the intermediate form,
    kept as a lemma; use `C10_consecutive_rows_within_max_step` -/
theorem C10_consecutive_rows_of_bounded_steps (c : Opt.Cfg K) (W : Nat → K) (ms : Nat → Option K)
    (hc : MaxStep.Weights c W) (hms : ∀ k m, ms k = some m → 0 ≤ m) (its : List (Opt.Iter K)) (tb : Option Nat)
    (e : K) (he : 0 ≤ e) (s s' : Opt.St K) (r : Except Opt.Err Unit)
    (hnear : ∀ it rest, its = it :: rest → it.resync = false → MaxStep.Near c W e s)
    (hok : ∀ s1, Opt.addPoint c s = (.ok (), s1) → MaxStep.LoopOK c W ms s1 its)
    (h : Opt.optStep c its tb s = (r, s')) :
    (∃ e1, Opt.addPoint c s = (.error e1, s') ∧ r = .error e1 ∧ s'.log = s.log) ∨
    ∃ (s1 s2 : Opt.St K) (r2 : Except Opt.Err Unit) (suf tail : List (Opt.Row K)),
      Opt.addPoint c s = (.ok (), s1) ∧ Opt.optLoop c its s1 = (r2, s2) ∧
      s1.log = s.log ++ [⟨s.knobs, s.vAct, s.tAct⟩] ∧ s2.log = s1.log ++ suf ∧ s'.log = s2.log ++ tail ∧
      suf.length = MaxStep.doneIters c its s1 ∧
      MaxStep.Chain c.n s.vAct ms e s.knobs suf ∧
      (r2 = .ok () → its ≠ [] → MaxStep.Near c W 0 s2) ∧
      ((tail = [] ∧ s' = s2 ∧ r = r2) ∨
       ∃ i, tb = some i ∧ r2 = .ok () ∧ s2.lastWithin = false ∧ Opt.reload c i s2 = (r, s') ∧
         (tail = [] ∨ ∃ row, s2.log[i]? = some row ∧ tail = [row])) :=
  MaxStep.optStep_chain_of_loopOK c W ms hc hms its tb e he s s' r hnear hok h

/-- **composability**: after a normal return of `step` without `take_best` that ran at least one iteration, container and
    `solver.x` agree exactly on the active knobs and the last row of the log is the container.  Needs exact positive
    weights only — nothing about the numerics.  (With `take_best` the same holds of the state the LOOP left, see the
    conclusion of `C10_consecutive_rows_within_max_step`; a reload moves the container away from `solver.x`, and the real
    code then re-assigns `solver.x`, i.e. `resync = true`, for which no agreement is needed.) -/
theorem C10_solver_x_agrees_after_step (c : Opt.Cfg K) (W : Nat → K) (hc : MaxStep.Weights c W)
    (its : List (Opt.Iter K)) (hne : its ≠ []) (s s' : Opt.St K) (h : Opt.optStep c its none s = (.ok (), s')) :
    MaxStep.Near c W 0 s' ∧ ∃ pre, s'.log = pre ++ [⟨s'.knobs, s'.vAct, s'.tAct⟩] :=
  MaxStep.optStep_near c W hc its hne s s' h

/-- **two calls in a row**: after `step` (no `take_best`, at least one iteration, normal return; nothing assumed of ITS
    numerics) a second `step` whose executed solver steps have the checked form needs no hypothesis on the agreement of
    container and `solver.x`: the conclusion of `C10_consecutive_rows_within_max_step` holds of it with slack `0`, and its
    start row repeats the last row of the first call, so its chain continues from that row -/
theorem C10_two_calls_within_max_step (c : Opt.Cfg K) (W : Nat → K) (ms wt : Nat → Option K) (lo hi : Nat → K)
    (hc : MaxStep.Weights c W) (hW : ∀ i, W i = (wt i).getD 1) (hms : ∀ k m, ms k = some m → 0 ≤ m)
    (its1 its2 : List (Opt.Iter K)) (hne : its1 ≠ []) (tb2 : Option Nat) (s sm s' : Opt.St K) (r : Except Opt.Err Unit)
    (h1 : Opt.optStep c its1 none s = (.ok (), sm))
    (hok : ∀ s1, Opt.addPoint c sm = (.ok (), s1) → MaxStep.LoopTrialOK c ms wt lo hi s1 its2)
    (h2 : Opt.optStep c its2 tb2 sm = (r, s')) :
    (∃ pre, sm.log = pre ++ [⟨sm.knobs, sm.vAct, sm.tAct⟩]) ∧
    ((∃ e1, Opt.addPoint c sm = (.error e1, s') ∧ r = .error e1 ∧ s'.log = sm.log) ∨
    ∃ (s1 s2 : Opt.St K) (r2 : Except Opt.Err Unit) (suf tail : List (Opt.Row K)),
      Opt.addPoint c sm = (.ok (), s1) ∧ Opt.optLoop c its2 s1 = (r2, s2) ∧
      s1.log = sm.log ++ [⟨sm.knobs, sm.vAct, sm.tAct⟩] ∧ s2.log = s1.log ++ suf ∧ s'.log = s2.log ++ tail ∧
      suf.length = MaxStep.doneIters c its2 s1 ∧
      MaxStep.Chain c.n sm.vAct ms 0 sm.knobs suf ∧
      (r2 = .ok () → its2 ≠ [] → MaxStep.Near c W 0 s2) ∧
      ((tail = [] ∧ s' = s2 ∧ r = r2) ∨
       ∃ i, tb2 = some i ∧ r2 = .ok () ∧ s2.lastWithin = false ∧ Opt.reload c i s2 = (r, s') ∧
         (tail = [] ∨ ∃ row, s2.log[i]? = some row ∧ tail = [row]))) :=
  MaxStep.optStep_two_calls c W ms wt lo hi hc hW hms its1 its2 hne tb2 s sm s' r h1 hok h2

/-! ### per-call arguments of `step`: `enable_target / enable_vary / enable_vary_name / disable_target / disable_vary /
    disable_vary_name`

`Opt.optStepWith a c its tb` is `Optimize.step` with its six per-call arguments, each given as the list of positions (in
`opt.vary` / `opt.targets`) it switches — the harness resolves ids, tags and names to positions and the driver runs this
definition from the state BEFORE the flags are applied, comparing knobs, log rows and the FINAL flags with the
implementation's.  The order is the code's: `enable_target, enable_vary, disable_target, disable_vary, disable_vary_name,
enable_vary_name` before the start row is logged, the opposite state in the same order after the `take_best` reload; an
exception skips the second block (there is no `try/finally` in the code). -/

/-- **"after which they are active again"** — what the code does on a normal return, for every index an argument names,
    with NO hypothesis on the flags before the call, the numerics or `take_best`: a knob named by `disable_vary` or
    `disable_vary_name` (and not by `enable_vary_name`) is active afterwards — also when it was inactive before the call;
    a target named by `disable_target` is active afterwards; a knob named by `enable_vary_name`, or by `enable_vary` and no
    `disable_*` argument, and a target named by `enable_target` only, are INACTIVE afterwards — also when they were active
    before the call.  The arguments do not restore, they set. -/
theorem C10_per_call_flags_after_return {R : Type} (a : Opt.StepArgs) (c : Opt.Cfg R) (its : List (Opt.Iter R))
    (tb : Option Nat) (s s' : Opt.St R) (h : Opt.optStepWith a c its tb s = (.ok (), s')) :
    (∀ k, (k ∈ a.disableVary ∨ k ∈ a.disableVaryName) → k ∉ a.enableVaryName → s'.vAct k = true) ∧
    (∀ k, k ∈ a.enableVaryName → s'.vAct k = false) ∧
    (∀ k, k ∈ a.enableVary → k ∉ a.disableVary → k ∉ a.disableVaryName → s'.vAct k = false) ∧
    (∀ k, k ∈ a.disableTarget → s'.tAct k = true) ∧
    (∀ k, k ∈ a.enableTarget → k ∉ a.disableTarget → s'.tAct k = false) :=
  Opt.optStepWith_ok_mentioned a c its tb s s' h

/-- **every other flag is what it was before the call**: on a normal return, with `take_best` reloading a row logged
    during the call (the hypothesis the driver evaluates per call, `tb_in_call`), a knob / target that NO argument names has
    the flag it had before the call; and all flags together are `finalV a` / `finalT a` of the flags before the call -/
theorem C10_per_call_other_flags_unchanged {R : Type} (a : Opt.StepArgs) (c : Opt.Cfg R) (its : List (Opt.Iter R))
    (tb : Option Nat) (s s' : Opt.St R) (htb : ∀ i, tb = some i → s.log.length ≤ i)
    (h : Opt.optStepWith a c its tb s = (.ok (), s')) :
    s'.vAct = Opt.finalV a s.vAct ∧ s'.tAct = Opt.finalT a s.tAct ∧
    (∀ k, k ∉ a.enableVary ∧ k ∉ a.disableVary ∧ k ∉ a.disableVaryName ∧ k ∉ a.enableVaryName → s'.vAct k = s.vAct k) ∧
    (∀ k, k ∉ a.enableTarget ∧ k ∉ a.disableTarget → s'.tAct k = s.tAct k) :=
  Opt.optStepWith_ok_flags a c its tb s s' htb h

/-- **a knob disabled for one call is never changed by that call**: a knob named by `disable_vary` or `disable_vary_name`
    and not re-enabled by `enable_vary_name` (applied after them; `enable_vary`, applied before them, does not count)
    holds its entry value in the container after the call — whatever the numerics, whatever the outcome (normal return
    or exception) — and every row the call logs records that value with the knob's flag off -/
theorem C10_per_call_disabled_knob_never_changed {R : Type} (a : Opt.StepArgs) (c : Opt.Cfg R) (its : List (Opt.Iter R))
    (tb : Option Nat) (k : Nat) (s s' : Opt.St R) (r : Except Opt.Err Unit)
    (hd : k ∈ a.disableVary ∨ k ∈ a.disableVaryName) (hn : k ∉ a.enableVaryName)
    (htb : ∀ i, tb = some i → s.log.length ≤ i) (h : Opt.optStepWith a c its tb s = (r, s')) :
    s'.knobs k = s.knobs k ∧
    ∀ i row, s.log.length ≤ i → s'.log[i]? = some row → row.knobs k = s.knobs k ∧ row.vAct k = false :=
  Opt.optStepWith_disabled_fixed a c its tb k s s' r hd hn htb h

/-- the general form: any knob that is off DURING the call (`Opt.tempV a s.vAct k = false`: disabled by an argument as
    above, or inactive before and not named by `enable_vary` / `enable_vary_name`) -/
theorem C10_per_call_inactive_knob_never_changed {R : Type} (a : Opt.StepArgs) (c : Opt.Cfg R) (its : List (Opt.Iter R))
    (tb : Option Nat) (k : Nat) (s s' : Opt.St R) (r : Except Opt.Err Unit) (hk : Opt.tempV a s.vAct k = false)
    (htb : ∀ i, tb = some i → s.log.length ≤ i) (h : Opt.optStepWith a c its tb s = (r, s')) :
    s'.knobs k = s.knobs k ∧
    ∀ i row, s.log.length ≤ i → s'.log[i]? = some row → row.knobs k = s.knobs k ∧ row.vAct k = false :=
  Opt.optStepWith_temp_disabled_fixed a c its tb k s s' r hk htb h

/-- for the index the driver computes (`Opt.takeBestArg pens s.log.length = some (argmin + s.log.length)`) the hypothesis
    on `take_best` holds by itself: the flag updates do not touch the log -/
theorem C10_per_call_disabled_knob_take_best {R : Type} (a : Opt.StepArgs) (c : Opt.Cfg R) (its : List (Opt.Iter R))
    (j k : Nat) (s s' : Opt.St R) (r : Except Opt.Err Unit)
    (hd : k ∈ a.disableVary ∨ k ∈ a.disableVaryName) (hn : k ∉ a.enableVaryName)
    (h : Opt.optStepWith a c its (some (s.log.length + j)) s = (r, s')) :
    s'.knobs k = s.knobs k ∧
    ∀ i row, s.log.length ≤ i → s'.log[i]? = some row → row.knobs k = s.knobs k ∧ row.vAct k = false :=
  Opt.optStepWith_take_best_disabled_fixed a c its j k s s' r hd hn h

/-- **an exception leaves the temporary flags behind** (the code has no `try/finally`; this documents it, it is not a
    guarantee anybody asked for): when `step(..)` raises — user function, limit, penalty increase — and `take_best`
    reloaded nothing older than the call, the flags are exactly those the arguments set before the loop: a knob named by
    `disable_vary` / `disable_vary_name` (not by `enable_vary_name`) is LEFT DISABLED, a target named by `disable_target` is
    left disabled, a knob named by `enable_vary_name` is left enabled; the rows logged record these flags -/
theorem C10_per_call_exception_leaves_temporary_flags {R : Type} (a : Opt.StepArgs) (c : Opt.Cfg R)
    (its : List (Opt.Iter R)) (tb : Option Nat) (s s' : Opt.St R) (e : Opt.Err)
    (htb : ∀ i, tb = some i → s.log.length ≤ i) (h : Opt.optStepWith a c its tb s = (.error e, s')) :
    s'.vAct = Opt.tempV a s.vAct ∧ s'.tAct = Opt.tempT a s.tAct ∧
    (∀ k, (k ∈ a.disableVary ∨ k ∈ a.disableVaryName) → k ∉ a.enableVaryName → s'.vAct k = false) ∧
    (∀ k, k ∈ a.disableTarget → s'.tAct k = false) ∧
    (∀ k, k ∈ a.enableVaryName → s'.vAct k = true) ∧
    (∀ i row, s.log.length ≤ i → s'.log[i]? = some row →
      row.vAct = Opt.tempV a s.vAct ∧ row.tAct = Opt.tempT a s.tAct) :=
  Opt.optStepWith_error_flags a c its tb s s' e htb h

/-- the same without any hypothesis on `take_best`: after an exception the flags are the temporary ones, or those
    recorded in the log row that `take_best` reloaded (it is then that reload's own evaluation which raised) -/
theorem C10_per_call_exception_flags_any_take_best {R : Type} (a : Opt.StepArgs) (c : Opt.Cfg R)
    (its : List (Opt.Iter R)) (tb : Option Nat) (s s' : Opt.St R) (e : Opt.Err)
    (h : Opt.optStepWith a c its tb s = (.error e, s')) :
    (s'.vAct = Opt.tempV a s.vAct ∧ s'.tAct = Opt.tempT a s.tAct) ∨
    ∃ i row, tb = some i ∧ s'.log[i]? = some row ∧ s'.vAct = row.vAct ∧ s'.tAct = row.tAct :=
  Opt.optStepWith_error_flags_cases a c its tb s s' e h

/-- the flags never move during the call proper (used by the three theorems above): whatever the outcome of `step()`
    without arguments, with `take_best` reloading a row logged during the call, both masks are those at entry and every
    row logged records them -/
theorem C10_flags_constant_during_step {R : Type} (c : Opt.Cfg R) (its : List (Opt.Iter R)) (tb : Option Nat)
    (s s' : Opt.St R) (r : Except Opt.Err Unit) (htb : ∀ i, tb = some i → s.log.length ≤ i)
    (h : Opt.optStep c its tb s = (r, s')) :
    s'.vAct = s.vAct ∧ s'.tAct = s.tAct ∧
    ∀ i row, s.log.length ≤ i → s'.log[i]? = some row → row.vAct = s.vAct ∧ row.tAct = s.tAct :=
  Opt.optStep_flags_fixed c its tb s s' r htb h

/-- a `step()` without per-call arguments is the `step()` of all the other theorems of this file -/
theorem C10_per_call_no_arguments {R : Type} (c : Opt.Cfg R) (its : List (Opt.Iter R)) (tb : Option Nat) (s : Opt.St R) :
    Opt.optStepWith {} c its tb s = Opt.optStep c its tb s :=
  Opt.optStepWith_noArgs c its tb s

/-! non-vacuity (`Opt.PerCallExample`: three knobs over `Int`, unit weights, limits `[-10, 10]`, container `(1, 2, 3)`;
    in `s0` knob 1 and target 1 are OFF; one iteration accepting `(7, 7, 7)`) -/

section
open Opt.PerCallExample
open Opt.LimitsExample (isOk errOf pair_eta)

/-- `step(disable_vary=[1], disable_vary_name=[2], disable_target=[1])` returns normally: only knob 0 moves, and afterwards
    knobs 1, 2 and target 1 are active — knob 1 and target 1 were NOT before the call -/
example : isOk (Opt.optStepWith argsD good3 [it7] none s0).1 = true ∧
    flagsOf s0.vAct = [true, false, true] ∧ flagsOf s0.tAct = [true, false, true] ∧
    knobsOf (Opt.optStepWith argsD good3 [it7] none s0).2 = [7, 2, 3] ∧
    flagsOf (Opt.optStepWith argsD good3 [it7] none s0).2.vAct = [true, true, true] ∧
    flagsOf (Opt.optStepWith argsD good3 [it7] none s0).2.tAct = [true, true, true] := by
  decide +kernel

/-- the three normal-return theorems apply to that run (hypotheses discharged) … -/
example := C10_per_call_flags_after_return argsD good3 [it7] none s0 _
  (Opt.BestExample.ok_eta (Opt.optStepWith argsD good3 [it7] none s0) (by decide +kernel))
example := C10_per_call_other_flags_unchanged argsD good3 [it7] none s0 _ (by intro i hi; cases hi)
  (Opt.BestExample.ok_eta (Opt.optStepWith argsD good3 [it7] none s0) (by decide +kernel))
example := C10_per_call_disabled_knob_never_changed argsD good3 [it7] none 2 s0 _ _ (Or.inr (by decide)) (by decide)
  (by intro i hi; cases hi) (pair_eta (Opt.optStepWith argsD good3 [it7] none s0))

/-- … and knob 0, which no argument names, is indeed an instance of "unmentioned" -/
example : (0 ∉ argsD.enableVary ∧ 0 ∉ argsD.disableVary ∧ 0 ∉ argsD.disableVaryName ∧ 0 ∉ argsD.enableVaryName) ∧
    (0 ∉ argsD.enableTarget ∧ 0 ∉ argsD.disableTarget) := by decide

/-- `step(enable_vary=[0, 1], enable_target=[1])`: knob 1 moves during the call; afterwards knobs 0, 1 and target 1 are
    inactive — knob 0 was active before the call -/
example : isOk (Opt.optStepWith argsE good3 [it7] none s0).1 = true ∧
    knobsOf (Opt.optStepWith argsE good3 [it7] none s0).2 = [7, 7, 7] ∧
    flagsOf (Opt.optStepWith argsE good3 [it7] none s0).2.vAct = [false, false, true] ∧
    flagsOf (Opt.optStepWith argsE good3 [it7] none s0).2.tAct = [true, false, true] := by
  decide +kernel

/-- the order of the code matters: knob 2 in `disable_vary` and `enable_vary_name` is ON during the call (moves) and OFF
    after it; knob 0 in `enable_vary` and `disable_vary` is OFF during the call (stays at 1) and ON after it -/
example : isOk (Opt.optStepWith argsO good3 [it7] none s0).1 = true ∧
    knobsOf (Opt.optStepWith argsO good3 [it7] none s0).2 = [1, 2, 7] ∧
    flagsOf (Opt.optStepWith argsO good3 [it7] none s0).2.vAct = [true, false, false] := by
  decide +kernel

/-- **witness of the missing `try/finally`**: all knobs and targets active; the user's function raises at the accepted
    point; `step(disable_vary=[1], disable_vary_name=[2], disable_target=[1])` raises and knobs 1, 2 and target 1 are left
    DISABLED -/
example : errOf (Opt.optStepWith argsD raises7 [it7] none sAllOn).1 = some .user ∧
    flagsOf sAllOn.vAct = [true, true, true] ∧ flagsOf sAllOn.tAct = [true, true, true] ∧
    flagsOf (Opt.optStepWith argsD raises7 [it7] none sAllOn).2.vAct = [true, false, false] ∧
    flagsOf (Opt.optStepWith argsD raises7 [it7] none sAllOn).2.tAct = [true, false, true] := by
  decide +kernel

/-- the exception theorem applies to that run -/
example := C10_per_call_exception_leaves_temporary_flags argsD raises7 [it7] none sAllOn _ .user (by intro i hi; cases hi)
  (err_eta (Opt.optStepWith argsD raises7 [it7] none sAllOn) .user (by decide +kernel))

/-- the `take_best` hypothesis of `C10_per_call_other_flags_unchanged` is needed: reloading a row logged BEFORE the call
    (knob 0 off in it) ends, on a normal return, with knob 0 — named by no argument, active before — inactive -/
example : isOk (Opt.optStepWith argsD good3 [it7] (some 0) sOld).1 = true ∧
    flagsOf sOld.vAct = [true, true, true] ∧
    flagsOf (Opt.optStepWith argsD good3 [it7] (some 0) sOld).2.vAct = [false, true, true] := by
  decide +kernel

end

/-! non-vacuity of the chain theorem (`MaxStep.Ex`: `ℚ`, two knobs with weights 1 and 4, `max_step = (1, none)`, two
    iterations whose last points are trial points of a clipped raw step, the first one clipped) -/

/-- the model's run of the example: normal return, rows `(0,0)`, `(1, 8/3)`, `(5/4, 14/3)` in knob units -/
example : (Opt.optStep MaxStep.Ex.cfg MaxStep.Ex.its none MaxStep.Ex.s0).1 = .ok () ∧
    (Opt.optStep MaxStep.Ex.cfg MaxStep.Ex.its none MaxStep.Ex.s0).2.log.map (fun r => (r.knobs 0, r.knobs 1))
      = [(0, 0), (1, 8/3), (5/4, 14/3)] :=
  ⟨MaxStep.Ex.run_ok, MaxStep.Ex.run_rows⟩

/-- the theorem's hypotheses hold of it (`LoopTrialOK` by exhibiting the raw steps `(-3, -2)`, `(-1/2, -1)` and the
    scalings `1`, `1/2`), so it applies ... -/
example := C10_consecutive_rows_within_max_step MaxStep.Ex.cfg MaxStep.Ex.W MaxStep.Ex.ms MaxStep.Ex.wt MaxStep.Ex.lo
  MaxStep.Ex.hi MaxStep.Ex.weights MaxStep.Ex.hW MaxStep.Ex.hms MaxStep.Ex.its none 0 (le_refl 0) MaxStep.Ex.s0
  (Opt.optStep MaxStep.Ex.cfg MaxStep.Ex.its none MaxStep.Ex.s0).2 (Opt.optStep MaxStep.Ex.cfg MaxStep.Ex.its none MaxStep.Ex.s0).1
  (fun _ _ h => by cases h; intro h; cases h) MaxStep.Ex.loopTrialOK (MaxStep.Ex.pair_eta _)

/-- ... and yields: the two rows after the start row form a chain (knob 0, `max_step = 1`: moves `1` — the bound is
    attained by the clipped step — then `1/4`) -/
example : ((Opt.optStep MaxStep.Ex.cfg MaxStep.Ex.its none MaxStep.Ex.s0).2.log.drop 1).length = 2 ∧
    MaxStep.Chain MaxStep.Ex.cfg.n MaxStep.Ex.s0.vAct MaxStep.Ex.ms 0 MaxStep.Ex.s0.knobs
      ((Opt.optStep MaxStep.Ex.cfg MaxStep.Ex.its none MaxStep.Ex.s0).2.log.drop 1) :=
  MaxStep.Ex.run_chain

/-- the hypothesis is not vacuous the other way either: a step to `x0 + 100` does not have the checked form -/
example : ¬ MaxStep.LoopTrialOK MaxStep.Ex.cfg MaxStep.Ex.ms MaxStep.Ex.wt MaxStep.Ex.lo MaxStep.Ex.hi MaxStep.Ex.s0
    [⟨false, false, [], [], fun i => MaxStep.Ex.s0.solverX i + 100, false⟩] :=
  MaxStep.Ex.loopTrialOK_refutable

/-- the two-call corollary applies to the same two iterations run as two calls -/
example := C10_two_calls_within_max_step MaxStep.Ex.cfg MaxStep.Ex.W MaxStep.Ex.ms MaxStep.Ex.wt MaxStep.Ex.lo MaxStep.Ex.hi
  MaxStep.Ex.weights MaxStep.Ex.hW MaxStep.Ex.hms _ [⟨false, false, [], [], MaxStep.Ex.x2, false⟩] (by simp) none
  MaxStep.Ex.s0 MaxStep.Ex.sm _ _ MaxStep.Ex.first_call MaxStep.Ex.second_loopTrialOK (MaxStep.Ex.pair_eta _)

/-- non-vacuity of the step bound: `max_step = 1` (weight 4, so 1/4 in solver units), raw step 10 from `x = 0`, full
    step (`scal = 1`) inside wide limits: the knob moves by exactly 1 -/
example : OptNum.trialPoint (MaxStep.fo (K := ℚ)) (fun _ => -100) (fun _ => 100) (fun _ => 0)
    (OptNum.clip MaxStep.fo (OptNum.maxsOf MaxStep.fo (fun _ => some 1) (fun _ => some 4)) 1 (fun _ => 10)) 1 0 * 4 = -1 := by
  norm_num [OptNum.trialPoint, OptNum.trialStep, OptNum.clip, OptNum.clipAt, OptNum.maxsOf, MaxStep.fo, List.range_succ, List.foldl]

/-- the pinned code's behaviour on the probed witness (max_step = (1, 5), raw step (10, 10)): knob 0 moves by 5 -/
example : Clip.clipPinned (fun i => if i = 0 then some 1 else some 5) 2 (fun _ => 10) 0 = 5 := by
  norm_num [Clip.clipPinned, Clip.clipAtPinned, List.range_succ, List.foldl]

/-! ### a disabled target has no influence on what the merit function returns (`XModel/MeritNum.lean`)

The residual computation of `MeritFunctionForMatch.__call__` after the actions ran, statement by statement; the driver
recomputes it on doubles for every recorded evaluation of the real merit function, from the attributes the `Target`
objects have at that moment, and compares the returned vector bit for bit (suite `opt`, op `merit`, field `resid_ok`). -/

/-- two evaluations of the merit function that agree on the wanted values, tolerances, weights, active flags and
    `zero_if_met`, and on the raw value of every ACTIVE target, return the same vector, set the same
    `last_point_within_tol` and have the same penalty — whatever the raw values of the DISABLED targets are (the number
    type and its operations are arbitrary: NaN, infinities, anything).  The solver sees the user's function only through
    these three. -/
theorem C10_disabled_target_no_influence {R : Type} (o : MeritNum.NumOps R) (res₁ res₂ tar tols : List R)
    (weights : List (Option R)) (mask : List Bool) (zeroIfMet : Bool) (hlen : res₁.length = res₂.length)
    (h : ∀ i : Nat, mask[i]? = some true → res₁[i]? = res₂[i]?) :
    MeritNum.residuals o res₁ tar tols weights mask zeroIfMet = MeritNum.residuals o res₂ tar tols weights mask zeroIfMet ∧
    MeritNum.lastWithin o res₁ tar tols mask = MeritNum.lastWithin o res₂ tar tols mask ∧
    MeritNum.penalty2 o res₁ tar tols weights mask zeroIfMet = MeritNum.penalty2 o res₂ tar tols weights mask zeroIfMet :=
  MeritNum.disabled_target_no_influence o res₁ res₂ tar tols weights mask zeroIfMet hlen h

/-- the entry of a disabled target is built from the constant zero and the weight alone (`0 * weight`, as the code
    scales every entry): its raw value does not occur -/
theorem C10_disabled_target_entry {R : Type} (o : MeritNum.NumOps R) (res tar tols : List R) (weights : List (Option R))
    (mask : List Bool) (zeroIfMet : Bool) (i : Nat) (r t : R) (w : Option R)
    (hr : res[i]? = some r) (ht : tar[i]? = some t) (hw : weights[i]? = some w) (hm : mask[i]? = some false) :
    (MeritNum.residuals o res tar tols weights mask zeroIfMet)[i]? =
      some (MeritNum.scaleW o w (if zeroIfMet && MeritNum.lastWithin o res tar tols mask then o.mul o.zero o.zero else o.zero)) :=
  MeritNum.residual_of_disabled_gen o res tar tols weights mask zeroIfMet i r t w hr ht hw hm

/-- the counter-model: the statement of `C10_disabled_target_no_influence` is FALSE of the variant that masks by
    multiplication (`err_values * mask_output` instead of `err_values[~mask_output] = 0`) — over the integers with an
    absorbing NaN, two inputs that differ only in a disabled target (a number / NaN) give different vectors and
    penalties.  This is the behaviour the theorem excludes. -/
theorem C10_disabled_target_influences_multiplication_variant :
    ¬ (∀ (o : MeritNum.NumOps (Option Int)) (one : Option Int) (res₁ res₂ tar tols : List (Option Int))
        (weights : List (Option (Option Int))) (mask : List Bool) (zim : Bool), res₁.length = res₂.length →
        (∀ i : Nat, mask[i]? = some true → res₁[i]? = res₂[i]?) →
        MeritNum.residualsByMultiplication o one res₁ tar tols weights mask zim =
          MeritNum.residualsByMultiplication o one res₂ tar tols weights mask zim ∧
        MeritNum.penalty2ByMultiplication o one res₁ tar tols weights mask zim =
          MeritNum.penalty2ByMultiplication o one res₂ tar tols weights mask zim) :=
  MeritNum.disabled_target_influences_multiplication_variant

/-- non-vacuity: the hypotheses hold of the two inputs of the counter-model (second target disabled, a number / NaN
    there), and the code's form returns the same vector `[2, 0]` and penalty `4` for both … -/
example : MeritNum.residuals MeritNum.nanInt MeritNum.Counter.resNum MeritNum.Counter.tar MeritNum.Counter.tols
      MeritNum.Counter.weights MeritNum.Counter.mask false = [some 2, some 0] ∧
    MeritNum.residuals MeritNum.nanInt MeritNum.Counter.resNan MeritNum.Counter.tar MeritNum.Counter.tols
      MeritNum.Counter.weights MeritNum.Counter.mask false = [some 2, some 0] ∧
    MeritNum.penalty2 MeritNum.nanInt MeritNum.Counter.resNan MeritNum.Counter.tar MeritNum.Counter.tols
      MeritNum.Counter.weights MeritNum.Counter.mask false = some 4 :=
  MeritNum.Counter.assignment_blind
example := C10_disabled_target_no_influence MeritNum.nanInt MeritNum.Counter.resNum MeritNum.Counter.resNan
  MeritNum.Counter.tar MeritNum.Counter.tols MeritNum.Counter.weights MeritNum.Counter.mask false rfl
  MeritNum.Counter.agree_on_active

/-- … while the multiplication variant returns `[2, NaN]` and the penalty NaN for the second -/
example : MeritNum.residualsByMultiplication MeritNum.nanInt (some 1) MeritNum.Counter.resNan MeritNum.Counter.tar
      MeritNum.Counter.tols MeritNum.Counter.weights MeritNum.Counter.mask false = [some 2, none] ∧
    MeritNum.penalty2ByMultiplication MeritNum.nanInt (some 1) MeritNum.Counter.resNan MeritNum.Counter.tar
      MeritNum.Counter.tols MeritNum.Counter.weights MeritNum.Counter.mask false = none :=
  ⟨MeritNum.Counter.multiplication_poisoned.2.1, MeritNum.Counter.multiplication_poisoned.2.2.2⟩

/-- an ACTIVE target does have influence (the theorem is not vacuous the other way): changing its raw value changes
    the returned vector -/
example : MeritNum.residuals MeritNum.intOps [3, 5] [1, 0] [1, 1] [none, none] [true, false] false ≠
    MeritNum.residuals MeritNum.intOps [4, 5] [1, 0] [1, 1] [none, none] [true, false] false := by decide

end Properties.C10
