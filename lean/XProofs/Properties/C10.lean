import XProofs.Clip
import XProofs.Limits
import XModel.Opt
import XModel.OptFix
import XModel.OptLimits
import XProofs.MaxStep
/-!
# C10 — accepted optimizer iterates respect limits, max_step and disabled knobs

**Which tree.**  The model transcribes `/repo` as it stands now: the pinned commit plus the `fix:` commits recorded in
`/verif/KNOWN_FINDINGS.json` (status `fixed`).  Where a theorem below rests on repaired code — `Clip.clip` is the repaired `_clip_to_max_steps` — it is false of
the tree as first pinned; the witnesses are kept (`clipPinned` below violates the bound).

**What the `max_step` theorems assume.**  They are over a linear ordered field (exact arithmetic, exact positive weights);
the Float runs of the driver are NOT instances of them.  The link to the runs is the hypothesis `MaxStep.LoopTrialOK`: the
last point of every executed non-early solver step equals `OptNum.trialPoint` of the model's start point and of
`OptNum.clip` of some raw step, with a scaling in `[0, 1]`.  The driver checks exactly these equalities, bit for bit, on
doubles, for every executed step whose raw and clipped step the trace recorded (`clip_ok`, `trial_ok`); the theorems are
their exact-arithmetic reading.  Rounding is outside: in doubles `out * (m / |out_i|)` may exceed `m` by an ulp, and no
rounding bound is proved.  The slack `e` of the first link is a parameter (the code's `np.allclose(atol=1e-12)` test is
not modelled; `resync` is an oracle flag).

**NOT covered.**
* "a disabled target has no influence on the steps taken": the steps (Jacobian probes, trial points) are oracle
  parameters of the skeleton, so the statement cannot be expressed;
* the per-call `disable_*` / `enable_*` arguments of `step` (not modelled);
* `solve()`'s restore path: it reloads a row logged BEFORE the call, which may write out-of-limit values and change a
  knob that is disabled now (`Opt.LimitsExample`); every theorem below is about one `optStep`, with `take_best` reloading
  a row logged during the call;
* sequences of calls, beyond the two-call corollary `C10_two_calls_within_max_step`.
-/
namespace Properties.C10
variable {K : Type} [Field K] [LinearOrder K] [IsStrictOrderedRing K]

/-- after `_clip_to_max_steps` (repaired form) every coordinate with a `max_step` moves by at most it.
    SUPERSEDED (kept for reference): same content as `MaxStep.clip_bound`, which is about `OptNum.clip` — the function the
    driver replays — and is what `C10_step_within_max_step` uses; `Clip.clip` here is the stand-alone prototype. -/
theorem C10_clip_bound (maxs : Nat → Option K) (n : Nat) (x : Nat → K)
    (hpos : ∀ k m, maxs k = some m → 0 ≤ m) (i : Nat) (hi : i < n) (m : K) (hm : maxs i = some m) :
    |Clip.clip maxs n x i| ≤ m :=
  Clip.clip_bound maxs n x hpos i hi m hm

/-- `max_step` is a bound in knob units: it has to be divided by the weight in solver units -/
theorem C10_max_step_units (w m s : K) (hw : 0 < w) : |s| ≤ m / w ↔ |s * w| ≤ m :=
  Limits.max_step_units w m s hw

/-- the per-coordinate clamp of the bisection loop keeps an iterate that starts inside the closed limits inside.
    SUPERSEDED (kept for reference): `C10_trial_point_inside` says the same of `OptNum.trialPoint`, the function the driver
    replays; `Limits.clampStep` here is the stand-alone scalar prototype. -/
theorem C10_limit_clamp (lo hi x s : K) (h : lo ≤ x ∧ x ≤ hi) :
    lo ≤ x - Limits.clampStep lo hi x s ∧ x - Limits.clampStep lo hi x s ≤ hi :=
  Limits.clamp_inside lo hi x s h

/-- limits in knob units and in solver units select the same points (positive weights) -/
theorem C10_weight_limits (w lo hi x : K) (hw : 0 < w) : (lo / w ≤ x ∧ x ≤ hi / w) ↔ (lo ≤ x * w ∧ x * w ≤ hi) :=
  Limits.weight_limits w lo hi x hw

/-- a knob that is inactive is never written by a merit call: the writing loop skips it.
    SUPERSEDED (kept for reference): a statement about the inner loop `writeKnobs` only; it is contained in
    `C10_disabled_knob_never_changed`, which is about the whole of `step()`. -/
theorem C10_inactive_knob_untouched {R : Type} (c : Opt.Cfg R) (check : Bool) (x : Nat → R) (k : Nat) (s s' : Opt.St R)
    (r : Except Opt.Err Unit) (h : Opt.writeKnobs c check x k s = (r, s')) (j : Nat) (hj : s.vAct j = false) :
    s'.knobs j = s.knobs j ∧ s'.vAct = s.vAct := by
  induction k generalizing s s' r with
  | zero => simp [Opt.writeKnobs, Opt.pure'] at h; obtain ⟨_, rfl⟩ := h; exact ⟨rfl, rfl⟩
  | succ k ih =>
    simp only [Opt.writeKnobs, Opt.bind'] at h
    cases h1 : Opt.writeKnobs c check x k s with
    | mk r1 s1 =>
      rw [h1] at h
      have := ih s s1 r1 h1 hj
      cases r1 with
      | error e => simp only at h; obtain ⟨_, rfl⟩ := h; exact this
      | ok u =>
        simp only at h
        by_cases ha : s1.vAct k = true
        · simp only [ha, if_true] at h
          split at h
          · obtain ⟨_, rfl⟩ := h; exact this
          · obtain ⟨_, rfl⟩ := h
            refine ⟨?_, this.2⟩
            simp only
            have hne : j ≠ k := by
              intro e; subst e
              rw [this.2] at ha; rw [hj] at ha; exact absurd ha (by simp)
            simp [hne, this.1]
        · simp only [ha] at h
          obtain ⟨_, rfl⟩ := h; exact this

/-- **a disabled knob is never changed by `step()`**: on the control skeleton of `Optimize.step` (start row, loop of
    Jacobian steps with arbitrary numerics, `set_knobs_from_x`, log rows, `take_best` reload of any row logged during
    the call), for every outcome — normal return or exception — a knob that is inactive when the call starts holds
    the same value afterwards, is still inactive, and every row logged by the call records that value -/
theorem C10_disabled_knob_never_changed {R : Type} (c : Opt.Cfg R) (its : List (Opt.Iter R)) (tb : Option Nat) (k : Nat)
    (s s' : Opt.St R) (r : Except Opt.Err Unit) (hk : s.vAct k = false)
    (htb : ∀ i, tb = some i → s.log.length ≤ i) (h : Opt.optStep c its tb s = (r, s')) :
    s'.knobs k = s.knobs k ∧ s'.vAct k = false ∧
    ∀ i row, s.log.length ≤ i → s'.log[i]? = some row → row.knobs k = s.knobs k ∧ row.vAct k = false :=
  Opt.optStep_disabled_fixed c its tb k s s' r hk htb h

/-- **every accepted knob vector lies within the limits**: on the control skeleton of `Optimize.step` (arbitrary
    numerics; Jacobian probes are evaluated WITHOUT the limit check and may leave the limits temporarily), starting with
    every knob inside its limits and `take_best` reloading a row logged during the call: every row the call appends to
    the log — whatever the outcome, normal return or exception — has every knob inside its limits, the disabled ones
    holding their start value; on normal return so does the container -/
theorem C10_rows_within_limits {R : Type} (c : Opt.Cfg R) (its : List (Opt.Iter R)) (tb : Option Nat) (s s' : Opt.St R)
    (r : Except Opt.Err Unit) (hall : ∀ j, j < c.n → c.inLimits j (s.knobs j) = true)
    (htb : ∀ i, tb = some i → s.log.length ≤ i) (h : Opt.optStep c its tb s = (r, s')) :
    (∀ i row, s.log.length ≤ i → s'.log[i]? = some row →
      ∀ j, j < c.n → c.inLimits j (row.knobs j) = true ∧ (s.vAct j = false → row.knobs j = s.knobs j)) ∧
    (r = .ok () → ∀ j, j < c.n → c.inLimits j (s'.knobs j) = true) ∧
    (∀ j, s.vAct j = false → s'.knobs j = s.knobs j) :=
  Opt.optStep_all_within_limits c its tb s s' r hall htb h

/-- the container claim is for normal return only: after an exception a Jacobian probe's value may be left in the
    container (concrete runs in `Opt.LimitsExample`); the active-knob form with the weakest start hypothesis -/
theorem C10_rows_within_limits_active {R : Type} (c : Opt.Cfg R) (its : List (Opt.Iter R)) (tb : Option Nat)
    (s s' : Opt.St R) (r : Except Opt.Err Unit)
    (hstart : ∀ j, j < c.n → s.vAct j = true → c.inLimits j (s.knobs j) = true)
    (htb : ∀ i, tb = some i → s.log.length ≤ i) (h : Opt.optStep c its tb s = (r, s')) :
    s'.vAct = s.vAct ∧
    (∀ i row, s.log.length ≤ i → s'.log[i]? = some row →
      row.vAct = s.vAct ∧ ∀ j, j < c.n → row.vAct j = true → c.inLimits j (row.knobs j) = true) ∧
    (r = .ok () → ∀ j, j < c.n → s'.vAct j = true → c.inLimits j (s'.knobs j) = true) :=
  Opt.optStep_rows_within_limits c its tb s s' r hstart htb h

/-! ### `max_step`, connected to the skeleton of `Optimize.step`

`OptNum.clip` and `OptNum.trialPoint` are the functions the driver replays on IEEE doubles, bit for bit, against every
recorded call of `_clip_to_max_steps` and every recorded trial point of `JacobianSolver.step` (fields `clip_ok`,
`trial_ok` of suite `opt`); the theorems below instantiate them with exact arithmetic.  What stays outside: rounding
(in doubles `out * (m / |out_i|)` may exceed `m` by an ulp). -/

/-- **one Jacobian step moves no knob by more than its `max_step`**: the point the solver moves to is a trial point
    `x - scal * clip(raw)` (`0 ≤ scal ≤ 1`, coordinates that would leave the limits stay put) of the clipped step, for
    ANY raw step the least-squares solve produced; times the weight it is within `max_step` of `x` times the weight.
    Exact arithmetic; hypotheses: `max_step ≥ 0`, weights `> 0`. -/
theorem C10_step_within_max_step (maxStep wt : Nat → Option K) (n : Nat) (raw lo hi x : Nat → K) (scal : K)
    (h0 : 0 ≤ scal) (h1 : scal ≤ 1) (hms : ∀ k m, maxStep k = some m → 0 ≤ m) (hw : ∀ k w, wt k = some w → 0 < w)
    (i : Nat) (hi' : i < n) (m : K) (hm : maxStep i = some m) :
    |OptNum.trialPoint MaxStep.fo lo hi x (OptNum.clip MaxStep.fo (OptNum.maxsOf MaxStep.fo maxStep wt) n raw) scal i - x i|
      * (wt i).getD 1 ≤ m :=
  MaxStep.step_within_max_step maxStep wt n raw lo hi x scal h0 h1 hms hw i hi' m hm

/-- a trial point stays inside limits that hold at the start point (the clamp of the bisection loop, as replayed) -/
theorem C10_trial_point_inside (lo hi x xs : Nat → K) (scal : K) (i : Nat) (hx : lo i ≤ x i ∧ x i ≤ hi i) :
    lo i ≤ OptNum.trialPoint MaxStep.fo lo hi x xs scal i ∧ OptNum.trialPoint MaxStep.fo lo hi x xs scal i ≤ hi i :=
  MaxStep.trialPoint_inside lo hi x xs scal i hx

/-- the bridge from what the driver checks to the bound: an iteration of the checked form (`MaxStep.TrialOK`: its last
    point is `OptNum.trialPoint` of the MODEL's start point `iterX0`, of `OptNum.clip` of some raw step and of a scaling in
    `[0, 1]`) moves every knob that has a `max_step` by at most it, in knob units (`MaxStep.StepOK`) -/
theorem C10_checked_step_is_bounded (c : Opt.Cfg K) (W : Nat → K) (ms wt : Nat → Option K) (lo hi : Nat → K)
    (s : Opt.St K) (it : Opt.Iter K) (hW : ∀ i, W i = (wt i).getD 1) (hms : ∀ k m, ms k = some m → 0 ≤ m)
    (hw : ∀ k w, wt k = some w → 0 < w) (h : MaxStep.TrialOK c ms wt lo hi s it) : MaxStep.StepOK c W ms s it :=
  h.stepOK hW hms hw

/-- **between consecutive Jacobian steps no knob moves by more than its `max_step`** — on the control skeleton of
    `Optimize.step`, whatever its outcome (normal return or exception), in exact arithmetic.

    ASSUMED: (`hc`) the configuration multiplies / divides by exact positive weights `W`, (`hW`) given in the optional form
    `wt` that `OptNum.maxsOf` takes; (`hms`) `max_step ≥ 0`; (`hnear`) when the first iteration does not re-assign
    `solver.x`, container and `solver.x` agree up to `e` on the active knobs at entry (`e` is a free parameter: the code's
    `np.allclose(atol=1e-12)` test is not modelled); (`hok`) `MaxStep.LoopTrialOK`: every EXECUTED non-early solver step
    ends at a trial point of the clipped step, computed from the model's own start point.  `hok` is the exact-arithmetic
    form of what the driver checks bit for bit on doubles for every executed step (`clip_ok`, `trial_ok`); no bound on the
    move is assumed — it is derived (`C10_checked_step_is_bounded`).  NOT assumed: anything about the raw steps, the
    limits `lo hi`, the Jacobian probes, the user function, `take_best`.

    CONCLUSION: either the start evaluation raised and the log is unchanged; or the call appended exactly
    `start row :: suf ++ tail` where the start row is the container at entry; `suf` is EXACTLY what the loop appended
    (`s2.log = s1.log ++ suf`), one row per iteration that returned normally (`MaxStep.doneIters`), each within `max_step`
    of its predecessor on every active knob (`MaxStep.Chain`; the first is compared with the start row, up to `e`; exact
    from then on) — so for `step(n_steps=1)` the one row IS bounded; and `tail` is empty unless `take_best` reloaded
    (`tb = some i`, loop returned normally, tolerance not met), and then it is empty (the reload raised) or a copy of log
    row `i`.  After a normal return of a loop of at least one iteration container and `solver.x` agree exactly on the
    active knobs (what a following call needs: `C10_two_calls_within_max_step`). -/
theorem C10_consecutive_rows_within_max_step (c : Opt.Cfg K) (W : Nat → K) (ms wt : Nat → Option K) (lo hi : Nat → K)
    (hc : MaxStep.Weights c W) (hW : ∀ i, W i = (wt i).getD 1)
    (hms : ∀ k m, ms k = some m → 0 ≤ m) (its : List (Opt.Iter K)) (tb : Option Nat)
    (e : K) (he : 0 ≤ e) (s s' : Opt.St K) (r : Except Opt.Err Unit)
    (hnear : ∀ it rest, its = it :: rest → it.resync = false → MaxStep.Near c W e s)
    (hok : ∀ s1, Opt.addPoint c s = (.ok (), s1) → MaxStep.LoopTrialOK c ms wt lo hi s1 its)
    (h : Opt.optStep c its tb s = (r, s')) :
    (∃ e1, Opt.addPoint c s = (.error e1, s') ∧ r = .error e1 ∧ s'.log = s.log) ∨
    ∃ (s1 s2 : Opt.St K) (r2 : Except Opt.Err Unit) (suf tail : List (Opt.Row K)),
      Opt.addPoint c s = (.ok (), s1) ∧ Opt.optLoop c its s1 = (r2, s2) ∧
      s1.log = s.log ++ [⟨s.knobs, s.vAct, s.tAct⟩] ∧ s2.log = s1.log ++ suf ∧ s'.log = s2.log ++ tail ∧
      suf.length = MaxStep.doneIters c its s1 ∧
      MaxStep.Chain c.n s.vAct ms e s.knobs suf ∧
      (r2 = .ok () → its ≠ [] → MaxStep.Near c W 0 s2) ∧
      ((tail = [] ∧ s' = s2 ∧ r = r2) ∨
       ∃ i, tb = some i ∧ r2 = .ok () ∧ s2.lastWithin = false ∧ Opt.reload c i s2 = (r, s') ∧
         (tail = [] ∨ ∃ row, s2.log[i]? = some row ∧ tail = [row])) :=
  MaxStep.optStep_chain c W ms wt lo hi hc hW hms its tb e he s s' r hnear hok h

/-- the same with the bound on each executed step ASSUMED (`MaxStep.LoopOK`) instead of derived — the intermediate form,
    kept as a lemma; use `C10_consecutive_rows_within_max_step` -/
theorem C10_consecutive_rows_of_bounded_steps (c : Opt.Cfg K) (W : Nat → K) (ms : Nat → Option K)
    (hc : MaxStep.Weights c W) (hms : ∀ k m, ms k = some m → 0 ≤ m) (its : List (Opt.Iter K)) (tb : Option Nat)
    (e : K) (he : 0 ≤ e) (s s' : Opt.St K) (r : Except Opt.Err Unit)
    (hnear : ∀ it rest, its = it :: rest → it.resync = false → MaxStep.Near c W e s)
    (hok : ∀ s1, Opt.addPoint c s = (.ok (), s1) → MaxStep.LoopOK c W ms s1 its)
    (h : Opt.optStep c its tb s = (r, s')) :
    (∃ e1, Opt.addPoint c s = (.error e1, s') ∧ r = .error e1 ∧ s'.log = s.log) ∨
    ∃ (s1 s2 : Opt.St K) (r2 : Except Opt.Err Unit) (suf tail : List (Opt.Row K)),
      Opt.addPoint c s = (.ok (), s1) ∧ Opt.optLoop c its s1 = (r2, s2) ∧
      s1.log = s.log ++ [⟨s.knobs, s.vAct, s.tAct⟩] ∧ s2.log = s1.log ++ suf ∧ s'.log = s2.log ++ tail ∧
      suf.length = MaxStep.doneIters c its s1 ∧
      MaxStep.Chain c.n s.vAct ms e s.knobs suf ∧
      (r2 = .ok () → its ≠ [] → MaxStep.Near c W 0 s2) ∧
      ((tail = [] ∧ s' = s2 ∧ r = r2) ∨
       ∃ i, tb = some i ∧ r2 = .ok () ∧ s2.lastWithin = false ∧ Opt.reload c i s2 = (r, s') ∧
         (tail = [] ∨ ∃ row, s2.log[i]? = some row ∧ tail = [row])) :=
  MaxStep.optStep_chain_of_loopOK c W ms hc hms its tb e he s s' r hnear hok h

/-- **composability**: after a normal return of `step` without `take_best` that ran at least one iteration, container and
    `solver.x` agree exactly on the active knobs and the last row of the log is the container.  Needs exact positive
    weights only — nothing about the numerics.  (With `take_best` the same holds of the state the LOOP left, see the
    conclusion of `C10_consecutive_rows_within_max_step`; a reload moves the container away from `solver.x`, and the real
    code then re-assigns `solver.x`, i.e. `resync = true`, for which no agreement is needed.) -/
theorem C10_solver_x_agrees_after_step (c : Opt.Cfg K) (W : Nat → K) (hc : MaxStep.Weights c W)
    (its : List (Opt.Iter K)) (hne : its ≠ []) (s s' : Opt.St K) (h : Opt.optStep c its none s = (.ok (), s')) :
    MaxStep.Near c W 0 s' ∧ ∃ pre, s'.log = pre ++ [⟨s'.knobs, s'.vAct, s'.tAct⟩] :=
  MaxStep.optStep_near c W hc its hne s s' h

/-- **two calls in a row**: after `step` (no `take_best`, at least one iteration, normal return; nothing assumed of ITS
    numerics) a second `step` whose executed solver steps have the checked form needs no hypothesis on the agreement of
    container and `solver.x`: the conclusion of `C10_consecutive_rows_within_max_step` holds of it with slack `0`, and its
    start row repeats the last row of the first call, so its chain continues from that row -/
theorem C10_two_calls_within_max_step (c : Opt.Cfg K) (W : Nat → K) (ms wt : Nat → Option K) (lo hi : Nat → K)
    (hc : MaxStep.Weights c W) (hW : ∀ i, W i = (wt i).getD 1) (hms : ∀ k m, ms k = some m → 0 ≤ m)
    (its1 its2 : List (Opt.Iter K)) (hne : its1 ≠ []) (tb2 : Option Nat) (s sm s' : Opt.St K) (r : Except Opt.Err Unit)
    (h1 : Opt.optStep c its1 none s = (.ok (), sm))
    (hok : ∀ s1, Opt.addPoint c sm = (.ok (), s1) → MaxStep.LoopTrialOK c ms wt lo hi s1 its2)
    (h2 : Opt.optStep c its2 tb2 sm = (r, s')) :
    (∃ pre, sm.log = pre ++ [⟨sm.knobs, sm.vAct, sm.tAct⟩]) ∧
    ((∃ e1, Opt.addPoint c sm = (.error e1, s') ∧ r = .error e1 ∧ s'.log = sm.log) ∨
    ∃ (s1 s2 : Opt.St K) (r2 : Except Opt.Err Unit) (suf tail : List (Opt.Row K)),
      Opt.addPoint c sm = (.ok (), s1) ∧ Opt.optLoop c its2 s1 = (r2, s2) ∧
      s1.log = sm.log ++ [⟨sm.knobs, sm.vAct, sm.tAct⟩] ∧ s2.log = s1.log ++ suf ∧ s'.log = s2.log ++ tail ∧
      suf.length = MaxStep.doneIters c its2 s1 ∧
      MaxStep.Chain c.n sm.vAct ms 0 sm.knobs suf ∧
      (r2 = .ok () → its2 ≠ [] → MaxStep.Near c W 0 s2) ∧
      ((tail = [] ∧ s' = s2 ∧ r = r2) ∨
       ∃ i, tb2 = some i ∧ r2 = .ok () ∧ s2.lastWithin = false ∧ Opt.reload c i s2 = (r, s') ∧
         (tail = [] ∨ ∃ row, s2.log[i]? = some row ∧ tail = [row]))) :=
  MaxStep.optStep_two_calls c W ms wt lo hi hc hW hms its1 its2 hne tb2 s sm s' r h1 hok h2

/-! non-vacuity of the chain theorem (`MaxStep.Ex`: `ℚ`, two knobs with weights 1 and 4, `max_step = (1, none)`, two
    iterations whose last points are trial points of a clipped raw step, the first one clipped) -/

/-- the model's run of the example: normal return, rows `(0,0)`, `(1, 8/3)`, `(5/4, 14/3)` in knob units -/
example : (Opt.optStep MaxStep.Ex.cfg MaxStep.Ex.its none MaxStep.Ex.s0).1 = .ok () ∧
    (Opt.optStep MaxStep.Ex.cfg MaxStep.Ex.its none MaxStep.Ex.s0).2.log.map (fun r => (r.knobs 0, r.knobs 1))
      = [(0, 0), (1, 8/3), (5/4, 14/3)] :=
  ⟨MaxStep.Ex.run_ok, MaxStep.Ex.run_rows⟩

/-- the theorem's hypotheses hold of it (`LoopTrialOK` by exhibiting the raw steps `(-3, -2)`, `(-1/2, -1)` and the
    scalings `1`, `1/2`), so it applies ... -/
example := C10_consecutive_rows_within_max_step MaxStep.Ex.cfg MaxStep.Ex.W MaxStep.Ex.ms MaxStep.Ex.wt MaxStep.Ex.lo
  MaxStep.Ex.hi MaxStep.Ex.weights MaxStep.Ex.hW MaxStep.Ex.hms MaxStep.Ex.its none 0 (le_refl 0) MaxStep.Ex.s0
  (Opt.optStep MaxStep.Ex.cfg MaxStep.Ex.its none MaxStep.Ex.s0).2 (Opt.optStep MaxStep.Ex.cfg MaxStep.Ex.its none MaxStep.Ex.s0).1
  (fun _ _ h => by cases h; intro h; cases h) MaxStep.Ex.loopTrialOK (MaxStep.Ex.pair_eta _)

/-- ... and yields: the two rows after the start row form a chain (knob 0, `max_step = 1`: moves `1` — the bound is
    attained by the clipped step — then `1/4`) -/
example : ((Opt.optStep MaxStep.Ex.cfg MaxStep.Ex.its none MaxStep.Ex.s0).2.log.drop 1).length = 2 ∧
    MaxStep.Chain MaxStep.Ex.cfg.n MaxStep.Ex.s0.vAct MaxStep.Ex.ms 0 MaxStep.Ex.s0.knobs
      ((Opt.optStep MaxStep.Ex.cfg MaxStep.Ex.its none MaxStep.Ex.s0).2.log.drop 1) :=
  MaxStep.Ex.run_chain

/-- the hypothesis is not vacuous the other way either: a step to `x0 + 100` does not have the checked form -/
example : ¬ MaxStep.LoopTrialOK MaxStep.Ex.cfg MaxStep.Ex.ms MaxStep.Ex.wt MaxStep.Ex.lo MaxStep.Ex.hi MaxStep.Ex.s0
    [⟨false, false, [], [], fun i => MaxStep.Ex.s0.solverX i + 100, false⟩] :=
  MaxStep.Ex.loopTrialOK_refutable

/-- the two-call corollary applies to the same two iterations run as two calls -/
example := C10_two_calls_within_max_step MaxStep.Ex.cfg MaxStep.Ex.W MaxStep.Ex.ms MaxStep.Ex.wt MaxStep.Ex.lo MaxStep.Ex.hi
  MaxStep.Ex.weights MaxStep.Ex.hW MaxStep.Ex.hms _ [⟨false, false, [], [], MaxStep.Ex.x2, false⟩] (by simp) none
  MaxStep.Ex.s0 MaxStep.Ex.sm _ _ MaxStep.Ex.first_call MaxStep.Ex.second_loopTrialOK (MaxStep.Ex.pair_eta _)

/-- non-vacuity of the step bound: `max_step = 1` (weight 4, so 1/4 in solver units), raw step 10 from `x = 0`, full
    step (`scal = 1`) inside wide limits: the knob moves by exactly 1 -/
example : OptNum.trialPoint (MaxStep.fo (K := ℚ)) (fun _ => -100) (fun _ => 100) (fun _ => 0)
    (OptNum.clip MaxStep.fo (OptNum.maxsOf MaxStep.fo (fun _ => some 1) (fun _ => some 4)) 1 (fun _ => 10)) 1 0 * 4 = -1 := by
  norm_num [OptNum.trialPoint, OptNum.trialStep, OptNum.clip, OptNum.clipAt, OptNum.maxsOf, MaxStep.fo, List.range_succ, List.foldl]

/-- the pinned code's behaviour on the probed witness (max_step = (1, 5), raw step (10, 10)): knob 0 moves by 5 -/
example : Clip.clipPinned (fun i => if i = 0 then some 1 else some 5) 2 (fun _ => 10) 0 = 5 := by
  norm_num [Clip.clipPinned, Clip.clipAtPinned, List.range_succ, List.foldl]

end Properties.C10
