import XProofs.Clip
import XProofs.Limits
import XModel.Opt
import XModel.OptFix
import XModel.OptLimits
import XProofs.MaxStep
/-!
# C10 — accepted optimizer iterates respect limits, max_step and disabled knobs

**Which tree.**  The model transcribes `/repo` as it stands now: the pinned commit plus the `fix:` commits recorded in
`/verif/KNOWN_FINDINGS.json` (status `fixed`).  Where a theorem below rests on repaired code — `Clip.clip` is the repaired `_clip_to_max_steps` — it is false of
the tree as first pinned; the witnesses are kept (`clipPinned` below violates the bound).
-/
namespace Properties.C10
variable {K : Type} [Field K] [LinearOrder K] [IsStrictOrderedRing K]

/-- after `_clip_to_max_steps` (repaired form) every coordinate with a `max_step` moves by at most it -/
theorem C10_clip_bound (maxs : Nat → Option K) (n : Nat) (x : Nat → K)
    (hpos : ∀ k m, maxs k = some m → 0 ≤ m) (i : Nat) (hi : i < n) (m : K) (hm : maxs i = some m) :
    |Clip.clip maxs n x i| ≤ m :=
  Clip.clip_bound maxs n x hpos i hi m hm

/-- `max_step` is a bound in knob units: it has to be divided by the weight in solver units -/
theorem C10_max_step_units (w m s : K) (hw : 0 < w) : |s| ≤ m / w ↔ |s * w| ≤ m :=
  Limits.max_step_units w m s hw

/-- the per-coordinate clamp of the bisection loop keeps an iterate that starts inside the closed limits inside -/
theorem C10_limit_clamp (lo hi x s : K) (h : lo ≤ x ∧ x ≤ hi) :
    lo ≤ x - Limits.clampStep lo hi x s ∧ x - Limits.clampStep lo hi x s ≤ hi :=
  Limits.clamp_inside lo hi x s h

/-- limits in knob units and in solver units select the same points (positive weights) -/
theorem C10_weight_limits (w lo hi x : K) (hw : 0 < w) : (lo / w ≤ x ∧ x ≤ hi / w) ↔ (lo ≤ x * w ∧ x * w ≤ hi) :=
  Limits.weight_limits w lo hi x hw

/-- a knob that is inactive is never written by a merit call: the writing loop skips it -/
theorem C10_inactive_knob_untouched {R : Type} (c : Opt.Cfg R) (check : Bool) (x : Nat → R) (k : Nat) (s s' : Opt.St R)
    (r : Except Opt.Err Unit) (h : Opt.writeKnobs c check x k s = (r, s')) (j : Nat) (hj : s.vAct j = false) :
    s'.knobs j = s.knobs j ∧ s'.vAct = s.vAct := by
  induction k generalizing s s' r with
  | zero => simp [Opt.writeKnobs, Opt.pure'] at h; obtain ⟨_, rfl⟩ := h; exact ⟨rfl, rfl⟩
  | succ k ih =>
    simp only [Opt.writeKnobs, Opt.bind'] at h
    cases h1 : Opt.writeKnobs c check x k s with
    | mk r1 s1 =>
      rw [h1] at h
      have := ih s s1 r1 h1 hj
      cases r1 with
      | error e => simp only at h; obtain ⟨_, rfl⟩ := h; exact this
      | ok u =>
        simp only at h
        by_cases ha : s1.vAct k = true
        · simp only [ha, if_true] at h
          split at h
          · obtain ⟨_, rfl⟩ := h; exact this
          · obtain ⟨_, rfl⟩ := h
            refine ⟨?_, this.2⟩
            simp only
            have hne : j ≠ k := by
              intro e; subst e
              rw [this.2] at ha; rw [hj] at ha; exact absurd ha (by simp)
            simp [hne, this.1]
        · simp only [ha] at h
          obtain ⟨_, rfl⟩ := h; exact this

/-- **a disabled knob is never changed by `step()`**: on the control skeleton of `Optimize.step` (start row, loop of
    Jacobian steps with arbitrary numerics, `set_knobs_from_x`, log rows, `take_best` reload of any row logged during
    the call), for every outcome — normal return or exception — a knob that is inactive when the call starts holds
    the same value afterwards, is still inactive, and every row logged by the call records that value -/
theorem C10_disabled_knob_never_changed {R : Type} (c : Opt.Cfg R) (its : List (Opt.Iter R)) (tb : Option Nat) (k : Nat)
    (s s' : Opt.St R) (r : Except Opt.Err Unit) (hk : s.vAct k = false)
    (htb : ∀ i, tb = some i → s.log.length ≤ i) (h : Opt.optStep c its tb s = (r, s')) :
    s'.knobs k = s.knobs k ∧ s'.vAct k = false ∧
    ∀ i row, s.log.length ≤ i → s'.log[i]? = some row → row.knobs k = s.knobs k ∧ row.vAct k = false :=
  Opt.optStep_disabled_fixed c its tb k s s' r hk htb h

/-- **every accepted knob vector lies within the limits**: on the control skeleton of `Optimize.step` (arbitrary
    numerics; Jacobian probes are evaluated WITHOUT the limit check and may leave the limits temporarily), starting with
    every knob inside its limits and `take_best` reloading a row logged during the call: every row the call appends to
    the log — whatever the outcome, normal return or exception — has every knob inside its limits, the disabled ones
    holding their start value; on normal return so does the container -/
theorem C10_rows_within_limits {R : Type} (c : Opt.Cfg R) (its : List (Opt.Iter R)) (tb : Option Nat) (s s' : Opt.St R)
    (r : Except Opt.Err Unit) (hall : ∀ j, j < c.n → c.inLimits j (s.knobs j) = true)
    (htb : ∀ i, tb = some i → s.log.length ≤ i) (h : Opt.optStep c its tb s = (r, s')) :
    (∀ i row, s.log.length ≤ i → s'.log[i]? = some row →
      ∀ j, j < c.n → c.inLimits j (row.knobs j) = true ∧ (s.vAct j = false → row.knobs j = s.knobs j)) ∧
    (r = .ok () → ∀ j, j < c.n → c.inLimits j (s'.knobs j) = true) ∧
    (∀ j, s.vAct j = false → s'.knobs j = s.knobs j) :=
  Opt.optStep_all_within_limits c its tb s s' r hall htb h

/-- the container claim is for normal return only: after an exception a Jacobian probe's value may be left in the
    container (concrete runs in `Opt.LimitsExample`); the active-knob form with the weakest start hypothesis -/
theorem C10_rows_within_limits_active {R : Type} (c : Opt.Cfg R) (its : List (Opt.Iter R)) (tb : Option Nat)
    (s s' : Opt.St R) (r : Except Opt.Err Unit)
    (hstart : ∀ j, j < c.n → s.vAct j = true → c.inLimits j (s.knobs j) = true)
    (htb : ∀ i, tb = some i → s.log.length ≤ i) (h : Opt.optStep c its tb s = (r, s')) :
    s'.vAct = s.vAct ∧
    (∀ i row, s.log.length ≤ i → s'.log[i]? = some row →
      row.vAct = s.vAct ∧ ∀ j, j < c.n → row.vAct j = true → c.inLimits j (row.knobs j) = true) ∧
    (r = .ok () → ∀ j, j < c.n → s'.vAct j = true → c.inLimits j (s'.knobs j) = true) :=
  Opt.optStep_rows_within_limits c its tb s s' r hstart htb h

/-! ### `max_step`, connected to the skeleton of `Optimize.step`

`OptNum.clip` and `OptNum.trialPoint` are the functions the driver replays on IEEE doubles, bit for bit, against every
recorded call of `_clip_to_max_steps` and every recorded trial point of `JacobianSolver.step` (fields `clip_ok`,
`trial_ok` of suite `opt`); the theorems below instantiate them with exact arithmetic.  What stays outside: rounding
(in doubles `out * (m / |out_i|)` may exceed `m` by an ulp). -/

/-- **one Jacobian step moves no knob by more than its `max_step`**: the point the solver moves to is a trial point
    `x - scal * clip(raw)` (`0 ≤ scal ≤ 1`, coordinates that would leave the limits stay put) of the clipped step, for
    ANY raw step the least-squares solve produced; times the weight it is within `max_step` of `x` times the weight -/
theorem C10_step_within_max_step (maxStep wt : Nat → Option K) (n : Nat) (raw lo hi x : Nat → K) (scal : K)
    (h0 : 0 ≤ scal) (h1 : scal ≤ 1) (hms : ∀ k m, maxStep k = some m → 0 ≤ m) (hw : ∀ k w, wt k = some w → 0 < w)
    (i : Nat) (hi' : i < n) (m : K) (hm : maxStep i = some m) :
    |OptNum.trialPoint MaxStep.fo lo hi x (OptNum.clip MaxStep.fo (OptNum.maxsOf MaxStep.fo maxStep wt) n raw) scal i - x i|
      * (wt i).getD 1 ≤ m :=
  MaxStep.step_within_max_step maxStep wt n raw lo hi x scal h0 h1 hms hw i hi' m hm

/-- a trial point stays inside limits that hold at the start point (the clamp of the bisection loop, as replayed) -/
theorem C10_trial_point_inside (lo hi x xs : Nat → K) (scal : K) (i : Nat) (hx : lo i ≤ x i ∧ x i ≤ hi i) :
    lo i ≤ OptNum.trialPoint MaxStep.fo lo hi x xs scal i ∧ OptNum.trialPoint MaxStep.fo lo hi x xs scal i ≤ hi i :=
  MaxStep.trialPoint_inside lo hi x xs scal i hx

/-- **between consecutive Jacobian steps no knob moves by more than its `max_step`** — on the control skeleton of
    `Optimize.step`, whatever its outcome: the log is unchanged (the start evaluation raised), or the rows the call appends
    are the container at the start of the call, then a chain of rows each within `max_step` of its predecessor on every
    active knob (`MaxStep.Chain`; the first one up to the slack `e` the code tolerates between the container and
    `solver.x` when it does not re-assign `solver.x`, `np.allclose(atol=1e-12)`, exactly from then on), then at most one
    row of the `take_best` reload.  Hypothesis `LoopOK`: every EXECUTED solver step moves by at most `max_step` in
    knob units — which `C10_step_within_max_step` gives for steps taken by the trial rule. -/
theorem C10_consecutive_rows_within_max_step (c : Opt.Cfg K) (W : Nat → K) (ms : Nat → Option K)
    (hc : MaxStep.Weights c W) (hms : ∀ k m, ms k = some m → 0 ≤ m) (its : List (Opt.Iter K)) (tb : Option Nat)
    (e : K) (he : 0 ≤ e) (s s' : Opt.St K) (r : Except Opt.Err Unit)
    (hnear : ∀ it rest, its = it :: rest → it.resync = false → MaxStep.Near c W e s)
    (hok : ∀ s1, Opt.addPoint c s = (.ok (), s1) → MaxStep.LoopOK c W ms s1 its)
    (h : Opt.optStep c its tb s = (r, s')) :
    s'.log = s.log ∨ ∃ suf tail, s'.log = s.log ++ (⟨s.knobs, s.vAct, s.tAct⟩ :: suf) ++ tail ∧
      MaxStep.Chain c.n s.vAct ms e s.knobs suf ∧ tail.length ≤ 1 :=
  MaxStep.optStep_chain c W ms hc hms its tb e he s s' r hnear hok h

/-- non-vacuity of the step bound: `max_step = 1` (weight 4, so 1/4 in solver units), raw step 10 from `x = 0`, full
    step (`scal = 1`) inside wide limits: the knob moves by exactly 1 -/
example : OptNum.trialPoint (MaxStep.fo (K := ℚ)) (fun _ => -100) (fun _ => 100) (fun _ => 0)
    (OptNum.clip MaxStep.fo (OptNum.maxsOf MaxStep.fo (fun _ => some 1) (fun _ => some 4)) 1 (fun _ => 10)) 1 0 * 4 = -1 := by
  norm_num [OptNum.trialPoint, OptNum.trialStep, OptNum.clip, OptNum.clipAt, OptNum.maxsOf, MaxStep.fo, List.range_succ, List.foldl]

/-- the pinned code's behaviour on the probed witness (max_step = (1, 5), raw step (10, 10)): knob 0 moves by 5 -/
example : Clip.clipPinned (fun i => if i = 0 then some 1 else some 5) 2 (fun _ => 10) 0 = 5 := by
  norm_num [Clip.clipPinned, Clip.clipAtPinned, List.range_succ, List.foldl]

end Properties.C10
