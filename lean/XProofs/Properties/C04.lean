import XModel.RefsTable
/-!
# C04 — deferred expressions evaluate to what Python computes on the operand values
Tie A: the tables are regenerated from the working tree on every run; the per-run obligation is
`Generated.tbl.ValidOps = true` (`decide`).  The lift below is proved once, for every table.
-/
namespace Properties.C04
open Tables RefsTable

/-- validity of the extracted tables lifts to every well-formed Python-level term: the node the
    library builds evaluates to what Python computes directly on the operand values (with NaN for a
    ZeroDivisionError in exactly the guarded primitives), for any value algebra `ops` -/
theorem C04_eval_homomorphism {V : Type} (f : Full) (hv : f.ValidOps = true) (ops : PyOps V) (term : Term V)
    (hw : WFTerm term) :
    ∃ node, build f.bin term = some node ∧ evalNode f.bin ops node = evalDirect ops term :=
  build_eval f.bin (valid_bin f hv) ops term hw

/-- a valid table defines every in-place operator Python has, with the value case `old ⊕ v` and the
    expression case `old-expr ⊕ v` built from the same primitive's class -/
theorem C04_inplace_complete (f : Full) (hv : f.ValidOps = true) (d : String) (p : Prim)
    (h : (d, p) ∈ inplaceSpec) : inplaceOk f d p = true := by
  unfold Full.ValidOps at hv
  simp only [Bool.and_eq_true] at hv
  exact List.all_eq_true.mp hv.1.1.2 (d, p) h

/-- `round(x)` passes no `ndigits`, `round(x, n)` / `divmod(x, y)` keep the user's argument -/
theorem C04_builtins (f : Full) (hv : f.ValidOps = true) :
    builtinOk f "__round__" "round" 0 true = true ∧ builtinOk f "__abs__" "abs" 0 false = true ∧
    builtinOk f "__divmod__" "divmod" 0 true = true := by
  unfold Full.ValidOps at hv
  simp only [Bool.and_eq_true] at hv
  have h := List.all_eq_true.mp hv.1.1.1.2
  exact ⟨h ("__round__", "round", 0, true) (by simp [builtinSpec]),
         h ("__abs__", "abs", 0, false) (by simp [builtinSpec]),
         h ("__divmod__", "divmod", 0, true) (by simp [builtinSpec])⟩

/-- the NaN deviation is exactly `ZeroDivisionError`: every other exception an operator raises on the
    operand values (OverflowError, FloatingPointError, ValueError, TypeError …) reaches the caller -/
theorem C04_other_exceptions_propagate (f : Full) (hv : f.ValidOps = true) (r : PropagateRow) (hr : r ∈ f.propagate) :
    r.propagates = true := by
  unfold Full.ValidOps at hv
  simp only [Bool.and_eq_true] at hv
  exact List.all_eq_true.mp hv.1.2 r hr

/-- non-vacuity: the hand-written excerpt of the pinned tree's binary table is valid, a swapped
    `__rsub__` is not -/
example : Tables.pinned.Valid = true := Tables.pinned_valid
example : Tables.mutant.Valid = false := Tables.mutant_invalid

end Properties.C04
