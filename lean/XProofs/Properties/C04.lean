import XModel.RefsLift
/-!
# C04 — deferred expressions evaluate to what Python computes on the operand values
Tie A: the tables are regenerated from the working tree on every run; the per-run obligation is
`Generated.tbl.ValidOps = true` (`decide`).  The lift below is proved once, for every table.
-/
namespace Properties.C04
open Tables RefsTable RefsLift

/-- validity of the extracted tables lifts to every well-formed Python-level term OF THE BINARY FRAGMENT
    (the 18 dunders of `Tables.pySpec`): the node the library builds evaluates to what Python computes
    directly on the operand values (with NaN for a ZeroDivisionError in exactly the guarded primitives),
    for any value algebra `ops`.  The lift over everything `ValidOps` checks is
    `C04_eval_homomorphism_full` below. -/
theorem C04_eval_homomorphism {V : Type} (f : Full) (hv : f.ValidOps = true) (ops : PyOps V) (term : Term V)
    (hw : WFTerm term) :
    ∃ node, build f.bin term = some node ∧ evalNode f.bin ops node = evalDirect ops term :=
  build_eval f.bin (valid_bin f hv) ops term hw

/-- PROJECTION of the validity obligation (no lift): this restates the in-place conjunct of
    `Full.ValidOps`, i.e. for every in-place operator of `inplaceSpec` the table's row passes `inplaceOk`
    (present, value case `old ⊕ v`, expression class = `classOfPrim` of the same primitive).  What the
    rows mean for evaluation is `C04_eval_homomorphism_full` (constructors `iopVal` / `iopExpr`). -/
theorem C04_inplace_complete (f : Full) (hv : f.ValidOps = true) (d : String) (p : Prim)
    (h : (d, p) ∈ inplaceSpec) : inplaceOk f d p = true := by
  unfold Full.ValidOps at hv
  simp only [Bool.and_eq_true] at hv
  exact List.all_eq_true.mp hv.1.1.2 (d, p) h

/-- PROJECTION of the validity obligation (no lift): this restates three instances of the builtin
    conjunct of `Full.ValidOps` (`round(x)` passes no `ndigits`, `round(x, n)` / `divmod(x, y)` keep the
    user's argument, as recorded in the rows).  What the rows mean for evaluation is
    `C04_eval_homomorphism_full` (constructor `call`). -/
theorem C04_builtins (f : Full) (hv : f.ValidOps = true) :
    builtinOk f "__round__" "round" 0 true = true ∧ builtinOk f "__abs__" "abs" 0 false = true ∧
    builtinOk f "__divmod__" "divmod" 0 true = true := by
  unfold Full.ValidOps at hv
  simp only [Bool.and_eq_true] at hv
  have h := List.all_eq_true.mp hv.1.1.1.2
  exact ⟨h ("__round__", "round", 0, true) (by simp [builtinSpec]),
         h ("__abs__", "abs", 0, false) (by simp [builtinSpec]),
         h ("__divmod__", "divmod", 0, true) (by simp [builtinSpec])⟩

/-- PROJECTION of the validity obligation (no lift): this restates the `propagate` conjunct of
    `Full.ValidOps`: every probed (class, exception) row of a valid table has `propagates = true`.  It says
    nothing beyond the rows the extractor probed (OverflowError, FloatingPointError, ArithmeticError,
    ValueError, TypeError on each class).  In `C04_eval_homomorphism_full` the node semantics `evalNode2`
    returns NaN for a recorded swallowed exception, and this conjunct is what excludes it. -/
theorem C04_other_exceptions_propagate (f : Full) (hv : f.ValidOps = true) (r : PropagateRow) (hr : r ∈ f.propagate) :
    r.propagates = true := by
  unfold Full.ValidOps at hv
  simp only [Bool.and_eq_true] at hv
  exact List.all_eq_true.mp hv.1.2 r hr

/-- THE FULL LIFT.  For every table that passes `ValidOps` and `Coherent` (both decidable, both checked
    on the regenerated table), and every well-formed term over ALL operators `ValidOps` talks about —
    the 30 binary / reflected dunders of `pySpecFull` (bitwise, shifts, matmul included), the unary
    operators, the builtin calls with their parameter lists, the in-place operators in the value case and
    in the expression case — the library's construction succeeds and the node evaluates to what Python
    computes directly, with NaN exactly at a ZeroDivisionError of the three guarded primitives inside a
    node (the value case of an in-place operator is plain Python and raises).  Each constructor uses the
    conjunct of `ValidOps` that talks about it, the `propagate` conjunct included.
    `Coherent` (one class = one behaviour) is not implied by `ValidOps`; `RefsLift.incoherentUnary` and
    `RefsLift.incoherentInplace` are `ValidOps`-valid tables for which the conclusion fails. -/
theorem C04_eval_homomorphism_full {V : Type} (f : Full) (hv : f.ValidOps = true) (hc : f.Coherent = true)
    (ops : PyOps2 V) (term : Term2 V) (hw : WF2 term) :
    ∃ node, build2 f term = some node ∧ evalNode2 f ops node = evalDirect2 ops term :=
  build_eval2 f hv hc ops term hw

/-- on the binary fragment the full lift talks about the same "direct" value as `C04_eval_homomorphism` -/
theorem C04_full_extends_fragment {V : Type} (ops : PyOps2 V) (t : Term V) (hw : WFTerm t) :
    WF2 (up t) ∧ evalDirect2 ops (up t) = evalDirect ops.toPyOps t :=
  ⟨wf2_up t hw, evalDirect2_up ops t⟩

/-- COMPLETENESS.  A valid table lists every dunder of the four specification lists, with the specified
    class / primitive / side / parameters.  (Immediate: `ValidOps` is "for every specification row the
    table's row agrees", and a missing row fails the check.) -/
theorem C04_table_complete (f : Full) (hv : f.ValidOps = true) :
    (∀ d m, (d, m) ∈ pySpecFull → ∃ row c, row ∈ f.bin.dunders ∧ row.name = d ∧
        c ∈ f.bin.classes ∧ c.cls = row.cls ∧
        f.bin.findDunder d = some row ∧ f.bin.findClass row.cls = some c ∧
        c.prim = m.prim ∧ c.guard = guarded m.prim ∧ c.swapped = false ∧
        (row.side = .selfLhs ↔ m.selfFirst = true)) ∧
    (∀ d p, (d, p) ∈ unarySpec → ∃ r, r ∈ f.unary ∧ r.dunder = d ∧
        f.unary.find? (·.dunder = d) = some r ∧ r.prim = p) ∧
    (∀ d op n u, (d, op, n, u) ∈ builtinSpec → ∃ r, r ∈ f.builtin ∧ r.dunder = d ∧
        f.builtin.find? (·.dunder = d) = some r ∧ r.op = op ∧ r.defaultParams = n ∧ r.passesUserParams = u) ∧
    (∀ d p, (d, p) ∈ inplaceSpec → ∃ r cn, r ∈ f.inplace ∧ r.dunder = d ∧
        f.inplace.find? (·.dunder = d) = some r ∧ r.present = true ∧ r.valuePrim = some p ∧
        r.exprCls = some cn ∧ classOfPrim f.bin p = some cn) :=
  table_complete f hv

/-- non-vacuity of the full lift: a hand-written table with every row of the specification is valid and
    coherent, a term using reflected, unary and builtin operators is well formed, and both sides are 54 -/
example : ∃ node, build2 RefsLift.sample sampleTerm = some node ∧
    evalNode2 RefsLift.sample intOps node = evalDirect2 intOps sampleTerm :=
  C04_eval_homomorphism_full RefsLift.sample sample_valid sample_coherent intOps sampleTerm sampleTerm_wf
example : (build2 RefsLift.sample sampleTerm).map (evalNode2 RefsLift.sample intOps) = some (.ok 54) := rfl
/-- completeness instantiated, and its contrapositive on a table that lost the `__invert__` row -/
example : ∃ r, r ∈ RefsLift.sample.unary ∧ r.dunder = "__invert__" ∧
    RefsLift.sample.unary.find? (·.dunder = "__invert__") = some r ∧ r.prim = .invert :=
  (C04_table_complete RefsLift.sample sample_valid).2.1 "__invert__" .invert (by simp [unarySpec])
example : ({ RefsLift.sample with unary := RefsLift.sample.unary.take 2 } : Full).ValidOps = false := by decide

/-- non-vacuity: the hand-written excerpt of the pinned tree's binary table is valid, a swapped
    `__rsub__` is not -/
example : Tables.pinned.Valid = true := Tables.pinned_valid
example : Tables.mutant.Valid = false := Tables.mutant_invalid

end Properties.C04
