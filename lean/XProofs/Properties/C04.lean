import XModel.RefsLift
/-!
# C04 — deferred expressions evaluate to what Python computes on the operand values
Tie A: the tables are regenerated from the working tree on every run; the per-run obligations are
`Generated.tbl.ValidOps = true` and `Generated.tbl.Coherent = true` (both `decide`; `Coherent` is not
implied by `ValidOps` and the full lift needs it).  The lifts below are proved once, for every table.

`ValidOps = ValidOpRows && ValidPropagate`.  `ValidOpRows` is driven by the four specification lists
(`pySpecFull`, `unarySpec`, `builtinSpec`, `inplaceSpec`).  `ValidPropagate` is closed over the class
universe: every class of `RefsTable.propClasses` (the 19 `BinOpExpr` and 3 `UnaryOpExpr` subclasses) must
have a propagating row for every exception of `RefsTable.probedExcs`, and every class of the table's
operator rows must be in the universe (`C04_propagate_covers_universe`).

NOT COVERED by any theorem of this file (no rows in the table describe how they are built or
evaluated): general calls / keyword arguments (`CallRef`), subscripts with literal or computed keys
(`ItemRef`), attribute access (`AttrRef`), `EqExpr` / `NeExpr` (`_eq` / `_neq`), keyword parameters of
the builtins.  See the header of `XModel/RefsLift.lean`.
-/
namespace Properties.C04
open Tables RefsTable RefsLift

/-- validity of the extracted tables lifts to every well-formed Python-level term OF THE BINARY FRAGMENT
    (the 18 dunders of `Tables.pySpec`): the node the library builds evaluates to what Python computes
    directly on the operand values (with NaN for a ZeroDivisionError in exactly the guarded primitives),
    for any value algebra `ops`.  The lift over everything `ValidOps` checks is
    `C04_eval_homomorphism_full` below. -/
theorem C04_eval_homomorphism {V : Type} (f : Full) (hv : f.ValidOps = true) (ops : PyOps V) (term : Term V)
    (hw : WFTerm term) :
    ∃ node, build f.bin term = some node ∧ evalNode f.bin ops node = evalDirect ops term :=
  build_eval f.bin (valid_bin f hv) ops term hw

/-- PROJECTION of the validity obligation (no lift): this restates the in-place conjunct of
    `Full.ValidOps`, i.e. for every in-place operator of `inplaceSpec` the table's row passes `inplaceOk`
    (present, value case `old ⊕ v`, expression class = `classOfPrim` of the same primitive).  What the
    rows mean for evaluation is `C04_eval_homomorphism_full` (constructors `iopVal` / `iopExpr`). -/
theorem C04_inplace_complete (f : Full) (hv : f.ValidOps = true) (d : String) (p : Prim)
    (h : (d, p) ∈ inplaceSpec) : inplaceOk f d p = true := by
  exact (validOps_parts f hv).2.2.2.1 (d, p) h

/-- PROJECTION of the validity obligation (no lift): this restates three instances of the builtin
    conjunct of `Full.ValidOps` (`round(x)` passes no `ndigits`, `round(x, n)` / `divmod(x, y)` keep the
    user's argument, as recorded in the rows).  What the rows mean for evaluation is
    `C04_eval_homomorphism_full` (constructor `call`). -/
theorem C04_builtins (f : Full) (hv : f.ValidOps = true) :
    builtinOk f "__round__" "round" 0 true = true ∧ builtinOk f "__abs__" "abs" 0 false = true ∧
    builtinOk f "__divmod__" "divmod" 0 true = true := by
  have h := (validOps_parts f hv).2.2.1
  exact ⟨h ("__round__", "round", 0, true) (by simp [builtinSpec]),
         h ("__abs__", "abs", 0, false) (by simp [builtinSpec]),
         h ("__divmod__", "divmod", 0, true) (by simp [builtinSpec])⟩

/-- PROJECTION of the validity obligation (no lift): this restates the first conjunct of
    `Full.ValidPropagate`: every LISTED (class, exception) row of a valid table has `propagates = true`.
    That the rows are there for every class is `C04_propagate_covers_universe`.  In
    `C04_eval_homomorphism_full` the node semantics `evalNode2` returns NaN for a recorded swallowed
    exception, and this conjunct is what excludes it. -/
theorem C04_other_exceptions_propagate (f : Full) (hv : f.ValidOps = true) (r : PropagateRow) (hr : r ∈ f.propagate) :
    r.propagates = true := (validOps_parts f hv).2.2.2.2.1 r hr

/-- `propagate` CLOSED OVER THE UNIVERSE.  For a valid table: (1) every class of `propClasses` — every
    subclass of `BinOpExpr` and of `UnaryOpExpr`, the classes whose `_get_value` applies one operator with
    or without the ZeroDivision guard — has, for every exception of `probedExcs` (OverflowError,
    FloatingPointError, ArithmeticError, ValueError, TypeError), the row saying that the exception reached
    the caller; (2) for such a class no exception at all is recorded as swallowed; (3) every class of the
    table's binary / unary operator rows is a class of the universe; hence (4) for a class of the
    universe the node does with the result of its primitive exactly what the documented guard does.
    A table with one arbitrary propagate row is NOT valid (`RefsLift.unprobedTable`), and the node
    semantics is fail-closed: for an unprobed class the lift's conclusion fails (examples below).
    What is NOT probed: exception classes other than the five (nothing is listed, `swallows` is false:
    an extrapolation); `BuiltinRef` (`Node2.call`) and the value case of in-place operators (`Node2.imm`)
    do not go through `classRes` — their sources have no `except` clause — and are hard-wired. -/
theorem C04_propagate_covers_universe {V : Type} (f : Full) (hv : f.ValidOps = true) :
    (∀ c ∈ propClasses, ∀ e ∈ probedExcs, (⟨c, e, true⟩ : PropagateRow) ∈ f.propagate) ∧
    (∀ c exc, swallows f c exc = false) ∧
    ((∀ c ∈ f.bin.classes, c.cls ∈ binClasses) ∧ (∀ r ∈ f.unary, r.cls ∈ unaryClasses)) ∧
    (∀ (ops : PyOps2 V) (cls : String), cls ∈ propClasses → ∀ (g : Bool) (res : Except String V),
        classRes f ops cls g res = guardNaN ops.toPyOps g res) :=
  ⟨fun c hc e he => probedClass_mem f.propagate c e ((validPropagate_parts f hv).1 c hc) he,
   no_swallow f hv,
   (validPropagate_parts f hv).2,
   fun ops cls hc g res => classRes_eq_universe f hv ops cls hc g res⟩

/-- THE LIFT OVER ALL OPERATORS ("full" = all operator dunders of the four specification lists, as
    opposed to the 18-dunder fragment above; NOT all node kinds of the library).
    OUTSIDE this theorem — `Term2` has no constructor for them, because the extracted table has no rows
    describing how they are built and in which order their operands are evaluated:
    general calls `f(a, b, k=c)` and keyword arguments (`CallRef`), subscripts `r[k]` with a literal or
    a computed key (`ItemRef`), attribute access `r.name` (`AttrRef`), the `_eq` / `_neq` nodes (`EqExpr`,
    `NeExpr`), keyword parameters of the builtins (`round(x, ndigits=2)`), and `LiteralExpr` / container
    refs other than as leaves (`Term2.val`).  `Term2.call` is ONLY the six builtin dunders of
    `builtinSpec` with positional parameters.
    For every table that passes `ValidOps` and `Coherent` (both decidable, both per-run obligations of
    the generated file), and every well-formed term over the operators `ValidOps` talks about —
    the 30 binary / reflected dunders of `pySpecFull` (bitwise, shifts, matmul included), the unary
    operators, the builtin calls with their parameter lists, the in-place operators in the value case and
    in the expression case — the library's construction succeeds and the node evaluates to what Python
    computes directly, with NaN exactly at a ZeroDivisionError of the three guarded primitives inside a
    node (the value case of an in-place operator is plain Python and raises).  The constructors `op`,
    `un`, `iopExpr` use the row conjunct that talks about them AND the `propagate` conjunct (their
    classes pass through `classRes`, which is fail-closed for unprobed classes); `call` and `iopVal` use
    their row conjunct only: the two sides then differ only in where the function name / parameter
    count / primitive come from (table vs specification), the shape of `BuiltinRef._get_value` is
    hard-wired in `evalNode2`.
    `Coherent` (one class = one behaviour) is not implied by `ValidOps`; `RefsLift.incoherentUnary` and
    `RefsLift.incoherentInplace` are `ValidOps`-valid tables for which the conclusion fails. -/
theorem C04_eval_homomorphism_full {V : Type} (f : Full) (hv : f.ValidOps = true) (hc : f.Coherent = true)
    (ops : PyOps2 V) (term : Term2 V) (hw : WF2 term) :
    ∃ node, build2 f term = some node ∧ evalNode2 f ops node = evalDirect2 ops term :=
  build_eval2 f hv hc ops term hw

/-- the same with the class universe made explicit: every node that the library's construction yields
    is made of classes of the universe (`nodeInUniverse`, a property of the node alone), i.e. of classes
    that a valid table has probed for `propagate` -/
theorem C04_eval_homomorphism_universe {V : Type} (f : Full) (hv : f.ValidOps = true) (hc : f.Coherent = true)
    (ops : PyOps2 V) (term : Term2 V) (hw : WF2 term) :
    ∃ node, build2 f term = some node ∧ evalNode2 f ops node = evalDirect2 ops term ∧
      nodeInUniverse node = true :=
  build_eval2_universe f hv hc ops term hw

/-- on the binary fragment the full lift talks about the same "direct" value as `C04_eval_homomorphism` -/
theorem C04_full_extends_fragment {V : Type} (ops : PyOps2 V) (t : Term V) (hw : WFTerm t) :
    WF2 (up t) ∧ evalDirect2 ops (up t) = evalDirect ops.toPyOps t :=
  ⟨wf2_up t hw, evalDirect2_up ops t⟩

/-- COMPLETENESS.  A valid table lists every dunder of the four specification lists, with the specified
    class / primitive / side / parameters.  (Immediate: `ValidOps` is "for every specification row the
    table's row agrees", and a missing row fails the check.) -/
theorem C04_table_complete (f : Full) (hv : f.ValidOps = true) :
    (∀ d m, (d, m) ∈ pySpecFull → ∃ row c, row ∈ f.bin.dunders ∧ row.name = d ∧
        c ∈ f.bin.classes ∧ c.cls = row.cls ∧
        f.bin.findDunder d = some row ∧ f.bin.findClass row.cls = some c ∧
        c.prim = m.prim ∧ c.guard = guarded m.prim ∧ c.swapped = false ∧
        (row.side = .selfLhs ↔ m.selfFirst = true)) ∧
    (∀ d p, (d, p) ∈ unarySpec → ∃ r, r ∈ f.unary ∧ r.dunder = d ∧
        f.unary.find? (·.dunder = d) = some r ∧ r.prim = p) ∧
    (∀ d op n u, (d, op, n, u) ∈ builtinSpec → ∃ r, r ∈ f.builtin ∧ r.dunder = d ∧
        f.builtin.find? (·.dunder = d) = some r ∧ r.op = op ∧ r.defaultParams = n ∧ r.passesUserParams = u) ∧
    (∀ d p, (d, p) ∈ inplaceSpec → ∃ r cn, r ∈ f.inplace ∧ r.dunder = d ∧
        f.inplace.find? (·.dunder = d) = some r ∧ r.present = true ∧ r.valuePrim = some p ∧
        r.exprCls = some cn ∧ classOfPrim f.bin p = some cn) :=
  table_complete f hv

/-- non-vacuity of the full lift: a hand-written table with every row of the specification is valid and
    coherent, a term using reflected, unary and builtin operators is well formed, and both sides are 54 -/
example : ∃ node, build2 RefsLift.sample sampleTerm = some node ∧
    evalNode2 RefsLift.sample intOps node = evalDirect2 intOps sampleTerm :=
  C04_eval_homomorphism_full RefsLift.sample sample_valid sample_coherent intOps sampleTerm sampleTerm_wf
example : (build2 RefsLift.sample sampleTerm).map (evalNode2 RefsLift.sample intOps) = some (.ok 54) := rfl
/-- the universe conjunct instantiated on the hand-written table, and the reviewer's degenerate table:
    one arbitrary propagate row is rejected, although all operator rows are valid and coherent; for it
    the conclusion of the lift fails (`1 @ 2` raises TypeError in Python, the fail-closed node gives NaN) -/
example : (⟨"MatmulExpr", "TypeError", true⟩ : PropagateRow) ∈ RefsLift.sample.propagate :=
  (C04_propagate_covers_universe (V := Int) RefsLift.sample sample_valid).1 "MatmulExpr" (by decide) "TypeError" (by decide)
example : unprobedTable.ValidOps = false ∧ unprobedTable.ValidOpRows = true ∧ unprobedTable.Coherent = true := by decide
example : (build2 unprobedTable (Term2.op "__matmul__" ⟨.matmul, true⟩ (.val (1 : Int)) (.val 2))).map
    (evalNode2 unprobedTable intOps) = some (.ok (-999)) := rfl
example : evalDirect2 intOps (Term2.op "__matmul__" ⟨.matmul, true⟩ (.val 1) (.val 2)) = .error "TypeError" := rfl
/-- completeness instantiated, and its contrapositive on a table that lost the `__invert__` row -/
example : ∃ r, r ∈ RefsLift.sample.unary ∧ r.dunder = "__invert__" ∧
    RefsLift.sample.unary.find? (·.dunder = "__invert__") = some r ∧ r.prim = .invert :=
  (C04_table_complete RefsLift.sample sample_valid).2.1 "__invert__" .invert (by simp [unarySpec])
example : ({ RefsLift.sample with unary := RefsLift.sample.unary.take 2 } : Full).ValidOps = false := by decide

/-- non-vacuity: the hand-written excerpt of the pinned tree's binary table is valid, a swapped
    `__rsub__` is not -/
example : Tables.pinned.Valid = true := Tables.pinned_valid
example : Tables.mutant.Valid = false := Tables.mutant_invalid

end Properties.C04
