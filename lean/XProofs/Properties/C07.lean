import XModel.TableThms
import XModel.TableLabels
import XModel.TableDerivHist
/-!
# C07 — table rows addressed by name resolve against the current index column
Model: `XModel/Table.lean` (`getRowCache`, `getRowIndex`, `resolveCellRow`, `setCell`, `setCol`, `delCol`),
the functions the `table` driver suite executes in the correspondence run.

**Which tree.**  The model transcribes `/repo` as it stands now: the pinned commit plus the `fix:` commits recorded in
`/verif/KNOWN_FINDINGS.json` (status `fixed`).  Where a theorem below rests on repaired code — the cache dropped on index-cell writes, `count_dict.get(name, 0)` for absent names — it is false of
the tree as first pinned; the witnesses are kept (defects D9, D11).

**Side conditions and gaps.**  The string-form, cell-access and unique-label theorems are CONDITIONAL on the index column's
names being separator-free / not ending in a separator character (`SepFree`, `SepStrict`, `SepsOK`; each shown necessary by
an example; outside them the statement is false of model and code: known finding D32).  The history language `TOp` has
setCol / setCell / delCol / getIndex / getCell steps but no `rows[...]` / `indices` / `mask` step (they only warm the cache:
`TableM.indicesOf_keeps`), so "all histories" in docstrings means histories over `TOp`.  There is no theorem for the tuple
form inside a cell access `t[col, (name, count[, offset])]` (its own fast path in `resolveCellRow`); the correspondence run
and the scan oracle cover it.  The driver always builds tables with the default separators.

**Derived tables.**  `C07_history_with_derivations_coherent` / `C07_lookup_after_history_with_derivations` extend the
history theorems to `DOp` (`XModel/TableDerivHist.lean`): the `TOp` steps and "the table in use is replaced by a derivation
of itself" (`_copy()`, `t * k`, `t + t`, `rows[sel]`, `cols[names]`).  Every model derivation builds its result without a
cache, as the constructor of `table.py` does; the correspondence run makes the driver apply `mulT` / `addT` / `copyT` to its
own current table on the `via_derive` lines of `harness/w_table.py` and compares the columns with the implementation's.
-/
namespace Properties.C07
open TableM Cache

/-- the cache built by the one-pass loop of `_make_cache` is the scan: entry `(name, c)` is the
    position of the c-th occurrence -/
theorem C07_makeCache_spec (col : List String) (name : String) (c : Nat) :
    lookupA (makeCache col).1 (name, c) = nthOcc col name c :=
  makeCache_spec col name c

/-- and its count dictionary is the number of occurrences -/
theorem C07_makeCache_counts (col : List String) (name : String) :
    lookupA (makeCache col).2 name = if occ col name = 0 then none else some (occ col name) :=
  makeCache_cnt col name

/-- a look-up through a coherent cache is the scan of the *current* index column: the count-th
    occurrence (negative counts from the last one) shifted by the offset, `none` (→ `KeyError`) when
    there is no such occurrence -/
theorem C07_lookup_refines_scan (t : Tbl) (h : Coherent t) (row : String) (count offset : Int) :
    (getRowCache t row (some count) offset).2 = .ok (scanLookup t.indexCol row count offset) :=
  getRowCache_scan t h row count offset

/-- look-ups keep the cache coherent and do not change the index column -/
theorem C07_lookup_keeps_coherence (t : Tbl) (h : Coherent t) (row : String) (count : Option Int) (offset : Int) :
    Coherent (getRowCache t row count offset).1 ∧ (getRowCache t row count offset).1.indexCol = t.indexCol :=
  getRowCache_coherent t h row count offset

/-- whole-column assignment (item or attribute style), to the index column or any other, and the
    creation of a new column keep the cache coherent -/
theorem C07_setCol_keeps_coherence (t : Tbl) (h : Coherent t) (name : String) (vals : List Cell) :
    Coherent (setCol t name vals).1 :=
  setCol_coherent t h name vals

/-- cell assignment by position, by name or by tuple — into the index column (cache dropped) or any other -/
theorem C07_setCell_keeps_coherence (t : Tbl) (h : Coherent t) (col : String) (row : Row) (v : Cell) :
    Coherent (setCell t col row v).1 :=
  setCell_coherent t h col row v

/-- column deletion (of a column other than the index column) -/
theorem C07_delCol_keeps_coherence (t : Tbl) (h : Coherent t) (name : String) (hn : name ≠ t.index) :
    Coherent (delCol t name).1 :=
  delCol_coherent t h name hn

/-- **all histories**: after any sequence of whole-column assignments, new columns, cell assignments, column
    deletions and look-ups, the cache (if any) is the one a fresh pass over the current index column builds -/
theorem C07_history_coherent (ops : List TOp) (t : Tbl) (h : Coherent t)
    (hdel : ∀ n, TOp.delCol n ∈ ops → n ≠ t.index) : Coherent (ops.foldl applyTOp t) :=
  history_coherent ops t h hdel

/-- hence, after any such history, `rows.get_index((name, count, offset))` is the scan of the index column as it
    is *now*: the count-th occurrence (negative counts from the last) plus the offset, `KeyError` otherwise -/
theorem C07_lookup_after_history (ops : List TOp) (t : Tbl) (h : Coherent t)
    (hdel : ∀ n, TOp.delCol n ∈ ops → n ≠ t.index) (name : String) (count : Int) (offset : Option Int) :
    (getRowIndex (ops.foldl applyTOp t) (.tup name count offset)).2 =
      match scanLookup (ops.foldl applyTOp t).indexCol name count (offset.getD 0) with
      | some i => .ok i
      | none => .error .keyError :=
  getRowIndex_scan _ (history_coherent ops t h hdel) name count offset

/-- a fresh table is coherent -/
theorem C07_new_coherent (idx : String) (cols : List (String × List Cell)) :
    Coherent (⟨idx, cols.map (·.1), cols, none, "::", "<<", ">>"⟩ : Tbl) := Or.inl rfl

/-! non-vacuity: a table with a repeated name, warmed cache, second occurrence and last occurrence -/
def exT0 : Tbl := ⟨"name", ["name"],
  [("name", [Cell.str "a", Cell.str "b", Cell.str "a", Cell.str "c", Cell.str "a"])], none, "::", "<<", ">>"⟩
def exT : Tbl := (getCache exT0).1
/-- a warm cache, then a cell of the index column renamed by name, then a look-up: the scan sees the new name -/
def exOps : List TOp := [.getIndex (.name "a"), .setCell "name" (.name "b") (.str "a"), .getIndex (.tup "a" 1 none)]
#guard ((exOps.foldl applyTOp exT0).indexCol == ["a", "a", "a", "c", "a"]) &&
  (match (getRowIndex (exOps.foldl applyTOp exT0) (.tup "a" 1 none)).2 with | .ok i => i == 1 | _ => false)
#guard exT.cache.isSome
#guard scanLookup exT.indexCol "a" 1 0 == some 2 && scanLookup exT.indexCol "a" (-1) 0 == some 4 &&
    scanLookup exT.indexCol "a" 3 0 == none && scanLookup exT.indexCol "b" 0 1 == some 2

/-! ### wrappers of the model-level results (statements as printed by `#check`) -/
section wrapped

/-- the string forms 'name', 'name::count', 'name<<k', 'name>>k' and their combinations (`mkLabel`), for names that are separator-free and do not end with a separator character, resolve to the position the left-to-right scan defines (`scanLookup`), KeyError when there is none -/
theorem C07_string_forms_resolve_by_scan :
    ∀ (t : TableM.Tbl),
      TableM.Coherent t →
        TableM.SepsOK t →
          ∀ (name : String),
            TableM.strictName t name = true →
              ∀ (count : Option Int) (o : TableM.LOff),
                (TableM.getRowIndex t (TableM.Row.name (TableM.mkLabel t name count o))).snd =
                  TableM.orKeyError
                    (TableM.scanLookup (TableM.Tbl.indexCol t) name (Option.getD count 0) (TableM.LOff.val o)) :=
  @TableM.getRowIndex_label

/-- `t[col, 'row']` addresses the row `rows.get_index('row')` gives, for separator-free index columns (the literal-label fast path can then only hit a plain name; false otherwise: `lblBad`) -/
theorem C07_cell_access_agrees_with_get_index :
    ∀ (t : TableM.Tbl),
      TableM.Coherent t →
        TableM.SepFree t →
          ∀ (s : String), (TableM.resolveCellRow t (TableM.Row.name s)).snd = (TableM.getRowIndex t (TableM.Row.name s)).snd :=
  @TableM.resolveCellRow_name

/-- **the unique labels the table reports resolve back to their own row** — for index columns whose names are separator-free and do not end with a separator character (`SepStrict`; the condition is needed: known finding D32, `lblColon`) -/
theorem C07_unique_labels_resolve (t : Tbl) (h : Coherent t) (hs : SepsOK t) (hn : SepStrict t) (i : Nat)
    (hi : i < t.indexCol.length) :
    (getRowIndex t (.name ((uniqueLabels t)[i]'(by rw [uniqueLabels_length]; exact hi)))).2 = .ok (i : Int) :=
  uniqueLabels_resolve t h hs hn i hi

/-- … and are pairwise distinct -/
theorem C07_unique_labels_distinct :
    ∀ (t : TableM.Tbl),
      TableM.SepsOK t → TableM.SepStrict t → List.Nodup (TableM.uniqueLabels t) :=
  @TableM.uniqueLabels_nodup

/-- … also after any history of table operations that never writes such a name into the index column and never deletes it -/
theorem C07_unique_labels_after_history (ops : List TOp) (t : Tbl) (h : Coherent t) (hs : SepsOK t) (hn : SepStrict t)
    (hdel : ∀ n, TOp.delCol n ∈ ops → n ≠ t.index)
    (hw : ∀ op ∈ ops, ∀ x ∈ op.writes t.index, strictName t x = true) :
    (uniqueLabels (ops.foldl applyTOp t)).Nodup ∧
    ∀ (i : Nat) (hi : i < (ops.foldl applyTOp t).indexCol.length),
      (getRowIndex (ops.foldl applyTOp t)
        (.name ((uniqueLabels (ops.foldl applyTOp t))[i]'(by rw [uniqueLabels_length]; exact hi)))).2 = .ok (i : Int) :=
  history_uniqueLabels ops t h hs hn hdel hw

/-- the string forms after any such history -/
theorem C07_string_forms_after_history :
    ∀ (ops : List TableM.TOp) (t : TableM.Tbl),
      TableM.Coherent t →
        TableM.SepsOK t →
          (∀ (n : String), TableM.TOp.delCol n ∈ ops → n ≠ t.index) →
            ∀ (name : String),
              TableM.strictName t name = true →
                ∀ (count : Option Int) (o : TableM.LOff),
                  (TableM.getRowIndex (List.foldl TableM.applyTOp t ops)
                        (TableM.Row.name (TableM.mkLabel (List.foldl TableM.applyTOp t ops) name count o))).snd =
                    TableM.orKeyError
                      (TableM.scanLookup (TableM.Tbl.indexCol (List.foldl TableM.applyTOp t ops)) name (Option.getD count 0)
                        (TableM.LOff.val o)) :=
  @TableM.history_getRowIndex_label

end wrapped

/-! ### histories in which the table is replaced by a derivation of itself -/

/-- **all histories, derivations included**: after any sequence of whole-column assignments, new columns, cell assignments,
    column deletions, look-ups AND replacements of the table in use by `t._copy()`, `t * k`, `t + t`, `t.rows[sel]` (any
    selector, `m` = the `re.fullmatch` oracle) or `t.cols[names]`, the cache (if any) is the one a fresh pass over the
    current index column builds.  A derivation that raises leaves the table in use as it was.  (The derived table starts
    without a cache, as the constructor leaves it: `TableM.mulT_cache`, `addT_cache`, `copyT_cache`, `rowsOf_cache`,
    `selectCols_cache`.) -/
theorem C07_history_with_derivations_coherent (m : String → Match) (ops : List DOp) (t : Tbl) (h : Coherent t)
    (hdel : ∀ n, DOp.api (.delCol n) ∈ ops → n ≠ t.index) : Coherent (ops.foldl (applyDOp m) t) :=
  dhistory_coherent m ops t h hdel

/-- hence, after any such history, `rows.get_index((name, count, offset))` is the scan of the index column of the table in
    use *now* — the derived table's, after a derivation: the count-th occurrence (negative counts from the last) plus the
    offset, `KeyError` otherwise -/
theorem C07_lookup_after_history_with_derivations (m : String → Match) (ops : List DOp) (t : Tbl) (h : Coherent t)
    (hdel : ∀ n, DOp.api (.delCol n) ∈ ops → n ≠ t.index) (name : String) (count : Int) (offset : Option Int) :
    (getRowIndex (ops.foldl (applyDOp m) t) (.tup name count offset)).2 =
      match scanLookup (ops.foldl (applyDOp m) t).indexCol name count (offset.getD 0) with
      | some i => .ok i
      | none => .error .keyError :=
  lookup_after_dhistory m ops t h hdel name count offset

/-- a history without derivations is a `DOp` history: the two theorems above contain `C07_history_coherent` and
    `C07_lookup_after_history` -/
theorem C07_history_without_derivations (m : String → Match) (ops : List TOp) (t : Tbl) :
    (ops.map DOp.api).foldl (applyDOp m) t = ops.foldl applyTOp t :=
  foldl_api m ops t

/-- **repetition**: in `t * k` — whatever cache `t` had built — the tuple `(name, count, offset)` resolves by the scan of
    the index column of `t` repeated `k` times -/
theorem C07_lookup_in_repeated_table (t : Tbl) (hidx : t.index ∈ t.colNames) (k : Nat) (r : Tbl) (hr : mulT t k = .ok r)
    (name : String) (count : Int) (offset : Option Int) :
    (getRowIndex r (.tup name count offset)).2 =
      match scanLookup (List.replicate k t.indexCol).flatten name count (offset.getD 0) with
      | some i => .ok i
      | none => .error .keyError :=
  getRowIndex_mulT t hidx k r hr name count offset

/-- … into the right block: occurrence `j·occ + c` (`j < k`, `c < occ` = the number of occurrences in `t`) is `j` table
    lengths after the row `i` that `t` resolves `(name, c)` to -/
theorem C07_lookup_in_repeated_table_block (t : Tbl) (hidx : t.index ∈ t.colNames) (k : Nat) (r : Tbl)
    (hr : mulT t k = .ok r) (name : String) (j c : Nat) (hj : j < k) (hc : c < occ t.indexCol name) (i : Nat)
    (hi : nthOcc t.indexCol name c = some i) (offset : Option Int) :
    (getRowIndex r (.tup name ((j * occ t.indexCol name + c : Nat) : Int) offset)).2 =
      .ok (((i + j * t.indexCol.length : Nat) : Int) + offset.getD 0) :=
  getRowIndex_mulT_block t hidx k r hr name j c hj hc i hi offset

/-- … and from the back: count `-(d+1)` is an occurrence of the LAST block -/
theorem C07_scan_of_repeated_column_from_the_back (col : List String) (name : String) (k d : Nat) (hk : 0 < k)
    (hd : d < occ col name) (offset : Int) :
    scanLookup (List.replicate k col).flatten name (-((d : Int) + 1)) offset =
      (nthOcc col name (occ col name - 1 - d)).map (fun i => ((i + (k - 1) * col.length : Nat) : Int) + offset) :=
  scanLookup_repeated_last col name k d hk hd offset

/-- `t + t`: the scan of the index column followed by itself -/
theorem C07_lookup_in_doubled_table (t : Tbl) (hidx : t.index ∈ t.colNames) (r : Tbl) (hr : addT t t = .ok r)
    (name : String) (count : Int) (offset : Option Int) :
    (getRowIndex r (.tup name count offset)).2 =
      match scanLookup (t.indexCol ++ t.indexCol) name count (offset.getD 0) with
      | some i => .ok i
      | none => .error .keyError :=
  getRowIndex_addT_self t hidx r hr name count offset

/-! non-vacuity: index column `[a, b, a]`, a look-up (the cache is built), then `t = t * 2`; `'a::-1'` is row 5 of the
    product (2 on the source, which is what a product that kept the source's cache would answer) -/
example : Coherent rep3 ∧ ∀ n, DOp.api (.delCol n) ∈ rep3Hist → n ≠ rep3.index :=
  ⟨Or.inl rfl, fun n hn => by simp [rep3Hist] at hn⟩
example : ((applyDOp noMatch rep3 (.api (.getIndex (.name "a")))).cache.isSome) = true := by decide
example : (rep3Hist.foldl (applyDOp noMatch) rep3).indexCol = ["a", "b", "a", "a", "b", "a"] := by decide
example : (getRowIndex (rep3Hist.foldl (applyDOp noMatch) rep3) (.name "a::-1")).2.toOption = some 5 := by decide
example : (getRowIndex (rep3Hist.foldl (applyDOp noMatch) rep3) (.tup "a" (-1) none)).2.toOption = some 5 := by decide
example : (getRowIndex (applyDOp noMatch rep3 (.api (.getIndex (.name "a")))) (.name "a::-1")).2.toOption = some 2 := by
  decide
example : (mulT rep3 2).toOption.map (·.indexCol) = some ["a", "b", "a", "a", "b", "a"] ∧ rep3.index ∈ rep3.colNames := by
  decide
/-- the block form on the same table: `k = 2`, block `j = 1`, occurrence `c = 1` of `occ = 2` → count 3 → row 2 + 3 -/
example : occ rep3.indexCol "a" = 2 ∧ nthOcc rep3.indexCol "a" 1 = some 2 ∧ rep3.indexCol.length = 3 := by decide
/-- a failing derivation (`t * 0`, a column that is not there) leaves the table in use as it was -/
example : (applyDOp noMatch rep3 (.mul 0)).indexCol = rep3.indexCol ∧
    (applyDOp noMatch rep3 (.cols ["nope"])).colNames = rep3.colNames := by decide
/-- `rows[[2, 0]]` and `cols[['v']]` (the index column is kept) as steps of a history -/
example : ([DOp.rows (.ints [2, 0]), .cols ["v"]].foldl (applyDOp noMatch) rep3).indexCol = ["a", "a"] ∧
    ([DOp.rows (.ints [2, 0]), .cols ["v"]].foldl (applyDOp noMatch) rep3).colNames = ["name", "v"] := by decide

end Properties.C07
