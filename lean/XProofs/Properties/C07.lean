import XModel.TableThms
/-!
# C07 — table rows addressed by name resolve against the current index column
Model: `XModel/Table.lean` (`getRowCache`, `getRowIndex`, `resolveCellRow`, `setCell`, `setCol`, `delCol`),
the functions the `table` driver suite executes in the correspondence run.
-/
namespace Properties.C07
open TableM Cache

/-- the cache built by the one-pass loop of `_make_cache` is the scan: entry `(name, c)` is the
    position of the c-th occurrence -/
theorem C07_makeCache_spec (col : List String) (name : String) (c : Nat) :
    lookupA (makeCache col).1 (name, c) = nthOcc col name c :=
  makeCache_spec col name c

/-- and its count dictionary is the number of occurrences -/
theorem C07_makeCache_counts (col : List String) (name : String) :
    lookupA (makeCache col).2 name = if occ col name = 0 then none else some (occ col name) :=
  makeCache_cnt col name

/-- a look-up through a coherent cache is the scan of the *current* index column: the count-th
    occurrence (negative counts from the last one) shifted by the offset, `none` (→ `KeyError`) when
    there is no such occurrence -/
theorem C07_lookup_refines_scan (t : Tbl) (h : Coherent t) (row : String) (count offset : Int) :
    (getRowCache t row (some count) offset).2 = .ok (scanLookup t.indexCol row count offset) :=
  getRowCache_scan t h row count offset

/-- look-ups keep the cache coherent and do not change the index column -/
theorem C07_lookup_keeps_coherence (t : Tbl) (h : Coherent t) (row : String) (count : Option Int) (offset : Int) :
    Coherent (getRowCache t row count offset).1 ∧ (getRowCache t row count offset).1.indexCol = t.indexCol :=
  getRowCache_coherent t h row count offset

/-- whole-column assignment (item or attribute style), to the index column or any other, and the
    creation of a new column keep the cache coherent -/
theorem C07_setCol_keeps_coherence (t : Tbl) (h : Coherent t) (name : String) (vals : List Cell) :
    Coherent (setCol t name vals).1 :=
  setCol_coherent t h name vals

/-- a fresh table is coherent -/
theorem C07_new_coherent (idx : String) (cols : List (String × List Cell)) :
    Coherent (⟨idx, cols.map (·.1), cols, none, "::", "<<", ">>"⟩ : Tbl) := Or.inl rfl

/-! non-vacuity: a table with a repeated name, warmed cache, second occurrence and last occurrence -/
def exT0 : Tbl := ⟨"name", ["name"],
  [("name", [Cell.str "a", Cell.str "b", Cell.str "a", Cell.str "c", Cell.str "a"])], none, "::", "<<", ">>"⟩
def exT : Tbl := (getCache exT0).1
#guard exT.cache.isSome
#guard scanLookup exT.indexCol "a" 1 0 == some 2 && scanLookup exT.indexCol "a" (-1) 0 == some 4 &&
    scanLookup exT.indexCol "a" 3 0 == none && scanLookup exT.indexCol "b" 0 1 == some 2

end Properties.C07
