import XModel.Unique
import XModel.Capstone
import XModel.ManagerC20
import XModel.ManagerC20Fn
import XModel.ManagerBisim2
import XModel.ManagerKnobShared
import XProofs.Properties.C01
/-!
# C20 — results do not depend on the build or the hash seed

The hash seed reaches the library only through the iteration order of sets, i.e. through the order in which
`find_taskids` starts its depth-first walks and follows adjacency lists: in the model, through the scheduler
parameter `sched`.  Proved on the executable manager (`XModel/Manager.lean`, the definitions the driver runs):

* `C20_set_value`, `C20_set_expr` — for an assignment in scope, *any two* legal schedules give the same container
  tree, the same definitions and the same indices, and the second completes whenever the first does;
* `C20_histories` — over whole histories of in-scope assignments and maintenance calls the two schedulers end in
  identical states (event log aside, which is the order itself); `C20_histories_per_call` — the same call by call
  (state after every call and error of every call), for managers that may also hold function tasks and knobs
  (scope `GoodRunR`, `XModel/ManagerBisim2.lean`).

* `C20_knob_runs_commute`, `C20_knob_runs_any_order`, `C20_knob_assignment_order_independent` — LINEAR-KNOB tasks
  (`XModel/ManagerKnobShared.lean`): on integer data two knob runs commute whatever targets they share, the triggered
  knobs of an assignment may be run in any two orders, and an assignment whose triggered tasks are all knobs gives the same
  container tree and the same remembered values under any two schedulers (no ordering constraint is needed at all, and
  both calls complete).  Not covered: triggered sets mixing knobs with expression / function tasks when targets are
  shared, non-int values, faults.

The scope is C01's (`Scope`): outside it — two tasks writing below one nested container and feeding each other,
known finding D1 — the result *does* depend on the order, in the model (`C20_order_matters_outside_scope`) and in
the code.  All theorems of this file are about the hash-seed half only (`_partial` in that sense, whatever their
names):  the equality of the Cython build and the interpreted build is not a statement about the
model; both builds are compared with the model and with each other by the check (transcripts over
{pure, compiled} × PYTHONHASHSEED).  Histories with errors inside `run_tasks` are compared only by the check: there the
two seeds need not raise the same error (`Properties.C03.C03_failing_orders_differ`); what the model guarantees then is
`Properties.C03.C03_assignment_any_outcome`.
-/
namespace Properties.C20
open Store Push Index Manager

theorem C20_order_independent_partial (sem : Sem) (free : List Step → Prop) (ts : List ETask) (σ σ' : Val)
    (hord : Unique.Ordered free ts)
    (hσ : ∀ t ∈ ts, ∃ v, eval sem σ t.expr = .ok v ∧ get σ t.target = .ok v)
    (hσ' : ∀ t ∈ ts, ∃ v, eval sem σ' t.expr = .ok v ∧ get σ' t.target = .ok v)
    (hfree : ∀ r, free r → get σ r = get σ' r) :
    ∀ t ∈ ts, get σ t.target = get σ' t.target :=
  Unique.consistent_unique sem free ts σ σ' hord hfree hσ hσ'

/-- writes to prefix-incomparable existing locations commute (the container-tree fact underneath) -/
theorem C20_writes_commute (p q : List Step) (v v1 v12 a b pa qb : Val) (hi : Incomparable p q)
    (hp : ∀ s ∈ p, s.canon) (hq : ∀ s ∈ q, s.canon) (hgp : get v p = .ok pa) (hgq : get v q = .ok qb)
    (h1 : set v p a = .ok v1) (h2 : set v1 q b = .ok v12) :
    ∃ v2, set v q b = .ok v2 ∧ set v2 p a = .ok v12 :=
  set_comm p q v v1 v12 a b pa qb hi hp hq hgp hgq h1 h2

/-- **`set_value(ref, value)`**: any two legal schedules — any two hash seeds — same contents, definitions, indices -/
theorem C20_set_value (sched1 sched2 : Sched) (s : MState) (p : Path) (v : Val) (hi : MInv s)
    (hc : Consistent s) (sc : Scope (preState s p) p)
    (hvs1 : ValidSched (gOf (preState s p).idx) (findTaskids (preState s p).idx (chainR p))
      (sched1 (findTaskids (preState s p).idx (chainR p))))
    (hvs2 : ValidSched (gOf (preState s p).idx) (findTaskids (preState s p).idx (chainR p))
      (sched2 (findTaskids (preState s p).idx (chainR p))))
    (s1 : MState) (hok : setValue sched1 s p v = (s1, none)) :
    ∃ s2, setValue sched2 s p v = (s2, none) ∧ s2.store = s1.store ∧ s2.defs = s1.defs ∧ s2.idx = s1.idx := by
  obtain ⟨s2, h, e1, e2, e3, _⟩ := setValue_sched_indep sched1 sched2 s p v hi hc sc hvs1 hvs2 s1 hok
  exact ⟨s2, h, e1, e2, e3⟩

/-- **`set_value(ref, expression)`** -/
theorem C20_set_expr (sched1 sched2 : Sched) (s : MState) (p : Path) (e : Expr) (hi : MInv s)
    (hc : Consistent s) (sc : Scope (defPart s p e) p)
    (hvs1 : ValidSched (gOf (defPart s p e).idx) (findTaskids (defPart s p e).idx (chainR p))
      (sched1 (findTaskids (defPart s p e).idx (chainR p))))
    (hvs2 : ValidSched (gOf (defPart s p e).idx) (findTaskids (defPart s p e).idx (chainR p))
      (sched2 (findTaskids (defPart s p e).idx (chainR p))))
    (s1 : MState) (hok : setExpr sched1 s p e = (s1, none)) :
    ∃ s2, setExpr sched2 s p e = (s2, none) ∧ s2.store = s1.store ∧ s2.defs = s1.defs ∧ s2.idx = s1.idx := by
  obtain ⟨s2, h, e1, e2, e3, _⟩ := setExpr_sched_indep sched1 sched2 s p e hi hc sc hvs1 hvs2 s1 hok
  exact ⟨s2, h, e1, e2, e3⟩

/-- **all histories** (FINAL state only; expression-task managers, completing assignments, no `register` / `load` /
    in-place operators — `GoodRun2`): the two schedulers end in the same state.  The call-by-call form over the wider
    class of histories is `C20_histories_per_call`. -/
theorem C20_histories (sched1 sched2 : Sched) (cs : List Call) (s : MState) (hi : MInv s) (hc : Consistent s)
    (hg : GoodRun2 sched1 sched2 s cs) : applyAllR sched2 s cs = applyAllR sched1 s cs :=
  history_sched_indep sched1 sched2 cs s hi hc hg

/-! outside the scope the order matters — in the model as in the code (known finding D1): the two members of
    `d['n']` of `Properties.C01.histD1`, run in the two possible orders -/
section witness
open Properties.C01 in
def afterDefs : MState := applyAll id Properties.C01.s1 (Properties.C01.histD1.take 2)
def order1 : Sched := fun l => l
def order2 : Sched := fun l => l.reverse
theorem C20_order_matters_outside_scope :
    get (setValue order1 afterDefs Properties.C01.nz (.int 5)).1.store Properties.C01.ny = .ok (.int 3) ∧
    get (setValue order2 afterDefs Properties.C01.nz (.int 5)).1.store Properties.C01.ny = .ok (.int 11) :=
  ⟨rfl, rfl⟩
end witness

/-- **expression AND function tasks**: the same order independence when the triggered tasks may be `FunctionTask`s
    (bodies of `target := expression` lines run in order, one node of the graph with declared dependencies and targets):
    any two legal schedules give the same container tree, definitions, indices and knob memories, and the second
    completes whenever the first does.  Scope: `ScopeF` (sound declarations, C01's function-task scope) and every
    location a triggered task writes readable before the assignment (true in every consistent state:
    `writeAndRun_sched_indepF_consistent`). -/
theorem C20_function_tasks (sched1 sched2 : Sched) (s : MState) (p : Path) (v : Val) (hi : MInv s)
    (sc : ScopeF s p)
    (hvs1 : ValidSched (gOf s.idx) (findTaskids s.idx (chainR p)) (sched1 (findTaskids s.idx (chainR p))))
    (hvs2 : ValidSched (gOf s.idx) (findTaskids s.idx (chainR p)) (sched2 (findTaskids s.idx (chainR p))))
    (hexist : ∀ t ∈ s.defs, t.id ∈ findTaskids s.idx (chainR p) → ∀ it ∈ itemsOf t, ∃ w, get s.store it.target = .ok w)
    (s1 : MState) (hok : writeAndRun sched1 s p v = (s1, none)) :
    ∃ s2, writeAndRun sched2 s p v = (s2, none) ∧ s2.store = s1.store ∧ s2.defs = s1.defs ∧ s2.idx = s1.idx ∧
      s2.frozen = s1.frozen ∧ s2.prev = s1.prev ∧ s2.faultIn = s1.faultIn :=
  writeAndRun_sched_indepF' sched1 sched2 s p v hi sc hvs1 hvs2 hexist s1 hok

/-- the same with every hypothesis a decidable test the driver can evaluate on a line of a history -/
theorem C20_function_tasks_decided (sched1 sched2 : Sched) (s : MState) (p : Path) (v : Val) (hi : MInv s)
    (hsc : scopeFB s p = true)
    (hv1 : validSchedule s.idx (chainR p) (sched1 (findTaskids s.idx (chainR p))) = true)
    (hv2 : validSchedule s.idx (chainR p) (sched2 (findTaskids s.idx (chainR p))) = true)
    (hex : targetsExistB s p = true)
    (s1 : MState) (hok : writeAndRun sched1 s p v = (s1, none)) :
    ∃ s2, writeAndRun sched2 s p v = (s2, none) ∧ s2.store = s1.store ∧ s2.defs = s1.defs ∧ s2.idx = s1.idx ∧
      s2.frozen = s1.frozen ∧ s2.prev = s1.prev ∧ s2.faultIn = s1.faultIn :=
  writeAndRun_sched_indepF_decided sched1 sched2 s p v hi hsc hv1 hv2 hex s1 hok

/-- non-vacuity: `c = a + b` next to the function task `#G : e := a*2 ; f := a+1`; the schedules `[#G, c]` and
    `[c, #G]` are both legal and the hypotheses hold -/
example : scopeFB C20FnExample.sG C20FnExample.da = true ∧ targetsExistB C20FnExample.sG C20FnExample.da = true :=
  ⟨C20FnExample.sG_hyps.1, C20FnExample.sG_hyps.2.1⟩

/-! ### outcomes call by call (C03's bisimulation at `s' = s`, `XModel/ManagerBisim2.lean`) -/

/-- **all histories, call by call**: one manager run through the same history under two schedulers (two hash seeds):
    the two lists of outcomes — the state after EVERY call (event log cleared per call, as the driver does) and the
    error EVERY call returned — are equal.  Scope `GoodRunR`: every call satisfies `CallOK'` at `s' = s`, i.e.
    register / unregister / load / refresh / cleanup / verify freely (managers may hold expression, function and knob
    tasks); an assignment or in-place operator if it raises before any task runs, or the two schedulers return the same
    order, or it is in the scope `ScopeT` (triggered tasks: expression / soundly declared function tasks), both orders are
    legal and it completes under the first.  Assignments that raise WHILE tasks run under two different orders are not
    covered — there the two seeds may raise different errors (`Properties.C03.C03_failing_orders_differ`). -/
theorem C20_histories_per_call (sched1 sched2 : Sched) (cs : List Call) (s : MState) (hi : MInv s)
    (hg : GoodRunR sched1 sched2 s cs) : outcomesR sched2 s cs = outcomesR sched1 s cs :=
  history_per_call sched1 sched2 cs s hi hg

/-- the same under the hypotheses of `C20_histories` themselves (`GoodRun2` and a consistent start): they are a
    special case of `GoodRunR` -/
theorem C20_histories_per_call_expr (sched1 sched2 : Sched) (cs : List Call) (s : MState) (hi : MInv s)
    (hc : Consistent s) (hg : GoodRun2 sched1 sched2 s cs) : outcomesR sched2 s cs = outcomesR sched1 s cs :=
  history_per_call_GoodRun2 sched1 sched2 cs s hi hc hg

/-- the final states agree (the conclusion of `C20_histories`, over the wider class `GoodRunR`) -/
theorem C20_histories_final_state (sched1 sched2 : Sched) (cs : List Call) (s : MState) (hi : MInv s)
    (hg : GoodRunR sched1 sched2 s cs) : applyAllR sched2 s cs = applyAllR sched1 s cs :=
  history_per_call_final sched1 sched2 cs s hi hg

/-- the indices after a call never depend on the scheduler — no hypothesis at all (`run_tasks` does not touch them) -/
theorem C20_indices_independent_of_order (sched1 sched2 : Sched) (s : MState) (c : Call) :
    (apply sched2 s c).1.idx = (apply sched1 s c).1.idx :=
  apply_idx_sched sched1 sched2 s c

/-- non-vacuity, with two genuinely different legal schedules: the manager of `Bisim2Example` (two expression
    definitions, a function task, a linear knob) under the seeds `id` and `fLast` (`#F` moved to the end), 18 calls;
    the event logs of the first call differ, the outcomes do not -/
example : GoodRunR id Bisim2Example.fLast Bisim2Example.sM Bisim2Example.hist := Bisim2Example.hist_two_seeds
example : outcomesR Bisim2Example.fLast Bisim2Example.sM Bisim2Example.hist =
    outcomesR id Bisim2Example.sM Bisim2Example.hist :=
  C20_histories_per_call id Bisim2Example.fLast Bisim2Example.hist Bisim2Example.sM Bisim2Example.sM_inv
    Bisim2Example.hist_two_seeds


/-! ### linear-knob tasks (XModel/ManagerKnobShared.lean) -/

/-- **two knob runs commute**: `F` a family of linear knobs (`KnobFamily`: distinct ids, canonical sources and targets, no
    knob target is a knob source; targets may be shared and repeated), integer data in `s` (`IntData`: remembered values,
    sources and targets of the family are ints), no armed fault, `K, K' ∈ F`.  Then `K.run(); K'.run()` and
    `K'.run(); K.run()` both complete and end in the same state in the sense of `KnobEquiv`: the SAME container tree
    (equality of values, so `get` agrees at every path), the same remembered value `lookPrev` for EVERY id, the same
    `idx / defs / frozen / faultIn` — whatever targets `K` and `K'` share.  Not compared: the association list `prev` itself
    and the event log, which record the order (`Manager.SharedExample.prev_lists_differ`).
    Outside: non-int values, injected faults (recovery is false for knobs, C18). -/
theorem C20_knob_runs_commute {F : List MTask} {s : MState} (hF : KnobFamily F) (hf : s.faultIn = none)
    (hd : IntData F s) {K K' : MTask} (hK : K ∈ F) (hK' : K' ∈ F) :
    ∃ s12 s21, (runTask s K).2 = none ∧ (runTask s K').2 = none ∧
      runTask (runTask s K).1 K' = (s12, none) ∧ runTask (runTask s K').1 K = (s21, none) ∧ KnobEquiv s12 s21 :=
  runTask_knob_comm hF hf hd hK hK'

/-- … read through the getters: the same value at every path and the same remembered value at every id -/
theorem C20_knob_runs_commute_getters {F : List MTask} {s : MState} (hF : KnobFamily F) (hf : s.faultIn = none)
    (hd : IntData F s) {K K' : MTask} (hK : K ∈ F) (hK' : K' ∈ F) :
    (∀ q, get (runTask (runTask s K).1 K').1.store q = get (runTask (runTask s K').1 K).1.store q) ∧
    (∀ id, lookPrev (runTask (runTask s K).1 K').1.prev id = lookPrev (runTask (runTask s K').1 K).1.prev id) := by
  obtain ⟨a, b, _, _, h1, h2, he⟩ := runTask_knob_comm hF hf hd hK hK'
  rw [h1, h2]
  exact ⟨he.get, he.prev⟩

/-- **the triggered knobs in any two orders** (the analogue of `OrderIndep.perm_run` for knob tasks): two lists of knobs of
    the family with the same members — in particular two permutations, `C20_knob_runs_permuted` — run from the same
    integer state both complete and end in the same state (`KnobEquiv`).  No hypothesis relates the order to the declared
    graph: knobs do not read what knobs write. -/
theorem C20_knob_runs_any_order {F : List MTask} {s : MState} (hF : KnobFamily F) (hf : s.faultIn = none)
    (hd : IntData F s) (l l' : List MTask) (hl : ∀ k ∈ l, k ∈ F) (hmem : ∀ k, k ∈ l ↔ k ∈ l') :
    ∃ s1 s2, runTasks s l = (s1, none) ∧ runTasks s l' = (s2, none) ∧ KnobEquiv s1 s2 :=
  runTasks_knobs_any_order hF hf hd l l' hl hmem

theorem C20_knob_runs_permuted {F : List MTask} {s : MState} (hF : KnobFamily F) (hf : s.faultIn = none)
    (hd : IntData F s) {l l' : List MTask} (hl : ∀ k ∈ l, k ∈ F) (hp : l.Perm l') :
    ∃ s1 s2, runTasks s l = (s1, none) ∧ runTasks s l' = (s2, none) ∧ KnobEquiv s1 s2 :=
  runTasks_knobs_perm hF hf hd hl hp

/-- **`set_value(ref, int)` whose triggered tasks are all knobs of the family**, in the style of `C20_set_value`: the
    hypotheses are on the state in which `set_value` writes (`preState s p`): no armed fault, integer data for `F`, `p` a
    canonical non-empty path holding an int and not a target of the family, every triggered id is the id of a knob of `F`,
    and each scheduler returns the triggered ids in SOME order (`∀ id, id ∈ sched L ↔ id ∈ L` — `ValidSched.mem`; neither
    `ValidSched.order` nor `.nodup` is needed).  If the call completes under the first scheduler it completes under the
    second and the two end in the same state (`KnobEquiv`: same tree, same `lookPrev` everywhere, same
    `idx / defs / frozen / faultIn`).  `C20_knob_assignment_completes` adds completion of both when `p` has no definition.
    Outside: triggered sets that contain an expression / function task (with pairwise incomparable targets those are
    `C20_histories_per_call`'s and C01's mixed scope; with shared targets nothing is proved), non-int values, faults. -/
theorem C20_knob_assignment_order_independent (sched1 sched2 : Sched) {F : List MTask} (hF : KnobFamily F) (s : MState)
    (p : Path) (v : Int) (hf : (preState s p).faultIn = none) (hd : IntData F (preState s p)) (hcp : canonPath p)
    (hne : p ≠ []) (hpint : ∃ x, get (preState s p).store p = .ok (.int x)) (hpt : p ∉ famTargets F)
    (hfam : ∀ id ∈ findTaskids (preState s p).idx (chainR p), ∃ k ∈ F, lookDef (preState s p).defs id = some k)
    (h1 : ∀ id, id ∈ sched1 (findTaskids (preState s p).idx (chainR p)) ↔ id ∈ findTaskids (preState s p).idx (chainR p))
    (h2 : ∀ id, id ∈ sched2 (findTaskids (preState s p).idx (chainR p)) ↔ id ∈ findTaskids (preState s p).idx (chainR p))
    (s1 : MState) (hok : setValue sched1 s p (.int v) = (s1, none)) :
    ∃ s2, setValue sched2 s p (.int v) = (s2, none) ∧ KnobEquiv s1 s2 :=
  setValue_knob_sched_indep sched1 sched2 hF s p v hf hd hcp hne hpint hpt hfam h1 h2 s1 hok

/-- the same for two LEGAL schedules (`ValidSched`, as in `C20_set_value`) -/
theorem C20_knob_assignment_legal_schedules (sched1 sched2 : Sched) {F : List MTask} (hF : KnobFamily F) (s : MState)
    (p : Path) (v : Int) (hf : (preState s p).faultIn = none) (hd : IntData F (preState s p)) (hcp : canonPath p)
    (hne : p ≠ []) (hpint : ∃ x, get (preState s p).store p = .ok (.int x)) (hpt : p ∉ famTargets F)
    (hfam : ∀ id ∈ findTaskids (preState s p).idx (chainR p), ∃ k ∈ F, lookDef (preState s p).defs id = some k)
    (hvs1 : ValidSched (gOf (preState s p).idx) (findTaskids (preState s p).idx (chainR p))
      (sched1 (findTaskids (preState s p).idx (chainR p))))
    (hvs2 : ValidSched (gOf (preState s p).idx) (findTaskids (preState s p).idx (chainR p))
      (sched2 (findTaskids (preState s p).idx (chainR p))))
    (s1 : MState) (hok : setValue sched1 s p (.int v) = (s1, none)) :
    ∃ s2, setValue sched2 s p (.int v) = (s2, none) ∧ KnobEquiv s1 s2 :=
  setValue_knob_sched_indep sched1 sched2 hF s p v hf hd hcp hne hpint hpt hfam hvs1.mem hvs2.mem s1 hok

/-- when `p` has no definition of its own, BOTH calls complete (completion is a conclusion) -/
theorem C20_knob_assignment_completes (sched1 sched2 : Sched) {F : List MTask} (hF : KnobFamily F) (s : MState)
    (p : Path) (v : Int) (hnodef : lookDef s.defs p = none) (hf : s.faultIn = none) (hd : IntData F s)
    (hcp : canonPath p) (hne : p ≠ []) (hpint : ∃ x, get s.store p = .ok (.int x)) (hpt : p ∉ famTargets F)
    (hfam : ∀ id ∈ findTaskids s.idx (chainR p), ∃ k ∈ F, lookDef s.defs id = some k)
    (h1 : ∀ id, id ∈ sched1 (findTaskids s.idx (chainR p)) ↔ id ∈ findTaskids s.idx (chainR p))
    (h2 : ∀ id, id ∈ sched2 (findTaskids s.idx (chainR p)) ↔ id ∈ findTaskids s.idx (chainR p)) :
    ∃ s1 s2, setValue sched1 s p (.int v) = (s1, none) ∧ setValue sched2 s p (.int v) = (s2, none) ∧
      KnobEquiv s1 s2 :=
  setValue_knob_sched_total sched1 sched2 hF s p v hnodef hf hd hcp hne hpint hpt hfam h1 h2

/-- … with every hypothesis a Boolean test on the state (`knobSchedIndepB`: the family is the set of triggered tasks); the
    test is not run by the driver -/
theorem C20_knob_assignment_decided (sched1 sched2 : Sched) (s : MState) (p : Path) (v : Int)
    (h : knobSchedIndepB sched1 sched2 s p = true) :
    ∃ s1 s2, setValue sched1 s p (.int v) = (s1, none) ∧ setValue sched2 s p (.int v) = (s2, none) ∧
      KnobEquiv s1 s2 :=
  setValue_knob_sched_decided sched1 sched2 s p v h

/-- non-vacuity (`Manager.SharedExample`): at `t1` the assignment `d.x := v` triggers three knobs — `#K1: a += 2Δx`,
    `#K4: a += 7Δx, b -= Δx` on the same source, and `#K2: a += 3Δy, b += Δy`, which declares `d.x` as a dependency and
    finds `Δ = 0` — all sharing `d.a`; the schedulers `id` and `rev` run them as `[#K4, #K2, #K1]` and `[#K1, #K2, #K4]`;
    the test holds, the trees are equal, the association lists of remembered values are not -/
example : knobSchedIndepB id SharedExample.rev SharedExample.t1 (SharedExample.d "x") = true := SharedExample.decided_t1
example : knobTriggered id SharedExample.t1 (SharedExample.d "x") = .ok [SharedExample.K4, SharedExample.K2x, SharedExample.K1] ∧
    knobTriggered SharedExample.rev SharedExample.t1 (SharedExample.d "x") =
      .ok [SharedExample.K1, SharedExample.K2x, SharedExample.K4] := ⟨SharedExample.trig_t1, SharedExample.trig_t1_rev⟩
example : (setValue id SharedExample.t1 (SharedExample.d "x") (.int 5)).1.store =
    (setValue SharedExample.rev SharedExample.t1 (SharedExample.d "x") (.int 5)).1.store := rfl
example : KnobFamily SharedExample.F ∧ IntData SharedExample.F SharedExample.s1 ∧ SharedExample.K1 ∈ SharedExample.F ∧
    SharedExample.K2 ∈ SharedExample.F :=
  ⟨SharedExample.family_F, SharedExample.at_s1.inv.data, by simp [SharedExample.F], by simp [SharedExample.F]⟩

end Properties.C20
