import XModel.Unique
import XModel.Capstone
/-!
# C20 — results do not depend on the build or the hash seed
The hash seed reaches the library only through the iteration order of sets, i.e. through the order in
which the triggered tasks are listed.  `C20_order_independent_partial`: two runs that both end in a
state where every definition holds (which `Capstone.setValue_consistent` establishes for *every*
legal order of the start set and of the adjacency lists, under H1–H4) and that agree on the locations
no task writes, agree on every defined location.  Equality of the Cython build and the interpreted
build cannot be a theorem about the model: both are compared with the model and with each other.
-/
namespace Properties.C20
open Store Push

theorem C20_order_independent_partial (sem : Sem) (free : List Step → Prop) (ts : List ETask) (σ σ' : Val)
    (hord : Unique.Ordered free ts)
    (hσ : ∀ t ∈ ts, ∃ v, eval sem σ t.expr = .ok v ∧ get σ t.target = .ok v)
    (hσ' : ∀ t ∈ ts, ∃ v, eval sem σ' t.expr = .ok v ∧ get σ' t.target = .ok v)
    (hfree : ∀ r, free r → get σ r = get σ' r) :
    ∀ t ∈ ts, get σ t.target = get σ' t.target :=
  Unique.consistent_unique sem free ts σ σ' hord hfree hσ hσ'

end Properties.C20
