import XModel.TableSel
import XModel.TableSpan
import XModel.TableTuple
import XModel.TableFast
import XModel.TableRangeF
/-!
# C08 — row selection follows the documented selector semantics, in table order
Model: `XModel/Table.lean` (`getRowIndices`, `getRegexpIndices`, `indicesOf`, `maskOf`, `rowsOf`).
The model has no order oracle (no set iteration): independence of the hash seed is by construction,
and the correspondence run is repeated under several `PYTHONHASHSEED`s.

**Which tree.**  The model transcribes `/repo` as it stands now: the pinned commit plus the `fix:` commits recorded in
`/verif/KNOWN_FINDINGS.json` (status `fixed`).  Where a theorem below rests on repaired code — the sorted regexp-count loop, `count_dict.get` — it is false of
the tree as first pinned; the witnesses are kept (defects D10–D12).
**What has no formal content here.**  `Match := String → Bool` is an oracle for `re.fullmatch(name, IGNORECASE)`: "case-insensitive
full-match regular expression" is the harness's job (it computes the match table with Python's `re` and hands it to the
model on every line).  Value ranges: `C08_value_range(_is)` are about integer columns and integer bounds (the slice selector,
`valueRange`: anything else a `TypeError` there); columns and bounds that are numbers of any kind — floats, NaN, the
infinities, a fractional bound on an integer column — are the selector `Sel.range` (`valueRangeF`), specified by
`C08_value_range_any_order` / `C08_value_range_numbers` and tied to the integer ones by
`C08_value_range_floats_agree_on_ints`; the driver hands a range to `Sel.range` whenever the column or a bound is not
an integer.  Numbers are compared by exact value (`XModel/TableNum.lean`), not through Lean's opaque `Float`.  `C08_count_selector*` take the parse of the selector
as a hypothesis (`hsplit`); the parse itself is characterised in C07 (`split_label`).  Known finding D24 (exact-label fast path
of count selectors) is characterised exactly by `C08_count_selector_documented_iff`.
-/
namespace Properties.C08
open TableM Cache

/-- a plain pattern (no `::count`): the ascending positions whose name matches, shifted -/
theorem C08_pattern_plain (t : Tbl) (m : Match) (sel name : String) (offset : Int)
    (h : splitNameCountOffset t sel = .ok (name, none, offset)) :
    (getRegexpIndices t m sel).2 =
      .ok (((enumFrom 0 t.indexCol).filter (fun p => m p.2)).map (fun p => (p.1 : Int) + offset)) := by
  simp [getRegexpIndices, h]

/-- the same, as a specification: strictly ascending (table order), and a position is listed exactly when the
    name of a row matches and the position is that row shifted by the offset -/
theorem C08_pattern_plain_spec (t : Tbl) (m : Match) (sel name : String) (offset : Int)
    (h : splitNameCountOffset t sel = .ok (name, none, offset)) :
    ∃ l, (getRegexpIndices t m sel).2 = .ok l ∧ l.Pairwise (· < ·) ∧
      ∀ j, j ∈ l ↔ ∃ (i : Nat) (nm : String), t.indexCol[i]? = some nm ∧ m nm = true ∧ j = (i : Int) + offset :=
  ⟨_, C08_pattern_plain t m sel name offset h, positionsWhere_spec t.indexCol m offset⟩

/-- **`'regex::count'`** (when the literal text before `::` is not itself a row label with such an occurrence — that
    case takes the exact-label fast path, known finding D24): the positions of the `count`-th occurrence (negative
    counts from the last) of *every* matching name, ascending, shifted by the offset — independent of any iteration
    order -/
theorem C08_count_selector (t : Tbl) (h : Coherent t) (m : Match) (sel name : String) (c offset : Int)
    (hsplit : splitNameCountOffset t sel = .ok (name, some c, offset))
    (hfast : scanLookup t.indexCol name c offset = none) :
    ∃ l, (getRegexpIndices t m sel).2 = .ok l ∧ l.Pairwise (· ≤ ·) ∧
      ∀ j, j ∈ l ↔ ∃ (nn : String) (i : Int), nn ∈ t.indexCol ∧ m nn = true ∧
        scanLookup t.indexCol nn c 0 = some i ∧ j = i + offset := by
  have hs := getRowCache_scan t h name c offset
  have hk := getRowCache_keeps t h name (some c) offset
  unfold getRegexpIndices
  simp only [hsplit]
  generalize getRowCache t name (some c) offset = r at hs hk
  obtain ⟨t1, x⟩ := r
  simp only at hs hk
  subst hs
  rw [hfast]
  simp only
  obtain ⟨t', he, _⟩ := regexp_loop_spec c (firstOccNames t1.indexCol m) t1 [] hk.1
  rw [he]
  simp only [List.nil_append]
  rw [hk.indexCol]
  obtain ⟨hsorted, hmem⟩ := sortInts_spec ((firstOccNames t.indexCol m).filterMap (fun nn => scanLookup t.indexCol nn c 0))
  refine ⟨_, rfl, ?_, ?_⟩
  · exact List.Pairwise.map _ (fun a b hab => by omega) hsorted
  · intro j
    simp only [List.mem_map, hmem, List.mem_filterMap, mem_firstOccNames]
    constructor
    · rintro ⟨i, ⟨nn, ⟨hnn, hm⟩, hsc⟩, rfl⟩
      exact ⟨nn, i, hnn, hm, hsc, rfl⟩
    · rintro ⟨nn, i, hnn, hm, hsc, rfl⟩
      exact ⟨i, ⟨nn, ⟨hnn, hm⟩, hsc⟩, rfl⟩

/-- a Boolean mask selects exactly the positions holding `True`, ascending -/
theorem C08_mask_selector (t : Tbl) (m : String → Match) (l : List Bool) (hne : l ≠ []) :
    ∃ r, getRowIndices t m (.bools l) = (t, .ok (.idx r)) ∧ r.Pairwise (· < ·) ∧
      ∀ j, j ∈ r ↔ ∃ i : Nat, l[i]? = some true ∧ j = (i : Int) := by
  have hs := positionsWhere_spec l (fun b => b) 0
  refine ⟨positionsWhere l (fun b => b) 0, ?_, hs.1, ?_⟩
  · cases l with
    | nil => exact absurd rfl hne
    | cons b bs =>
      simp only [getRowIndices, List.isEmpty_cons, Bool.false_eq_true, if_false, positionsWhere]
      congr 3
  · intro j
    rw [hs.2 j]
    constructor
    · rintro ⟨i, x, hx, hq, rfl⟩
      have hq' : x = true := hq
      subst hq'
      exact ⟨i, hx, by simp⟩
    · rintro ⟨i, hx, rfl⟩
      exact ⟨i, true, hx, rfl, by simp⟩

/-- the inclusive value range `lo <= col <= hi`, either bound optional -/
def inRange (lo hi : Option Int) : Cell → Bool
  | .int v => (match lo with | some l => decide (l ≤ v) | none => true) &&
              (match hi with | some h => decide (v ≤ h) | none => true)
  | _ => false

def boundOf : Option Int → Bound
  | none => .none
  | some i => .int i

/-- the selector `lo:hi:'col'` (bounds not strings, not both absent) is `valueRange` on that column -/
theorem C08_value_range_is (t : Tbl) (m : String → Match) (lo hi : Option Int) (cname : String) (col : List Cell)
    (hcol : t.col cname = some col) (hb : lo.isSome ∨ hi.isSome) :
    getRowIndices t m (.slice (boundOf lo) (boundOf hi) (.str cname)) =
      (t, valueRange col (lo.map Cell.int) (hi.map Cell.int)) := by
  cases lo <;> cases hi <;> simp_all [getRowIndices, boundOf]

/-- a value range on an integer column selects exactly the rows with `lo <= col <= hi` (either bound
    optional), ascending -/
theorem C08_value_range (lo hi : Option Int) (col : List Cell) (hint : ∀ x ∈ col, ∃ i, x = Cell.int i) :
    ∃ r, valueRange col (lo.map Cell.int) (hi.map Cell.int) = .ok (.idx r) ∧
      r.Pairwise (· < ·) ∧
      ∀ j, j ∈ r ↔ ∃ (i : Nat) (v : Int), col[i]? = some (Cell.int v) ∧
        (∀ l, lo = some l → l ≤ v) ∧ (∀ h, hi = some h → v ≤ h) ∧ j = (i : Int) := by
  have hs := positionsWhere_spec col (inRange lo hi) 0
  have hok : ∀ v : Int, rangeOk (lo.map Cell.int) (hi.map Cell.int) (.int v) = some (inRange lo hi (.int v)) := by
    intro v
    cases lo <;> cases hi <;> simp [rangeOk, cellLe, inRange]
  refine ⟨positionsWhere col (inRange lo hi) 0, ?_, hs.1, ?_⟩
  · unfold valueRange
    have hall : col.all (fun x => (rangeOk (lo.map Cell.int) (hi.map Cell.int) x).isSome) = true := by
      rw [List.all_eq_true]
      intro x hx
      obtain ⟨i, rfl⟩ := hint x hx
      rw [hok]; rfl
    rw [if_pos hall]
    congr 2
    unfold positionsWhere
    have : (enumFrom 0 col).filter (fun p => (rangeOk (lo.map Cell.int) (hi.map Cell.int) p.2).getD false) =
        (enumFrom 0 col).filter (fun p => inRange lo hi p.2) := by
      apply List.filter_congr
      intro p hp
      obtain ⟨i, x⟩ := p
      have hx : x ∈ col := List.mem_of_getElem? ((mem_enumFrom col 0 i x).mp hp).2
      obtain ⟨v, rfl⟩ := hint x hx
      simp only [hok]; rfl
    rw [this]
    apply List.map_congr_left
    intro p _
    simp
  · intro j
    rw [hs.2 j]
    constructor
    · rintro ⟨i, x, hx, hq, rfl⟩
      obtain ⟨v, rfl⟩ := hint x (List.mem_of_getElem? hx)
      refine ⟨i, v, hx, ?_, ?_, by simp⟩
      · intro l hl; subst hl; simp [inRange] at hq; exact hq.1
      · intro h hh; subst hh; simp [inRange] at hq; exact hq.2
    · rintro ⟨i, v, hx, h1, h2, rfl⟩
      refine ⟨i, .int v, hx, ?_, by simp⟩
      cases lo <;> cases hi <;> simp_all [inRange]

/-! ### value ranges over numbers of any kind: float columns, NaN, infinities, fractional bounds (XModel/TableRangeF.lean) -/

/-- **a value range over ANY comparison of cells** (`le a b = none`: the comparison raises): when every comparison the
    selection needs is defined, the selected positions are — strictly ascending — exactly the positions `i` with
    `le lo col[i] = some true` and `le col[i] hi = some true`, for every bound that is given.  Nothing is assumed of `le`
    (no reflexivity, transitivity, totality), so orders with unordered elements — IEEE's `<=` with NaN — are instances;
    `valueRange` is the instance `cellLe` (`TableM.valueRange_eq_by`, by `rfl`), `valueRangeF` the instance `cellLeF` -/
theorem C08_value_range_any_order (le : Cell → Cell → Option Bool) (col : List Cell) (lo hi : Option Cell)
    (hdef : ∀ x ∈ col, (∀ l, lo = some l → (le l x).isSome = true) ∧ (∀ h, hi = some h → (le x h).isSome = true)) :
    ∃ r, valueRangeBy le col lo hi = .ok (.idx r) ∧ r.Pairwise (· < ·) ∧
      ∀ j, j ∈ r ↔ ∃ (i : Nat) (x : Cell), col[i]? = some x ∧
        (∀ l, lo = some l → le l x = some true) ∧ (∀ h, hi = some h → le x h = some true) ∧ j = (i : Int) :=
  valueRangeBy_spec le col lo hi hdef

/-- and it fails exactly when some comparison it needs is undefined, with `TypeError` (a string cell in the column:
    what numpy raises for `'s0' >= 1` on an object column) -/
theorem C08_value_range_any_order_error (le : Cell → Cell → Option Bool) (col : List Cell) (lo hi : Option Cell) (e : TErr) :
    valueRangeBy le col lo hi = .error e ↔ e = .typeError ∧ ∃ x ∈ col, rangeOkBy le lo hi x = none :=
  valueRangeBy_error_iff le col lo hi e

/-- the selector `lo:hi:'col'` whose bounds are numbers of any kind (`Sel.range`, a bound given) is `valueRangeF` — the
    instance of `valueRangeBy` at `cellLeF` — on that column -/
theorem C08_value_range_numbers_is (t : Tbl) (m : String → Match) (lo hi : Option Cell) (cname : String) (col : List Cell)
    (hcol : t.col cname = some col) (hb : lo.isSome = true ∨ hi.isSome = true) :
    getRowIndices t m (.range lo hi cname) = (t, valueRangeBy cellLeF col lo hi) :=
  getRowIndices_range t m lo hi cname col hcol hb

/-- **a value range on a column of numbers of any kind** (integer cells, float cells incl. NaN and the infinities; the
    bounds likewise): exactly the rows whose number `v` satisfies `lo <= v` and `v <= hi` in IEEE's sense (`numLe`: false
    as soon as a NaN is involved, `-inf` / `+inf` at the ends, finite values by their exact value), ascending -/
theorem C08_value_range_numbers (col : List Cell) (lo hi : Option Cell)
    (hcol : ∀ x ∈ col, (cellNum x).isSome = true)
    (hlo : ∀ l, lo = some l → (cellNum l).isSome = true) (hhi : ∀ h, hi = some h → (cellNum h).isSome = true) :
    ∃ r, valueRangeF col lo hi = .ok (.idx r) ∧ r.Pairwise (· < ·) ∧
      ∀ j, j ∈ r ↔ ∃ (i : Nat) (x : Cell) (v : Num), col[i]? = some x ∧ cellNum x = some v ∧
        (∀ l, lo = some l → ∃ vl, cellNum l = some vl ∧ numLe vl v = true) ∧
        (∀ h, hi = some h → ∃ vh, cellNum h = some vh ∧ numLe v vh = true) ∧ j = (i : Int) :=
  valueRangeF_spec col lo hi hcol hlo hhi

/-- **the general range agrees with the integer one on integers**: on an integer column the slice selector with integer
    bounds and the general range selector return the same (also the `KeyError` of an unknown column and the form without
    bounds); `valueRangeF = valueRange` there; and wherever `valueRange` answers at all, `valueRangeF` gives that answer —
    so `C08_value_range` transfers, and "try `valueRange`, fall back to `valueRangeF` on `TypeError`" is `valueRangeF` -/
theorem C08_value_range_floats_agree_on_ints :
    (∀ (t : Tbl) (m : String → Match) (lo hi : Option Int) (cname : String),
      (∀ col, t.col cname = some col → ∀ x ∈ col, ∃ i, x = Cell.int i) →
      getRowIndices t m (.slice (boundOf lo) (boundOf hi) (.str cname)) =
        getRowIndices t m (.range (lo.map Cell.int) (hi.map Cell.int) cname)) ∧
    (∀ (lo hi : Option Int) (col : List Cell), (∀ x ∈ col, ∃ i, x = Cell.int i) →
      valueRangeF col (lo.map Cell.int) (hi.map Cell.int) = valueRange col (lo.map Cell.int) (hi.map Cell.int)) ∧
    (∀ (col : List Cell) (lo hi : Option Cell) (ix : Ix), valueRange col lo hi = .ok ix → valueRangeF col lo hi = .ok ix) ∧
    (∀ (col : List Cell) (lo hi : Option Cell),
      (match valueRange col lo hi with
       | .error .typeError => valueRangeF col lo hi
       | r => r) = valueRangeF col lo hi) := by
  refine ⟨?_, valueRangeF_eq_valueRange_of_ints, valueRangeF_of_valueRange_ok, valueRangeX_eq⟩
  intro t m lo hi cname hint
  have h := getRowIndices_slice_eq_range t m lo hi cname hint
  cases lo <;> cases hi <;> exact h

/-- **an element unordered with the bounds is never selected**, for any comparison: if the cell at position `i` does not
    compare `some true` with any cell, neither as the smaller nor as the larger one, and a bound is given, `i` is not selected -/
theorem C08_value_range_unordered_never_selected (le : Cell → Cell → Option Bool) (col : List Cell) (lo hi : Option Cell)
    (hb : lo.isSome = true ∨ hi.isSome = true) (i : Nat) (x : Cell) (hx : col[i]? = some x)
    (hun : ∀ b, le b x ≠ some true ∧ le x b ≠ some true) (r : List Int)
    (hok : valueRangeBy le col lo hi = .ok (.idx r)) : (i : Int) ∉ r :=
  unordered_never_selected le col lo hi hb i x hx hun r hok

/-- **a NaN row is in no value range that has a bound**: `v <= v` fails for the cell's number — which says `v` is NaN
    (`TableM.numLe_self_eq_false_iff`; the token `nan` reads as NaN: `cellNum (.flt "nan") = some .nan`) -/
theorem C08_value_range_nan_never_selected (col : List Cell) (lo hi : Option Cell)
    (hb : lo.isSome = true ∨ hi.isSome = true) (i : Nat) (x : Cell) (v : Num) (hx : col[i]? = some x)
    (hv : cellNum x = some v) (hnan : numLe v v = false) (r : List Int)
    (hok : valueRangeF col lo hi = .ok (.idx r)) : (i : Int) ∉ r :=
  nan_never_selected col lo hi hb i x v hx hv hnan r hok

/-- a NaN bound selects nothing -/
theorem C08_value_range_nan_bound (col : List Cell) (lo hi : Option Cell) (b : Cell) (hbn : cellNum b = some .nan)
    (hb : lo = some b ∨ hi = some b) (r : List Int) (hok : valueRangeF col lo hi = .ok (.idx r)) : r = [] :=
  nan_bound_selects_nothing col lo hi b hbn hb r hok

/-- the same selection through Lean's IEEE doubles (`Float.ofScientific`, `Float.le`) is one more instance of
    `C08_value_range_any_order`; nothing about IEEE arithmetic enters the proof -/
theorem C08_value_range_ieee (col : List Cell) (lo hi : Option Cell)
    (hcol : ∀ x ∈ col, (cellNum x).isSome = true)
    (hlo : ∀ l, lo = some l → (cellNum l).isSome = true) (hhi : ∀ h, hi = some h → (cellNum h).isSome = true) :
    ∃ r, valueRangeBy cellLeIEEE col lo hi = .ok (.idx r) ∧ r.Pairwise (· < ·) ∧
      ∀ j, j ∈ r ↔ ∃ (i : Nat) (x : Cell), col[i]? = some x ∧
        (∀ l, lo = some l → cellLeIEEE l x = some true) ∧ (∀ h, hi = some h → cellLeIEEE x h = some true) ∧
        j = (i : Int) :=
  valueRangeIEEE_spec col lo hi hcol hlo hhi

section range_instances
attribute [local instance] TableM.decEqRangeResult

/-- the hypotheses of `C08_value_range_numbers` hold of a float column with NaN and both infinities, an integer lower
    bound and a fractional upper bound; the selection is rows 1 and 3 (NaN, `inf`, `-inf` and `2.75` left out) -/
example : (∀ x ∈ [Cell.flt "nan", .flt "1.0", .flt "inf", .flt "2.5", .flt "-inf", .flt "2.75"], (cellNum x).isSome = true) ∧
    (cellNum (.int 0)).isSome = true ∧ (cellNum (.flt "2.5")).isSome = true ∧
    valueRangeF [.flt "nan", .flt "1.0", .flt "inf", .flt "2.5", .flt "-inf", .flt "2.75"] (some (.int 0)) (some (.flt "2.5")) =
      .ok (.idx [1, 3]) := by decide

/-- the hypotheses of `C08_value_range_nan_never_selected`: the token `nan` reads as a number that is not `<=` itself -/
example : cellNum (.flt "nan") = some .nan ∧ numLe .nan .nan = false ∧
    valueRangeF [.flt "nan", .flt "0.0"] none (some (.flt "inf")) = .ok (.idx [1]) ∧
    valueRangeF [.flt "nan", .flt "0.0"] (some (.flt "-inf")) none = .ok (.idx [1]) := by decide

/-- what the integer model could not express: a fractional bound on an integer column; the one-sided forms with an
    infinite bound; a `TypeError` where a cell is a string -/
example : valueRangeF [.int 0, .int 1, .int 2, .int 3] (some (.flt "0.5")) (some (.flt "2.5")) = .ok (.idx [1, 2]) ∧
    valueRangeF [.int 0, .int 1] (some (.flt "inf")) none = .ok (.idx []) ∧
    valueRangeF [.int 0, .str "s0"] (some (.int 0)) none = .error .typeError ∧
    valueRange [.flt "1.0"] (some (.int 0)) none = .error .typeError := by decide

/-- `C08_value_range_unordered_never_selected` on a comparison that is not IEEE's: `TableM.chainLe` orders the integer
    cells except `9`, which is comparable with nothing -/
example : (∀ b, chainLe b (.int 9) ≠ some true ∧ chainLe (.int 9) b ≠ some true) ∧
    valueRangeBy chainLe [.int 2, .int 9, .int 0, .int 1] (some (.int 1)) none = .ok (.idx [0, 3]) := by
  refine ⟨fun b => ⟨?_, by simp [chainLe]⟩, by decide⟩
  unfold chainLe; split <;> simp_all

/-- the composition law and the mask / indices / rows theorems are stated for every `Sel`, so they hold of `Sel.range`
    as they stand; an instance: the float range first, then a position inside the view -/
example : (rowsOf ⟨"name", ["name", "z"],
      [("name", [.str "a", .str "b", .str "c"]), ("z", [.flt "nan", .flt "2.0", .flt "-inf"])], none, "::", "<<", ">>"⟩
    (fun _ _ => false) (.tuple [.range none (some (.flt "2.5")) "z", .pos 1])).2.toOption.map (·.indexCol) = some ["c"] := by
  decide

end range_instances

/-- **`rows[s1, s2] = rows[s1].rows[s2]` on the data**: the rows at positions `ps2` of the view at positions
    `ps1` are the rows at positions `ps1[ps2]` of the table -/
theorem C08_compose (t : Tbl) (n : Nat) (hfull : ∀ p ∈ t.data, p.2.length = n) (ps1 ps2 : List Nat)
    (h1 : ∀ j ∈ ps1, j < n) :
    selectRows (selectRows t ps1) ps2 = selectRows t (ps2.filterMap (fun k => ps1[k]?)) :=
  selectRows_comp t n hfull ps1 ps2 h1

/-- `rows.mask[sel]` and `rows[sel]` are computed from `rows.indices[sel]`: they describe the same rows -/
theorem C08_mask_rows_from_indices (t : Tbl) (m : String → Match) (s : Sel) (l : List Int) (t1 : Tbl)
    (h : indicesOf t m s = (t1, .ok l)) (ps : List Nat)
    (hp : normAll t1.nrows l = .ok ps) :
    (maskOf t m s).2 = .ok ((List.range t1.nrows).map (fun k => ps.contains k)) ∧
    (rowsOf t m s).2 = .ok (selectRows t1 ps) := by
  constructor
  · unfold maskOf; simp only [h]; rw [hp]
  · unfold rowsOf; simp only [h]; rw [hp]

/-! ### name spans `t.rows['a':'b']`, `t.rows['a':'b':'col']` (XModel/TableSpan.lean) -/

/-- a span between two row selectors of the index column (`name`, `name::count`, `name<<k`, `name>>k`, resolved like a
    single-row look-up): exactly the positions from the start row up to AND INCLUDING the stop row, ascending, each
    once (for resolved positions that are not negative; the general clamped form is `C08_name_span_general`) -/
theorem C08_name_span (t : Tbl) (h : Coherent t) (m : String → Match) (sa sb : String) (c : Bound)
    (hc : c = .none ∨ c = .str t.index) (ia ib : Int)
    (ha : (getRowIndex t (.name sa)).2 = .ok ia) (hb : (getRowIndex t (.name sb)).2 = .ok ib)
    (hia : 0 ≤ ia) (hib : 0 ≤ ib) :
    ∃ l, (indicesOf t m (.slice (.str sa) (.str sb) c)).2 = .ok l ∧ l.Pairwise (· < ·) ∧
      ∀ j : Int, j ∈ l ↔ ia ≤ j ∧ j ≤ ib ∧ j < (t.nrows : Int) :=
  nameSpan_by_name t h m sa sb c hc ia ib ha hb hia hib

/-- a span whose bounds are looked up in another column: from the first row whose cell equals the start value to the
    first row whose cell equals the stop value, inclusive -/
theorem C08_name_span_by_column (t : Tbl) (h : Coherent t) (m : String → Match) (va vb cn : String) (cc : List Cell)
    (hne : cn ≠ t.index) (hcc : t.col cn = some cc) (ia ib : Int)
    (ha : rowWhereCol cc (.str va) = .ok ia) (hb : rowWhereCol cc (.str vb) = .ok ib) :
    ∃ l, (indicesOf t m (.slice (.str va) (.str vb) (.str cn))).2 = .ok l ∧ l.Pairwise (· < ·) ∧
      ∀ j : Int, j ∈ l ↔ ia ≤ j ∧ j ≤ ib ∧ j < (t.nrows : Int) :=
  nameSpan_by_col t h m va vb cn cc hne hcc ia ib ha hb

/-- every span (absent bounds, offsets that leave the table, integer next to string bounds): the selection is the
    Python slice `slice(ia, ib+1)` of the resolved positions — an ascending block described by `spanBlock_spec` — or the
    error of the first bound that does not resolve -/
theorem C08_name_span_general (t : Tbl) (h : Coherent t) (m : String → Match) (a b c : Bound)
    (hs : (isStrB a || isStrB b) = true) :
    (indicesOf t m (.slice a b c)).2 =
      (match spanResolve t a b c with
       | .error e => .error e
       | .ok p => .ok (spanBlock t.nrows p)) ∧
    ∀ p, (spanBlock t.nrows p).Pairwise (· < ·) ∧
      ∀ j : Int, j ∈ spanBlock t.nrows p ↔
        (sliceEnd t.nrows 0 p.1 : Int) ≤ j ∧ j < (sliceEnd t.nrows t.nrows (p.2.map (· + 1)) : Int) :=
  ⟨(indicesOf_span t h m a b c hs).2, fun p => spanBlock_spec t.nrows p⟩

/-- a bound that does not resolve: `rows.indices`, `rows.mask` and `rows[...]` all fail with that look-up's error -/
theorem C08_name_span_error (t : Tbl) (h : Coherent t) (m : String → Match) (a b c : Bound)
    (hs : (isStrB a || isStrB b) = true) (e : TErr) (hres : spanResolve t a b c = .error e) :
    (indicesOf t m (.slice a b c)).2 = .error e ∧ (maskOf t m (.slice a b c)).2 = .error e ∧
    (rowsOf t m (.slice a b c)).2 = .error e :=
  let r := nameSpan_error t h m a b c hs e hres
  ⟨r.2.1, r.2.2.1, r.2.2.2⟩

/-- the selected table's index column is the contiguous sub-list of the source's -/
theorem C08_name_span_rows (t : Tbl) (h : Coherent t) (hr : Rect t) (m : String → Match) (a b c : Bound)
    (hs : (isStrB a || isStrB b) = true) (ia ib : Nat)
    (hres : spanResolve t a b c = .ok (some (ia : Int), some (ib : Int))) :
    ∃ r, (rowsOf t m (.slice a b c)).2 = .ok r ∧ r.indexCol = (t.indexCol.drop ia).take (ib + 1 - ia) :=
  nameSpan_rows_indexCol t h hr m a b c hs ia ib hres

/-! ### wrappers of the model-level results (statements as printed by `#check`) -/
section wrapped

/-- rows[s1, s2] = rows[s1].rows[s2] as equality of EVERY field, including unlisted data entries — which needs `DataCovers` (every data entry at least as long as the table), a hypothesis no theorem establishes and that a wrong-length column assignment breaks (`junkExample`, an artefact of the model's `selectRows` subscripting unlisted entries); the form to use is `C08_compose_selectors_rect` below -/
theorem C08_compose_selectors :
    ∀ (t : TableM.Tbl),
      TableM.Coherent t →
        TableM.DataCovers t →
          ∀ (m : String → TableM.Match) (s1 s2 : TableM.Sel),
            TableM.isTuple s1 = false →
              TableM.isTuple s2 = false →
                (TableM.rowsOf t m (TableM.Sel.tuple [s1, s2])).snd =
                  Except.bind (TableM.rowsOf t m s1).snd fun v => (TableM.rowsOf v m s2).snd :=
  @TableM.rowsOf_pair

/-- tuples of any length -/
theorem C08_compose_selectors_any_length :
    ∀ (t : TableM.Tbl),
      TableM.Coherent t →
        TableM.DataCovers t →
          ∀ (m : String → TableM.Match) (s : TableM.Sel) (rest : List TableM.Sel),
            (∀ (x : TableM.Sel), x ∈ s :: rest → TableM.isTuple x = false) →
              (TableM.rowsOf t m (TableM.Sel.tuple (s :: rest))).snd = TableM.rowsChain m t (s :: rest) :=
  @TableM.rowsOf_tuple_chain

/-- `rows.mask[sel]` marks exactly the positions `rows.indices[sel]` lists (negative ones wrapped as Python does) -/
theorem C08_mask_is_indices :
    ∀ (t : TableM.Tbl),
      TableM.Coherent t →
        ∀ (m : String → TableM.Match) (s : TableM.Sel) (l : List Int),
          (TableM.indicesOf t m s).snd = Except.ok l →
            (∀ (j : Int), j ∈ l → TableM.normPos (TableM.Tbl.nrows t) j ≠ none) →
              ∃ mask,
                (TableM.maskOf t m s).snd = Except.ok mask ∧
                  List.length mask = TableM.Tbl.nrows t ∧
                    ∀ (i : Nat), mask[i]? = some true ↔ ∃ j, j ∈ l ∧ TableM.normPos (TableM.Tbl.nrows t) j = some i :=
  @TableM.mask_iff_indices

/-- `rows[sel]` holds exactly the rows `rows.indices[sel]` lists, in that order: index column and every cell -/
theorem C08_rows_are_indices :
    ∀ (t : TableM.Tbl),
      TableM.Coherent t →
        TableM.Rect t →
          ∀ (m : String → TableM.Match) (s : TableM.Sel) (l : List Int),
            (TableM.indicesOf t m s).snd = Except.ok l →
              (∀ (j : Int), j ∈ l → TableM.normPos (TableM.Tbl.nrows t) j ≠ none) →
                ∃ r,
                  (TableM.rowsOf t m s).snd = Except.ok r ∧
                    TableM.Tbl.nrows r = List.length l ∧
                      List.map some (TableM.Tbl.indexCol r) =
                          List.map
                            (fun j =>
                              Option.bind (TableM.normPos (TableM.Tbl.nrows t) j) fun k => (TableM.Tbl.indexCol t)[k]?)
                            l ∧
                        ∀ (c : String) (v : List TableM.Cell),
                          TableM.Tbl.col t c = some v →
                            TableM.Tbl.nrows t ≤ List.length v →
                              ∃ v',
                                TableM.Tbl.col r c = some v' ∧
                                  List.map some v' =
                                    List.map (fun j => Option.bind (TableM.normPos (TableM.Tbl.nrows t) j) fun k => v[k]?) l :=
  @TableM.rows_eq_indices

/-- the three views fail together -/
theorem C08_views_fail_together :
    ∀ (t : TableM.Tbl),
      TableM.Coherent t →
        ∀ (m : String → TableM.Match) (s : TableM.Sel),
          (∀ (e : TableM.TErr),
              (TableM.indicesOf t m s).snd = Except.error e →
                (TableM.maskOf t m s).snd = Except.error e ∧ (TableM.rowsOf t m s).snd = Except.error e) ∧
            ∀ (l : List Int),
              (TableM.indicesOf t m s).snd = Except.ok l →
                (∃ j, j ∈ l ∧ TableM.normPos (TableM.Tbl.nrows t) j = none) →
                  (TableM.maskOf t m s).snd = Except.error TableM.TErr.indexError ∧
                    (TableM.rowsOf t m s).snd = Except.error TableM.TErr.indexError :=
  @TableM.views_fail_together

/-- **rows[s1, …, sn] = rows[s1].rows[…].rows[sn] for every coherent RECTANGULAR table** — both hypotheses have establishment and preservation theorems (C07 / C14), unlike `DataCovers` below: the tuple form fails exactly when the chain fails, with the same error, and otherwise gives the same index column, the same column names, the same number of rows and the same cells in every listed column -/
theorem C08_compose_selectors_rect :
    ∀ (t : TableM.Tbl),
      TableM.Coherent t →
        TableM.Rect t →
          ∀ (m : String → TableM.Match) (sels : List TableM.Sel),
            (∀ (x : TableM.Sel), x ∈ sels → TableM.isTuple x = false) →
              (∀ (e : TableM.TErr),
                  (TableM.rowsOf t m (TableM.Sel.tuple sels)).snd = Except.error e ↔
                    TableM.rowsChain m t sels = Except.error e) ∧
                ∀ (r1 : TableM.Tbl),
                  (TableM.rowsOf t m (TableM.Sel.tuple sels)).snd = Except.ok r1 →
                    ∃ r2,
                      TableM.rowsChain m t sels = Except.ok r2 ∧
                        r1.index = r2.index ∧
                          r1.colNames = r2.colNames ∧
                            TableM.Tbl.indexCol r1 = TableM.Tbl.indexCol r2 ∧
                              TableM.Tbl.nrows r1 = TableM.Tbl.nrows r2 ∧
                                ∀ (c : String), c ∈ t.colNames → TableM.Tbl.col r1 c = TableM.Tbl.col r2 c :=
  @TableM.rowsOf_tuple_chain_rect

/-- **a `name::count` selector returns the documented list OUTSIDE the signature of known finding D24** — whether the exact-label fast path hits or misses: if it is not the case that (the literal name part is a row name and the regexp also matches a different row name) nor that (the literal name part is a row name the regexp does not match itself — a row name containing regexp metacharacters), the result is `docCount`: the count-th occurrence of every matching name, ascending, shifted by the offset -/
theorem C08_count_selector_outside_known_finding :
    ∀ (t : TableM.Tbl),
      TableM.Coherent t →
        ∀ (m : TableM.Match) (sel name : String) (c offset : Int),
          TableM.splitNameCountOffset t sel = Except.ok (name, some c, offset) →
            ¬TableM.D24Sig (TableM.Tbl.indexCol t) m name →
              ¬TableM.SelfMiss (TableM.Tbl.indexCol t) m name →
                ∃ l,
                  (TableM.getRegexpIndices t m sel).snd = Except.ok l ∧
                    l = TableM.docCount (TableM.Tbl.indexCol t) m c offset ∧
                      List.Pairwise (fun x1 x2 => x1 ≤ x2) l ∧
                        ∀ (j : Int),
                          j ∈ l ↔
                            ∃ nn i,
                              nn ∈ TableM.Tbl.indexCol t ∧
                                m nn = true ∧ TableM.scanLookup (TableM.Tbl.indexCol t) nn c 0 = some i ∧ j = i + offset :=
  @TableM.count_selector_outside_D24

/-- exactly when the fast path deviates: the result is the documented list iff NOT (the fast path hits and either the regexp does not match the literal name itself or some other matching row name has a count-th occurrence) -/
theorem C08_count_selector_documented_iff :
    ∀ (t : TableM.Tbl),
      TableM.Coherent t →
        ∀ (m : TableM.Match) (sel name : String) (c offset : Int),
          TableM.splitNameCountOffset t sel = Except.ok (name, some c, offset) →
            ((TableM.getRegexpIndices t m sel).snd = Except.ok (TableM.docCount (TableM.Tbl.indexCol t) m c offset) ↔
              ¬TableM.Deviates (TableM.Tbl.indexCol t) m name c offset) :=
  @TableM.count_selector_documented_iff

/-- the deviation behind D24 really occurs: when the fast path hits and another matching row name has a count-th occurrence, the code returns one row while the documented list has a second, different one -/
theorem C08_fast_path_deviation_is_real :
    ∀ (t : TableM.Tbl),
      TableM.Coherent t →
        ∀ (m : TableM.Match) (sel name : String) (c offset i : Int),
          TableM.splitNameCountOffset t sel = Except.ok (name, some c, offset) →
            TableM.scanLookup (TableM.Tbl.indexCol t) name c offset = some i →
              ∀ (nn : String) (i' : Int),
                nn ∈ TableM.Tbl.indexCol t →
                  nn ≠ name →
                    m nn = true →
                      TableM.scanLookup (TableM.Tbl.indexCol t) nn c 0 = some i' →
                        (TableM.getRegexpIndices t m sel).snd = Except.ok [i] ∧
                          i' + offset ∈ TableM.docCount (TableM.Tbl.indexCol t) m c offset ∧
                            i' + offset ≠ i ∧
                              TableM.docCount (TableM.Tbl.indexCol t) m c offset ≠ [i] ∧
                                (m name = true →
                                  i ∈ TableM.docCount (TableM.Tbl.indexCol t) m c offset ∧
                                    2 ≤ List.length (TableM.docCount (TableM.Tbl.indexCol t) m c offset)) :=
  @TableM.count_selector_fast_deviates

/-- the second way to deviate (found while proving the complement; now part of D24's signature): the literal name is a row name that the regexp does not match (`'a+::0'` on rows `a+`, `aa`): the code returns that row, the documented list does not contain it -/
theorem C08_fast_path_self_nonmatch :
    ∀ (t : TableM.Tbl),
      TableM.Coherent t →
        ∀ (m : TableM.Match) (sel name : String) (c offset i : Int),
          TableM.splitNameCountOffset t sel = Except.ok (name, some c, offset) →
            TableM.scanLookup (TableM.Tbl.indexCol t) name c offset = some i →
              m name = false →
                (TableM.getRegexpIndices t m sel).snd = Except.ok [i] ∧
                  ¬i ∈ TableM.docCount (TableM.Tbl.indexCol t) m c offset ∧
                    ((∀ (nn : String), nn ∈ TableM.Tbl.indexCol t → m nn = true → nn = name) →
                      TableM.docCount (TableM.Tbl.indexCol t) m c offset = []) :=
  @TableM.count_selector_self_nonmatch

/-- the offset of a count selector is a plain shift of the position, not range-checked — in the fast path and in the regexp path alike (model = code, see `TableM.fastEx_out_of_range`) -/
theorem C08_offset_is_a_plain_shift :
    ∀ (col : List String) (n : String) (c o : Int),
      TableM.scanLookup col n c o = Option.map (fun x => x + o) (TableM.scanLookup col n c 0) :=
  @TableM.scanLookup_offset

end wrapped

end Properties.C08
