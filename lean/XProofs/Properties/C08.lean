import XModel.Table
/-!
# C08 — row selection follows the documented selector semantics, in table order
Model: `XModel/Table.lean` (`getRowIndices`, `getRegexpIndices`, `indicesOf`, `maskOf`, `rowsOf`).
The model has no order oracle (no set iteration): independence of the hash seed is by construction,
and the correspondence run is repeated under several `PYTHONHASHSEED`s.
-/
namespace Properties.C08
open TableM Cache

/-- a plain pattern (no `::count`): the ascending positions whose name matches, shifted -/
theorem C08_pattern_plain (t : Tbl) (m : Match) (sel name : String) (offset : Int)
    (h : splitNameCountOffset t sel = .ok (name, none, offset)) :
    (getRegexpIndices t m sel).2 =
      .ok (((enumFrom 0 t.indexCol).filter (fun p => m p.2)).map (fun p => (p.1 : Int) + offset)) := by
  simp [getRegexpIndices, h]

/-- `rows.mask[sel]` and `rows[sel]` are computed from `rows.indices[sel]`: they describe the same rows -/
theorem C08_mask_rows_from_indices (t : Tbl) (m : String → Match) (s : Sel) (l : List Int) (t1 : Tbl)
    (h : indicesOf t m s = (t1, .ok l)) (ps : List Nat)
    (hp : normAll t1.nrows l = .ok ps) :
    (maskOf t m s).2 = .ok ((List.range t1.nrows).map (fun k => ps.contains k)) ∧
    (rowsOf t m s).2 = .ok (selectRows t1 ps) := by
  constructor
  · unfold maskOf; simp only [h]; rw [hp]
  · unfold rowsOf; simp only [h]; rw [hp]

end Properties.C08
