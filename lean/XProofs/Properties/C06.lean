import XModel.Parse
/-!
# C06 — references are equal, and hash equally, exactly when they denote the same path
`BaseRef.__eq__` compares the printed forms; the printer model is `Parse.print` (token level: a key is
one literal token — Python's guarantee that `repr(k)` lexes as one literal and evaluates back to `k`
is the recorded assumption, exercised on every run by tokenising the real printed text).
-/
namespace Properties.C06
open Parse

/-- equality as the library computes it: equal printed forms -/
def refEq (p q : Expr) : Prop := print p = print q

/-- a path: container label followed by item / attribute steps -/
def IsPath : Expr → Prop
  | .root _ => True
  | .item o _ => IsPath o
  | .attr o _ => IsPath o
  | _ => False

theorem path_wf : ∀ e : Expr, IsPath e → WFarg e ∧ WFpost e
  | .root _, _ => ⟨trivial, trivial⟩
  | .item o _, h => ⟨(path_wf o h).2, (path_wf o h).2⟩
  | .attr o _, h => ⟨(path_wf o h).2, (path_wf o h).2⟩
  | .lit _, h => absurd h (by simp [IsPath])
  | .bin _ _ _, h => absurd h (by simp [IsPath])
  | .un _ _, h => absurd h (by simp [IsPath])
  | .call _ _, h => absurd h (by simp [IsPath])
  | .flit _ _, h => absurd h (by simp [IsPath])
  | .callkw _ _ _, h => absurd h (by simp [IsPath])

/-- two references compare equal exactly when they denote the same access path -/
theorem C06_eq_iff_same_path (p q : Expr) (hp : IsPath p) (hq : IsPath q) : refEq p q ↔ p = q :=
  ⟨fun h => print_injective p q (path_wf p hp).1 (path_wf q hq).1 h, fun h => by rw [h]; rfl⟩

/-- and expressions of the printed language likewise -/
theorem C06_expr_eq_iff (e₁ e₂ : Expr) (h₁ : WFarg e₁) (h₂ : WFarg e₂) : refEq e₁ e₂ ↔ e₁ = e₂ :=
  ⟨fun h => print_injective e₁ e₂ h₁ h₂ h, fun h => by rw [h]; rfl⟩

/-- equal references hash equally — for ANY function of the structure, by congruence from `C06_eq_iff_same_path`: the
    content is the modelling assumption that the library's `__hash__` is such a function (`hash((type name, owner,
    key))`), which the oracle checks on the implementation (`hash`, `in dict`, `in set` next to `==`).  The converse
    direction (different paths do not collide in dict look-ups although their hashes may) is the oracle's alone. -/
theorem C06_hash_of_eq {H : Type} (hash : Expr → H) (p q : Expr) (hp : IsPath p) (hq : IsPath q)
    (h : refEq p q) : hash p = hash q := by
  rw [(C06_eq_iff_same_path p q hp hq).mp h]

/- non-vacuity: `c['a']['b']` vs `c["a']['b"]` (one key that looks like two steps) are different paths
    with different token lists -/
#guard print (.item (.item (.root "c") (.str "a")) (.str "b")) != print (.item (.root "c") (.str "a']['b"))

end Properties.C06
