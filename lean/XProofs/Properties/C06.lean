import XModel.Parse
import XModel.KeyPrint
import XModel.KeyText
/-!
# C06 — references are equal, and hash equally, exactly when they denote the same path
`BaseRef.__eq__` compares the printed forms (`str(self) == str(other)`), so `refEq` is DEFINED as equality of the
printed forms and the property is the **injectivity of the printer** on access paths: different paths must never
print alike (the direction "same path → equal" is congruence).

Two printer models, two levels:
* token level — `Parse.print` for the whole expression language with `str | int` keys (`C06_expr_eq_iff`,
  `C06_eq_iff_same_path`), and `KeyPrint.printPath` for access paths with the EXTENDED key language `KeyX`: strings, ints,
  bools, floats, `None` and nested tuples of these (`C06_key_print_injective`, `C06_path_print_injective`;
  `C06_extends_parse_paths`: on the paths of `Parse` it is the same printer).  A string key is one literal token, a float
  key one NUMBER token carrying the text of `repr`: that `repr(k)` lexes so and that distinct strings / floats give
  distinct tokens is Python's guarantee, the recorded assumption, exercised on every run by tokenising the real text;
* character level — `KeyText.pathText`, the text itself: quoting and escaping of string keys as `repr(str)` does
  (keys with quotes, brackets, "looks like two steps" are covered), decimal ints, `True` / `False` / `None`, tuples with
  `", "` and the 1-tuple's trailing comma, float texts uninterpreted under the hypothesis `floatTextOK` (what `repr`
  writes for finite floats), labels and attribute names identifiers (`C06_key_text_injective`,
  `C06_path_text_injective`; both hypotheses shown necessary).

What the seeded defects were, as non-injective printers: `KeyPrint.printKeyNoParen` (tuples without parentheses:
`('a',)` = `'a'`, `(1, (2, 3))` = `(1, 2, 3)`), `KeyPrint.printKeySixDigits` (`0.30000000000000004` = `0.3`),
`KeyText.naivePathText` (unescaped quotes: the key `a']['b` = the steps `a`, `b`).

Python's `dict` identifies the keys `1`, `True`, `1.0`; the library's equality, being textual, keeps `c[1]`, `c[True]`,
`c[1.0]` apart although they select the same entry (`KeyPrint.distinct_scalars`).  This is the library's behaviour; there
is deliberately NO theorem "equal iff they select the same dictionary entry" — it is false of the library.

OUTSIDE the model (oracle only): `bytes` keys, numpy scalars (their `repr` depends on the numpy version: `1` or
`np.int64(1)`), `inf` / `nan`, non-printable characters in string keys (`\xhh` escapes), arbitrary objects as keys
(their `repr` is whatever the class defines; objects with the default `repr` print their address), abbreviated `repr`s;
non-identifier labels / attribute names (the label `a.b` does print like `a` `.b`: `KeyText.label_needs_ident`);
`__hash__` itself (`C06_hash_of_eq` is content-free).
-/
namespace Properties.C06
open Parse KeyPrint

/-- equality as the library computes it: equal printed forms -/
def refEq (p q : Expr) : Prop := print p = print q

/-- a path: container label followed by item / attribute steps -/
def IsPath : Expr → Prop
  | .root _ => True
  | .item o _ => IsPath o
  | .attr o _ => IsPath o
  | _ => False

theorem path_wf : ∀ e : Expr, IsPath e → WFarg e ∧ WFpost e
  | .root _, _ => ⟨trivial, trivial⟩
  | .item o _, h => ⟨(path_wf o h).2, (path_wf o h).2⟩
  | .attr o _, h => ⟨(path_wf o h).2, (path_wf o h).2⟩
  | .lit _, h => absurd h (by simp [IsPath])
  | .bin _ _ _, h => absurd h (by simp [IsPath])
  | .un _ _, h => absurd h (by simp [IsPath])
  | .call _ _, h => absurd h (by simp [IsPath])
  | .flit _ _, h => absurd h (by simp [IsPath])
  | .callkw _ _ _, h => absurd h (by simp [IsPath])

/-- two references compare equal exactly when they denote the same access path -/
theorem C06_eq_iff_same_path (p q : Expr) (hp : IsPath p) (hq : IsPath q) : refEq p q ↔ p = q :=
  ⟨fun h => print_injective p q (path_wf p hp).1 (path_wf q hq).1 h, fun h => by rw [h]; rfl⟩

/-- and expressions of the printed language likewise -/
theorem C06_expr_eq_iff (e₁ e₂ : Expr) (h₁ : WFarg e₁) (h₂ : WFarg e₂) : refEq e₁ e₂ ↔ e₁ = e₂ :=
  ⟨fun h => print_injective e₁ e₂ h₁ h₂ h, fun h => by rw [h]; rfl⟩

/-- equal references hash equally — for ANY function of the structure, by congruence from `C06_eq_iff_same_path`: the
    content is the modelling assumption that the library's `__hash__` is such a function (`hash((type name, owner,
    key))`), which the oracle checks on the implementation (`hash`, `in dict`, `in set` next to `==`).  The converse
    direction (different paths do not collide in dict look-ups although their hashes may) is the oracle's alone. -/
theorem C06_hash_of_eq {H : Type} (hash : Expr → H) (p q : Expr) (hp : IsPath p) (hq : IsPath q)
    (h : refEq p q) : hash p = hash q := by
  rw [(C06_eq_iff_same_path p q hp hq).mp h]

/- non-vacuity: `c['a']['b']` vs `c["a']['b"]` (one key that looks like two steps) are different paths
    with different token lists -/
#guard print (.item (.item (.root "c") (.str "a")) (.str "b")) != print (.item (.root "c") (.str "a']['b"))

/-! ### the extended key language (`XModel/KeyPrint.lean`, `XModel/KeyText.lean`) -/

/-- equality of references as the library computes it, on access paths with extended keys: equal printed forms
    (token level) -/
def refEqX (p q : PathX) : Prop := printPath p = printPath q

/-- `repr(key)` determines the key — for strings, ints, bools, floats (carried by the text of their `repr`), `None` and
    nested tuples of these, at the token level (no hypothesis: every `KeyX` is well formed there).  In particular
    `('a',)` ≠ `'a'`, `(1, (2, 3))` ≠ `((1, 2), 3)` ≠ `(1, 2, 3)`, `1` ≠ `True` ≠ `'1'` ≠ `1.0` as printed keys. -/
theorem C06_key_print_injective (k₁ k₂ : KeyX) : printKeyX k₁ = printKeyX k₂ ↔ k₁ = k₂ :=
  ⟨printKeyX_injective k₁ k₂, fun h => by rw [h]⟩

/-- `refEqX` stays DEFINED as equality of the printed forms; the theorem is exactly "print equality implies same
    path" (and conversely, by congruence) for the extended key language: two references compare equal exactly when they
    have the same container label and the same item / attribute steps with the same keys.  Hash agreement of equal
    references then follows for any hash that is a function of that structure — the library hashes
    `(type name, owner, key)`, the structure it prints — which is `C06_hash_of_eq`, still content-free. -/
theorem C06_path_print_injective (p q : PathX) : refEqX p q ↔ p = q :=
  ⟨printPath_injective p q, fun h => by rw [h]; rfl⟩

theorem isPath_pathOf : ∀ e : Expr, IsPath e → ∃ p, pathOf e = some p
  | .root l, _ => ⟨_, rfl⟩
  | .item o k, h => by
    obtain ⟨p, hp⟩ := isPath_pathOf o h
    exact ⟨p.snoc (.item (embedKey k)), by simp [pathOf, hp]⟩
  | .attr o a, h => by
    obtain ⟨p, hp⟩ := isPath_pathOf o h
    exact ⟨p.snoc (.attr a), by simp [pathOf, hp]⟩
  | .lit _, h => absurd h (by simp [IsPath])
  | .bin _ _ _, h => absurd h (by simp [IsPath])
  | .un _ _, h => absurd h (by simp [IsPath])
  | .call _ _, h => absurd h (by simp [IsPath])
  | .flit _ _, h => absurd h (by simp [IsPath])
  | .callkw _ _ _, h => absurd h (by simp [IsPath])

/-- the extended printer EXTENDS `Parse.print`: every path `e` of `Parse` (keys `str | int`) is an extended path
    `pathOf e`, printed by `printPath` with the same tokens as `Parse.print e`, and no other expression has that
    extended path. -/
theorem C06_extends_parse_paths (e : Expr) (he : IsPath e) :
    ∃ p : PathX, pathOf e = some p ∧ printPath p = print e ∧ ∀ e', pathOf e' = some p → e' = e := by
  obtain ⟨p, hp⟩ := isPath_pathOf e he
  exact ⟨p, hp, pathOf_print e p hp, fun e' h' => pathOf_injective e' e p h' hp⟩

/-- hence the path part of `C06_eq_iff_same_path` is the special case of `C06_path_print_injective` (proved here
    from it, without `Parse.print_injective`) -/
theorem C06_eq_iff_same_path_from_extension (p q : Expr) (hp : IsPath p) (hq : IsPath q) : refEq p q ↔ p = q := by
  obtain ⟨P, hP⟩ := isPath_pathOf p hp
  obtain ⟨Q, hQ⟩ := isPath_pathOf q hq
  exact ⟨parse_paths_special_case p q P Q hP hQ, fun h => by rw [h]; rfl⟩

/-- character level: the TEXT of `repr(key)` determines the key.  `KeyOK`: every float text in the key is as `repr`
    writes finite floats (`floatTextOK`: starts with a digit, digits and `.e+-` only, at least one non-digit) — needed,
    `KeyText.float_text_needs_ok`.  String keys are arbitrary (the model of `repr(str)` escapes backslash, the quote,
    newline, carriage return, tab; it is faithful on printable strings). -/
theorem C06_key_text_injective (k₁ k₂ : KeyX) (h₁ : KeyText.KeyOK k₁) (h₂ : KeyText.KeyOK k₂) :
    KeyText.keyText k₁ = KeyText.keyText k₂ ↔ k₁ = k₂ :=
  ⟨KeyText.keyText_injective k₁ k₂ h₁ h₂, fun h => by rw [h]⟩

/-- character level: `str(a) == str(b)` exactly when `a` and `b` are the same access path.  `PathOK`: label and
    attribute names are identifiers (needed, `KeyText.label_needs_ident`), keys are `KeyOK`. -/
theorem C06_path_text_injective (p q : PathX) (hp : KeyText.PathOK p) (hq : KeyText.PathOK q) :
    KeyText.pathText p = KeyText.pathText q ↔ p = q :=
  ⟨KeyText.pathText_injective p q hp hq, fun h => by rw [h]⟩

/- non-vacuity: a path with a 1-tuple, a negative int, a float and `None` as keys; its hypotheses hold, and dropping
   the 1-tuple's comma-and-parentheses would be a different path with a different print -/
example : KeyText.PathOK pathExample := by
  refine ⟨by decide, ?_⟩
  simp [pathExample, KeyText.StepsOK, KeyText.StepOK, KeyText.KeyOK, KeyText.KeysOK]
  decide
example : ¬ refEqX ⟨"c", [.item (.tuple [.str "a"])]⟩ ⟨"c", [.item (.str "a")]⟩ := by
  rw [C06_path_print_injective]; simp
example : ∃ p, pathOf (.attr (.item (.root "c") (.str "a")) "x") = some p ∧
    printPath p = print (.attr (.item (.root "c") (.str "a")) "x") :=
  let ⟨p, h1, h2, _⟩ := C06_extends_parse_paths _ (by simp [IsPath]); ⟨p, h1, h2⟩

end Properties.C06
