import XModel.RefsLift
/-!
# C05 — reported dependencies contain every location an expression reads
-/
namespace Properties.C05
open RefsTable RefsLift

/-- for every tree built from (class, slot) pairs the table covers, the reported dependencies are
    exactly the refs that occur anywhere inside it -/
theorem C05_deps_exact (rows : List DepRow) (n : DNode) (h : wellSlotted rows n = true) :
    depsOf rows n = leafs n := deps_exact rows n h

/-- PROJECTION of the validity obligation (no lift): this restates `Full.ValidDeps`: every (class, slot)
    row of a valid table has `covered` and `returnsSet`.  What coverage means for the values of
    expressions is `C05_value_depends_only_on_reported`. -/
theorem C05_valid_covers (f : Full) (h : f.ValidDeps = true) (r : DepRow) (hr : r ∈ f.deps) :
    (r.covered && r.returnsSet) = true := covered_of_valid f h r hr

/-- the semantic statement: for any interpretation `I` of the node classes and every tree over covered
    (class, slot) pairs, two environments that agree on the reported dependencies give the same value -/
theorem C05_value_depends_only_on_reported {V : Type} (rows : List DepRow) (I : DSem V) (n : DNode)
    (hw : wellSlotted rows n = true) (e1 e2 : Nat → V) (h : ∀ id ∈ depsOf rows n, e1 id = e2 id) :
    evalD I e1 n = evalD I e2 n := value_depends_only_on_reported rows I n hw e1 e2 h

/-- as the property is worded: whenever changing a location changes the value, that location is reported -/
theorem C05_changed_location_reported {V : Type} (rows : List DepRow) (I : DSem V) (n : DNode)
    (hw : wellSlotted rows n = true) (env : Nat → V) (k : Nat) (v : V)
    (hne : evalD I (fun i => if i = k then v else env i) n ≠ evalD I env n) : k ∈ depsOf rows n :=
  changed_location_reported rows I n hw env k v hne

/-- non-vacuity: changing location 2 changes the value of a tree over covered slots, and 2 is reported -/
example : wellSlotted depRowsOk depNode = true ∧
    evalD sumSem (fun i => if i = 2 then 10 else 1) depNode ≠ evalD sumSem (fun _ => 1) depNode ∧
    2 ∈ depsOf depRowsOk depNode := by decide
/-- and `wellSlotted` is needed: with the `param` slot uncovered (the shape of D6) the same change of value
    happens while location 2 is not reported -/
example : wellSlotted depRowsD6 depNode = false ∧
    evalD sumSem (fun i => if i = 2 then 10 else 1) depNode ≠ evalD sumSem (fun _ => 1) depNode ∧
    2 ∉ depsOf depRowsD6 depNode := by decide

/-- non-vacuity: a call node with a ref in a keyword slot -/
example : depsOf [⟨"CallRef", "kwarg", true, true⟩, ⟨"CallRef", "func", true, true⟩]
    (.node "CallRef" [("func", .ref 1), ("kwarg", .node "CallRef" [("kwarg", .ref 2)])]) = [1, 2] := by decide
/-- and what an uncovered slot does (the shape of D6) -/
example : depsOf [⟨"BuiltinRef", "arg", true, true⟩, ⟨"BuiltinRef", "param", false, true⟩]
    (.node "BuiltinRef" [("arg", .ref 1), ("param", .ref 2)]) = [1] := by decide

end Properties.C05
