import XModel.RefsLift
/-!
# C05 — reported dependencies contain every location an expression reads
Tie A: the `deps` rows are regenerated from the working tree on every run; the per-run obligation is
`Generated.tbl.ValidDeps = true` (`decide`), which is closed over the class universe
`RefsTable.classSlots`: every operand slot of every expression class must have a row saying "visited, a
set is returned".  The theorems are about the recursive-union model `RefsTable.depsOf` of
`_get_dependencies` (a slot contributes its child's dependencies iff its row is covered).
-/
namespace Properties.C05
open RefsTable RefsLift

/-- THE BRIDGE from the per-run obligation to the trees: a table with `ValidDeps = true` covers every
    declared slot of every class of the universe `RefsTable.classSlots` (all `BinOpExpr` / `UnaryOpExpr`
    subclasses, `BuiltinRef`, `CallRef`, `ItemRef`, `AttrRef`, `LiteralExpr`), hence every tree of the
    universe — `InUniverse n`, a decidable property of the tree that does not mention the table: each
    node's class is in `classSlots` and each child sits in a declared slot — is `wellSlotted`.
    (Before, `ValidDeps` was "the listed rows are all true and there is one": the one-row table
    `[("AddExpr","lhs")]` passed and `a + b` was not `wellSlotted`; that table is now rejected, see the
    examples below and in `XModel/RefsLift.lean`.) -/
theorem C05_valid_table_covers_universe (f : Full) (h : f.ValidDeps = true) :
    (∀ cls slot, declared cls slot = true → covered f.deps cls slot = true) ∧
    (∀ n : DNode, InUniverse n = true → wellSlotted f.deps n = true) :=
  ⟨covered_of_declared f h, wellSlotted_of_valid f h⟩

/-- for a valid table and every tree of the universe, the reported dependencies are exactly the refs
    that occur anywhere inside it.  Hypotheses: `ValidDeps` — the per-run obligation, needed (an uncovered
    slot loses its refs: last example of this file); `InUniverse n` — the tree is made of the library's
    classes with their operand slots (outside the universe the table says nothing). -/
theorem C05_deps_exact (f : Full) (hv : f.ValidDeps = true) (n : DNode) (hu : InUniverse n = true) :
    depsOf f.deps n = leafs n := deps_exact_universe f hv n hu

/-- the same for arbitrary rows, with the hypothesis on rows AND tree together (`wellSlotted`); the
    statement above is this one composed with `C05_valid_table_covers_universe` -/
theorem C05_deps_exact_rows (rows : List DepRow) (n : DNode) (h : wellSlotted rows n = true) :
    depsOf rows n = leafs n := deps_exact rows n h

/-- PROJECTION of the validity obligation (no lift): this restates the first conjunct of
    `Full.ValidDeps`: every (class, slot) row of a valid table has `covered` and `returnsSet`.  What
    coverage means for the values of expressions is `C05_value_depends_only_on_reported`. -/
theorem C05_valid_covers (f : Full) (h : f.ValidDeps = true) (r : DepRow) (hr : r ∈ f.deps) :
    (r.covered && r.returnsSet) = true := covered_of_valid f h r hr

/-- the semantic statement: for a valid table, any interpretation `I` of the node classes and every tree
    of the universe, two environments that agree on the reported dependencies give the same value.
    (Generic part: an evaluator that reads the environment only at the leaves depends only on the leaves,
    `RefsLift.evalD_leafs`; library part: the reported set contains every leaf, which is what `ValidDeps`
    gives for the trees of the universe.)  Locations are atomic and independent in this model
    (`env : Nat → V`): no aliasing between `a[3]` and `a[b]`, no owner / prefix structure. -/
theorem C05_value_depends_only_on_reported {V : Type} (f : Full) (hv : f.ValidDeps = true) (I : DSem V)
    (n : DNode) (hu : InUniverse n = true) (e1 e2 : Nat → V) (h : ∀ id ∈ depsOf f.deps n, e1 id = e2 id) :
    evalD I e1 n = evalD I e2 n := value_depends_only_on_reported_universe f hv I n hu e1 e2 h

/-- as the property is worded: whenever changing a location changes the value, that location is reported -/
theorem C05_changed_location_reported {V : Type} (f : Full) (hv : f.ValidDeps = true) (I : DSem V)
    (n : DNode) (hu : InUniverse n = true) (env : Nat → V) (k : Nat) (v : V)
    (hne : evalD I (fun i => if i = k then v else env i) n ≠ evalD I env n) : k ∈ depsOf f.deps n :=
  changed_location_reported_universe f hv I n hu env k v hne

/-- the two semantic statements for arbitrary rows, hypothesis `wellSlotted rows n` -/
theorem C05_value_depends_only_on_reported_rows {V : Type} (rows : List DepRow) (I : DSem V) (n : DNode)
    (hw : wellSlotted rows n = true) (e1 e2 : Nat → V) (h : ∀ id ∈ depsOf rows n, e1 id = e2 id) :
    evalD I e1 n = evalD I e2 n := value_depends_only_on_reported rows I n hw e1 e2 h

theorem C05_changed_location_reported_rows {V : Type} (rows : List DepRow) (I : DSem V) (n : DNode)
    (hw : wellSlotted rows n = true) (env : Nat → V) (k : Nat) (v : V)
    (hne : evalD I (fun i => if i = k then v else env i) n ≠ evalD I env n) : k ∈ depsOf rows n :=
  changed_location_reported rows I n hw env k v hne

/-- non-vacuity of the universe statements: `RefsLift.sample` passes `ValidDeps`, the tree
    `f(a[b], -c, k = round(d.x, e)) + 1` (general call with two positional and one keyword argument,
    computed key, attribute, builtin with parameter, literal node) is in the universe; changing location 2
    (the computed key `b`) changes the value, and 2 is reported -/
example : 2 ∈ depsOf RefsLift.sample.deps universeNode :=
  C05_changed_location_reported RefsLift.sample sample_valid_deps sumSem universeNode (by decide)
    (fun _ => 1) 2 10 (by decide)
example : depsOf RefsLift.sample.deps universeNode = [6, 1, 2, 3, 4, 5] := by decide
/-- the strengthened test rejects the degenerate tables: one row; everything but `CallRef`; a listed but
    unvisited slot (the shape of D6) -/
example : ({ RefsLift.sample with deps := [⟨"AddExpr", "lhs", true, true⟩] } : Full).ValidDeps = false := by decide
example : ({ RefsLift.sample with deps := RefsLift.sample.deps.filter (fun r => r.cls != "CallRef") } : Full).ValidDeps
    = false := by decide
example : ({ RefsLift.sample with deps := (RefsLift.sample.deps.map
    (fun r => if r.cls = "BuiltinRef" && r.slot = "param" then { r with covered := false } else r)) } : Full).ValidDeps
    = false := by decide

/-- non-vacuity: changing location 2 changes the value of a tree over covered slots, and 2 is reported -/
example : wellSlotted depRowsOk depNode = true ∧
    evalD sumSem (fun i => if i = 2 then 10 else 1) depNode ≠ evalD sumSem (fun _ => 1) depNode ∧
    2 ∈ depsOf depRowsOk depNode := by decide
/-- and `wellSlotted` is needed: with the `param` slot uncovered (the shape of D6) the same change of value
    happens while location 2 is not reported -/
example : wellSlotted depRowsD6 depNode = false ∧
    evalD sumSem (fun i => if i = 2 then 10 else 1) depNode ≠ evalD sumSem (fun _ => 1) depNode ∧
    2 ∉ depsOf depRowsD6 depNode := by decide

/-- non-vacuity: a call node with a ref in a keyword slot -/
example : depsOf [⟨"CallRef", "kwarg", true, true⟩, ⟨"CallRef", "func", true, true⟩]
    (.node "CallRef" [("func", .ref 1), ("kwarg", .node "CallRef" [("kwarg", .ref 2)])]) = [1, 2] := by decide
/-- and what an uncovered slot does (the shape of D6) -/
example : depsOf [⟨"BuiltinRef", "arg", true, true⟩, ⟨"BuiltinRef", "param", false, true⟩]
    (.node "BuiltinRef" [("arg", .ref 1), ("param", .ref 2)]) = [1] := by decide

end Properties.C05
