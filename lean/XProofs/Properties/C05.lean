import XModel.RefsTable
/-!
# C05 — reported dependencies contain every location an expression reads
-/
namespace Properties.C05
open RefsTable

/-- for every tree built from (class, slot) pairs the table covers, the reported dependencies are
    exactly the refs that occur anywhere inside it -/
theorem C05_deps_exact (rows : List DepRow) (n : DNode) (h : wellSlotted rows n = true) :
    depsOf rows n = leafs n := deps_exact rows n h

/-- a valid table covers every pair it lists, and returns a set for each -/
theorem C05_valid_covers (f : Full) (h : f.ValidDeps = true) (r : DepRow) (hr : r ∈ f.deps) :
    (r.covered && r.returnsSet) = true := covered_of_valid f h r hr

/-- non-vacuity: a call node with a ref in a keyword slot -/
example : depsOf [⟨"CallRef", "kwarg", true, true⟩, ⟨"CallRef", "func", true, true⟩]
    (.node "CallRef" [("func", .ref 1), ("kwarg", .node "CallRef" [("kwarg", .ref 2)])]) = [1, 2] := by decide
/-- and what an uncovered slot does (the shape of D6) -/
example : depsOf [⟨"BuiltinRef", "arg", true, true⟩, ⟨"BuiltinRef", "param", false, true⟩]
    (.node "BuiltinRef" [("arg", .ref 1), ("param", .ref 2)]) = [1] := by decide

end Properties.C05
