import XModel.ManagerInv
import XModel.ManagerC03b
import XModel.ManagerC11
import XModel.ManagerBisim
/-!
# C03 — removing or replacing a definition leaves no trace
The four indices are a function of the surviving tasks (`Index.Inv`), preserved by `register'` (fresh
id) and `unregister'` (present id) — the functions `Manager.register` / `Manager.unregister` call.

**Which tree.**  The model transcribes `/repo` as it stands now: the pinned commit plus the `fix:` commits recorded in
`/verif/KNOWN_FINDINGS.json` (status `fixed`).  Where a theorem below rests on repaired code — `Index.unregister'` is the repaired walk over the tasks writing a dependency — it is false of
the tree as first pinned; the witnesses are kept (`Index.pinned_unregister_stale` proves the first-pinned version violates the invariant).
-/
namespace Properties.C03
open Index

variable {ρ κ : Type} [DecidableEq ρ] [DecidableEq κ]

theorem C03_register_inv (s : Mgr ρ κ) (t : Task ρ κ) (h : Inv s) (hfresh : look s.tasks t.id = none)
    (hd : t.deps.Nodup) (ht : t.tars.Nodup) : Inv (register' s t) :=
  register_inv s t h hfresh hd ht

theorem C03_unregister_inv (s : Mgr ρ κ) (t : Task ρ κ) (h : Inv s) (hids : (s.tasks.map (·.id)).Nodup)
    (hrows : (DD.rows s.rtasks).Nodup) (hl : look s.tasks t.id = some t) : Inv (unregister' s t) :=
  unregister_inv s t h hids hrows hl

/-! ### on the executable manager (the functions the driver runs) -/
section manager
open Manager Store Push

/-- the state right after `Manager()` satisfies the invariant -/
theorem C03_init : MInv MState.init := MInv.init

/-- **one call**: whatever the call (assignment of a value or an expression, in-place update, register of a
    fresh well-formed task, unregister, load, refresh, cleanup, verify), on a frozen or unfrozen manager,
    and whatever happens while values propagate (exceptions, injected faults), the four indices are
    afterwards again exactly the function `Index.Inv` of the surviving tasks -/
theorem C03_one_call (sched : Sched) (s : MState) (c : Call) (hi : MInv s) (hw : WFCall s c) :
    MInv (apply sched s c).1 := apply_MInv sched s c hi hw

/-- **all histories**: by induction over the call list -/
theorem C03_all_histories (sched : Sched) (cs : List Call) (hw : WFHist sched MState.init cs) :
    MInv (applyAll sched MState.init cs) := applyAll_MInv sched cs MState.init MInv.init hw

/-- regenerating the indices (`refresh`) from a state that satisfies the invariant gives a state that
    satisfies it: nothing a history left behind can survive or be missing -/
theorem C03_refresh (s : MState) (hi : MInv s) : MInv (refresh s).1 := refresh_MInv s hi

/-- no later operation looks up a removed task: every id in the ordering graph or in a start set is registered -/
theorem C03_no_stale_ids (s : MState) (hi : MInv s) :
    (∀ u w, w ∈ gOf s.idx u → w ∈ s.defs.map (·.id)) ∧
    (∀ startDeps k, k ∈ startOf s.idx startDeps → k ∈ s.defs.map (·.id)) :=
  ⟨fun u w hw => gOf_closed s hi u w hw, fun sd k hk => startOf_sub s hi sd k hk⟩

end manager

open Store Push Manager in
/-- **regenerating the indices never changes behaviour**: an assignment to a plain location, in scope, has the same
    outcome (contents, definitions) before and after `refresh()`, whatever legal iteration orders are used on the two
    sides; a schedule legal for one index state is legal for any other index state of the same task table -/
theorem C03_refresh_same_behaviour (sched1 sched2 : Sched) (s : MState) (p : Path) (v : Val) (hi : MInv s)
    (hc : Consistent s) (hfz : s.frozen = false) (hnodef : lookDef s.defs p = none) (sc : Scope s p)
    (hvs1 : ValidSched (gOf s.idx) (findTaskids s.idx (chainR p)) (sched1 (findTaskids s.idx (chainR p))))
    (hvs2 : ValidSched (gOf (refresh s).1.idx) (findTaskids (refresh s).1.idx (chainR p))
      (sched2 (findTaskids (refresh s).1.idx (chainR p))))
    (s1 : MState) (hok : setValue sched1 s p v = (s1, none)) :
    ∃ s2, setValue sched2 (refresh s).1 p v = (s2, none) ∧ s2.store = s1.store ∧ s2.defs = s1.defs :=
  refresh_same_behaviour sched1 sched2 s p v hi hc hfz hnodef sc hvs1 hvs2 s1 hok

open Manager in
/-- the edges of the ordering graph are a function of the task table alone -/
theorem C03_edges_from_tasks (s : MState) (hi : MInv s) (u w : Path) :
    w ∈ gOf s.idx u ↔ sRt (s.defs.map MTask.toIdx) u w ≥ 1 := gOf_mem_iff s hi u w

open Manager in
/-- **like a fresh manager in which only the surviving definitions were registered**: take any reachable state of a
    manager of expression tasks (index invariant `MInv`, whatever history of definitions, replacements and removals led
    to it) and a fresh manager over the same containers into which the surviving definitions are registered one by one
    (`load` of the `dump`); both hold the same task table, and every later assignment to a plain location in C01's scope
    ends with the same container contents and definitions on both, under any legal schedules — nothing of the removed
    definitions is left that an assignment could see -/
theorem C03_like_fresh_manager (s : MState) (ow : Bool) (hi : MInv s) (hfz : s.frozen = false)
    (hex : ExprDefs s.defs) (hc : Consistent s) :
    ∃ s', load (freshOver s) ow (dump s) = (s', none) ∧ s'.defs = s.defs ∧ s'.store = s.store ∧ MInv s' ∧
      ∀ (sched1 sched2 : Sched) (p : Path) (v : Store.Val), lookDef s.defs p = none → Scope s p →
        ValidSched (gOf s.idx) (findTaskids s.idx (chainR p)) (sched1 (findTaskids s.idx (chainR p))) →
        ValidSched (gOf s'.idx) (findTaskids s'.idx (chainR p)) (sched2 (findTaskids s'.idx (chainR p))) →
        ∀ s1, setValue sched1 s p v = (s1, none) →
          ∃ s2, setValue sched2 s' p v = (s2, none) ∧ s2.store = s1.store ∧ s2.defs = s1.defs :=
  load_dump_reacts_identically s ow hi hfz hex hc

/-! ### wrappers of the model-level results (statements as printed by `#check`) -/
section wrapped

/-- **the manager's own consistency self-check passes** in every state reachable through the API (`MInv`): `verify()` raises nothing (the converse is false in the model and in the code: `verify` only walks the rows the indices still have) -/
theorem C03_self_check_passes :
    ∀ (s : Manager.MState), Manager.MInv s → (Manager.verify s).snd = none :=
  @Manager.verify_passes

/-- two managers holding the SAME task table over equal containers (`SameTable`: indices and event logs may differ, both satisfy the index invariant) answer ONE API call — any call: assignments of values and expressions, in-place operators, register, unregister, load, refresh, cleanup, verify — with the same outcome (same exception or none) and are `SameTable` again afterwards; assignments under the hypotheses of C20's order independence (`CallOK`) -/
theorem C03_one_call_bisimulation :
    ∀ (sched1 sched2 : Manager.Sched) (s s' : Manager.MState) (c : Manager.Call),
      Manager.SameTable s s' →
        Manager.CallOK sched1 sched2 s s' c →
          (Manager.apply sched2 s' c).snd = (Manager.apply sched1 s c).snd ∧
            Manager.SameTable (Manager.apply sched1 s c).fst (Manager.apply sched2 s' c).fst :=
  @Manager.apply_bisim

/-- … along whole histories: call by call the same exceptions -/
theorem C03_history_same_outcomes :
    ∀ (sched1 sched2 : Manager.Sched) (cs : List Manager.Call) (s s' : Manager.MState),
      Manager.SameTable s s' →
        Manager.BisimRun sched1 sched2 s s' cs →
          List.map (fun x => x.snd) (Manager.outcomes sched2 s' cs) =
            List.map (fun x => x.snd) (Manager.outcomes sched1 s cs) :=
  @Manager.bisim_history_errors

/-- … and `SameTable` at the end: a manager with a history of replaced and removed definitions and a fresh manager holding the surviving ones cannot be told apart by any further history of calls -/
theorem C03_history_same_final_state :
    ∀ (sched1 sched2 : Manager.Sched) (cs : List Manager.Call) (s s' : Manager.MState),
      Manager.SameTable s s' →
        Manager.BisimRun sched1 sched2 s s' cs →
          Manager.SameTable (Manager.applyAll sched1 s cs) (Manager.applyAll sched2 s' cs) :=
  @Manager.bisim_history_final

/-- the fresh manager obtained by loading the dump is `SameTable` with the original and stays so along every good history (this is also C11's second sentence and C12's behavioural clause, now over histories of all calls instead of one assignment) -/
theorem C03_fresh_manager_bisimilar :
    ∀ (s : Manager.MState) (ow : Bool),
      Manager.MInv s →
        s.frozen = false →
          Manager.ExprDefs s.defs →
            ∃ s',
              Manager.load (Manager.freshOver s) ow (Manager.dump s) = (s', none) ∧
                Manager.SameTable s s' ∧
                  ∀ (sched1 sched2 : Manager.Sched) (cs : List Manager.Call),
                    Manager.BisimRun sched1 sched2 s s' cs →
                      Manager.RelatedOutcomes (Manager.outcomes sched1 s cs) (Manager.outcomes sched2 s' cs) ∧
                        List.map (fun x => x.snd) (Manager.outcomes sched2 s' cs) =
                            List.map (fun x => x.snd) (Manager.outcomes sched1 s cs) ∧
                          Manager.SameTable (Manager.applyAll sched1 s cs) (Manager.applyAll sched2 s' cs) :=
  @Manager.load_dump_bisim

end wrapped

end Properties.C03
