import XModel.Manager
import XModel.IndexInv4
/-!
# C03 — removing or replacing a definition leaves no trace
The four indices are a function of the surviving tasks (`Index.Inv`), preserved by `register'` (fresh
id) and `unregister'` (present id) — the functions `Manager.register` / `Manager.unregister` call.
-/
namespace Properties.C03
open Index

variable {ρ κ : Type} [DecidableEq ρ] [DecidableEq κ]

theorem C03_register_inv (s : Mgr ρ κ) (t : Task ρ κ) (h : Inv s) (hfresh : look s.tasks t.id = none)
    (hd : t.deps.Nodup) (ht : t.tars.Nodup) : Inv (register' s t) :=
  register_inv s t h hfresh hd ht

theorem C03_unregister_inv (s : Mgr ρ κ) (t : Task ρ κ) (h : Inv s) (hids : (s.tasks.map (·.id)).Nodup)
    (hrows : (DD.rows s.rtasks).Nodup) (hl : look s.tasks t.id = some t) : Inv (unregister' s t) :=
  unregister_inv s t h hids hrows hl

end Properties.C03
