import XModel.ManagerInv
import XModel.ManagerC03b
import XModel.ManagerC11
import XModel.ManagerBisim
import XModel.ManagerBisim2
/-!
# C03 — removing or replacing a definition leaves no trace
The four indices are a function of the surviving tasks (`Index.Inv`), preserved by `register'` (fresh
id) and `unregister'` (present id) — the functions `Manager.register` / `Manager.unregister` call.

**Which tree.**  The model transcribes `/repo` as it stands now: the pinned commit plus the `fix:` commits recorded in
`/verif/KNOWN_FINDINGS.json` (status `fixed`).  Where a theorem below rests on repaired code — `Index.unregister'` is the repaired walk over the tasks writing a dependency — it is false of
the tree as first pinned; the witnesses are kept (`Index.pinned_unregister_stale` proves the first-pinned version violates the invariant).

**Behavioural clauses.**  `C03_one_call_bisimulation` / `C03_history_same_*` cover expression-task managers and completing
assignments only; the section "second part" at the end of the file (`XModel/ManagerBisim2.lean`) has the query clause
(`C03_queries_agree`, `C03_definition_leaves_no_trace`), the bisimulation for managers holding function tasks and knobs
(`C03_one_call_bisimulation_fn`, `C03_history_same_outcomes_fn`), what holds when an assignment raises while tasks run
(`C03_assignment_any_outcome`; the errors may differ: `C03_failing_orders_differ`) and `refresh()` / `clone()` at any point of
a history (`C03_refresh_anywhere`, `C03_clone_anywhere`).  Still not covered: a TRIGGERED linear knob run in two different
orders, re-registration under an existing id.
-/
namespace Properties.C03
open Index

variable {ρ κ : Type} [DecidableEq ρ] [DecidableEq κ]

theorem C03_register_inv (s : Mgr ρ κ) (t : Task ρ κ) (h : Inv s) (hfresh : look s.tasks t.id = none)
    (hd : t.deps.Nodup) (ht : t.tars.Nodup) : Inv (register' s t) :=
  register_inv s t h hfresh hd ht

theorem C03_unregister_inv (s : Mgr ρ κ) (t : Task ρ κ) (h : Inv s) (hids : (s.tasks.map (·.id)).Nodup)
    (hrows : (DD.rows s.rtasks).Nodup) (hl : look s.tasks t.id = some t) : Inv (unregister' s t) :=
  unregister_inv s t h hids hrows hl

/-! ### on the executable manager (the functions the driver runs) -/
section manager
open Manager Store Push

/-- the state right after `Manager()` satisfies the invariant -/
theorem C03_init : MInv MState.init := MInv.init

/-- **one call**: whatever the call (assignment of a value or an expression, in-place update, register of a
    fresh well-formed task, unregister, load, refresh, cleanup, verify), on a frozen or unfrozen manager,
    and whatever happens while values propagate (exceptions, injected faults), the four indices are
    afterwards again exactly the function `Index.Inv` of the surviving tasks -/
theorem C03_one_call (sched : Sched) (s : MState) (c : Call) (hi : MInv s) (hw : WFCall s c) :
    MInv (apply sched s c).1 := apply_MInv sched s c hi hw

/-- **all histories**: by induction over the call list -/
theorem C03_all_histories (sched : Sched) (cs : List Call) (hw : WFHist sched MState.init cs) :
    MInv (applyAll sched MState.init cs) := applyAll_MInv sched cs MState.init MInv.init hw

/-- regenerating the indices (`refresh`) from a state that satisfies the invariant gives a state that
    satisfies it: nothing a history left behind can survive or be missing -/
theorem C03_refresh (s : MState) (hi : MInv s) : MInv (refresh s).1 := refresh_MInv s hi

/-- no later operation looks up a removed task: every id in the ordering graph or in a start set is registered -/
theorem C03_no_stale_ids (s : MState) (hi : MInv s) :
    (∀ u w, w ∈ gOf s.idx u → w ∈ s.defs.map (·.id)) ∧
    (∀ startDeps k, k ∈ startOf s.idx startDeps → k ∈ s.defs.map (·.id)) :=
  ⟨fun u w hw => gOf_closed s hi u w hw, fun sd k hk => startOf_sub s hi sd k hk⟩

end manager

open Store Push Manager in
/-- **regenerating the indices never changes behaviour**: an assignment to a plain location, in scope, has the same
    outcome (contents, definitions) before and after `refresh()`, whatever legal iteration orders are used on the two
    sides; a schedule legal for one index state is legal for any other index state of the same task table -/
theorem C03_refresh_same_behaviour (sched1 sched2 : Sched) (s : MState) (p : Path) (v : Val) (hi : MInv s)
    (hc : Consistent s) (hfz : s.frozen = false) (hnodef : lookDef s.defs p = none) (sc : Scope s p)
    (hvs1 : ValidSched (gOf s.idx) (findTaskids s.idx (chainR p)) (sched1 (findTaskids s.idx (chainR p))))
    (hvs2 : ValidSched (gOf (refresh s).1.idx) (findTaskids (refresh s).1.idx (chainR p))
      (sched2 (findTaskids (refresh s).1.idx (chainR p))))
    (s1 : MState) (hok : setValue sched1 s p v = (s1, none)) :
    ∃ s2, setValue sched2 (refresh s).1 p v = (s2, none) ∧ s2.store = s1.store ∧ s2.defs = s1.defs :=
  refresh_same_behaviour sched1 sched2 s p v hi hc hfz hnodef sc hvs1 hvs2 s1 hok

open Manager in
/-- the edges of the ordering graph are a function of the task table alone -/
theorem C03_edges_from_tasks (s : MState) (hi : MInv s) (u w : Path) :
    w ∈ gOf s.idx u ↔ sRt (s.defs.map MTask.toIdx) u w ≥ 1 := gOf_mem_iff s hi u w

open Manager in
/-- **like a fresh manager in which only the surviving definitions were registered**: take any reachable state of a
    manager of expression tasks (index invariant `MInv`, whatever history of definitions, replacements and removals led
    to it) and a fresh manager over the same containers into which the surviving definitions are registered one by one
    (`load` of the `dump`); both hold the same task table, and every later assignment to a plain location in C01's scope
    ends with the same container contents and definitions on both, under any legal schedules — nothing of the removed
    definitions is left that an assignment could see -/
theorem C03_like_fresh_manager (s : MState) (ow : Bool) (hi : MInv s) (hfz : s.frozen = false)
    (hex : ExprDefs s.defs) (hc : Consistent s) :
    ∃ s', load (freshOver s) ow (dump s) = (s', none) ∧ s'.defs = s.defs ∧ s'.store = s.store ∧ MInv s' ∧
      ∀ (sched1 sched2 : Sched) (p : Path) (v : Store.Val), lookDef s.defs p = none → Scope s p →
        ValidSched (gOf s.idx) (findTaskids s.idx (chainR p)) (sched1 (findTaskids s.idx (chainR p))) →
        ValidSched (gOf s'.idx) (findTaskids s'.idx (chainR p)) (sched2 (findTaskids s'.idx (chainR p))) →
        ∀ s1, setValue sched1 s p v = (s1, none) →
          ∃ s2, setValue sched2 s' p v = (s2, none) ∧ s2.store = s1.store ∧ s2.defs = s1.defs :=
  load_dump_reacts_identically s ow hi hfz hex hc

/-! ### wrappers of the model-level results (statements as printed by `#check`) -/
section wrapped

/-- **the manager's own consistency self-check passes** in every state reachable through the API (`MInv`): `verify()` raises nothing (the converse is false in the model and in the code: `verify` only walks the rows the indices still have) -/
theorem C03_self_check_passes :
    ∀ (s : Manager.MState), Manager.MInv s → (Manager.verify s).snd = none :=
  @Manager.verify_passes

/-- NARROW FORM (superseded by `C03_one_call_bisimulation_fn`).  Two managers holding the SAME task table over equal containers (`SameTable`: indices and event logs may differ, both satisfy the index invariant) answer ONE API call with the same error (or none) and are `SameTable` again afterwards, PROVIDED the call satisfies `CallOK`: register (fresh id, any kind of task), unregister, load, refresh, cleanup, verify — no condition; an assignment of a value or an expression or an in-place operator — only if EVERY task in the manager is an expression task (`Scope.exprs`; so no assignment is covered once a function task or a knob has been registered), the state is consistent, both schedulers return legal orders, and the assignment COMPLETES on the first manager (assignments that raise are not covered, except an in-place operator that raises before assigning) -/
theorem C03_one_call_bisimulation :
    ∀ (sched1 sched2 : Manager.Sched) (s s' : Manager.MState) (c : Manager.Call),
      Manager.SameTable s s' →
        Manager.CallOK sched1 sched2 s s' c →
          (Manager.apply sched2 s' c).snd = (Manager.apply sched1 s c).snd ∧
            Manager.SameTable (Manager.apply sched1 s c).fst (Manager.apply sched2 s' c).fst :=
  @Manager.apply_bisim

/-- NARROW FORM (superseded by `C03_history_same_outcomes_fn`): along a history every call of which satisfies `CallOK` (`BisimRun`: expression-task managers at every assignment, every assignment completes), call by call the same errors -/
theorem C03_history_same_outcomes :
    ∀ (sched1 sched2 : Manager.Sched) (cs : List Manager.Call) (s s' : Manager.MState),
      Manager.SameTable s s' →
        Manager.BisimRun sched1 sched2 s s' cs →
          List.map (fun x => x.snd) (Manager.outcomes sched2 s' cs) =
            List.map (fun x => x.snd) (Manager.outcomes sched1 s cs) :=
  @Manager.bisim_history_errors

/-- NARROW FORM (superseded by `C03_history_same_final_state_fn`): … and `SameTable` at the end of every `BisimRun` history — a history whose assignments are all made while the manager holds expression tasks only, and all complete.  (Not "any further history": see `BisimRun'` for the wider class and `C03_assignment_any_outcome` / `C03_failing_orders_differ` for assignments that raise while tasks run.) -/
theorem C03_history_same_final_state :
    ∀ (sched1 sched2 : Manager.Sched) (cs : List Manager.Call) (s s' : Manager.MState),
      Manager.SameTable s s' →
        Manager.BisimRun sched1 sched2 s s' cs →
          Manager.SameTable (Manager.applyAll sched1 s cs) (Manager.applyAll sched2 s' cs) :=
  @Manager.bisim_history_final

/-- the fresh manager obtained by loading the dump is `SameTable` with the original and stays so along every good history (this is also C11's second sentence and C12's behavioural clause, now over histories of all calls instead of one assignment) -/
theorem C03_fresh_manager_bisimilar :
    ∀ (s : Manager.MState) (ow : Bool),
      Manager.MInv s →
        s.frozen = false →
          Manager.ExprDefs s.defs →
            ∃ s',
              Manager.load (Manager.freshOver s) ow (Manager.dump s) = (s', none) ∧
                Manager.SameTable s s' ∧
                  ∀ (sched1 sched2 : Manager.Sched) (cs : List Manager.Call),
                    Manager.BisimRun sched1 sched2 s s' cs →
                      Manager.RelatedOutcomes (Manager.outcomes sched1 s cs) (Manager.outcomes sched2 s' cs) ∧
                        List.map (fun x => x.snd) (Manager.outcomes sched2 s' cs) =
                            List.map (fun x => x.snd) (Manager.outcomes sched1 s cs) ∧
                          Manager.SameTable (Manager.applyAll sched1 s cs) (Manager.applyAll sched2 s' cs) :=
  @Manager.load_dump_bisim

end wrapped

/-! ### second part (`XModel/ManagerBisim2.lean`): queries, function tasks and knobs, failing assignments, refresh anywhere -/
section wrapped2

/-- **the query clause**: two managers with the same task table (`SameTable`; e.g. one with a history of replaced and removed definitions and a fresh one holding the surviving definitions) give the same answer to every query, as SETS (the lists may be ordered differently): `find_deps(start)` and `find_taskids(start_deps)` for every start set, every row and the key set (keys with a non-empty row) of each of the four indices `rdeps`, `rtasks`, `deptasks`, `tartasks`, and — equal as values — `lookDef`, `exprOf`, `dump` and every container read -/
theorem C03_queries_agree :
    ∀ {s s' : Manager.MState}, Manager.SameTable s s' → Manager.QueriesAgree s s' :=
  @Manager.sameTable_queries

/-- what `find_deps` computes, for ANY index state (no invariant needed): exactly the locations reachable from the start set along `rdeps` -/
theorem C03_find_deps_is_reachability :
    ∀ (m : Index.Mgr Manager.Path Manager.Path) (start : List Manager.Path) (x : Manager.Path),
      x ∈ Manager.findDeps m start ↔ ∃ s0, s0 ∈ start ∧ Dfs3.Reach (Manager.rdOf m) s0 x :=
  @Manager.findDeps_mem_iff

/-- **every query answers as if the definition had never existed**: register an expression or function task under a fresh id (duplicate-free declared sets, manager not frozen), then unregister it: both calls succeed and the manager is `SameTable` with the one that never held the definition (so `C03_queries_agree` and the bisimulation theorems apply).  NOT claimed for a linear knob: the MODEL's `unregister` leaves the knob's remembered source value in `prev` (`Bisim2Example.knob_leaves_prev`) -/
theorem C03_definition_leaves_no_trace :
    ∀ (s : Manager.MState) (t : Manager.MTask),
      Manager.MInv s → s.frozen = false → Manager.lookDef s.defs t.id = none → t.deps.Nodup → t.tars.Nodup →
        ((∃ e, t.kind = Manager.Kind.expr e) ∨ ∃ body, t.kind = Manager.Kind.func body) →
          (Manager.register s t).snd = none ∧
            (Manager.unregister (Manager.register s t).fst t.id).snd = none ∧
              Manager.SameTable s (Manager.unregister (Manager.register s t).fst t.id).fst :=
  @Manager.register_unregister_sameTable

/-- **one call, managers with expression, function and knob tasks**: two `SameTable` managers answer ONE call satisfying `CallOK'` with the same error (or none) and are `SameTable` afterwards.  `CallOK'`: register (fresh id, duplicate-free sets; any kind of task), unregister, load, refresh, cleanup, verify — no condition; `set_value` with a value or an expression, or an in-place operator — one of (a) the call is rejected or raises before any task runs (frozen manager, the expression does not evaluate, the write to the assigned location raises, the in-place operator raises), (b) both managers run the triggered tasks in the SAME order (then no scope: tasks of any kind including knobs, completing or raising at any point), (c) the assignment is in the scope `ScopeT` — every TRIGGERED task is an expression task or a soundly declared function task with pairwise incomparable targets (untriggered tasks, e.g. knobs, are unconstrained), the triggered targets are readable, both schedulers return legal orders, and the assignment COMPLETES on the first manager.  Not covered: an assignment that raises while tasks run under two different orders (see `C03_assignment_any_outcome`), a triggered knob under two different orders.  `CallOK` implies `CallOK'` (`Manager.CallOK.to'`) -/
theorem C03_one_call_bisimulation_fn :
    ∀ (sched1 sched2 : Manager.Sched) (s s' : Manager.MState) (c : Manager.Call),
      Manager.SameTable s s' →
        Manager.CallOK' sched1 sched2 s s' c →
          (Manager.apply sched2 s' c).snd = (Manager.apply sched1 s c).snd ∧
            Manager.SameTable (Manager.apply sched1 s c).fst (Manager.apply sched2 s' c).fst :=
  @Manager.apply_bisim'

/-- … along histories every call of which satisfies `CallOK'` in the pair of states where it is made (`BisimRun'`): call by call the same errors -/
theorem C03_history_same_outcomes_fn :
    ∀ (sched1 sched2 : Manager.Sched) (cs : List Manager.Call) (s s' : Manager.MState),
      Manager.SameTable s s' →
        Manager.BisimRun' sched1 sched2 s s' cs →
          List.map (fun x => x.snd) (Manager.outcomes sched2 s' cs) =
            List.map (fun x => x.snd) (Manager.outcomes sched1 s cs) :=
  @Manager.bisim_history_errors'

/-- … and `SameTable` (hence all queries agree) at the end of every `BisimRun'` history -/
theorem C03_history_same_final_state_fn :
    ∀ (sched1 sched2 : Manager.Sched) (cs : List Manager.Call) (s s' : Manager.MState),
      Manager.SameTable s s' →
        Manager.BisimRun' sched1 sched2 s s' cs →
          Manager.SameTable (Manager.applyAll sched1 s cs) (Manager.applyAll sched2 s' cs) ∧
            Manager.QueriesAgree (Manager.applyAll sched1 s cs) (Manager.applyAll sched2 s' cs) :=
  fun sched1 sched2 cs s s' h hg =>
    ⟨Manager.bisim_history_final' sched1 sched2 cs s s' h hg, Manager.bisim_history_queries' sched1 sched2 cs s s' h hg⟩

/-- **an assignment that may raise while its tasks run** (`set_value(ref, value)` in the scope `ScopeT`, legal orders on both sides, readable targets; no completion hypothesis): the second manager raises IFF the first does — NOT necessarily the same error; if neither raises they are `SameTable` afterwards; in every case they agree afterwards on the task table, the freeze flag, the knob memory and the fault counter (`SameButStore`: everything `SameTable` compares except the containers) and both satisfy the index invariant.  The containers may differ: each side stopped at the first failing task of ITS order -/
theorem C03_assignment_any_outcome :
    ∀ (sched1 sched2 : Manager.Sched) (s s' : Manager.MState) (p : Manager.Path) (v : Store.Val),
      Manager.SameTable s s' →
        Manager.SetValueScope sched1 sched2 s s' p →
          ((Manager.setValue sched2 s' p v).snd = none ↔ (Manager.setValue sched1 s p v).snd = none) ∧
            ((Manager.setValue sched1 s p v).snd = none →
                Manager.SameTable (Manager.setValue sched1 s p v).fst (Manager.setValue sched2 s' p v).fst) ∧
              Manager.SameButStore (Manager.setValue sched1 s p v).fst (Manager.setValue sched2 s' p v).fst ∧
                Manager.MInv (Manager.setValue sched1 s p v).fst ∧ Manager.MInv (Manager.setValue sched2 s' p v).fst :=
  @Manager.setValue_any_outcome

/-- the same for `set_value(ref, expression)` -/
theorem C03_expression_assignment_any_outcome :
    ∀ (sched1 sched2 : Manager.Sched) (s s' : Manager.MState) (p : Manager.Path) (e : Push.Expr),
      Manager.SameTable s s' →
        Manager.SetExprScope sched1 sched2 s s' p e →
          ((Manager.setExpr sched2 s' p e).snd = none ↔ (Manager.setExpr sched1 s p e).snd = none) ∧
            ((Manager.setExpr sched1 s p e).snd = none →
                Manager.SameTable (Manager.setExpr sched1 s p e).fst (Manager.setExpr sched2 s' p e).fst) ∧
              Manager.SameButStore (Manager.setExpr sched1 s p e).fst (Manager.setExpr sched2 s' p e).fst ∧
                Manager.MInv (Manager.setExpr sched1 s p e).fst ∧ Manager.MInv (Manager.setExpr sched2 s' p e).fst :=
  @Manager.setExpr_any_outcome

/-- where the error of a failing `write + run_tasks` comes from, in any state satisfying the index invariant and under any scheduler that returns only triggered ids: from the write to the assigned location (nothing ran), or from ONE triggered task, run after the tasks scheduled before it completed (no task scheduled after it ran) -/
theorem C03_error_comes_from_write_or_triggered_task :
    ∀ (sched : Manager.Sched) (s : Manager.MState) (p : Manager.Path) (v : Store.Val),
      Manager.MInv s →
        (∀ (id : Manager.Path), id ∈ sched (Manager.findTaskids s.idx (Manager.chainR p)) →
          id ∈ Manager.findTaskids s.idx (Manager.chainR p)) →
          ∀ (s1 : Manager.MState) (x : Store.Err),
            Manager.writeAndRun sched s p v = (s1, some x) →
              Manager.writeRef s p v = (s1, some x) ∨
                ∃ sw pre t post sm,
                  Manager.writeRef s p v = (sw, none) ∧
                    Manager.Trig s p t ∧
                      List.map (fun x => x.id) (pre ++ t :: post) = sched (Manager.findTaskids s.idx (Manager.chainR p)) ∧
                        Manager.runTasks sw pre = (sm, none) ∧ Manager.runTask sm t = (s1, some x) :=
  @Manager.writeAndRun_error_source_inv

/-- **"same exception" is FALSE in general for an assignment that raises while tasks run** (in the model as in the code): `g = a+1`, `c = a+b` (`b = 2^1024`), `f = a ⟨unknown operator⟩ 2`, all triggered by `a`, none feeding another, in the scope `ScopeT` (`FailExample.scope_ok`); assigning `a = NaN` under the order `[f, c, g]` raises `TypeError` and leaves `g = 2`, under the (equally legal) order `[g, c, f]` raises `OverflowError` and leaves `g = NaN` -/
theorem C03_failing_orders_differ :
    (Manager.setValue id FailExample.sF FailExample.da Store.Val.nan).snd = some Store.Err.typeError ∧
      (Manager.setValue FailExample.rev FailExample.sF FailExample.da Store.Val.nan).snd = some Store.Err.overflow ∧
        Store.get (Manager.setValue id FailExample.sF FailExample.da Store.Val.nan).fst.store FailExample.dg =
            Except.ok (Store.Val.int 2) ∧
          Store.get (Manager.setValue FailExample.rev FailExample.sF FailExample.da Store.Val.nan).fst.store FailExample.dg =
            Except.ok Store.Val.nan :=
  FailExample.fail_differently

/-- **`refresh()` at any point of a history never changes the outcome of the rest of the history**: for every state `s` satisfying the index invariant (every state a history of well-formed calls leads to, `C03_all_histories`), frozen or not, and every rest `cs` in the scope `BisimRun'` (the manager that continues from `s` under `sched1`, the manager that first calls `refresh()` under `sched2`): the same error at every call, `SameTable` after every call (`RelatedOutcomes`) and at the end, all queries agree at the end -/
theorem C03_refresh_anywhere :
    ∀ (sched1 sched2 : Manager.Sched) (s : Manager.MState),
      Manager.MInv s →
        ∀ (cs : List Manager.Call),
          Manager.BisimRun' sched1 sched2 s (Manager.refresh s).fst cs →
            Manager.RelatedOutcomes (Manager.outcomes sched1 s cs) (Manager.outcomes sched2 (Manager.refresh s).fst cs) ∧
              List.map (fun x => x.snd) (Manager.outcomes sched2 (Manager.refresh s).fst cs) =
                  List.map (fun x => x.snd) (Manager.outcomes sched1 s cs) ∧
                Manager.SameTable (Manager.applyAll sched1 s cs) (Manager.applyAll sched2 (Manager.refresh s).fst cs) ∧
                  Manager.QueriesAgree (Manager.applyAll sched1 s cs)
                    (Manager.applyAll sched2 (Manager.refresh s).fst cs) :=
  @Manager.refresh_anywhere

/-- the same for `clone()`: continuing on the clone (`cloneOf s`: the same task table and containers, indices regenerated from the task table — the indices whose supports the driver's `clone` line reports) instead of the original -/
theorem C03_clone_anywhere :
    ∀ (sched1 sched2 : Manager.Sched) (s : Manager.MState),
      Manager.MInv s →
        ∀ (cs : List Manager.Call),
          Manager.BisimRun' sched1 sched2 s (Manager.cloneOf s) cs →
            Manager.RelatedOutcomes (Manager.outcomes sched1 s cs) (Manager.outcomes sched2 (Manager.cloneOf s) cs) ∧
              List.map (fun x => x.snd) (Manager.outcomes sched2 (Manager.cloneOf s) cs) =
                  List.map (fun x => x.snd) (Manager.outcomes sched1 s cs) ∧
                Manager.SameTable (Manager.applyAll sched1 s cs) (Manager.applyAll sched2 (Manager.cloneOf s) cs) ∧
                  Manager.QueriesAgree (Manager.applyAll sched1 s cs) (Manager.applyAll sched2 (Manager.cloneOf s) cs) :=
  @Manager.clone_anywhere

/-- a `refresh()` spliced into a history: `pre ++ rest` on one manager and `pre ++ refresh :: rest` on another, both started in the same state: the errors of the calls of `rest` agree one by one and the two managers end `SameTable` (both parts in the scope `BisimRun'`) -/
theorem C03_refresh_spliced :
    ∀ (sched1 sched2 : Manager.Sched) (pre rest : List Manager.Call) (s0 : Manager.MState),
      Manager.MInv s0 →
        Manager.BisimRun' sched1 sched2 s0 s0 pre →
          Manager.BisimRun' sched1 sched2 (Manager.applyAll sched1 s0 pre)
              (Manager.refresh (Manager.applyAll sched2 s0 pre)).fst rest →
            List.drop (pre.length + 1)
                  (List.map (fun x => x.snd) (Manager.outcomes sched2 s0 (pre ++ Manager.Call.refresh :: rest))) =
                List.drop pre.length (List.map (fun x => x.snd) (Manager.outcomes sched1 s0 (pre ++ rest))) ∧
              Manager.SameTable (Manager.applyAll sched1 s0 (pre ++ rest))
                (Manager.applyAll sched2 s0 (pre ++ Manager.Call.refresh :: rest)) :=
  @Manager.refresh_spliced

/-- non-vacuity: a manager holding two expression definitions, a function task and a linear knob, and its clone (different index states), run with different legal orders through an 18-call history containing every clause of `CallOK'` (`Bisim2Example.hist`); the history is outside the scope of the narrow theorems from its first call on -/
example : Manager.BisimRun' id Bisim2Example.fLast Bisim2Example.sM Bisim2Example.sC Bisim2Example.hist :=
  Bisim2Example.hist_ok

end wrapped2

end Properties.C03
