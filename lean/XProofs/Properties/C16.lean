import XProofs.LstsqNormal
import XProofs.LeastSquares
import XProofs.Limits
import XProofs.FirstStep
import XProofs.LstsqMinNorm
import Mathlib.Tactic.FieldSimp
/-!
# C16 — the Newton step is the least-squares solution; scalings and Jacobians are consistent
Linear algebra over a commutative ring / ordered field (Mathlib's `Matrix`); numpy's SVD satisfying the
orthogonality hypotheses and IEEE rounding are parameters: the `lin` driver suite runs the Float transcription
`Lstsq.lstsq` on numpy's factors and compares with `SVD.lstsq` bit for bit; that `Lstsq.lstsq` and the Mathlib-level
`lstsqSol` are the same formula, and that numpy's factors are orthonormal, is by reading / assumed (the oracle compares with
numpy's `pinv` of the truncated matrix instead).

**What is stand-alone algebra here, not connected to the optimizer skeleton:** the first-step theorems (`C16_first_step_lands*`:
exact Jacobian, full step, no limits; `hs` is needed for the UNtruncated singular values — "condition number ≤ 100 and a
small rcond cut nothing" is not stated), Broyden updates (no theorem), `solve()` succeeding (no theorem; oracle only), the
view-Jacobian clause (`C16_affine_fd_exact`, `C16_view_chain_factor` are one-dimensional facts; there is no model of a view or
of `return_scalar`; the oracle compares each view's Jacobian with finite differences of that view).
-/
namespace Properties.C16
open Matrix

section
variable {K : Type} [CommRing K] {m n k : Type} [Fintype m] [Fintype n] [Fintype k] [DecidableEq k] [DecidableEq m] [DecidableEq n]

/-- `x = Vhᵀ diag(s_inv) Uᵀ b` satisfies the normal equations of `A = U diag(s) Vh` whenever
    `s_i² · s_inv_i = s_i` (true for `s_inv = 1/s` on the kept non-zero values and `0` elsewhere, with `s`
    set to zero on the dropped ones) -/
theorem C16_normal_eq (U : Matrix m k K) (Vh : Matrix k n K) (s sinv : k → K) (b : m → K)
    (hU : Uᵀ * U = 1) (hV : Vh * Vhᵀ = 1) (hs : ∀ i, s i * s i * sinv i = s i) :
    let A := U * diagonal s * Vh
    let x := Vhᵀ *ᵥ (diagonal sinv *ᵥ (Uᵀ *ᵥ b))
    Aᵀ *ᵥ (A *ᵥ x) = Aᵀ *ᵥ b :=
  lstsq_normal U Vh s sinv b hU hV hs
end

section
variable {K : Type} [Field K] [LinearOrder K] [IsStrictOrderedRing K]

/-- the truncation rule of `lstsq` meets that hypothesis (singular values are non-negative) -/
theorem C16_sinv_rule (s : K) (hs : 0 ≤ s) (kept : Bool) :
    let s' := if kept then s else 0
    let sinv := if kept ∧ s > 0 then 1 / s else 0
    s' * s' * sinv = s' := by
  intro s' sinv
  by_cases hk : kept = true
  · by_cases hp : s > 0
    · have hne : s ≠ 0 := ne_of_gt hp
      simp only [s', sinv, hk, hp, if_true, and_self]
      field_simp
    · have hz : s = 0 := le_antisymm (not_lt.mp hp) hs
      simp [s', sinv, hk, hz]
  · simp [s', sinv, hk]

/-- normal equations ⇒ least squares: no other point has a smaller residual -/
theorem C16_least_squares {m n : Type} [Fintype m] [Fintype n] (A : Matrix m n K) (b : m → K) (x : n → K)
    (hN : Aᵀ *ᵥ (A *ᵥ x - b) = 0) (z : n → K) :
    (A *ᵥ x - b) ⬝ᵥ (A *ᵥ x - b) ≤ (A *ᵥ z - b) ⬝ᵥ (A *ᵥ z - b) :=
  LS.ls_of_normal A b x hN z

/-- a solution of the normal equations in the row space has minimum norm among all of them -/
theorem C16_min_norm {m n : Type} [Fintype m] [Fintype n] (A : Matrix m n K) (b : m → K) (x : n → K) (w : m → K)
    (hx : x = Aᵀ *ᵥ w) (hN : Aᵀ *ᵥ (A *ᵥ x) = Aᵀ *ᵥ b) (z : n → K) (hz : Aᵀ *ᵥ (A *ᵥ z) = Aᵀ *ᵥ b) :
    x ⬝ᵥ x ≤ z ⬝ᵥ z :=
  LS.minnorm_of_range A b x w hx hN z hz

/-- the pieces composed: the value `lstsq` returns, `x = Vhᵀ diag(s_inv) Uᵀ b`, IS a minimum-norm least-squares
    solution of the truncated matrix `A' = U diag(s restricted to the kept set) Vh`.  The kept set is
    `{i | s_inv i ≠ 0}`; the truncation rule `hT` says every index is dropped (`s_inv i = 0`) or kept with
    `s i ≠ 0` and `s_inv i = 1 / s i`.  (1) no `z` has a smaller residual; (2) no minimiser of the residual has
    a smaller norm.  The row-space hypothesis of `C16_min_norm` is discharged inside
    (`LstsqMinNorm.lstsq_rowSpace_kept`, `w = U diag(s_inv²) Uᵀ b`). -/
theorem C16_lstsq_is_min_norm_least_squares {m n k : Type} [Fintype m] [Fintype n] [Fintype k] [DecidableEq k]
    [DecidableEq m] [DecidableEq n] (U : Matrix m k K) (Vh : Matrix k n K) (s sinv : k → K) (b : m → K)
    (hU : Uᵀ * U = 1) (hV : Vh * Vhᵀ = 1)
    (hT : ∀ i, sinv i = 0 ∨ (s i ≠ 0 ∧ sinv i = (s i)⁻¹)) :
    let A' := U * diagonal (fun i => if sinv i = 0 then 0 else s i) * Vh
    let x := Vhᵀ *ᵥ (diagonal sinv *ᵥ (Uᵀ *ᵥ b))
    (∀ z : n → K, (A' *ᵥ x - b) ⬝ᵥ (A' *ᵥ x - b) ≤ (A' *ᵥ z - b) ⬝ᵥ (A' *ᵥ z - b))
    ∧ (∀ z : n → K, (∀ y : n → K, (A' *ᵥ z - b) ⬝ᵥ (A' *ᵥ z - b) ≤ (A' *ᵥ y - b) ⬝ᵥ (A' *ᵥ y - b)) →
        x ⬝ᵥ x ≤ z ⬝ᵥ z) := by
  intro A' x
  exact LstsqMinNorm.lstsq_isMinNormLeastSq U Vh s sinv b hU hV hT

/-- uniqueness: a minimiser of the residual of `A'` whose norm does not exceed that of the `lstsq` value IS the
    `lstsq` value — it is THE minimum-norm least-squares solution -/
theorem C16_lstsq_min_norm_unique {m n k : Type} [Fintype m] [Fintype n] [Fintype k] [DecidableEq k]
    [DecidableEq m] [DecidableEq n] (U : Matrix m k K) (Vh : Matrix k n K) (s sinv : k → K) (b : m → K)
    (hU : Uᵀ * U = 1) (hV : Vh * Vhᵀ = 1)
    (hT : ∀ i, sinv i = 0 ∨ (s i ≠ 0 ∧ sinv i = (s i)⁻¹)) :
    let A' := U * diagonal (fun i => if sinv i = 0 then 0 else s i) * Vh
    let x := Vhᵀ *ᵥ (diagonal sinv *ᵥ (Uᵀ *ᵥ b))
    ∀ z : n → K, (∀ y : n → K, (A' *ᵥ z - b) ⬝ᵥ (A' *ᵥ z - b) ≤ (A' *ᵥ y - b) ⬝ᵥ (A' *ᵥ y - b)) →
      z ⬝ᵥ z ≤ x ⬝ᵥ x → z = x := by
  intro A' x z hz hle
  exact LstsqMinNorm.lstsq_unique_of_norm_le U Vh s sinv b hU hV hT z hz hle

omit [IsStrictOrderedRing K] in
/-- what the code computes (`s_inv[s > 0] = 1 / s[s > 0]`, then `s_inv[s < c] = 0`, `c = rcond * s[0]`) obeys
    the truncation rule of the two theorems above, for any cut `c` -/
theorem C16_sinv_rcond_rule {k : Type} (s : k → K) (c : K) :
    let sinv := fun i => if 0 < s i ∧ ¬ s i < c then 1 / s i else 0
    ∀ i, sinv i = 0 ∨ (s i ≠ 0 ∧ sinv i = (s i)⁻¹) := by
  intro sinv
  exact LstsqMinNorm.truncRule_of_rcond s c

omit [IsStrictOrderedRing K] in
/-- when only exact zeros are dropped the truncated matrix is the matrix itself -/
theorem C16_truncated_eq_self {m n k : Type} [Fintype k] [DecidableEq k]
    (U : Matrix m k K) (Vh : Matrix k n K) (s sinv : k → K) (h0 : ∀ i, sinv i = 0 → s i = 0) :
    U * diagonal (fun i => if sinv i = 0 then 0 else s i) * Vh = U * diagonal s * Vh :=
  LstsqMinNorm.keptMatrix_eq_self U Vh s sinv h0

/-- consistent linear problem (`f x = A x - b`, Jacobian `A`, `∃ xs, A xs = b`): one step `x0 - d` with `d` any
    solution of the normal equations of `A d = f x0` lands exactly on a solution, whatever the shape or rank
    of `A` (inside wide limits: no clipping) -/
theorem C16_first_step_lands {m n : Type} [Fintype m] [Fintype n] (A : Matrix m n K) (b : m → K) (x0 d : n → K)
    (hN : Aᵀ *ᵥ (A *ᵥ d) = Aᵀ *ᵥ (A *ᵥ x0 - b)) (hC : ∃ xs, A *ᵥ xs = b) :
    A *ᵥ (x0 - d) = b :=
  FirstStep.first_step_lands A b x0 d hN hC

/-- the same with the normal equations in the form `C16_least_squares` takes them -/
theorem C16_first_step_lands_of_normal_residual {m n : Type} [Fintype m] [Fintype n] (A : Matrix m n K) (b : m → K)
    (x0 d : n → K) (hN : Aᵀ *ᵥ (A *ᵥ d - (A *ᵥ x0 - b)) = 0) (hC : ∃ xs, A *ᵥ xs = b) :
    A *ᵥ (x0 - d) = b :=
  FirstStep.first_step_lands_of_normal_residual A b x0 d hN hC

/-- the same for `d` a least-squares solution proper (the conclusion of `C16_least_squares`): no `z` has a
    smaller residual of `A z = f x0` -/
theorem C16_first_step_lands_of_minimiser {m n : Type} [Fintype m] [Fintype n] (A : Matrix m n K) (b : m → K)
    (x0 d : n → K)
    (hM : ∀ z : n → K, (A *ᵥ d - (A *ᵥ x0 - b)) ⬝ᵥ (A *ᵥ d - (A *ᵥ x0 - b))
                      ≤ (A *ᵥ z - (A *ᵥ x0 - b)) ⬝ᵥ (A *ᵥ z - (A *ᵥ x0 - b)))
    (hC : ∃ xs, A *ᵥ xs = b) :
    A *ᵥ (x0 - d) = b :=
  FirstStep.first_step_lands_of_minimiser A b x0 d hM hC

/-- composed with `C16_normal_eq`: the step that `lstsq` computes from the SVD `A = U diag(s) Vh` lands on a
    solution of a consistent system -/
theorem C16_first_step_lands_lstsq {m n k : Type} [Fintype m] [Fintype n] [Fintype k] [DecidableEq k] [DecidableEq m]
    [DecidableEq n] (U : Matrix m k K) (Vh : Matrix k n K) (s sinv : k → K) (b : m → K) (x0 : n → K)
    (hU : Uᵀ * U = 1) (hV : Vh * Vhᵀ = 1) (hs : ∀ i, s i * s i * sinv i = s i)
    (hC : ∃ xs, (U * diagonal s * Vh) *ᵥ xs = b) :
    let A := U * diagonal s * Vh
    let d := Vhᵀ *ᵥ (diagonal sinv *ᵥ (Uᵀ *ᵥ (A *ᵥ x0 - b)))
    A *ᵥ (x0 - d) = b :=
  FirstStep.first_step_lands_lstsq U Vh s sinv b x0 hU hV hs hC

/-- weighted targets (`W = diag w`, all weights positive): the step solves `(W A) d = W f(x0)` in the
    least-squares sense; a consistent system is still solved exactly -/
theorem C16_first_step_lands_weighted {m n : Type} [Fintype m] [Fintype n] [DecidableEq m] (A : Matrix m n K)
    (w : m → K) (b : m → K) (x0 d : n → K) (hw : ∀ i, 0 < w i)
    (hN : (diagonal w * A)ᵀ *ᵥ ((diagonal w * A) *ᵥ d) = (diagonal w * A)ᵀ *ᵥ (diagonal w *ᵥ (A *ᵥ x0 - b)))
    (hC : ∃ xs, A *ᵥ xs = b) :
    A *ᵥ (x0 - d) = b :=
  FirstStep.first_step_lands_weighted_pos A w b x0 d hw hN hC

/-- knob weights: `_x_to_knobs` and `_knobs_to_x` are inverse to each other -/
theorem C16_weights_inverse (w k x : K) (hw : w ≠ 0) : (k / w) * w = k ∧ (x * w) / w = x :=
  Limits.weight_inverse w k x hw

/-- `rescale_x`: `_scaled_to_native` and `_scaled_from_native` are inverse to each other, in both
    directions, for non-degenerate bounds and ranges -/
theorem C16_rescale_inverse (lo hi r0 r1 x : K) (hb : hi - lo ≠ 0) (hr : r1 - r0 ≠ 0) :
    let toNative := fun t => lo + ((t - r0) * (hi - lo)) / (r1 - r0)
    let fromNative := fun t => r0 + ((t - lo) * (r1 - r0)) / (hi - lo)
    fromNative (toNative x) = x ∧ toNative (fromNative x) = x := by
  intro toNative fromNative
  constructor
  · simp only [toNative, fromNative]; field_simp; ring
  · simp only [toNative, fromNative]; field_simp; ring

/-- the chain-rule factor of a rescaled view: `d native / d scaled = (hi - lo) / (r1 - r0)`, which is
    what `_scaled_to_native(1) - _scaled_to_native(0)` computes -/
theorem C16_view_chain_factor (lo hi r0 r1 : K) (hr : r1 - r0 ≠ 0) :
    (lo + ((1 - r0) * (hi - lo)) / (r1 - r0)) - (lo + ((0 - r0) * (hi - lo)) / (r1 - r0)) = (hi - lo) / (r1 - r0) := by
  field_simp; ring

/-- forward differences of an affine map are exact for any step -/
theorem C16_affine_fd_exact (a c x h : K) (hh : h ≠ 0) : ((a * (x + h) + c) - (a * x + c)) / h = a := by
  field_simp; ring

end

end Properties.C16
