import XModel.ManagerFrame
import XModel.ManagerC17
import XModel.ManagerC17b
import XModel.ManagerC17Hist
/-!
# C17 — a frozen manager's expression graph cannot change, yet values still propagate

Only property theorems and non-vacuity examples live here; the lemmas are in `XModel/ManagerFrame.lean`,
`XModel/ManagerC17.lean` (simulation by the never-frozen manager) and `XModel/ManagerC17b.lean` (which `load` /
`copy_expr_from` calls are rejected, said without running `load`: `C17_frozen_load_rejected_iff`).
The model is `XModel/Manager.lean`, the functions the driver executes in the correspondence run.

The theorems up to `C17_frozen_copy_expr_from` speak about ONE bracket (a frozen copy of a state, calls, one unfreeze).
The last section (`XModel/ManagerC17Hist.lean`) makes `freeze_tree()` / `unfreeze_tree()` events of the history, in any
number and order: `C17_flag_is_boolean`, `C17_history_as_if_never_frozen`, `C17_history_call_by_call`,
`C17_after_last_unfreeze`.
-/
namespace Properties.C17
open Store Push Index Manager

/-- Every call that would add, replace or remove an expression or task is rejected with `ValueError`
    and leaves the whole state untouched. -/
theorem C17_structural_calls_rejected (sched : Sched) (s : MState) (h : s.frozen = true) :
    (∀ p e, setExpr sched s p e = (s, some .valueError)) ∧
    (∀ p v t, lookDef s.defs p = some t → setValue sched s p v = (s, some .valueError)) ∧
    (∀ op p operand e, exprOf s p = some e → inplace sched s op p operand = (s, some .valueError)) ∧
    (∀ t, register s t = (s, some .valueError)) ∧
    (∀ id, unregister s id = (s, some .valueError)) ∧
    (refresh s = (s, some .valueError)) :=
  ⟨fun p e => setExpr_frozen sched s p e h,
   fun p v t hl => setValue_frozen_defined sched s p v t h hl,
   fun op p operand e he => inplace_frozen_expr sched s op p operand e h he,
   fun t => register_frozen s t h, fun id => unregister_frozen s id h, refresh_frozen s h⟩

/-- One call of the API on a frozen manager, whatever it is. -/
theorem C17_frozen_step (sched : Sched) (s : MState) (h : s.frozen = true) (c : Call) :
    ((apply sched s c).2 = some .valueError ∧ (apply sched s c).1 = s) ∨
    (SameGraph s (apply sched s c).1) ∨
    ((apply sched s c).1.defs = s.defs ∧ (apply sched s c).1.store = s.store ∧
     (apply sched s c).1.frozen = s.frozen ∧ SameSupports s (apply sched s c).1) :=
  frozen_step sched s h c

/-- Any sequence of calls between `freeze_tree()` and `unfreeze_tree()`: the definitions, the flag and
    the index supports are those at the time of freezing. -/
theorem C17_frozen_history (sched : Sched) (s : MState) (h : s.frozen = true) (cs : List Call) :
    (applyAll sched s cs).defs = s.defs ∧ (applyAll sched s cs).frozen = true ∧
    SameSupports s (applyAll sched s cs) :=
  frozen_history sched cs s h

/-- Values still propagate: a plain-value assignment to a location without a definition runs exactly
    the code path of the unfrozen manager (the flag is not consulted). -/
theorem C17_values_propagate (sched : Sched) (s : MState) (p : Path) (v : Val)
    (hl : lookDef s.defs p = none) :
    setValue sched s p v = writeAndRun sched s p v := by
  unfold setValue; simp [hl]

/-- After `unfreeze_tree()` nothing remembers the freeze: the flag is the only trace. -/
theorem C17_unfreeze (s : MState) (h : s.frozen = false) :
    { ({ s with frozen := true } : MState) with frozen := false } = s := by
  cases s; simp_all

/-- **after `unfreeze_tree()` the manager behaves as if it had never been frozen**: freeze, make any history of API
    calls, unfreeze — the result is, as a whole state (containers, task table, the four indices with their insertion
    orders, knob memories), the never-frozen manager after the calls of that history that were not rejected; so no
    later call can tell the two apart. -/
theorem C17_as_if_never_frozen (sched : Sched) (cs : List Call) (s : MState) (h : s.frozen = false) :
    setF false (applyAll sched (setF true s) cs) = applyAll sched s (effective sched (setF true s) cs) ∧
    (effective sched (setF true s) cs).Sublist cs :=
  ⟨unfreeze_as_never_frozen sched cs s h, effective_sublist sched cs _⟩

/-- one call on a frozen manager: rejected (`ValueError`, whole state untouched) exactly when it would add, replace
    or remove a definition (`rejectedB`), otherwise the very call of the never-frozen manager (same outcome, same new
    state up to the flag) — in particular plain-value assignments still update all dependants -/
theorem C17_frozen_call (sched : Sched) (s : MState) (h : s.frozen = false) (c : Call) :
    (rejectedB (setF true s) c = true ∧ apply sched (setF true s) c = (setF true s, some .valueError)) ∨
    (rejectedB (setF true s) c = false ∧
     apply sched (setF true s) c = (setF true (apply sched s c).1, (apply sched s c).2) ∧
     (apply sched s c).1.frozen = false) :=
  frozen_sim sched s h c

/-! non-vacuity: a frozen manager with a definition, and the calls above on it -/
def exState : MState :=
  let s0 : MState := { MState.init with store := .dict [(.str "d", .dict [(.str "a", .int 1), (.str "b", .int 0)])] }
  let s1 := (setExpr id s0 [.item (.str "d"), .item (.str "b")]
              (.bin "Add" (.ref [.item (.str "d"), .item (.str "a")]) (.lit (.int 1)))).1
  { s1 with frozen := true }

example : exState.frozen = true ∧ exState.defs.length = 1 := by decide
def holdsInt (r : Except Err Val) (i : Int) : Bool := match r with | .ok (.int j) => i == j | _ => false
example : (setValue id exState [.item (.str "d"), .item (.str "a")] (.int 5)).2 = none ∧
    holdsInt (get (setValue id exState [.item (.str "d"), .item (.str "a")] (.int 5)).1.store
      [.item (.str "d"), .item (.str "b")]) 6 = true := by decide
example : (setValue id exState [.item (.str "d"), .item (.str "b")] (.int 5)).2 = some .valueError := by decide

/-! a frozen period with rejected and accepted calls, then an assignment after unfreezing -/
def pa : Path := [.item (.str "d"), .item (.str "a")]
def pb : Path := [.item (.str "d"), .item (.str "b")]
def unfrozen : MState := { exState with frozen := false }
def during : List Call := [.setValue pa (.int 5), .setExpr pb (.lit (.int 0)), .unregister pb, .cleanup, .setValue pa (.int 7), .refresh]
example : effective id (setF true unfrozen) during = [.setValue pa (.int 5), .cleanup, .setValue pa (.int 7)] := rfl
example : holdsInt (get (applyAll id (setF true unfrozen) during).store pb) 8 = true := by decide

/-! ### which `load` calls are rejected, without running `load`

`rejectedB` says for `.load`: "the model's `load` on the frozen state errors".  The explicit condition: -/

/-- a frozen manager's `load(dump, overwrite)` raises (`ValueError`, state untouched) exactly when some pair would
    register something: `overwrite` is set and the dump is non-empty, or some target has no definition yet; otherwise
    (every pair skipped) it is a no-op -/
theorem C17_frozen_load_rejected_iff (sf : MState) (ow : Bool) (h : sf.frozen = true) (pairs : List (Path × Expr)) :
    ((load sf ow pairs).2.isSome = pairs.any (fun pe => ow || (lookDef sf.defs pe.1).isNone)) ∧
    ((load sf ow pairs).2 = some .valueError ↔ ∃ pe ∈ pairs, ow = true ∨ lookDef sf.defs pe.1 = none) ∧
    load sf ow pairs = (sf, if pairs.any (fun pe => ow || (lookDef sf.defs pe.1).isNone) then some .valueError else none) :=
  ⟨load_frozen_rejected_iff sf ow h pairs, load_frozen_error_iff sf ow h pairs, load_frozen_outcome sf ow h pairs⟩

/-- `C17_frozen_call` with the explicit rejection test (`rejectedExplB` = `rejectedB`, the `load` case replaced by the
    condition above) -/
theorem C17_frozen_call_explicit (sched : Sched) (s : MState) (h : s.frozen = false) (c : Call) :
    (rejectedExplB (setF true s) c = true ∧ apply sched (setF true s) c = (setF true s, some .valueError)) ∨
    (rejectedExplB (setF true s) c = false ∧
     apply sched (setF true s) c = (setF true (apply sched s c).1, (apply sched s c).2) ∧
     (apply sched s c).1.frozen = false) :=
  frozen_sim_expl sched s h c

/-- `copy_expr_from` into a frozen manager: destination untouched; `ValueError` exactly when some copied pair would
    (re)register a definition -/
theorem C17_frozen_copy_expr_from (dst src : MState) (name : String) (b : String → Option Path) (ow : Bool)
    (h : dst.frozen = true) :
    copyExprFrom dst src name b ow =
      (dst, if loadTouches dst.defs ow (copyPairs src name b) then some .valueError else none) :=
  copyExprFrom_frozen_outcome dst src name b ow h

/-! non-vacuity: on `exState` (`d.b` defined) — skipped pair, new target, overwrite -/
example : (load exState false [(pb, .lit (.int 0))]).2 = none ∧
    (load exState false [(pb, .lit (.int 0)), (pa, .lit (.int 0))]).2 = some .valueError ∧
    (load exState true [(pb, .lit (.int 0))]).2 = some .valueError ∧ (load exState true []).2 = none := by decide
example : rejectedExplB exState (.load false [(pb, .lit (.int 0))]) = false ∧
    rejectedExplB exState (.load true [(pb, .lit (.int 0))]) = true := by decide

/-! ### whole histories: `freeze_tree()` / `unfreeze_tree()` as events, any number of brackets

`HEv` = an API call | freeze | unfreeze; `runEvs sched s evs` runs a history (the flag events as the driver runs its
ops `freeze` / `unfreeze`: `Manager.setF true/false`, never an exception) and returns the final state and the list of
outcomes.  No hypothesis on the scheduler is needed beyond it being the same function on both sides of each
statement (both managers have the same indices at every call, so `find_taskids` hands the same list to both). -/

/-- **the freeze flag is a Boolean, not a nesting counter**: after ANY history of calls, freezes and unfreezes — redundant
    freezes, unfreeze on a never-frozen manager, any number of brackets — the manager is frozen iff the last flag event
    was a freeze (if there was none, the flag is the initial one).  `flagAfter b evs` is that Boolean. -/
theorem C17_flag_is_boolean (sched : Sched) (s : MState) (evs : List HEv) :
    (runEvs sched s evs).1.frozen = flagAfter s.frozen evs ∧
    (∀ (pre : List HEv) (cs : List Call), evs = pre ++ HEv.freeze :: cs.map HEv.call →
      (runEvs sched s evs).1.frozen = true) ∧
    (∀ (pre : List HEv) (cs : List Call), evs = pre ++ HEv.unfreeze :: cs.map HEv.call →
      (runEvs sched s evs).1.frozen = false) ∧
    (∀ cs : List Call, evs = cs.map HEv.call → (runEvs sched s evs).1.frozen = s.frozen) := by
  refine ⟨runEvs_flag sched evs s, ?_, ?_, ?_⟩
  · intro pre cs h; rw [runEvs_flag, h]; exact flagAfter_last_freeze _ pre cs
  · intro pre cs h; rw [runEvs_flag, h]; exact flagAfter_last_unfreeze _ pre cs
  · intro cs h; rw [runEvs_flag, h]; exact flagAfter_no_flag_event _ cs

/-- **a whole history behaves as if the manager had never been frozen**: run any history of calls, freezes and
    unfreezes (any number of brackets, unbalanced or redundant flag calls) from an unfrozen state `s`.  Let
    `eff sched s evs` be its calls that were not dropped by the freeze (all calls made while unfrozen; of those made
    while frozen, the ones `rejectedExplB` lets through).  Then (1) the final state is — as a whole state: containers,
    task table, the four indices with their insertion orders, knob memories — the state of the never-frozen manager
    after `eff`, except for the flag, which is `flagAfter false evs`; (2) `eff` only removes calls; (3) the outcomes of
    the kept calls are, in order, those of the never-frozen manager on `eff`; (4) every dropped call returned
    `ValueError`; (5) no flag event raised. -/
theorem C17_history_as_if_never_frozen (sched : Sched) (s : MState) (h : s.frozen = false) (evs : List HEv) :
    (runEvs sched s evs).1 = setF (flagAfter false evs) (applyAll sched s (eff sched s evs)) ∧
    (eff sched s evs).Sublist (callsOf evs) ∧
    outsOf .kept ((kinds sched s evs).zip (runEvs sched s evs).2) = applyOuts sched s (eff sched s evs) ∧
    (∀ x ∈ outsOf .dropped ((kinds sched s evs).zip (runEvs sched s evs).2), x = some .valueError) ∧
    (∀ x ∈ outsOf .flag ((kinds sched s evs).zip (runEvs sched s evs).2), x = none) := by
  have h1 := runEvs_state sched evs s
  have h2 := runEvs_outcomes sched evs s
  rw [setF_frozen_eq s false h] at h1 h2
  rw [h] at h1
  exact ⟨h1, eff_sublist sched evs s, h2⟩

/-- **call by call**: split the history anywhere before a call `c` (`evs = pre ++ call c :: post`, from an unfrozen
    `s`).  Either `c` was dropped — the manager was frozen at that moment and `c` is a call a frozen manager rejects:
    it returned `ValueError`, the WHOLE state is untouched, and `eff` omits it; or `c` was kept — it returned exactly
    what it returns on the never-frozen manager that received the kept calls of `pre`, the new state is that
    manager's new state up to the flag, and `eff` contains it at that place. -/
theorem C17_history_call_by_call (sched : Sched) (s : MState) (h : s.frozen = false)
    (pre : List HEv) (c : Call) (post : List HEv) :
    (droppedB (runEvs sched s pre).1 c = true ∧
      stepEv sched (runEvs sched s pre).1 (.call c) = ((runEvs sched s pre).1, some .valueError) ∧
      eff sched s (pre ++ HEv.call c :: post) = eff sched s pre ++ eff sched (runEvs sched s pre).1 post) ∨
    (droppedB (runEvs sched s pre).1 c = false ∧
      stepEv sched (runEvs sched s pre).1 (.call c) =
        (setF (flagAfter false pre) (apply sched (applyAll sched s (eff sched s pre)) c).1,
         (apply sched (applyAll sched s (eff sched s pre)) c).2) ∧
      eff sched s (pre ++ HEv.call c :: post) =
        eff sched s pre ++ c :: eff sched (stepEv sched (runEvs sched s pre).1 (.call c)).1 post) := by
  have h1 := runEvs_at sched s pre c
  have h2 := eff_at sched s pre c post
  rw [setF_frozen_eq s false h, h] at h1
  rcases h1 with ⟨hd, ha⟩ | ⟨hd, ha⟩
  · refine Or.inl ⟨hd, ha, ?_⟩
    rw [h2, hd, ha]; simp
  · refine Or.inr ⟨hd, ha, ?_⟩
    rw [h2, hd]; simp

/-- **after the last `unfreeze_tree()`**: whatever the history before it (from an unfrozen `s`), the manager then IS
    the never-frozen manager that received the kept calls `eff sched s evs` (equality of whole states, nothing left of
    the freezes), the unfreeze itself adds nothing to `eff`, and every further history `more` — calls and further
    freezes / unfreezes — runs on it exactly as on that manager: same final state, same outcomes. -/
theorem C17_after_last_unfreeze (sched : Sched) (s : MState) (h : s.frozen = false) (evs more : List HEv) :
    (runEvs sched s (evs ++ [HEv.unfreeze])).1 = applyAll sched s (eff sched s evs) ∧
    eff sched s (evs ++ [HEv.unfreeze]) = eff sched s evs ∧
    runEvs sched s (evs ++ HEv.unfreeze :: more) =
      ((runEvs sched (applyAll sched s (eff sched s evs)) more).1,
       (runEvs sched s evs).2 ++ none :: (runEvs sched (applyAll sched s (eff sched s evs)) more).2) := by
  have h1 := after_last_unfreeze sched evs more s
  rw [setF_frozen_eq s false h] at h1
  exact h1

/-- the one-bracket theorem `C17_as_if_never_frozen` is the instance `freeze :: calls` (then unfreeze) of the history
    theorem: inside one bracket `eff` is `effective` -/
theorem C17_one_bracket_is_an_instance (sched : Sched) (cs : List Call) (s : MState) :
    eff sched s (HEv.freeze :: cs.map HEv.call) = effective sched (setF true s) cs ∧
    (runEvs sched s (HEv.freeze :: cs.map HEv.call)).1 = applyAll sched (setF true s) cs :=
  ⟨eff_calls_frozen sched cs (setF true s) rfl, runEvs_calls sched cs (setF true s)⟩

/-! non-vacuity and the three shapes a nesting counter gets wrong (more in `Manager.HistExample`) -/
open Manager.HistExample in
example : (runEvs id fresh [.unfreeze, .call defB]).2 = [none, none] ∧
    (runEvs id fresh [.freeze, .freeze, .unfreeze, .call defB]).2 = [none, none, none, none] ∧
    (runEvs id fresh [.unfreeze, .freeze, .call defB]).2 = [none, none, some .valueError] := by decide +kernel

/-- the hypotheses of the history theorems hold on a two-bracket history with kept and dropped calls, and the
    conclusion is not trivial: six of eleven calls kept, five `ValueError`s, final values `d.b = 8`, `d.c = 16` -/
example : HistExample.fresh.frozen = false ∧
    (eff id HistExample.fresh HistExample.hist).length = 6 ∧ (callsOf HistExample.hist).length = 11 ∧
    (outsOf .dropped ((kinds id HistExample.fresh HistExample.hist).zip
      (runEvs id HistExample.fresh HistExample.hist).2)).length = 5 ∧
    flagAfter false HistExample.hist = true ∧
    HistExample.holdsInt (get (runEvs id HistExample.fresh HistExample.hist).1.store HistExample.pc) 16 = true := by
  decide +kernel

end Properties.C17
