import XModel.ManagerFrame
/-!
# C17 — a frozen manager's expression graph cannot change, yet values still propagate

Only property theorems and non-vacuity examples live here; the lemmas are in `XModel/ManagerFrame.lean`.
The model is `XModel/Manager.lean`, the functions the driver executes in the correspondence run.
-/
namespace Properties.C17
open Store Push Index Manager

/-- Every call that would add, replace or remove an expression or task is rejected with `ValueError`
    and leaves the whole state untouched. -/
theorem C17_structural_calls_rejected (sched : Sched) (s : MState) (h : s.frozen = true) :
    (∀ p e, setExpr sched s p e = (s, some .valueError)) ∧
    (∀ p v t, lookDef s.defs p = some t → setValue sched s p v = (s, some .valueError)) ∧
    (∀ op p operand e, exprOf s p = some e → inplace sched s op p operand = (s, some .valueError)) ∧
    (∀ t, register s t = (s, some .valueError)) ∧
    (∀ id, unregister s id = (s, some .valueError)) ∧
    (refresh s = (s, some .valueError)) :=
  ⟨fun p e => setExpr_frozen sched s p e h,
   fun p v t hl => setValue_frozen_defined sched s p v t h hl,
   fun op p operand e he => inplace_frozen_expr sched s op p operand e h he,
   fun t => register_frozen s t h, fun id => unregister_frozen s id h, refresh_frozen s h⟩

/-- One call of the API on a frozen manager, whatever it is. -/
theorem C17_frozen_step (sched : Sched) (s : MState) (h : s.frozen = true) (c : Call) :
    ((apply sched s c).2 = some .valueError ∧ (apply sched s c).1 = s) ∨
    (SameGraph s (apply sched s c).1) ∨
    ((apply sched s c).1.defs = s.defs ∧ (apply sched s c).1.store = s.store ∧
     (apply sched s c).1.frozen = s.frozen ∧ SameSupports s (apply sched s c).1) :=
  frozen_step sched s h c

/-- Any sequence of calls between `freeze_tree()` and `unfreeze_tree()`: the definitions, the flag and
    the index supports are those at the time of freezing. -/
theorem C17_frozen_history (sched : Sched) (s : MState) (h : s.frozen = true) (cs : List Call) :
    (applyAll sched s cs).defs = s.defs ∧ (applyAll sched s cs).frozen = true ∧
    SameSupports s (applyAll sched s cs) :=
  frozen_history sched cs s h

/-- Values still propagate: a plain-value assignment to a location without a definition runs exactly
    the code path of the unfrozen manager (the flag is not consulted). -/
theorem C17_values_propagate (sched : Sched) (s : MState) (p : Path) (v : Val)
    (hl : lookDef s.defs p = none) :
    setValue sched s p v = writeAndRun sched s p v := by
  unfold setValue; simp [hl]

/-- After `unfreeze_tree()` nothing remembers the freeze: the flag is the only trace. -/
theorem C17_unfreeze (s : MState) (h : s.frozen = false) :
    { ({ s with frozen := true } : MState) with frozen := false } = s := by
  cases s; simp_all

/-! non-vacuity: a frozen manager with a definition, and the calls above on it -/
def exState : MState :=
  let s0 : MState := { MState.init with store := .dict [(.str "d", .dict [(.str "a", .int 1), (.str "b", .int 0)])] }
  let s1 := (setExpr id s0 [.item (.str "d"), .item (.str "b")]
              (.bin "Add" (.ref [.item (.str "d"), .item (.str "a")]) (.lit (.int 1)))).1
  { s1 with frozen := true }

example : exState.frozen = true ∧ exState.defs.length = 1 := by decide
def holdsInt (r : Except Err Val) (i : Int) : Bool := match r with | .ok (.int j) => i == j | _ => false
example : (setValue id exState [.item (.str "d"), .item (.str "a")] (.int 5)).2 = none ∧
    holdsInt (get (setValue id exState [.item (.str "d"), .item (.str "a")] (.int 5)).1.store
      [.item (.str "d"), .item (.str "b")]) 6 = true := by decide
example : (setValue id exState [.item (.str "d"), .item (.str "b")] (.int 5)).2 = some .valueError := by decide

end Properties.C17
