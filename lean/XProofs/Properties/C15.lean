import XProofs.Limits
import XModel.Opt
import XModel.OptBest
/-!
# C15 — the optimizer log is truthful: reload reproduces a row, steps never end worse
-/
namespace Properties.C15
open Opt

/-- `take_best`: `np.argmin` returns an index of minimum penalty among the rows logged during the call -/
theorem C15_take_best_minimum {K : Type} [LinearOrder K] (pens : List K) (hne : pens ≠ []) :
    Argmin.argmin pens < pens.length ∧ ∃ v, pens[Argmin.argmin pens]? = some v ∧ ∀ y ∈ pens, v ≤ y :=
  Argmin.argmin_min pens hne

/-- hence the call never ends at a higher penalty than its start row (the start row is among them) -/
theorem C15_never_worse {K : Type} [LinearOrder K] (start : K) (rest : List K) :
    ∃ v, (start :: rest)[Argmin.argmin (start :: rest)]? = some v ∧ v ≤ start := by
  obtain ⟨_, v, hv, hmin⟩ := Argmin.argmin_min (start :: rest) (by simp)
  exact ⟨v, hv, hmin start (by simp)⟩

/-- `reload(i)` puts row i's knobs and flags back, whatever its outcome: each knob is the row's value
    or its image under the weight round trip `k ↦ (k / w) * w` -/
theorem C15_reload_row {R : Type} (c : Cfg R) (i : Nat) (row : Row R) (s : St R) (r : Except Err Unit) (s' : St R)
    (hrow : s.log[i]? = some row) (h : reload c i s = (r, s')) :
    s'.vAct = row.vAct ∧ s'.tAct = row.tAct ∧
    ∀ j, s'.knobs j = row.knobs j ∨ s'.knobs j = c.mulW j (c.divW j (row.knobs j)) :=
  reload_frame c i row s r s' hrow h

/-- **`step(take_best=True)` that returns normally** ends either on the point the loop left with every active target
    within tolerance, or — reloading index `n + argmin pens`, where `pens` are the penalties of the rows logged
    during the call starting at log position `n` — on the knobs and flags of that row (bit for bit, or through the
    weight round trip), whose penalty is minimal among `pens`, in particular not above the start row's -/
theorem C15_take_best_spec {R K : Type} [LinearOrder K] (c : Cfg R) (its : List (Iter R)) (n : Nat)
    (start : K) (rest : List K) (s s' : St R)
    (h : optStep c its (some (n + Argmin.argmin (start :: rest))) s = (.ok (), s')) :
    ∃ sl, optBody c its s = (.ok (), sl) ∧
      ((sl.lastWithin = true ∧ s' = sl ∧ ∃ res, c.f s'.knobs = some res ∧ c.within res s'.tAct = true) ∨
       (sl.lastWithin = false ∧ ∃ row, sl.log[n + Argmin.argmin (start :: rest)]? = some row ∧
          s'.vAct = row.vAct ∧ s'.tAct = row.tAct ∧
          (∀ j, s'.knobs j = row.knobs j ∨ s'.knobs j = c.mulW j (c.divW j (row.knobs j))) ∧
          ∃ v, (start :: rest)[Argmin.argmin (start :: rest)]? = some v ∧ (∀ y ∈ start :: rest, v ≤ y) ∧ v ≤ start)) := by
  obtain ⟨sl, hb, hcase⟩ := optStep_take_best c its _ s s' h
  refine ⟨sl, hb, ?_⟩
  rcases hcase with ⟨hw, he⟩ | ⟨hw, row, hrow, hv, ht, hk⟩
  · refine Or.inl ⟨hw, he, ?_⟩
    subst he
    -- the flag is the tolerance predicate at the knobs in the container (coherence, C09)
    have hcoh : Coh c s' := by
      unfold optBody at hb
      simp only [bind'] at hb
      cases ha : addPoint c s with
      | mk r1 s1 =>
        rw [ha] at hb
        cases r1 with
        | error e => simp at hb
        | ok u =>
          simp only at hb
          exact optLoop_coh c its s1 s' (addPoint_coh c s s1 ha) hb
    exact matched_of_coh c s' hcoh hw
  · obtain ⟨_, v, hv', hmin⟩ := Argmin.argmin_min (start :: rest) (by simp)
    exact Or.inr ⟨hw, row, hrow, hv, ht, hk, v, hv', hmin, hmin start (by simp)⟩

/-- unit weights: `reload(i)` puts row i's knob values back bit for bit -/
theorem C15_reload_row_unit_weights {R : Type} (c : Cfg R) (i : Nat) (row : Row R) (s : St R) (r : Except Err Unit)
    (s' : St R) (hunit : ∀ j x, c.mulW j (c.divW j x) = x)
    (hrow : s.log[i]? = some row) (h : reload c i s = (r, s')) :
    s'.vAct = row.vAct ∧ s'.tAct = row.tAct ∧ ∀ j, s'.knobs j = row.knobs j := by
  obtain ⟨h1, h2, h3⟩ := reload_frame c i row s r s' hrow h
  refine ⟨h1, h2, fun j => ?_⟩
  rcases h3 j with hj | hj
  · exact hj
  · rw [hj, hunit]

/-- every operation only appends to the log: rows are never rewritten -/
theorem C15_log_append_only {R : Type} (c : Cfg R) (its : List (Iter R)) (tb : Option Nat) : LM (optStep c its tb) :=
  LM_optStep c its tb

end Properties.C15
