import XProofs.Limits
import XModel.Opt
import XModel.OptBest
import XProofs.OptBest2
import XProofs.OptBest3
import XModel.MeritNum
/-!
# C15 — the optimizer log is truthful: reload reproduces a row, steps never end worse

All theorems are about the control skeleton `Opt.optStep` of ONE call of `Optimize.step` (`XModel/Opt.lean`).

The `take_best` clause is `C15_take_best_pens` with its two branches `C15_take_best_none_branch` (the first minimum
of the penalties recorded during the call is at the last position: the code does NOT reload, the log gets no further
row) and `C15_take_best_reload_branch` (it is earlier: that row is reloaded, one copy appended).  They are stated on
`Opt.takeBestArg pens start`, which is the code's (and the Lean driver's) decision rule, for `pens` an arbitrary list
with one entry per ROW POSITION of the call.  `C15_take_best_on_the_log` (penalty a function of the row CONTENT, index
always `some …`) is the special case `pens := rows.map pen` away from the last position
(`C15_take_best_content_special_case`); when the argmin is the last position it describes a call the code does not make.

What each appended row records is `C15_log_row_kinds` (normal return): kinds in order — read, evaluated …, read — each
row tied to the state of the execution right after it was appended.  `C15_log_rows_are_evaluated_points` (any outcome)
is weaker than it looks: `C15_truthful_loophole`.

NOT covered: the penalty values themselves are the implementation's recorded numbers (the skeleton has no penalty
function; the oracle harness/w_opt.py recomputes each logged penalty and target vector from the logged knobs); what a
penalty is a FUNCTION OF is `C15_penalty_is_function_of_current_weights` (over `XModel/MeritNum.lean`, the residual
computation of the merit function, which the driver recomputes on doubles for every recorded evaluation: `resid_ok`),
solve(), tag/enable/disable/clear_log.
-/
namespace Properties.C15
open Opt

/-- SUPERSEDED list fact (nothing about a call: `pens` is any non-empty list; used by `C15_take_best_reload_branch` /
    `C15_take_best_none_branch`, which are the statements about the call).  `np.argmin` on a non-empty list returns
    an in-range index of a minimal entry. -/
theorem C15_take_best_minimum {K : Type} [LinearOrder K] (pens : List K) (hne : pens ≠ []) :
    Argmin.argmin pens < pens.length ∧ ∃ v, pens[Argmin.argmin pens]? = some v ∧ ∀ y ∈ pens, v ≤ y :=
  Argmin.argmin_min pens hne

/-- SUPERSEDED list fact (nothing about a call: `start`, `rest` are free).  The entry at the argmin of a list is not
    above its head.  The statement about the call is in `C15_take_best_pens`: position 0 of `pens` is the start row's
    penalty and the chosen position's penalty is ≤ the penalty at every position. -/
theorem C15_never_worse {K : Type} [LinearOrder K] (start : K) (rest : List K) :
    ∃ v, (start :: rest)[Argmin.argmin (start :: rest)]? = some v ∧ v ≤ start := by
  obtain ⟨_, v, hv, hmin⟩ := Argmin.argmin_min (start :: rest) (by simp)
  exact ⟨v, hv, hmin start (by simp)⟩

/-- `reload(i)` puts row i's knobs and flags back, whatever its outcome: each knob is the row's value
    or its image under the weight round trip `k ↦ (k / w) * w` -/
theorem C15_reload_row {R : Type} (c : Cfg R) (i : Nat) (row : Row R) (s : St R) (r : Except Err Unit) (s' : St R)
    (hrow : s.log[i]? = some row) (h : reload c i s = (r, s')) :
    s'.vAct = row.vAct ∧ s'.tAct = row.tAct ∧
    ∀ j, s'.knobs j = row.knobs j ∨ s'.knobs j = c.mulW j (c.divW j (row.knobs j)) :=
  reload_frame c i row s r s' hrow h

/-- SUPERSEDED list fact glued to a call (kept for reference only; use `C15_take_best_pens`).  Here `start`, `rest` and
    `n` are free — the penalties are tied neither to the log nor to the rows of the call — and the index is always
    `some …`, which is not the code's call when the argmin is the last position.  `step(take_best=True)` that returns normally ends either on the point the loop left with every active target
    within tolerance, or — reloading index `n + argmin pens`, where `pens` are the penalties of the rows logged
    during the call starting at log position `n` — on the knobs and flags of that row (bit for bit, or through the
    weight round trip), whose penalty is minimal among `pens`, in particular not above the start row's -/
theorem C15_take_best_spec {R K : Type} [LinearOrder K] (c : Cfg R) (its : List (Iter R)) (n : Nat)
    (start : K) (rest : List K) (s s' : St R)
    (h : optStep c its (some (n + Argmin.argmin (start :: rest))) s = (.ok (), s')) :
    ∃ sl, optBody c its s = (.ok (), sl) ∧
      ((sl.lastWithin = true ∧ s' = sl ∧ ∃ res, c.f s'.knobs = some res ∧ c.within res s'.tAct = true) ∨
       (sl.lastWithin = false ∧ ∃ row, sl.log[n + Argmin.argmin (start :: rest)]? = some row ∧
          s'.vAct = row.vAct ∧ s'.tAct = row.tAct ∧
          (∀ j, s'.knobs j = row.knobs j ∨ s'.knobs j = c.mulW j (c.divW j (row.knobs j))) ∧
          ∃ v, (start :: rest)[Argmin.argmin (start :: rest)]? = some v ∧ (∀ y ∈ start :: rest, v ≤ y) ∧ v ≤ start)) := by
  obtain ⟨sl, hb, hcase⟩ := optStep_take_best c its _ s s' h
  refine ⟨sl, hb, ?_⟩
  rcases hcase with ⟨hw, he⟩ | ⟨hw, row, hrow, hv, ht, hk⟩
  · refine Or.inl ⟨hw, he, ?_⟩
    subst he
    -- the flag is the tolerance predicate at the knobs in the container (coherence, C09)
    have hcoh : Coh c s' := by
      unfold optBody at hb
      simp only [bind'] at hb
      cases ha : addPoint c s with
      | mk r1 s1 =>
        rw [ha] at hb
        cases r1 with
        | error e => simp at hb
        | ok u =>
          simp only at hb
          exact optLoop_coh c its s1 s' (addPoint_coh c s s1 ha) hb
    exact matched_of_coh c s' hcoh hw
  · obtain ⟨_, v, hv', hmin⟩ := Argmin.argmin_min (start :: rest) (by simp)
    exact Or.inr ⟨hw, row, hrow, hv, ht, hk, v, hv', hmin, hmin start (by simp)⟩

/-- unit weights: `reload(i)` puts row i's knob values back bit for bit -/
theorem C15_reload_row_unit_weights {R : Type} (c : Cfg R) (i : Nat) (row : Row R) (s : St R) (r : Except Err Unit)
    (s' : St R) (hunit : ∀ j x, c.mulW j (c.divW j x) = x)
    (hrow : s.log[i]? = some row) (h : reload c i s = (r, s')) :
    s'.vAct = row.vAct ∧ s'.tAct = row.tAct ∧ ∀ j, s'.knobs j = row.knobs j := by
  obtain ⟨h1, h2, h3⟩ := reload_frame c i row s r s' hrow h
  refine ⟨h1, h2, fun j => ?_⟩
  rcases h3 j with hj | hj
  · exact hj
  · rw [hj, hunit]

/-- every operation only appends to the log: rows are never rewritten -/
theorem C15_log_append_only {R : Type} (c : Cfg R) (its : List (Iter R)) (tb : Option Nat) : LM (optStep c its tb) :=
  LM_optStep c its tb

/-! ### wrappers of the model-level results (statements as printed by `#check`) -/
section wrapped

/-- **take_best tied to the call's own log**: for ANY assignment of penalties to rows (`pen`, as the real log records one per row), let `rows` be the rows the call appended (the first is the start row) and let the reload index be `n + argmin (rows.map pen)` computed FROM them; a normal return then ends either on the loop's point with every active target within tolerance, or on the flags and knobs (exactly, or through the weight round trip) of a row of the call whose recorded penalty is minimal among the call's rows — in particular not above the start row's -/
theorem C15_take_best_on_the_log :
    ∀ {R K : Type} [inst : LinearOrder K] (pen : Opt.Row R → K) (c : Opt.Cfg R)
      (its : List (Opt.Iter R)) (s sl s' : Opt.St R),
      Opt.optBody c its s = (Except.ok (), sl) →
        Opt.optStep c its (some (List.length s.log + Argmin.argmin (List.map pen (List.drop (List.length s.log) sl.log))))
              s =
            (Except.ok (), s') →
          (sl.lastWithin = true ∧ s' = sl ∧ ∃ res, c.f s'.knobs = some res ∧ c.within res s'.tAct = true) ∨
            sl.lastWithin = false ∧
              ∃ r ∈ List.drop (List.length s.log) sl.log,
                (List.drop (List.length s.log)
                        sl.log)[Argmin.argmin (List.map pen (List.drop (List.length s.log) sl.log))]? =
                    some r ∧
                  s'.vAct = r.vAct ∧
                    s'.tAct = r.tAct ∧
                      r.vAct = s.vAct ∧
                        r.tAct = s.tAct ∧
                          s'.knobs = Opt.roundTrip c r.vAct r.knobs ∧
                            (∀ (j : ℕ), s'.knobs j = r.knobs j ∨ s'.knobs j = c.mulW j (c.divW j (r.knobs j))) ∧
                              s'.log = sl.log ++ [r] ∧
                                (∀ r' ∈ List.drop (List.length s.log) sl.log, pen r ≤ pen r') ∧ pen r ≤ pen (Opt.rowOf s) :=
  @Opt.optStep_take_best_argmin

/-- with a weight round trip that is the identity (unit weights) the container ends exactly on that row -/
theorem C15_take_best_exact_unit_weights :
    ∀ {R K : Type} [inst : LinearOrder K] (pen : Opt.Row R → K) (c : Opt.Cfg R)
      (its : List (Opt.Iter R)) (s sl s' : Opt.St R),
      (∀ (j : ℕ) (x : R), c.mulW j (c.divW j x) = x) →
        Opt.optBody c its s = (Except.ok (), sl) →
          Opt.optStep c its (some (List.length s.log + Argmin.argmin (List.map pen (List.drop (List.length s.log) sl.log))))
                s =
              (Except.ok (), s') →
            sl.lastWithin = true ∧ s' = sl ∨
              sl.lastWithin = false ∧
                ∃ r ∈ List.drop (List.length s.log) sl.log,
                  Opt.rowOf s' = r ∧
                    (∀ r' ∈ List.drop (List.length s.log) sl.log, pen r ≤ pen r') ∧ pen r ≤ pen (Opt.rowOf s) :=
  @Opt.optStep_take_best_argmin_exact

/-- (weak: see `C15_truthful_loophole` — `Truthful` is a property of the row alone and holds for every row when the
    user's function is total and the weights round-trip; the statement that pins rows to the execution is
    `C15_log_row_kinds`.)  **what a row tells**: every row a `step()` appends, whatever the outcome, is the container and masks of a completed evaluation, or — the start row and reload copies — the knobs read just before an evaluation made at their weight round trip (`Truthful`; the two coincide for unit weights: `addPoint_row_vs_eval`, and differ otherwise: `Opt.BestExample`) -/
theorem C15_log_rows_are_evaluated_points :
    ∀ {R : Type} (c : Opt.Cfg R) (its : List (Opt.Iter R)) (tb : Option ℕ) (s s' : Opt.St R)
      (r : Except Opt.Err Unit),
      Opt.optStep c its tb s = (r, s') → ∃ suf, s'.log = s.log ++ suf ∧ ∀ row ∈ suf, Opt.Truthful c row :=
  @Opt.optStep_log_truthful

/-- the index so computed points at a row logged during the call: the hypothesis of C10's theorems is met -/
theorem C15_take_best_index_in_call :
    ∀ {R K : Type} [inst : LinearOrder K] (pen : Opt.Row R → K) (c : Opt.Cfg R)
      (its : List (Opt.Iter R)) (s sl : Opt.St R),
      Opt.optBody c its s = (Except.ok (), sl) →
        List.length s.log ≤ List.length s.log + Argmin.argmin (List.map pen (List.drop (List.length s.log) sl.log)) ∧
          List.length s.log + Argmin.argmin (List.map pen (List.drop (List.length s.log) sl.log)) < List.length sl.log ∧
            (∃ r,
                sl.log[List.length s.log + Argmin.argmin (List.map pen (List.drop (List.length s.log) sl.log))]? = some r ∧
                  r ∈ List.drop (List.length s.log) sl.log ∧ ∀ r' ∈ List.drop (List.length s.log) sl.log, pen r ≤ pen r') ∧
              ∀ (i : ℕ),
                some (List.length s.log + Argmin.argmin (List.map pen (List.drop (List.length s.log) sl.log))) = some i →
                  List.length s.log ≤ i :=
  @Opt.take_best_argmin_index

end wrapped

/-! ### `take_best` as the code decides it, penalties per row position (`XModel/OptBest3.lean`, `XProofs/OptBest3.lean`) -/
section perPosition

/-- the decision rule, spelled out: `none` (no reload) when there is no penalty or the first minimum is at the last
    position, else `some (argmin + start)`.  `Driver/OptD.lean` computes the `take_best` argument by this rule from the
    penalties the implementation logged for the rows of the call. -/
theorem C15_take_best_decision {K : Type} [LinearOrder K] (pens : List K) (start : ℕ) :
    Opt.takeBestArg pens start =
      if pens.isEmpty then none
      else if Argmin.argmin pens + 1 = pens.length then none else some (Argmin.argmin pens + start) := rfl

/-- **`take_best`, the best row is the last one: no reload.**  `sl` is the state the body of the call (start row, loop)
    leaves; `pens` are the penalties THE IMPLEMENTATION RECORDED for the rows that body appended — an arbitrary list, one
    entry per row position (second hypothesis); the code's decision `takeBestArg pens s.log.length` is `none`.  Then a
    normal return ends on `sl`, nothing more is appended, the last appended row is at position `pens.length - 1` of the
    call's rows and `sl` is the state of that row (container and masks ARE the row if an iteration ran; they are the
    start row's weight round trip if none ran), and the penalty recorded at that position is ≤ the one at every position
    and strictly below every earlier one.  Nothing is said about what the recorded numbers are. -/
theorem C15_take_best_none_branch :
    ∀ {R K : Type} [LinearOrder K] (pens : List K) (c : Opt.Cfg R)
      (its : List (Opt.Iter R)) (s sl s' : Opt.St R),
      Opt.optBody c its s = (Except.ok (), sl) →
        pens.length = (List.drop s.log.length sl.log).length →
          Opt.takeBestArg pens s.log.length = none →
            Opt.optStep c its (Opt.takeBestArg pens s.log.length) s = (Except.ok (), s') →
              s' = sl ∧
                s'.log = sl.log ∧
                  (∃ last,
                      (List.drop s.log.length s'.log)[pens.length - 1]? = some last ∧
                        s'.log.getLast? = some last ∧
                          s'.vAct = last.vAct ∧
                            s'.tAct = last.tAct ∧
                              last.vAct = s.vAct ∧
                                last.tAct = s.tAct ∧
                                  (Opt.rowOf s' = last ∨
                                    List.drop s.log.length s'.log = [Opt.rowOf s] ∧
                                      last = Opt.rowOf s ∧
                                        Opt.rowOf s' =
                                          { knobs := Opt.roundTrip c s.vAct s.knobs, vAct := s.vAct, tAct := s.tAct })) ∧
                    Argmin.argmin pens + 1 = pens.length ∧
                      ∃ v,
                        pens[pens.length - 1]? = some v ∧
                          (∀ (j : ℕ) (y : K), pens[j]? = some y → v ≤ y) ∧
                            ∀ (j : ℕ) (y : K), j < pens.length - 1 → pens[j]? = some y → v < y :=
  @Opt.optStep_take_best_none_branch

/-- **`take_best`, an earlier row is better: reload.**  The tolerance flag is off after the loop and the code's decision
    `takeBestArg pens s.log.length` is `some i`, `pens` being the penalties the implementation recorded (an arbitrary
    list; were it longer than the call's rows and `i` beyond them, `reload` would raise, so no length hypothesis is
    needed).  On normal return log row `i` has been reloaded: `i - s.log.length = argmin pens` is a position of the
    call's rows, not the last position of `pens`; the flags are that row's (= the entry flags), the container is the row's
    weight round trip `k ↦ (k / w) * w` on the active knobs (each knob is the row's value or its image: `C15_reload_row`),
    exactly one more row — a copy — is appended; the penalty recorded at that position is ≤ the one at every position
    (in particular position 0, the start row) and strictly below every earlier one: it is the FIRST minimum. -/
theorem C15_take_best_reload_branch :
    ∀ {R K : Type} [LinearOrder K] (pens : List K) (c : Opt.Cfg R)
      (its : List (Opt.Iter R)) (s sl s' : Opt.St R) (i : ℕ),
      Opt.optBody c its s = (Except.ok (), sl) →
        sl.lastWithin = false →
          Opt.takeBestArg pens s.log.length = some i →
            Opt.optStep c its (Opt.takeBestArg pens s.log.length) s = (Except.ok (), s') →
              s.log.length ≤ i ∧
                i - s.log.length = Argmin.argmin pens ∧
                  Argmin.argmin pens + 1 < pens.length ∧
                    (∃ row,
                        sl.log[i]? = some row ∧
                          (List.drop s.log.length sl.log)[Argmin.argmin pens]? = some row ∧
                            s'.log = sl.log ++ [row] ∧
                              s'.vAct = row.vAct ∧
                                s'.tAct = row.tAct ∧
                                  row.vAct = s.vAct ∧
                                    row.tAct = s.tAct ∧
                                      s'.knobs = Opt.roundTrip c row.vAct row.knobs ∧
                                        (∀ (j : ℕ),
                                            s'.knobs j = row.knobs j ∨
                                              s'.knobs j = c.mulW j (c.divW j (row.knobs j))) ∧
                                          Opt.Coh c s') ∧
                      ∃ v,
                        pens[Argmin.argmin pens]? = some v ∧
                          (∀ (j : ℕ) (y : K), pens[j]? = some y → v ≤ y) ∧
                            ∀ (j : ℕ) (y : K), j < Argmin.argmin pens → pens[j]? = some y → v < y :=
  @Opt.optStep_take_best_reload_branch

/-- **all three ways a normal return of `step(take_best=True)` ends** (flag set; flag off and no reload; flag off and
    reload), with the code's decision on the recorded penalties, one per row position of the call -/
theorem C15_take_best_pens {R K : Type} [LinearOrder K] (pens : List K) (c : Opt.Cfg R) (its : List (Opt.Iter R))
    (s sl s' : Opt.St R)
    (hb : Opt.optBody c its s = (Except.ok (), sl))
    (hlen : pens.length = (List.drop s.log.length sl.log).length)
    (h : Opt.optStep c its (Opt.takeBestArg pens s.log.length) s = (Except.ok (), s')) :
    (sl.lastWithin = true ∧ s' = sl ∧ ∃ res, c.f s'.knobs = some res ∧ c.within res s'.tAct = true) ∨
    (sl.lastWithin = false ∧ Opt.takeBestArg pens s.log.length = none ∧ s' = sl ∧ s'.log = sl.log ∧
      Argmin.argmin pens + 1 = pens.length) ∨
    (sl.lastWithin = false ∧ ∃ i row, Opt.takeBestArg pens s.log.length = some i ∧
      i = Argmin.argmin pens + s.log.length ∧ Argmin.argmin pens + 1 < pens.length ∧
      sl.log[i]? = some row ∧ s'.log = sl.log ++ [row]) := by
  rcases Opt.optStep_take_best_pens pens c its s sl s' hb hlen h with
    h1 | ⟨hw, htb, hs, hl, _, ha, _⟩ | ⟨hw, i, htb, _, _, hlt, ⟨row, r1, _, r3, _⟩, _⟩
  · exact Or.inl h1
  · exact Or.inr (Or.inl ⟨hw, htb, hs, hl, ha⟩)
  · exact Or.inr (Or.inr ⟨hw, i, row, htb, (Opt.takeBestArg_some_spec pens _ i htb).2.1, hlt, r1, r3⟩)

/-- **the content-based statement is the special case `pens := rows.map pen`** (the length hypothesis then holds by
    construction).  In the no-reload branch the last appended row has minimal `pen`; in the reload branch the reloaded
    row has, as in `C15_take_best_on_the_log`. -/
theorem C15_take_best_content_special_case :
    ∀ {R K : Type} [LinearOrder K] (pen : Opt.Row R → K) (c : Opt.Cfg R)
      (its : List (Opt.Iter R)) (s sl s' : Opt.St R),
      Opt.optBody c its s = (Except.ok (), sl) →
        Opt.optStep c its (Opt.takeBestArg (List.map pen (List.drop s.log.length sl.log)) s.log.length) s =
            (Except.ok (), s') →
          (sl.lastWithin = true ∧ s' = sl ∧ ∃ res, c.f s'.knobs = some res ∧ c.within res s'.tAct = true) ∨
            (sl.lastWithin = false ∧
                Opt.takeBestArg (List.map pen (List.drop s.log.length sl.log)) s.log.length = none ∧
                  s' = sl ∧
                    ∃ last,
                      s'.log.getLast? = some last ∧
                        last ∈ List.drop s.log.length sl.log ∧
                          (Opt.rowOf s' = last ∨
                              last = Opt.rowOf s ∧
                                Opt.rowOf s' =
                                  { knobs := Opt.roundTrip c s.vAct s.knobs, vAct := s.vAct, tAct := s.tAct }) ∧
                            (∀ r' ∈ List.drop s.log.length sl.log, pen last ≤ pen r') ∧
                              pen last ≤ pen (Opt.rowOf s)) ∨
              sl.lastWithin = false ∧
                ∃ r ∈ List.drop s.log.length sl.log,
                  Opt.takeBestArg (List.map pen (List.drop s.log.length sl.log)) s.log.length =
                      some (Argmin.argmin (List.map pen (List.drop s.log.length sl.log)) + s.log.length) ∧
                    (List.drop s.log.length sl.log)[Argmin.argmin (List.map pen (List.drop s.log.length sl.log))]? =
                        some r ∧
                      s'.vAct = r.vAct ∧
                        s'.tAct = r.tAct ∧
                          r.vAct = s.vAct ∧
                            r.tAct = s.tAct ∧
                              s'.knobs = Opt.roundTrip c r.vAct r.knobs ∧
                                (∀ (j : ℕ),
                                    s'.knobs j = r.knobs j ∨ s'.knobs j = c.mulW j (c.divW j (r.knobs j))) ∧
                                  s'.log = sl.log ++ [r] ∧
                                    (∀ r' ∈ List.drop s.log.length sl.log, pen r ≤ pen r') ∧
                                      pen r ≤ pen (Opt.rowOf s) :=
  @Opt.optStep_take_best_content

/-- **which appended row records what** (normal return of one `step`).  There are the state `s1` that
    `add_point_to_log` leaves at entry, the state `sl` the loop leaves, and an optional reload entry `tail`, such that
    the rows appended are IN ORDER the rows of the entries
    `(read, container and masks of the entry state, s1)`, then `(eval, container and masks of t, t)` for each state `t`
    of `loopTrace` — the state each executed iteration leaves —, then `tail`;
    every entry `(kind, row, post)` satisfies `RowRec c kind row post`: for `eval`, `post` is coherent and the row IS its
    container and masks (the last completed evaluation was at `row.knobs` under `row.tAct`: `Opt.RowRec.eval_spec`); for
    `read`, `post` is coherent and holds the weight ROUND TRIP of the row's knobs (the evaluation made when the row was
    appended was there, not at `row.knobs`: `Opt.RowRec.read_spec`);
    `sl` is the last state of `s1 :: loopTrace`; and `tail` is empty (the call ends on `sl`: no index, or tolerance met)
    or is the single entry `(read, sl.log[i], s')` of the reloaded row.
    The states are those of the execution, not existentially chosen: a log containing a made-up row fails this
    statement while passing `C15_log_rows_are_evaluated_points` (`Opt.GarbageExample.garbage_not_logKinds`,
    `garbage_truthful`). -/
theorem C15_log_row_kinds {R : Type} (c : Opt.Cfg R) (its : List (Opt.Iter R)) (tb : Option ℕ) (s s' : Opt.St R)
    (h : Opt.optStep c its tb s = (Except.ok (), s')) :
    ∃ (s1 sl : Opt.St R) (tail : List (Opt.RowKind × Opt.Row R × Opt.St R)),
      Opt.addPoint c s = (Except.ok (), s1) ∧ Opt.optLoop c its s1 = (Except.ok (), sl) ∧
      s'.log = s.log ++ (Opt.callEntries c its s s1 ++ tail).map (fun e => e.2.1) ∧
      (∀ e ∈ Opt.callEntries c its s s1 ++ tail, Opt.RowRec c e.1 e.2.1 e.2.2) ∧
      (s1 :: Opt.loopTrace c its s1).getLast? = some sl ∧
      ((tail = [] ∧ s' = sl ∧ (tb = none ∨ sl.lastWithin = true)) ∨
       (∃ i row, tb = some i ∧ sl.lastWithin = false ∧ sl.log[i]? = some row ∧
          tail = [(Opt.RowKind.read, row, s')])) :=
  Opt.optStep_log_kinds c its tb s s' h

/-- the kinds of the body's entries in order: `read`, then `eval` once per executed iteration -/
theorem C15_log_row_kinds_order {R : Type} (c : Opt.Cfg R) (its : List (Opt.Iter R)) (s s1 : Opt.St R) :
    (Opt.callEntries c its s s1).map (fun e => e.1) =
      Opt.RowKind.read :: List.replicate (Opt.loopTrace c its s1).length Opt.RowKind.eval :=
  Opt.callEntries_kinds c its s s1

/-- **the loophole of `C15_log_rows_are_evaluated_points`**: if the user's function never raises and the weights
    round-trip, EVERY row is `Truthful`, so that theorem does not constrain the content of the log at all -/
theorem C15_truthful_loophole {R : Type} (c : Opt.Cfg R) (htot : ∀ k, ∃ res, c.f k = some res)
    (hunit : ∀ j x, c.mulW j (c.divW j x) = x) (row : Opt.Row R) : Opt.Truthful c row :=
  Opt.truthful_of_total_unit c htot hunit row

/-- a log with a made-up row: every appended row is `Truthful`, yet `C15_log_row_kinds`' conclusion fails -/
theorem C15_garbage_log_rejected :
    (∃ suf, Opt.GarbageExample.garbageEnd.log = Opt.BestExample.s0.log ++ suf ∧
      ∀ row ∈ suf, Opt.Truthful Opt.GarbageExample.cfgU row) ∧
    ¬ Opt.LogKinds Opt.GarbageExample.cfgU [Opt.BestExample.itTo 4] none Opt.BestExample.s0
        Opt.GarbageExample.garbageEnd :=
  ⟨Opt.GarbageExample.garbage_truthful, Opt.GarbageExample.garbage_not_logKinds⟩

end perPosition

/-! ### what a logged penalty is a function of (`XModel/MeritNum.lean`) -/

/-- the penalty of an evaluation of the merit function (a log row records its square root) is the sum of the squares
    of the returned entries, and entry `i` is a function of the `i`-th raw value, wanted value, active flag and of the
    weight target `i` has NOW (`weights` is the list of the `weight` attributes read at this call, `none` = no weight):
    `(res[i] - value[i]) * weight[i]` for an active target, `0 * weight[i]` for a disabled one, each times `0` when the
    point is matched and `zero_if_met` is set.  No weight read at an earlier call enters. -/
theorem C15_penalty_is_function_of_current_weights {R : Type} (o : MeritNum.NumOps R) (res tar tols : List R)
    (weights : List (Option R)) (mask : List Bool) (zeroIfMet : Bool) :
    MeritNum.penalty2 o res tar tols weights mask zeroIfMet =
      ((MeritNum.residuals o res tar tols weights mask zeroIfMet).map (fun e => o.mul e e)).foldl o.add o.zero ∧
    ∀ (i : Nat) (r t : R) (w : Option R) (m : Bool),
      res[i]? = some r → tar[i]? = some t → weights[i]? = some w → mask[i]? = some m →
      (MeritNum.residuals o res tar tols weights mask zeroIfMet)[i]? =
        some (MeritNum.scaleW o w
          (if zeroIfMet && MeritNum.lastWithin o res tar tols mask then o.mul (if m then o.sub r t else o.zero) o.zero
           else (if m then o.sub r t else o.zero))) := by
  refine ⟨rfl, ?_⟩
  intro i r t w m hr ht hw hm
  rw [MeritNum.residuals_getElem?, hr, ht, hw, hm]
  rfl

/-- an active target, vector not zeroed: `(res[i] - value[i]) * weight[i]`, unscaled when the weight is `None` -/
theorem C15_residual_of_active_target {R : Type} (o : MeritNum.NumOps R) (res tar tols : List R)
    (weights : List (Option R)) (mask : List Bool) (zeroIfMet : Bool) (i : Nat) (r t : R) (w : Option R)
    (hr : res[i]? = some r) (ht : tar[i]? = some t) (hw : weights[i]? = some w) (hm : mask[i]? = some true)
    (hz : (zeroIfMet && MeritNum.lastWithin o res tar tols mask) = false) :
    (MeritNum.residuals o res tar tols weights mask zeroIfMet)[i]? = some (MeritNum.scaleW o w (o.sub r t)) :=
  MeritNum.residual_of_active o res tar tols weights mask zeroIfMet i r t w hr ht hw hm hz

/-- non-vacuity: the same raw values with the weights (2, none) and then (3, none): residuals `[4, -5]` / `[6, -5]`,
    penalties `41` / `61` — the penalty follows the weight; a weight cached from the first evaluation would give 41
    twice -/
example : MeritNum.residuals MeritNum.intOps [3, -5] [1, 0] [1, 1] [some 2, none] [true, true] false = [4, -5] ∧
    MeritNum.penalty2 MeritNum.intOps [3, -5] [1, 0] [1, 1] [some 2, none] [true, true] false = 41 ∧
    MeritNum.residuals MeritNum.intOps [3, -5] [1, 0] [1, 1] [some 3, none] [true, true] false = [6, -5] ∧
    MeritNum.penalty2 MeritNum.intOps [3, -5] [1, 0] [1, 1] [some 3, none] [true, true] false = 61 := by decide

/-- a matched point under `zero_if_met`: every entry is multiplied by zero -/
example : MeritNum.residuals MeritNum.intOps [1, 7] [1, 0] [1, 1] [some 2, none] [true, false] true = [0, 0] ∧
    MeritNum.residuals MeritNum.intOps [1, 7] [1, 0] [1, 1] [some 2, none] [true, true] true = [0, 7] := by decide

end Properties.C15
