import XProofs.Limits
import XModel.Opt
import XModel.OptBest
import XProofs.OptBest2
/-!
# C15 — the optimizer log is truthful: reload reproduces a row, steps never end worse
-/
namespace Properties.C15
open Opt

/-- `take_best`: `np.argmin` returns an index of minimum penalty among the rows logged during the call -/
theorem C15_take_best_minimum {K : Type} [LinearOrder K] (pens : List K) (hne : pens ≠ []) :
    Argmin.argmin pens < pens.length ∧ ∃ v, pens[Argmin.argmin pens]? = some v ∧ ∀ y ∈ pens, v ≤ y :=
  Argmin.argmin_min pens hne

/-- hence the call never ends at a higher penalty than its start row (the start row is among them) -/
theorem C15_never_worse {K : Type} [LinearOrder K] (start : K) (rest : List K) :
    ∃ v, (start :: rest)[Argmin.argmin (start :: rest)]? = some v ∧ v ≤ start := by
  obtain ⟨_, v, hv, hmin⟩ := Argmin.argmin_min (start :: rest) (by simp)
  exact ⟨v, hv, hmin start (by simp)⟩

/-- `reload(i)` puts row i's knobs and flags back, whatever its outcome: each knob is the row's value
    or its image under the weight round trip `k ↦ (k / w) * w` -/
theorem C15_reload_row {R : Type} (c : Cfg R) (i : Nat) (row : Row R) (s : St R) (r : Except Err Unit) (s' : St R)
    (hrow : s.log[i]? = some row) (h : reload c i s = (r, s')) :
    s'.vAct = row.vAct ∧ s'.tAct = row.tAct ∧
    ∀ j, s'.knobs j = row.knobs j ∨ s'.knobs j = c.mulW j (c.divW j (row.knobs j)) :=
  reload_frame c i row s r s' hrow h

/-- SUPERSEDED by `C15_take_best_on_the_log` below (here `start`, `rest` and `n` are free: the penalties are not tied to the
    log).  `step(take_best=True)` that returns normally ends either on the point the loop left with every active target
    within tolerance, or — reloading index `n + argmin pens`, where `pens` are the penalties of the rows logged
    during the call starting at log position `n` — on the knobs and flags of that row (bit for bit, or through the
    weight round trip), whose penalty is minimal among `pens`, in particular not above the start row's -/
theorem C15_take_best_spec {R K : Type} [LinearOrder K] (c : Cfg R) (its : List (Iter R)) (n : Nat)
    (start : K) (rest : List K) (s s' : St R)
    (h : optStep c its (some (n + Argmin.argmin (start :: rest))) s = (.ok (), s')) :
    ∃ sl, optBody c its s = (.ok (), sl) ∧
      ((sl.lastWithin = true ∧ s' = sl ∧ ∃ res, c.f s'.knobs = some res ∧ c.within res s'.tAct = true) ∨
       (sl.lastWithin = false ∧ ∃ row, sl.log[n + Argmin.argmin (start :: rest)]? = some row ∧
          s'.vAct = row.vAct ∧ s'.tAct = row.tAct ∧
          (∀ j, s'.knobs j = row.knobs j ∨ s'.knobs j = c.mulW j (c.divW j (row.knobs j))) ∧
          ∃ v, (start :: rest)[Argmin.argmin (start :: rest)]? = some v ∧ (∀ y ∈ start :: rest, v ≤ y) ∧ v ≤ start)) := by
  obtain ⟨sl, hb, hcase⟩ := optStep_take_best c its _ s s' h
  refine ⟨sl, hb, ?_⟩
  rcases hcase with ⟨hw, he⟩ | ⟨hw, row, hrow, hv, ht, hk⟩
  · refine Or.inl ⟨hw, he, ?_⟩
    subst he
    -- the flag is the tolerance predicate at the knobs in the container (coherence, C09)
    have hcoh : Coh c s' := by
      unfold optBody at hb
      simp only [bind'] at hb
      cases ha : addPoint c s with
      | mk r1 s1 =>
        rw [ha] at hb
        cases r1 with
        | error e => simp at hb
        | ok u =>
          simp only at hb
          exact optLoop_coh c its s1 s' (addPoint_coh c s s1 ha) hb
    exact matched_of_coh c s' hcoh hw
  · obtain ⟨_, v, hv', hmin⟩ := Argmin.argmin_min (start :: rest) (by simp)
    exact Or.inr ⟨hw, row, hrow, hv, ht, hk, v, hv', hmin, hmin start (by simp)⟩

/-- unit weights: `reload(i)` puts row i's knob values back bit for bit -/
theorem C15_reload_row_unit_weights {R : Type} (c : Cfg R) (i : Nat) (row : Row R) (s : St R) (r : Except Err Unit)
    (s' : St R) (hunit : ∀ j x, c.mulW j (c.divW j x) = x)
    (hrow : s.log[i]? = some row) (h : reload c i s = (r, s')) :
    s'.vAct = row.vAct ∧ s'.tAct = row.tAct ∧ ∀ j, s'.knobs j = row.knobs j := by
  obtain ⟨h1, h2, h3⟩ := reload_frame c i row s r s' hrow h
  refine ⟨h1, h2, fun j => ?_⟩
  rcases h3 j with hj | hj
  · exact hj
  · rw [hj, hunit]

/-- every operation only appends to the log: rows are never rewritten -/
theorem C15_log_append_only {R : Type} (c : Cfg R) (its : List (Iter R)) (tb : Option Nat) : LM (optStep c its tb) :=
  LM_optStep c its tb

/-! ### wrappers of the model-level results (statements as printed by `#check`) -/
section wrapped

/-- **take_best tied to the call's own log**: for ANY assignment of penalties to rows (`pen`, as the real log records one per row), let `rows` be the rows the call appended (the first is the start row) and let the reload index be `n + argmin (rows.map pen)` computed FROM them; a normal return then ends either on the loop's point with every active target within tolerance, or on the flags and knobs (exactly, or through the weight round trip) of a row of the call whose recorded penalty is minimal among the call's rows — in particular not above the start row's -/
theorem C15_take_best_on_the_log :
    ∀ {R K : Type} [inst : LinearOrder K] (pen : Opt.Row R → K) (c : Opt.Cfg R)
      (its : List (Opt.Iter R)) (s sl s' : Opt.St R),
      Opt.optBody c its s = (Except.ok (), sl) →
        Opt.optStep c its (some (List.length s.log + Argmin.argmin (List.map pen (List.drop (List.length s.log) sl.log))))
              s =
            (Except.ok (), s') →
          (sl.lastWithin = true ∧ s' = sl ∧ ∃ res, c.f s'.knobs = some res ∧ c.within res s'.tAct = true) ∨
            sl.lastWithin = false ∧
              ∃ r ∈ List.drop (List.length s.log) sl.log,
                (List.drop (List.length s.log)
                        sl.log)[Argmin.argmin (List.map pen (List.drop (List.length s.log) sl.log))]? =
                    some r ∧
                  s'.vAct = r.vAct ∧
                    s'.tAct = r.tAct ∧
                      r.vAct = s.vAct ∧
                        r.tAct = s.tAct ∧
                          s'.knobs = Opt.roundTrip c r.vAct r.knobs ∧
                            (∀ (j : ℕ), s'.knobs j = r.knobs j ∨ s'.knobs j = c.mulW j (c.divW j (r.knobs j))) ∧
                              s'.log = sl.log ++ [r] ∧
                                (∀ r' ∈ List.drop (List.length s.log) sl.log, pen r ≤ pen r') ∧ pen r ≤ pen (Opt.rowOf s) :=
  @Opt.optStep_take_best_argmin

/-- with a weight round trip that is the identity (unit weights) the container ends exactly on that row -/
theorem C15_take_best_exact_unit_weights :
    ∀ {R K : Type} [inst : LinearOrder K] (pen : Opt.Row R → K) (c : Opt.Cfg R)
      (its : List (Opt.Iter R)) (s sl s' : Opt.St R),
      (∀ (j : ℕ) (x : R), c.mulW j (c.divW j x) = x) →
        Opt.optBody c its s = (Except.ok (), sl) →
          Opt.optStep c its (some (List.length s.log + Argmin.argmin (List.map pen (List.drop (List.length s.log) sl.log))))
                s =
              (Except.ok (), s') →
            sl.lastWithin = true ∧ s' = sl ∨
              sl.lastWithin = false ∧
                ∃ r ∈ List.drop (List.length s.log) sl.log,
                  Opt.rowOf s' = r ∧
                    (∀ r' ∈ List.drop (List.length s.log) sl.log, pen r ≤ pen r') ∧ pen r ≤ pen (Opt.rowOf s) :=
  @Opt.optStep_take_best_argmin_exact

/-- **what a row tells**: every row a `step()` appends, whatever the outcome, is the container and masks of a completed evaluation, or — the start row and reload copies — the knobs read just before an evaluation made at their weight round trip (`Truthful`; the two coincide for unit weights: `addPoint_row_vs_eval`, and differ otherwise: `Opt.BestExample`) -/
theorem C15_log_rows_are_evaluated_points :
    ∀ {R : Type} (c : Opt.Cfg R) (its : List (Opt.Iter R)) (tb : Option ℕ) (s s' : Opt.St R)
      (r : Except Opt.Err Unit),
      Opt.optStep c its tb s = (r, s') → ∃ suf, s'.log = s.log ++ suf ∧ ∀ row ∈ suf, Opt.Truthful c row :=
  @Opt.optStep_log_truthful

/-- the index so computed points at a row logged during the call: the hypothesis of C10's theorems is met -/
theorem C15_take_best_index_in_call :
    ∀ {R K : Type} [inst : LinearOrder K] (pen : Opt.Row R → K) (c : Opt.Cfg R)
      (its : List (Opt.Iter R)) (s sl : Opt.St R),
      Opt.optBody c its s = (Except.ok (), sl) →
        List.length s.log ≤ List.length s.log + Argmin.argmin (List.map pen (List.drop (List.length s.log) sl.log)) ∧
          List.length s.log + Argmin.argmin (List.map pen (List.drop (List.length s.log) sl.log)) < List.length sl.log ∧
            (∃ r,
                sl.log[List.length s.log + Argmin.argmin (List.map pen (List.drop (List.length s.log) sl.log))]? = some r ∧
                  r ∈ List.drop (List.length s.log) sl.log ∧ ∀ r' ∈ List.drop (List.length s.log) sl.log, pen r ≤ pen r') ∧
              ∀ (i : ℕ),
                some (List.length s.log + Argmin.argmin (List.map pen (List.drop (List.length s.log) sl.log))) = some i →
                  List.length s.log ≤ i :=
  @Opt.take_best_argmin_index

end wrapped

end Properties.C15
