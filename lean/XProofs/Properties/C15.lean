import XProofs.Limits
import XModel.Opt
/-!
# C15 — the optimizer log is truthful: reload reproduces a row, steps never end worse
-/
namespace Properties.C15
open Opt

/-- `take_best`: `np.argmin` returns an index of minimum penalty among the rows logged during the call -/
theorem C15_take_best_minimum {K : Type} [LinearOrder K] (pens : List K) (hne : pens ≠ []) :
    Argmin.argmin pens < pens.length ∧ ∃ v, pens[Argmin.argmin pens]? = some v ∧ ∀ y ∈ pens, v ≤ y :=
  Argmin.argmin_min pens hne

/-- hence the call never ends at a higher penalty than its start row (the start row is among them) -/
theorem C15_never_worse {K : Type} [LinearOrder K] (start : K) (rest : List K) :
    ∃ v, (start :: rest)[Argmin.argmin (start :: rest)]? = some v ∧ v ≤ start := by
  obtain ⟨_, v, hv, hmin⟩ := Argmin.argmin_min (start :: rest) (by simp)
  exact ⟨v, hv, hmin start (by simp)⟩

/-- `reload(i)` puts row i's knobs and flags back, whatever its outcome: each knob is the row's value
    or its image under the weight round trip `k ↦ (k / w) * w` -/
theorem C15_reload_row {R : Type} (c : Cfg R) (i : Nat) (row : Row R) (s : St R) (r : Except Err Unit) (s' : St R)
    (hrow : s.log[i]? = some row) (h : reload c i s = (r, s')) :
    s'.vAct = row.vAct ∧ s'.tAct = row.tAct ∧
    ∀ j, s'.knobs j = row.knobs j ∨ s'.knobs j = c.mulW j (c.divW j (row.knobs j)) :=
  reload_frame c i row s r s' hrow h

/-- every operation only appends to the log: rows are never rewritten -/
theorem C15_log_append_only {R : Type} (c : Cfg R) (its : List (Iter R)) (tb : Option Nat) : LM (optStep c its tb) :=
  LM_optStep c its tb

end Properties.C15
