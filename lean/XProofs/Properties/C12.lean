import XModel.RefsTable
/-!
# C12 — a pickled manager restores to an independent, behaviourally identical copy
The pickle protocol is the model: reduce every node to (class, constructor arguments), rebuild by
calling the class.  Tie A checks `Generated.tbl.ValidReduce` on every run.
-/
namespace Properties.C12
open RefsTable

/-- reduce / rebuild is the identity on every object graph whose classes reduce to their own
    constructor's arguments in constructor order -/
theorem C12_reduce_rebuild (rows : List ReduceRow) (sn : String → List String) (n : DNode)
    (h : picklable rows sn n = true) : unpickleN sn (pickleN rows n) = n :=
  unpickle_pickle rows sn n h

/-- non-vacuity, and the shape of D18: a class whose row is invalid does not round-trip -/
def sn : String → List String
  | "AddExpr" => ["lhs", "rhs"] | "BuiltinRef" => ["arg", "op", "params"] | _ => []
example : unpickleN sn (pickleN [⟨"AddExpr", true, true, true⟩] (.node "AddExpr" [("lhs", .ref 1), ("rhs", .lit)]))
    = .node "AddExpr" [("lhs", .ref 1), ("rhs", .lit)] := rfl
example : unpickleN sn (pickleN [⟨"BuiltinRef", true, false, false⟩] (.node "BuiltinRef" [("arg", .ref 1), ("op", .lit), ("params", .lit)]))
    = .node "BuiltinRef" [] := rfl

end Properties.C12
