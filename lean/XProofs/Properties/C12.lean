import XModel.RefsLift
import XModel.ManagerC11
import XModel.PickleHeap
import XModel.ManagerPickle
/-!
# C12 — a pickled manager restores to an independent, behaviourally identical copy

Property: `pickle.loads(pickle.dumps(manager))` succeeds for every manager whose containers are picklable; the restored
manager has the same definitions, passes its consistency check, and produces the same container contents as the
original under any further sequence of assignments, while assignments to either one never affect the other.

The property is COMPOSED OF THREE PIECES, proved in three places; no single Lean theorem states all of it.

1. **Node round trip** (expression nodes and refs rebuilt by `cls(*args)` from `__reduce__`): a per-run obligation
   of Tie A.  The reduce / rebuild table is regenerated from the source on every run; Tie A checks
   `Generated.tbl.ValidReduce`, closed over the class universe `RefsTable.classSlots` (every expression class) and
   `RefsTable.refClasses` (`Ref`, `ObjectAttrRef`): each must have a row saying own class / constructor arguments in
   order / rebuilds equal.  `C12_reduce_covers_universe`, `C12_reduce_rebuild`, `C12_reduce_rebuild_rows` turn a valid
   table into "every tree of the universe round-trips".
2. **Manager state** (`XModel/ManagerPickle.lean`): `Manager.pickleM : MState → MState` transcribes what pickling a
   `Manager`'s `__dict__` does — containers deep-copied, task table rebuilt task by task (each expression node by
   node; on the model's `Expr` that rebuild is the identity, which is JUSTIFIED BY piece 1, not a proof of it), the
   four index dictionaries rebuilt by re-inserting their items in the stored order (the OLD indices, not regenerated
   ones), freeze flag and knob memory copied, event log empty.  Plain result (`C12_pickled_manager_is_the_original`):
   under the index invariant `pickleM s = { s with trace := [] }`.  Consequences: `C12_pickled_manager_same_table`,
   `C12_pickled_manager_passes_verify`, `C12_pickled_manager_same_dump`, `C12_pickled_manager_same_behaviour` (the
   composition of `C03_self_check_passes` / the `SameTable` bisimulation with the pickle that the second review found
   missing), `C12_pickled_manager_same_outcomes_per_call`.
3. **Aliasing** ("assignments to either one never affect the other"): NOT a statement of the functional manager model,
   where two states are two values.  Proved on the heap model `XModel/PickleHeap.lean` (`C12_copies_independent`,
   `C12_no_shared_object`, `C12_sharing_preserved`, `C12_restored_isomorphic` …: containers as heap objects, arbitrary
   sharing and cycles, `deepCopy` into fresh addresses) and tied to the real pickling of a real `Manager`'s containers
   by the correspondence suite `heap`.  The heap model's "assignment" is a bare slot write (no tasks, no propagation);
   propagation is piece 2.  The two models meet in one fact only: the `store` of `pickleM s` is the value of the
   restored containers, equal to the value of the originals (`C12_restored_isomorphic`).

ASSUMED, not proved in Lean: pickle re-inserts dictionary items in their stored order; `hash` / `==` of rebuilt refs
agree with the originals' (C06), so the rebuilt dictionaries have the same keys; `Manager` pickles its whole `__dict__`
(no `__getstate__` dropping a field); the containers are picklable (the property's premise — `pickleM` is total, "pickle
succeeds" is not expressed).  Outside all models: class- / module-level state shared between managers; functions held
by `CallRef` / `FunctionTask`, pickled by reference.

Which tree: piece 2 rests on `MInv`, i.e. on the repaired `unregister` (as C03 / C11 / C17 / C18 / C20 do).
-/
namespace Properties.C12
open RefsTable

/-- THE BRIDGE from the per-run obligation to the trees: a table with `ValidReduce = true` has a valid
    reduce row for every class of the universe, hence every tree of the universe in constructor shape —
    `InUniverseCtor n`, a decidable property of the tree alone: each node's class is in `classSlots` and
    its children are the constructor's operands, one per slot of `ctorSlots`, in order — is `picklable`.
    (Before, `ValidReduce` was "the listed rows are all true and there is one".) -/
theorem C12_reduce_covers_universe (f : Full) (h : f.ValidReduce = true) :
    (∀ cls, knownClass cls = true → reduceOk f.reduce cls = true) ∧
    (∀ n : DNode, InUniverseCtor n = true → picklable f.reduce ctorSlots n = true) :=
  ⟨reduceOk_of_known f h, picklable_of_valid f h⟩

/-- for a valid table, reduce / rebuild is the identity on every tree of the universe (EXPRESSION NODES
    only: nothing here is about the manager, its task table or its containers).  Hypotheses: `ValidReduce`
    — the per-run obligation, needed (second example below: D18); `InUniverseCtor n` — the tree is made of
    the library's classes, children in constructor order.  In this model `CallRef`'s `args` / `kwargs`
    tuples and `BuiltinRef`'s `params` tuple are ONE operand each (`ctorSlots "CallRef" =
    ["func", "arg", "kwarg"]`), as they are one constructor argument each. -/
theorem C12_reduce_rebuild (f : Full) (hv : f.ValidReduce = true) (n : DNode) (hu : InUniverseCtor n = true) :
    unpickleN ctorSlots (pickleN f.reduce n) = n :=
  unpickle_pickle_universe f hv n hu

/-- the same for arbitrary rows and slot names, with the hypothesis on rows AND tree together
    (`picklable`); the statement above is this one composed with `C12_reduce_covers_universe` -/
theorem C12_reduce_rebuild_rows (rows : List ReduceRow) (sn : String → List String) (n : DNode)
    (h : picklable rows sn n = true) : unpickleN sn (pickleN rows n) = n :=
  unpickle_pickle rows sn n h

/-- non-vacuity of the universe statement: `RefsLift.sample` passes `ValidReduce`;
    `f(a[b], -c) + 1` in constructor shape round-trips -/
def ctorNode : DNode :=
  .node "AddExpr"
    [("lhs", .node "CallRef" [("func", .ref 6), ("arg", .node "ItemRef" [("owner", .ref 1), ("key", .ref 2)]),
                              ("kwarg", .node "NegExpr" [("arg", .ref 3)])]),
     ("rhs", .node "LiteralExpr" [])]
example : InUniverseCtor ctorNode = true := by decide
example : unpickleN ctorSlots (pickleN RefsLift.sample.reduce ctorNode) = ctorNode :=
  C12_reduce_rebuild RefsLift.sample RefsLift.sample_valid_reduce ctorNode (by decide)
/-- a tree in constructor shape is a tree of the universe in C05's sense -/
example : InUniverse ctorNode = true := inUniverse_of_ctor ctorNode (by decide)
/-- the strengthened test rejects the degenerate tables: one row; everything but `ItemRef`; the row of
    `BuiltinRef` as the pinned tree produced it (D18) -/
example : ({ RefsLift.sample with reduce := [⟨"AddExpr", true, true, true⟩] } : Full).ValidReduce = false := by decide
example : ({ RefsLift.sample with reduce := RefsLift.sample.reduce.filter (fun r => r.cls != "ItemRef") } : Full).ValidReduce
    = false := by decide
example : ({ RefsLift.sample with reduce := (RefsLift.sample.reduce.map
    (fun r => if r.cls = "BuiltinRef" then ⟨"BuiltinRef", true, false, false⟩ else r)) } : Full).ValidReduce
    = false := by decide
/-- a tree whose children are not in constructor order is outside the statement -/
example : InUniverseCtor (.node "AddExpr" [("rhs", .ref 1), ("lhs", .ref 2)]) = false := by decide

/-- non-vacuity, and the shape of D18: a class whose row is invalid does not round-trip -/
def sn : String → List String
  | "AddExpr" => ["lhs", "rhs"] | "BuiltinRef" => ["arg", "op", "params"] | _ => []
example : unpickleN sn (pickleN [⟨"AddExpr", true, true, true⟩] (.node "AddExpr" [("lhs", .ref 1), ("rhs", .lit)]))
    = .node "AddExpr" [("lhs", .ref 1), ("rhs", .lit)] := rfl
example : unpickleN sn (pickleN [⟨"BuiltinRef", true, false, false⟩] (.node "BuiltinRef" [("arg", .ref 1), ("op", .lit), ("params", .lit)]))
    = .node "BuiltinRef" [] := rfl

open Manager in
/-- (OLDER, one assignment, conditional — superseded by `C12_pickled_manager_same_behaviour` below, which discharges the
    hypotheses about the restored manager through `pickleM`.)
    behavioural identity, CONDITIONAL: this is `reindex_same_behaviour` (the same statement as
    `C11_same_definitions_same_behaviour`).  Its hypotheses say that the restored manager holds the same task table over
    equal containers with indices satisfying the index invariant — NOT proved in this theorem (for `m := (pickleM s).idx`
    they are `C12_pickled_manager_same_table`); on the implementation those hypotheses are what the oracle checks after
    every round trip (dump equality, `verify()`, index supports).  Given them, every assignment to a plain location in C01's
    scope ends with the same container contents and definitions as on the original, under any legal schedules.
    Independence (the copy shares no state) is immediate in the model, whose states are values; on the
    implementation it is the oracle `copy-affects-original`. -/
theorem C12_restored_same_behaviour (sched1 sched2 : Sched) (s : MState) (m : Index.Mgr Manager.Path Manager.Path)
    (p : Manager.Path) (v : Store.Val) (hi : MInv s) (hi' : MInv { s with idx := m })
    (hc : Consistent s) (hnodef : lookDef s.defs p = none) (sc : Scope s p)
    (hvs1 : ValidSched (gOf s.idx) (findTaskids s.idx (chainR p)) (sched1 (findTaskids s.idx (chainR p))))
    (hvs2 : ValidSched (gOf m) (findTaskids m (chainR p)) (sched2 (findTaskids m (chainR p))))
    (s1 : MState) (hok : setValue sched1 s p v = (s1, none)) :
    ∃ s2, setValue sched2 { s with idx := m } p v = (s2, none) ∧ s2.store = s1.store ∧ s2.defs = s1.defs :=
  reindex_same_behaviour sched1 sched2 s m p v hi hi' hc hnodef sc hvs1 hvs2 s1 hok



/-! ### the manager state through the round trip (XModel/ManagerPickle.lean)

Each docstring below repeats where the three pieces of C12 are proved:
(1) node round trip — Tie A obligation (`C12_reduce_rebuild`); (2) manager state — HERE; (3) aliasing — `PickleHeap`
(`C12_copies_independent`) + suite `heap`.  Assumed: pickle re-inserts dict entries in order; hash / eq of rebuilt refs
agree with the originals (C06). -/

open Manager in
/-- **what the model of the round trip is, plainly.**  `pickleM` deep-copies the containers, rebuilds the task
    dictionary task by task and expression node by node, rebuilds the four index dictionaries (and every `RefCount`
    row) by re-inserting their items in the stored order, copies flag / knob memory / fault counter and starts with an
    empty event log.  For a state satisfying the index invariant the result is the original with an empty event log —
    the SAME index tables (entries, counts, order), not regenerated ones.
    Pieces of C12: (1) node round trip: the rebuild is the identity on the model's `Expr` BECAUSE of the Tie A
    obligation `C12_reduce_rebuild`, which this theorem does not prove; (2) manager state: here; (3) aliasing: not
    here — `PickleHeap` + suite `heap`.  Assumed: pickle re-inserts dict entries in order (that is the definition
    `rebuildDict`); hash / eq of rebuilt refs agree with the originals (C06; on the model a ref is a `Path`).
    Hypothesis `MInv s`: used only as "no dictionary lists a key twice" — true of every Python dictionary, not of every
    association list (`PickleExample.dup_rows`: needed). -/
theorem C12_pickled_manager_is_the_original (s : MState) (hi : MInv s) :
    pickleM s = { s with trace := [] } :=
  pickleM_eq_resetT s hi

open Manager in
/-- **the restored manager has the same definitions** — and the same containers (as a value), freeze flag, knob memory;
    both managers satisfy the index invariant (`SameTable`), and the index tables are equal.
    Pieces of C12: (1) node round trip: Tie A obligation (`C12_reduce_rebuild`), assumed here in the form
    "`rebuildExpr` is the identity on `Expr`"; (2) manager state: HERE; (3) aliasing: `PickleHeap`
    (`C12_copies_independent`) + suite `heap`, not here.  Assumed: pickle re-inserts dict entries in order; hash / eq
    of rebuilt refs agree with the originals (C06).
    Hypothesis `MInv s`: the state is one the API produces from the empty manager (`applyAll_MInv`); needed (see
    `C12_pickled_manager_is_the_original`). -/
theorem C12_pickled_manager_same_table (s : MState) (hi : MInv s) :
    SameTable s (pickleM s) ∧ (pickleM s).idx = s.idx ∧ dump (pickleM s) = dump s :=
  ⟨pickleM_sameTable s hi, (pickleM_fields s hi).2.2.1, pickleM_dump s hi⟩

open Manager in
/-- **the restored manager passes its consistency check**: `verify()` on the restored manager raises nothing
    (`verify_passes`, i.e. `C03_self_check_passes`, composed with the round trip).
    Pieces of C12: (1) node round trip: Tie A obligation; (2) manager state: HERE; (3) aliasing: `PickleHeap` + suite
    `heap`.  Assumed: pickle re-inserts dict entries in order; hash / eq of rebuilt refs agree with the originals
    (C06).  Hypothesis `MInv s`: as above. -/
theorem C12_pickled_manager_passes_verify (s : MState) (hi : MInv s) : (verify (pickleM s)).2 = none :=
  pickleM_verify s hi

open Manager in
/-- **the restored manager dumps the same definitions** and answers every query like the original -/
theorem C12_pickled_manager_same_dump (s : MState) (hi : MInv s) :
    dump (pickleM s) = dump s ∧ QueriesAgree s (pickleM s) :=
  ⟨pickleM_dump s hi, pickleM_queries s hi⟩

open Manager in
/-- **the restored manager produces the same container contents as the original under any further sequence of
    calls**: for every history `cs` in the scope `BisimRun'`, run on the original with a scheduler `sched1` and on the
    restored manager with ANY OTHER scheduler `sched2` (a scheduler = the iteration order of Python's sets; the restored
    manager may live in a process with another hash seed),
    * call by call the same error (or none), and after every call the two states are `SameTable` (same container
      contents, same definitions, same flag and knob memory, both index states valid) — `RelatedOutcomes`;
    * equal lists of errors;
    * `SameTable` final states;
    * equal answers to every query at the end (`QueriesAgree`).
    This is the `SameTable` bisimulation (`bisim_history'`, `bisim_history_errors'`, `bisim_history_final'`,
    `bisim_history_queries'`) composed with `C12_pickled_manager_same_table`.
    Pieces of C12: (1) node round trip: Tie A obligation (`C12_reduce_rebuild`); (2) manager state: HERE; (3) aliasing
    ("assignments to either one never affect the other"): NOT here and not statable here — `PickleHeap`
    (`C12_copies_independent`) + suite `heap`.  Assumed: pickle re-inserts dict entries in order; hash / eq of rebuilt
    refs agree with the originals (C06).
    Hypotheses: `MInv s` (reachable state; needed).  `BisimRun'` — the scope, call by call, in the pair of states where
    the call is made (`CallOK'`): an assignment is covered when it raises before any task runs, or both sides run the
    triggered tasks in the same order (any task kinds, completing or raising), or it is in `ScopeT`, both schedulers
    return a legal order and it completes on the original; `register` needs a fresh id and duplicate-free declared
    sets; every other call is unrestricted.  NOT covered: a triggered linear knob run in two different orders; an
    assignment raising inside a task under two different orders (then errors and contents may differ,
    `FailExample.fail_differently`).  `Manager.pickleM_scope_of_test`: the executable test `bisimRunB'` implies the
    hypothesis; `PickleExample.hist_ok` is an instance with two different schedulers. -/
theorem C12_pickled_manager_same_behaviour (sched1 sched2 : Sched) (s : MState) (hi : MInv s) (cs : List Call)
    (hg : BisimRun' sched1 sched2 s (pickleM s) cs) :
    RelatedOutcomes (outcomes sched1 s cs) (outcomes sched2 (pickleM s) cs) ∧
    (outcomes sched2 (pickleM s) cs).map (·.2) = (outcomes sched1 s cs).map (·.2) ∧
    SameTable (applyAll sched1 s cs) (applyAll sched2 (pickleM s) cs) ∧
    QueriesAgree (applyAll sched1 s cs) (applyAll sched2 (pickleM s) cs) :=
  pickleM_same_behaviour sched1 sched2 s hi cs hg

open Manager in
/-- the same in the driver's form, for a manager pickled between two calls (`s.trace = []`): the scope hypothesis is
    about the ORIGINAL alone (`GoodRunR`: one manager, two schedulers) and the two lists of (state, error) outcomes —
    event log cleared before each call — are EQUAL.  On the functional model this is C20 call by call
    (`history_per_call`): there the restored manager is the original (`pickleM s = s`).  Pieces / assumptions as in
    `C12_pickled_manager_same_behaviour`. -/
theorem C12_pickled_manager_same_outcomes_per_call (sched1 sched2 : Sched) (s : MState) (hi : MInv s)
    (ht : s.trace = []) (cs : List Call) (hg : GoodRunR sched1 sched2 s cs) :
    outcomesR sched2 (pickleM s) cs = outcomesR sched1 s cs :=
  pickleM_history_per_call sched1 sched2 s hi ht cs hg

/-- non-vacuity: the manager of `PickleExample` (two definitions, a function task), its restored copy, a six-call
    history, two schedulers that order the triggered tasks differently -/
example : Manager.RelatedOutcomes (Manager.outcomes id PickleExample.sP PickleExample.hist)
      (Manager.outcomes PickleExample.fLast (Manager.pickleM PickleExample.sP) PickleExample.hist) :=
  (C12_pickled_manager_same_behaviour id PickleExample.fLast PickleExample.sP PickleExample.sP_inv PickleExample.hist
    PickleExample.hist_ok).1
example : (Manager.verify (Manager.pickleM PickleExample.sP)).2 = none :=
  C12_pickled_manager_passes_verify PickleExample.sP PickleExample.sP_inv

/-! ### independence and isomorphism on a heap of mutable objects (XModel/PickleHeap.lean)

The manager model's store is a pure tree: it cannot state that two managers do not share objects.  `PickleHeap` models
Python's containers as objects on a heap holding references (arbitrary sharing, cycles), assignment as mutation of the
parent object, and `pickle.loads(pickle.dumps(·))` as a memoised deep copy into fresh addresses.  The correspondence
check compares `PickleHeap.canon` with the same numbering computed on real unpickled object graphs by `id()`. -/

/-- **assignments to either one never affect the other** — on a heap of mutable container objects (dicts / lists holding references, arbitrary sharing and cycles), `deepCopy` = `pickle.loads(pickle.dumps(roots))`: run ANY interleaving of assignments through the original roots and through the restored roots; every read through an original root is what the original's own assignments alone produce on the heap that was never pickled, and every read through a restored root is what the restored side's own assignments alone produce -/
theorem C12_copies_independent :
    ∀ {h : PickleHeap.Heap},
      PickleHeap.WF h →
        ∀ {roots : List PickleHeap.Addr},
          (∀ (r : PickleHeap.Addr), r ∈ roots → r < List.length h) →
            ∀ (ws : List (PickleHeap.Side × PickleHeap.Assign)) (f : Nat) (path : List PickleHeap.Key),
              (∀ (r : PickleHeap.Addr),
                  r ∈ roots →
                    PickleHeap.valueOf
                        (PickleHeap.runMixed (PickleHeap.deepCopy h roots).fst roots (PickleHeap.deepCopy h roots).snd ws) f
                        r path =
                      PickleHeap.valueOf (PickleHeap.runAssigns h roots (PickleHeap.sideOf PickleHeap.Side.orig ws)) f r
                        path) ∧
                ∀ (r' : PickleHeap.Addr),
                  r' ∈ (PickleHeap.deepCopy h roots).snd →
                    PickleHeap.valueOf
                        (PickleHeap.runMixed (PickleHeap.deepCopy h roots).fst roots (PickleHeap.deepCopy h roots).snd ws) f
                        r' path =
                      PickleHeap.valueOf
                        (PickleHeap.runAssigns (PickleHeap.deepCopy h roots).fst (PickleHeap.deepCopy h roots).snd
                          (PickleHeap.sideOf PickleHeap.Side.copy ws))
                        f r' path :=
  @PickleHeap.copies_independent

/-- the restored containers unfold to the same tree value as the originals, along every path and to every depth -/
theorem C12_restored_isomorphic :
    ∀ {h : PickleHeap.Heap},
      PickleHeap.WF h →
        ∀ {roots : List PickleHeap.Addr},
          (∀ (r : PickleHeap.Addr), r ∈ roots → r < List.length h) →
            ∀ {r : PickleHeap.Addr},
              r ∈ roots →
                ∀ (f : Nat) (path : List PickleHeap.Key),
                  PickleHeap.valueOf (PickleHeap.deepCopy h roots).fst f (PickleHeap.copyAddr h roots r) path =
                    PickleHeap.valueOf h f r path :=
  @PickleHeap.copy_iso

/-- no object is reachable from both an original and a restored root -/
theorem C12_no_shared_object :
    ∀ {h : PickleHeap.Heap},
      PickleHeap.WF h →
        ∀ {roots : List PickleHeap.Addr},
          (∀ (r : PickleHeap.Addr), r ∈ roots → r < List.length h) →
            ∀ (a : PickleHeap.Addr),
              PickleHeap.Reach (PickleHeap.deepCopy h roots).fst roots a →
                PickleHeap.Reach (PickleHeap.deepCopy h roots).fst (PickleHeap.deepCopy h roots).snd a → False :=
  @PickleHeap.copy_disjoint

/-- sharing inside one dump is preserved and nothing else is identified: two paths reach the same restored object iff they reach the same original object -/
theorem C12_sharing_preserved :
    ∀ {h : PickleHeap.Heap},
      PickleHeap.WF h →
        ∀ {roots : List PickleHeap.Addr},
          (∀ (r : PickleHeap.Addr), r ∈ roots → r < List.length h) →
            ∀ {r1 r2 : PickleHeap.Addr},
              r1 ∈ roots →
                r2 ∈ roots →
                  ∀ {p1 p2 : List PickleHeap.Key} {a1 a2 : PickleHeap.Addr},
                    PickleHeap.readPath h r1 p1 = some (PickleHeap.Val.ref a1) →
                      PickleHeap.readPath h r2 p2 = some (PickleHeap.Val.ref a2) →
                        ∃ c1 c2,
                          PickleHeap.readPath (PickleHeap.deepCopy h roots).fst (PickleHeap.copyAddr h roots r1) p1 =
                              some (PickleHeap.Val.ref c1) ∧
                            PickleHeap.readPath (PickleHeap.deepCopy h roots).fst (PickleHeap.copyAddr h roots r2) p2 =
                                some (PickleHeap.Val.ref c2) ∧
                              (c1 = c2 ↔ a1 = a2) :=
  @PickleHeap.copy_sharing

/-- **same container contents under any further sequence of assignments**: in any interleaving, the restored side holds what the original would hold had it received the restored side's assignments -/
theorem C12_restored_same_contents_under_assignments :
    ∀ {h : PickleHeap.Heap},
      PickleHeap.WF h →
        ∀ {roots : List PickleHeap.Addr},
          (∀ (r : PickleHeap.Addr), r ∈ roots → r < List.length h) →
            ∀ (ws : List (PickleHeap.Side × PickleHeap.Assign)) {r : PickleHeap.Addr},
              r ∈ roots →
                ∀ (f : Nat) (path : List PickleHeap.Key),
                  PickleHeap.valueOf
                      (PickleHeap.runMixed (PickleHeap.deepCopy h roots).fst roots (PickleHeap.deepCopy h roots).snd ws) f
                      (PickleHeap.copyAddr h roots r) path =
                    PickleHeap.valueOf (PickleHeap.runAssigns h roots (PickleHeap.sideOf PickleHeap.Side.copy ws)) f r path :=
  @PickleHeap.restored_behaves_as_original

/-- the heap after the copy is well formed (no dangling reference, unique keys) and the restored roots are valid -/
theorem C12_copy_well_formed :
    ∀ {h : PickleHeap.Heap},
      PickleHeap.WF h →
        ∀ {roots : List PickleHeap.Addr},
          (∀ (r : PickleHeap.Addr), r ∈ roots → r < List.length h) →
            PickleHeap.WF (PickleHeap.deepCopy h roots).fst ∧
              ∀ (r : PickleHeap.Addr),
                r ∈ (PickleHeap.deepCopy h roots).snd → r < List.length (PickleHeap.deepCopy h roots).fst :=
  @PickleHeap.deepCopy_WF

/-- the canonical form (objects numbered in pickle's memo order, references as memo numbers) of the restored roots equals that of the originals — this is the form the correspondence check compares with real `pickle` -/
theorem C12_canonical_form_preserved :
    ∀ {h : PickleHeap.Heap},
      PickleHeap.WF h →
        ∀ {roots : List PickleHeap.Addr},
          (∀ (r : PickleHeap.Addr), r ∈ roots → r < List.length h) →
            PickleHeap.canon (PickleHeap.deepCopy h roots).fst (PickleHeap.deepCopy h roots).snd = PickleHeap.canon h roots :=
  @PickleHeap.canon_deepCopy

end Properties.C12
