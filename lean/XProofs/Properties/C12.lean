import XModel.RefsTable
import XModel.ManagerC11
/-!
# C12 — a pickled manager restores to an independent, behaviourally identical copy
The pickle protocol is the model: reduce every node to (class, constructor arguments), rebuild by
calling the class.  Tie A checks `Generated.tbl.ValidReduce` on every run.
-/
namespace Properties.C12
open RefsTable

/-- reduce / rebuild is the identity on every object graph whose classes reduce to their own
    constructor's arguments in constructor order -/
theorem C12_reduce_rebuild (rows : List ReduceRow) (sn : String → List String) (n : DNode)
    (h : picklable rows sn n = true) : unpickleN sn (pickleN rows n) = n :=
  unpickle_pickle rows sn n h

/-- non-vacuity, and the shape of D18: a class whose row is invalid does not round-trip -/
def sn : String → List String
  | "AddExpr" => ["lhs", "rhs"] | "BuiltinRef" => ["arg", "op", "params"] | _ => []
example : unpickleN sn (pickleN [⟨"AddExpr", true, true, true⟩] (.node "AddExpr" [("lhs", .ref 1), ("rhs", .lit)]))
    = .node "AddExpr" [("lhs", .ref 1), ("rhs", .lit)] := rfl
example : unpickleN sn (pickleN [⟨"BuiltinRef", true, false, false⟩] (.node "BuiltinRef" [("arg", .ref 1), ("op", .lit), ("params", .lit)]))
    = .node "BuiltinRef" [] := rfl

open Manager in
/-- behavioural identity, CONDITIONAL: this is `reindex_same_behaviour` (the same statement as
    `C11_same_definitions_same_behaviour`).  Its hypotheses say that the restored manager holds the same task table over
    equal containers with indices satisfying the index invariant — that is NOT proved here: nothing in the model
    describes `Manager.__getstate__` / pickling of the task table, the containers or the indices (`C12_reduce_rebuild`
    is about expression nodes only); on the implementation those hypotheses are what the oracle checks after every
    round trip (dump equality, `verify()`, index supports).  Given them, every assignment to a plain location in C01's
    scope ends with the same container contents and definitions as on the original, under any legal schedules.
    Independence (the copy shares no state) is immediate in the model, whose states are values; on the
    implementation it is the oracle `copy-affects-original`. -/
theorem C12_restored_same_behaviour (sched1 sched2 : Sched) (s : MState) (m : Index.Mgr Manager.Path Manager.Path)
    (p : Manager.Path) (v : Store.Val) (hi : MInv s) (hi' : MInv { s with idx := m })
    (hc : Consistent s) (hnodef : lookDef s.defs p = none) (sc : Scope s p)
    (hvs1 : ValidSched (gOf s.idx) (findTaskids s.idx (chainR p)) (sched1 (findTaskids s.idx (chainR p))))
    (hvs2 : ValidSched (gOf m) (findTaskids m (chainR p)) (sched2 (findTaskids m (chainR p))))
    (s1 : MState) (hok : setValue sched1 s p v = (s1, none)) :
    ∃ s2, setValue sched2 { s with idx := m } p v = (s2, none) ∧ s2.store = s1.store ∧ s2.defs = s1.defs :=
  reindex_same_behaviour sched1 sched2 s m p v hi hi' hc hnodef sc hvs1 hvs2 s1 hok

end Properties.C12
