import XModel.RefsLift
import XModel.ManagerC11
import XModel.PickleHeap
/-!
# C12 — a pickled manager restores to an independent, behaviourally identical copy
The pickle protocol is the model: reduce every node to (class, constructor arguments), rebuild by
calling the class.  Tie A checks `Generated.tbl.ValidReduce` on every run; `ValidReduce` is closed over
the class universe `RefsTable.classSlots` (every expression class) and `RefsTable.refClasses` (`Ref`,
`ObjectAttrRef`): each must have a row saying own class / constructor arguments in order / rebuilds equal.
-/
namespace Properties.C12
open RefsTable

/-- THE BRIDGE from the per-run obligation to the trees: a table with `ValidReduce = true` has a valid
    reduce row for every class of the universe, hence every tree of the universe in constructor shape —
    `InUniverseCtor n`, a decidable property of the tree alone: each node's class is in `classSlots` and
    its children are the constructor's operands, one per slot of `ctorSlots`, in order — is `picklable`.
    (Before, `ValidReduce` was "the listed rows are all true and there is one".) -/
theorem C12_reduce_covers_universe (f : Full) (h : f.ValidReduce = true) :
    (∀ cls, knownClass cls = true → reduceOk f.reduce cls = true) ∧
    (∀ n : DNode, InUniverseCtor n = true → picklable f.reduce ctorSlots n = true) :=
  ⟨reduceOk_of_known f h, picklable_of_valid f h⟩

/-- for a valid table, reduce / rebuild is the identity on every tree of the universe (EXPRESSION NODES
    only: nothing here is about the manager, its task table or its containers).  Hypotheses: `ValidReduce`
    — the per-run obligation, needed (second example below: D18); `InUniverseCtor n` — the tree is made of
    the library's classes, children in constructor order.  In this model `CallRef`'s `args` / `kwargs`
    tuples and `BuiltinRef`'s `params` tuple are ONE operand each (`ctorSlots "CallRef" =
    ["func", "arg", "kwarg"]`), as they are one constructor argument each. -/
theorem C12_reduce_rebuild (f : Full) (hv : f.ValidReduce = true) (n : DNode) (hu : InUniverseCtor n = true) :
    unpickleN ctorSlots (pickleN f.reduce n) = n :=
  unpickle_pickle_universe f hv n hu

/-- the same for arbitrary rows and slot names, with the hypothesis on rows AND tree together
    (`picklable`); the statement above is this one composed with `C12_reduce_covers_universe` -/
theorem C12_reduce_rebuild_rows (rows : List ReduceRow) (sn : String → List String) (n : DNode)
    (h : picklable rows sn n = true) : unpickleN sn (pickleN rows n) = n :=
  unpickle_pickle rows sn n h

/-- non-vacuity of the universe statement: `RefsLift.sample` passes `ValidReduce`;
    `f(a[b], -c) + 1` in constructor shape round-trips -/
def ctorNode : DNode :=
  .node "AddExpr"
    [("lhs", .node "CallRef" [("func", .ref 6), ("arg", .node "ItemRef" [("owner", .ref 1), ("key", .ref 2)]),
                              ("kwarg", .node "NegExpr" [("arg", .ref 3)])]),
     ("rhs", .node "LiteralExpr" [])]
example : InUniverseCtor ctorNode = true := by decide
example : unpickleN ctorSlots (pickleN RefsLift.sample.reduce ctorNode) = ctorNode :=
  C12_reduce_rebuild RefsLift.sample RefsLift.sample_valid_reduce ctorNode (by decide)
/-- a tree in constructor shape is a tree of the universe in C05's sense -/
example : InUniverse ctorNode = true := inUniverse_of_ctor ctorNode (by decide)
/-- the strengthened test rejects the degenerate tables: one row; everything but `ItemRef`; the row of
    `BuiltinRef` as the pinned tree produced it (D18) -/
example : ({ RefsLift.sample with reduce := [⟨"AddExpr", true, true, true⟩] } : Full).ValidReduce = false := by decide
example : ({ RefsLift.sample with reduce := RefsLift.sample.reduce.filter (fun r => r.cls != "ItemRef") } : Full).ValidReduce
    = false := by decide
example : ({ RefsLift.sample with reduce := (RefsLift.sample.reduce.map
    (fun r => if r.cls = "BuiltinRef" then ⟨"BuiltinRef", true, false, false⟩ else r)) } : Full).ValidReduce
    = false := by decide
/-- a tree whose children are not in constructor order is outside the statement -/
example : InUniverseCtor (.node "AddExpr" [("rhs", .ref 1), ("lhs", .ref 2)]) = false := by decide

/-- non-vacuity, and the shape of D18: a class whose row is invalid does not round-trip -/
def sn : String → List String
  | "AddExpr" => ["lhs", "rhs"] | "BuiltinRef" => ["arg", "op", "params"] | _ => []
example : unpickleN sn (pickleN [⟨"AddExpr", true, true, true⟩] (.node "AddExpr" [("lhs", .ref 1), ("rhs", .lit)]))
    = .node "AddExpr" [("lhs", .ref 1), ("rhs", .lit)] := rfl
example : unpickleN sn (pickleN [⟨"BuiltinRef", true, false, false⟩] (.node "BuiltinRef" [("arg", .ref 1), ("op", .lit), ("params", .lit)]))
    = .node "BuiltinRef" [] := rfl

open Manager in
/-- behavioural identity, CONDITIONAL: this is `reindex_same_behaviour` (the same statement as
    `C11_same_definitions_same_behaviour`).  Its hypotheses say that the restored manager holds the same task table over
    equal containers with indices satisfying the index invariant — that is NOT proved here: nothing in the model
    describes `Manager.__getstate__` / pickling of the task table, the containers or the indices (`C12_reduce_rebuild`
    is about expression nodes only); on the implementation those hypotheses are what the oracle checks after every
    round trip (dump equality, `verify()`, index supports).  Given them, every assignment to a plain location in C01's
    scope ends with the same container contents and definitions as on the original, under any legal schedules.
    Independence (the copy shares no state) is immediate in the model, whose states are values; on the
    implementation it is the oracle `copy-affects-original`. -/
theorem C12_restored_same_behaviour (sched1 sched2 : Sched) (s : MState) (m : Index.Mgr Manager.Path Manager.Path)
    (p : Manager.Path) (v : Store.Val) (hi : MInv s) (hi' : MInv { s with idx := m })
    (hc : Consistent s) (hnodef : lookDef s.defs p = none) (sc : Scope s p)
    (hvs1 : ValidSched (gOf s.idx) (findTaskids s.idx (chainR p)) (sched1 (findTaskids s.idx (chainR p))))
    (hvs2 : ValidSched (gOf m) (findTaskids m (chainR p)) (sched2 (findTaskids m (chainR p))))
    (s1 : MState) (hok : setValue sched1 s p v = (s1, none)) :
    ∃ s2, setValue sched2 { s with idx := m } p v = (s2, none) ∧ s2.store = s1.store ∧ s2.defs = s1.defs :=
  reindex_same_behaviour sched1 sched2 s m p v hi hi' hc hnodef sc hvs1 hvs2 s1 hok


/-! ### independence and isomorphism on a heap of mutable objects (XModel/PickleHeap.lean)

The manager model's store is a pure tree: it cannot state that two managers do not share objects.  `PickleHeap` models
Python's containers as objects on a heap holding references (arbitrary sharing, cycles), assignment as mutation of the
parent object, and `pickle.loads(pickle.dumps(·))` as a memoised deep copy into fresh addresses.  The correspondence
check compares `PickleHeap.canon` with the same numbering computed on real unpickled object graphs by `id()`. -/

/-- **assignments to either one never affect the other** — on a heap of mutable container objects (dicts / lists holding references, arbitrary sharing and cycles), `deepCopy` = `pickle.loads(pickle.dumps(roots))`: run ANY interleaving of assignments through the original roots and through the restored roots; every read through an original root is what the original's own assignments alone produce on the heap that was never pickled, and every read through a restored root is what the restored side's own assignments alone produce -/
theorem C12_copies_independent :
    ∀ {h : PickleHeap.Heap},
      PickleHeap.WF h →
        ∀ {roots : List PickleHeap.Addr},
          (∀ (r : PickleHeap.Addr), r ∈ roots → r < List.length h) →
            ∀ (ws : List (PickleHeap.Side × PickleHeap.Assign)) (f : Nat) (path : List PickleHeap.Key),
              (∀ (r : PickleHeap.Addr),
                  r ∈ roots →
                    PickleHeap.valueOf
                        (PickleHeap.runMixed (PickleHeap.deepCopy h roots).fst roots (PickleHeap.deepCopy h roots).snd ws) f
                        r path =
                      PickleHeap.valueOf (PickleHeap.runAssigns h roots (PickleHeap.sideOf PickleHeap.Side.orig ws)) f r
                        path) ∧
                ∀ (r' : PickleHeap.Addr),
                  r' ∈ (PickleHeap.deepCopy h roots).snd →
                    PickleHeap.valueOf
                        (PickleHeap.runMixed (PickleHeap.deepCopy h roots).fst roots (PickleHeap.deepCopy h roots).snd ws) f
                        r' path =
                      PickleHeap.valueOf
                        (PickleHeap.runAssigns (PickleHeap.deepCopy h roots).fst (PickleHeap.deepCopy h roots).snd
                          (PickleHeap.sideOf PickleHeap.Side.copy ws))
                        f r' path :=
  @PickleHeap.copies_independent

/-- the restored containers unfold to the same tree value as the originals, along every path and to every depth -/
theorem C12_restored_isomorphic :
    ∀ {h : PickleHeap.Heap},
      PickleHeap.WF h →
        ∀ {roots : List PickleHeap.Addr},
          (∀ (r : PickleHeap.Addr), r ∈ roots → r < List.length h) →
            ∀ {r : PickleHeap.Addr},
              r ∈ roots →
                ∀ (f : Nat) (path : List PickleHeap.Key),
                  PickleHeap.valueOf (PickleHeap.deepCopy h roots).fst f (PickleHeap.copyAddr h roots r) path =
                    PickleHeap.valueOf h f r path :=
  @PickleHeap.copy_iso

/-- no object is reachable from both an original and a restored root -/
theorem C12_no_shared_object :
    ∀ {h : PickleHeap.Heap},
      PickleHeap.WF h →
        ∀ {roots : List PickleHeap.Addr},
          (∀ (r : PickleHeap.Addr), r ∈ roots → r < List.length h) →
            ∀ (a : PickleHeap.Addr),
              PickleHeap.Reach (PickleHeap.deepCopy h roots).fst roots a →
                PickleHeap.Reach (PickleHeap.deepCopy h roots).fst (PickleHeap.deepCopy h roots).snd a → False :=
  @PickleHeap.copy_disjoint

/-- sharing inside one dump is preserved and nothing else is identified: two paths reach the same restored object iff they reach the same original object -/
theorem C12_sharing_preserved :
    ∀ {h : PickleHeap.Heap},
      PickleHeap.WF h →
        ∀ {roots : List PickleHeap.Addr},
          (∀ (r : PickleHeap.Addr), r ∈ roots → r < List.length h) →
            ∀ {r1 r2 : PickleHeap.Addr},
              r1 ∈ roots →
                r2 ∈ roots →
                  ∀ {p1 p2 : List PickleHeap.Key} {a1 a2 : PickleHeap.Addr},
                    PickleHeap.readPath h r1 p1 = some (PickleHeap.Val.ref a1) →
                      PickleHeap.readPath h r2 p2 = some (PickleHeap.Val.ref a2) →
                        ∃ c1 c2,
                          PickleHeap.readPath (PickleHeap.deepCopy h roots).fst (PickleHeap.copyAddr h roots r1) p1 =
                              some (PickleHeap.Val.ref c1) ∧
                            PickleHeap.readPath (PickleHeap.deepCopy h roots).fst (PickleHeap.copyAddr h roots r2) p2 =
                                some (PickleHeap.Val.ref c2) ∧
                              (c1 = c2 ↔ a1 = a2) :=
  @PickleHeap.copy_sharing

/-- **same container contents under any further sequence of assignments**: in any interleaving, the restored side holds what the original would hold had it received the restored side's assignments -/
theorem C12_restored_same_contents_under_assignments :
    ∀ {h : PickleHeap.Heap},
      PickleHeap.WF h →
        ∀ {roots : List PickleHeap.Addr},
          (∀ (r : PickleHeap.Addr), r ∈ roots → r < List.length h) →
            ∀ (ws : List (PickleHeap.Side × PickleHeap.Assign)) {r : PickleHeap.Addr},
              r ∈ roots →
                ∀ (f : Nat) (path : List PickleHeap.Key),
                  PickleHeap.valueOf
                      (PickleHeap.runMixed (PickleHeap.deepCopy h roots).fst roots (PickleHeap.deepCopy h roots).snd ws) f
                      (PickleHeap.copyAddr h roots r) path =
                    PickleHeap.valueOf (PickleHeap.runAssigns h roots (PickleHeap.sideOf PickleHeap.Side.copy ws)) f r path :=
  @PickleHeap.restored_behaves_as_original

/-- the heap after the copy is well formed (no dangling reference, unique keys) and the restored roots are valid -/
theorem C12_copy_well_formed :
    ∀ {h : PickleHeap.Heap},
      PickleHeap.WF h →
        ∀ {roots : List PickleHeap.Addr},
          (∀ (r : PickleHeap.Addr), r ∈ roots → r < List.length h) →
            PickleHeap.WF (PickleHeap.deepCopy h roots).fst ∧
              ∀ (r : PickleHeap.Addr),
                r ∈ (PickleHeap.deepCopy h roots).snd → r < List.length (PickleHeap.deepCopy h roots).fst :=
  @PickleHeap.deepCopy_WF

/-- the canonical form (objects numbered in pickle's memo order, references as memo numbers) of the restored roots equals that of the originals — this is the form the correspondence check compares with real `pickle` -/
theorem C12_canonical_form_preserved :
    ∀ {h : PickleHeap.Heap},
      PickleHeap.WF h →
        ∀ {roots : List PickleHeap.Addr},
          (∀ (r : PickleHeap.Addr), r ∈ roots → r < List.length h) →
            PickleHeap.canon (PickleHeap.deepCopy h roots).fst (PickleHeap.deepCopy h roots).snd = PickleHeap.canon h roots :=
  @PickleHeap.canon_deepCopy

end Properties.C12
