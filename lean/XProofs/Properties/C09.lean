import XModel.Opt
import XModel.OptLimits
import XModel.MeritNum
/-!
# C09 — solve() returns only on a matched point and otherwise restores the knobs
Model: `XModel/Opt.lean`, the control skeleton of `Optimize.solve / step / reload`,
`MeritFunctionForMatch.__call__` and `JacobianSolver.step` in a state-with-exceptions monad (side
effects survive a raise).  The user's function `f` (which may raise), the solver's numerics (which
points it evaluates) and the weight maps are parameters: the theorems hold for all of them.
-/
namespace Properties.C09
open Opt

variable {R : Type}

/-- a normal return of `solve` (with `assert_within_tol`) leaves knobs at which an independent
    evaluation of the user's function meets every active tolerance -/
theorem C09_return_matched (c : Cfg R) (its : List (Iter R)) (tb : Option Nat) (s s' : St R)
    (hassert : c.assertWithinTol = true) (h : solve c its tb s = (.ok (), s')) :
    ∃ res, c.f s'.knobs = some res ∧ c.within res s'.tAct = true :=
  solve_matched c its tb s s' hassert h

/-- if `solve` raises (no point within tolerance, a limit violation, an exception from the user's
    action, a penalty increase) and `restore_if_fail` is set, the active flags are those of log row 0
    and each knob is row 0's value or its image under `k ↦ (k / w) * w` (the identity for unit weights) -/
theorem C09_restore (c : Cfg R) (its : List (Iter R)) (tb : Option Nat) (s s' : St R) (e : Err)
    (r0 : Row R) (rest : List (Row R)) (hlog : s.log = r0 :: rest) (hres : c.restoreIfFail = true)
    (h : solve c its tb s = (.error e, s')) :
    s'.vAct = r0.vAct ∧ s'.tAct = r0.tAct ∧
    ∀ j, s'.knobs j = r0.knobs j ∨ s'.knobs j = c.mulW j (c.divW j (r0.knobs j)) :=
  solve_restore c its tb s s' e r0 rest hlog hres h

/-- the coherence invariant behind both: after any completed merit call the recorded flag is the
    tolerance predicate of the user's function at the knobs now in the container -/
theorem C09_coherent (c : Cfg R) (check : Bool) (x : Nat → R) (s s' : St R)
    (h : merit c check x s = (.ok (), s')) : Coh c s' :=
  (merit_coh c check x s s' h).1

/-- unit weights (`k ↦ (k / w) * w` is the identity): the restore is bit-exact -/
theorem C09_restore_unit_weights (c : Cfg R) (its : List (Iter R)) (tb : Option Nat) (s s' : St R) (e : Err)
    (r0 : Row R) (rest : List (Row R)) (hlog : s.log = r0 :: rest) (hres : c.restoreIfFail = true)
    (hunit : ∀ j x, c.mulW j (c.divW j x) = x)
    (h : solve c its tb s = (.error e, s')) :
    s'.vAct = r0.vAct ∧ s'.tAct = r0.tAct ∧ ∀ j, s'.knobs j = r0.knobs j := by
  obtain ⟨h1, h2, h3⟩ := solve_restore c its tb s s' e r0 rest hlog hres h
  refine ⟨h1, h2, fun j => ?_⟩
  rcases h3 j with hj | hj
  · exact hj
  · rw [hj, hunit]

/-! non-vacuity: the two-knob configuration of `Opt.LimitsExample` with `assert_within_tol` and `restore_if_fail` on;
    a `solve()` whose points are never within tolerance raises `noTol` and puts the knobs of row 0 back, one whose points
    are within tolerance returns normally (the hypotheses of `C09_restore` / `C09_return_matched` are satisfiable;
    the log must be non-empty at entry: true after `Optimize.__init__`, which logs the start point) -/
section example_
open Opt.LimitsExample
def cfgFail : Cfg Int := { good with assertWithinTol := true, restoreIfFail := true }
def cfgOk : Cfg Int := { good with within := fun _ _ => true, assertWithinTol := true, restoreIfFail := true }
def sStart : St Int := st0 1 (-2) (fun _ => true) [⟨fun j => if j = 0 then 1 else -2, fun _ => true, fun _ => true⟩]
example : errOf (solve cfgFail [it1] none sStart).1 = some .noTol ∧
    ((solve cfgFail [it1] none sStart).2.knobs 0, (solve cfgFail [it1] none sStart).2.knobs 1) = (1, -2) := by
  decide +kernel
example : isOk (solve cfgOk [it1] none sStart).1 = true ∧
    ((solve cfgOk [it1] none sStart).2.knobs 0, (solve cfgOk [it1] none sStart).2.knobs 1) = (3, 3) := by
  decide +kernel
end example_

/-! ### what "matched" means: the residual computation of the merit function (`XModel/MeritNum.lean`)

`Cfg.within` is a free field of the skeleton — none of the theorems above assumes anything about it.  The code's
instance is `MeritNum.withinOf` (`np.all((np.abs(res - value) < tol) | ~mask_output)` with the `value` / `tol` / `active`
attributes the targets have when the merit function is called — no copy made earlier); the driver recomputes
`MeritNum.lastWithin` on doubles for every recorded evaluation of the real merit function and compares it with the
`last_point_within_tol` the code set (suite `opt`, op `merit`, field `within_ok`). -/

/-- the flag `last_point_within_tol` computed by the merit function is set iff every ACTIVE target is within its CURRENT
    tolerance of its wanted value: `|res[i] - value[i]| < tol[i]` wherever `active[i]` (any number type, any operations;
    a disabled target, whatever its value, plays no role) -/
theorem C09_matched_means_within_current_tolerances (o : MeritNum.NumOps R) (res tar tols : List R) (mask : List Bool) :
    MeritNum.lastWithin o res tar tols mask = true ↔
      ∀ (i : Nat) (r t tl : R), mask[i]? = some true → res[i]? = some r → tar[i]? = some t → tols[i]? = some tl →
        o.lt (o.abs (o.sub r t)) tl = true :=
  MeritNum.lastWithin_iff o res tar tols mask

/-- `C09_return_matched` with the code's tolerance predicate plugged in: a normal return of `solve` (with
    `assert_within_tol`) leaves knobs at which the user's function puts every active target within its tolerance -/
theorem C09_return_matched_within_tolerances (o : MeritNum.NumOps R) (nt : Nat) (tar tols : List R) (c : Cfg R)
    (hc : c.within = MeritNum.withinOf o nt tar tols) (its : List (Iter R)) (tb : Option Nat) (s s' : St R)
    (hassert : c.assertWithinTol = true) (h : solve c its tb s = (.ok (), s')) :
    ∃ res, c.f s'.knobs = some res ∧
      ∀ (i : Nat) (t tl : R), i < nt → s'.tAct i = true → tar[i]? = some t → tols[i]? = some tl →
        o.lt (o.abs (o.sub (res i) t)) tl = true :=
  MeritNum.solve_matched_within o nt tar tols c hc its tb s s' hassert h

/-! non-vacuity: two targets that read the two knobs, wanted value 3 with tolerance 1; the start point (1, -2) is not
    matched, the accepted point (3, 3) of `it1` is, and `solve` returns normally there; with the tolerance 0 nothing is
    ever matched and the same `solve` raises `noTol` -/
section example_merit
open Opt.LimitsExample
def cfgMerit (tol : Int) : Cfg Int :=
  { good with f := fun k => some (fun i => k i), within := MeritNum.withinOf MeritNum.intOps 2 [3, 3] [tol, tol],
              assertWithinTol := true, restoreIfFail := true }
example : MeritNum.lastWithin MeritNum.intOps [1, -2] [3, 3] [1, 1] [true, true] = false ∧
    MeritNum.lastWithin MeritNum.intOps [3, 3] [3, 3] [1, 1] [true, true] = true ∧
    MeritNum.lastWithin MeritNum.intOps [3, -2] [3, 3] [1, 1] [true, false] = true := by decide
example : isOk (solve (cfgMerit 1) [it1] none sStart).1 = true ∧
    ((solve (cfgMerit 1) [it1] none sStart).2.knobs 0, (solve (cfgMerit 1) [it1] none sStart).2.knobs 1) = (3, 3) := by
  decide +kernel
example : errOf (solve (cfgMerit 0) [it1] none sStart).1 = some .noTol := by decide +kernel
example := C09_return_matched_within_tolerances MeritNum.intOps 2 [3, 3] [1, 1] (cfgMerit 1) rfl [it1] none sStart
end example_merit

end Properties.C09
