import XModel.Opt
import XModel.OptLimits
/-!
# C09 — solve() returns only on a matched point and otherwise restores the knobs
Model: `XModel/Opt.lean`, the control skeleton of `Optimize.solve / step / reload`,
`MeritFunctionForMatch.__call__` and `JacobianSolver.step` in a state-with-exceptions monad (side
effects survive a raise).  The user's function `f` (which may raise), the solver's numerics (which
points it evaluates) and the weight maps are parameters: the theorems hold for all of them.
-/
namespace Properties.C09
open Opt

variable {R : Type}

/-- a normal return of `solve` (with `assert_within_tol`) leaves knobs at which an independent
    evaluation of the user's function meets every active tolerance -/
theorem C09_return_matched (c : Cfg R) (its : List (Iter R)) (tb : Option Nat) (s s' : St R)
    (hassert : c.assertWithinTol = true) (h : solve c its tb s = (.ok (), s')) :
    ∃ res, c.f s'.knobs = some res ∧ c.within res s'.tAct = true :=
  solve_matched c its tb s s' hassert h

/-- if `solve` raises (no point within tolerance, a limit violation, an exception from the user's
    action, a penalty increase) and `restore_if_fail` is set, the active flags are those of log row 0
    and each knob is row 0's value or its image under `k ↦ (k / w) * w` (the identity for unit weights) -/
theorem C09_restore (c : Cfg R) (its : List (Iter R)) (tb : Option Nat) (s s' : St R) (e : Err)
    (r0 : Row R) (rest : List (Row R)) (hlog : s.log = r0 :: rest) (hres : c.restoreIfFail = true)
    (h : solve c its tb s = (.error e, s')) :
    s'.vAct = r0.vAct ∧ s'.tAct = r0.tAct ∧
    ∀ j, s'.knobs j = r0.knobs j ∨ s'.knobs j = c.mulW j (c.divW j (r0.knobs j)) :=
  solve_restore c its tb s s' e r0 rest hlog hres h

/-- the coherence invariant behind both: after any completed merit call the recorded flag is the
    tolerance predicate of the user's function at the knobs now in the container -/
theorem C09_coherent (c : Cfg R) (check : Bool) (x : Nat → R) (s s' : St R)
    (h : merit c check x s = (.ok (), s')) : Coh c s' :=
  (merit_coh c check x s s' h).1

/-- unit weights (`k ↦ (k / w) * w` is the identity): the restore is bit-exact -/
theorem C09_restore_unit_weights (c : Cfg R) (its : List (Iter R)) (tb : Option Nat) (s s' : St R) (e : Err)
    (r0 : Row R) (rest : List (Row R)) (hlog : s.log = r0 :: rest) (hres : c.restoreIfFail = true)
    (hunit : ∀ j x, c.mulW j (c.divW j x) = x)
    (h : solve c its tb s = (.error e, s')) :
    s'.vAct = r0.vAct ∧ s'.tAct = r0.tAct ∧ ∀ j, s'.knobs j = r0.knobs j := by
  obtain ⟨h1, h2, h3⟩ := solve_restore c its tb s s' e r0 rest hlog hres h
  refine ⟨h1, h2, fun j => ?_⟩
  rcases h3 j with hj | hj
  · exact hj
  · rw [hj, hunit]

/-! non-vacuity: the two-knob configuration of `Opt.LimitsExample` with `assert_within_tol` and `restore_if_fail` on;
    a `solve()` whose points are never within tolerance raises `noTol` and puts the knobs of row 0 back, one whose points
    are within tolerance returns normally (the hypotheses of `C09_restore` / `C09_return_matched` are satisfiable;
    the log must be non-empty at entry: true after `Optimize.__init__`, which logs the start point) -/
section example_
open Opt.LimitsExample
def cfgFail : Cfg Int := { good with assertWithinTol := true, restoreIfFail := true }
def cfgOk : Cfg Int := { good with within := fun _ _ => true, assertWithinTol := true, restoreIfFail := true }
def sStart : St Int := st0 1 (-2) (fun _ => true) [⟨fun j => if j = 0 then 1 else -2, fun _ => true, fun _ => true⟩]
example : errOf (solve cfgFail [it1] none sStart).1 = some .noTol ∧
    ((solve cfgFail [it1] none sStart).2.knobs 0, (solve cfgFail [it1] none sStart).2.knobs 1) = (1, -2) := by
  decide +kernel
example : isOk (solve cfgOk [it1] none sStart).1 = true ∧
    ((solve cfgOk [it1] none sStart).2.knobs 0, (solve cfgOk [it1] none sStart).2.knobs 1) = (3, 3) := by
  decide +kernel
end example_

end Properties.C09
