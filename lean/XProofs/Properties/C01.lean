import XModel.Capstone
import XModel.Link
import XModel.Unique
/-!
# C01 — expression-defined locations always equal their definition on current data
-/
namespace Properties.C01
open Store Push

/-- one completed update: every expression task holds its definition afterwards (scheduling lemma
    instantiated on container trees) -/
theorem C01_push_consistent (sem : Sem) (triggered : List ETask) (others : ETask → Prop) (σ σf : Val)
    (hrun : runAll? (exprSys sem) triggered σ = some σf)
    (hgood : ∀ t ∈ triggered, (exprSys sem).good t)
    (hothers : ∀ t, others t → (exprSys sem).Q t σ)
    (hsafe : ∀ t, others t → ∀ u ∈ triggered, (exprSys sem).NI u t)
    (hord : List.Pairwise (fun t u => (exprSys sem).NI u t) triggered) :
    ∀ t, (others t ∨ t ∈ triggered) → ∃ v, eval sem σf t.expr = .ok v ∧ get σf t.target = .ok v :=
  push_consistent sem triggered others σ σf hrun hgood hothers hsafe hord

end Properties.C01
