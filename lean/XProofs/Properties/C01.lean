import XModel.Capstone
import XModel.Link
import XModel.Unique
import XModel.Acyclic
import XModel.ManagerC13
import XModel.ManagerFn
import XModel.ManagerC01b
import XModel.ManagerFnHist
import XModel.ManagerKnob
import XModel.ManagerMixed
import XModel.ManagerKnobShared
/-!
# C01 — expression-defined locations always equal their definition on current data

Full statement (properties.jsonl): after every completed manager operation, every location defined by an
expression holds exactly the value of that expression evaluated on the current container contents — for all
histories, all graph shapes, all nesting depths.

What is proved, on the executable model `XModel/Manager.lean` that the correspondence check runs against
the implementation:

* `C01_set_value`, `C01_set_expr` — one completed assignment (plain value / expression) from a state
  reachable through the API (`MInv`, C03) in which every definition holds, under *any* legal iteration order
  of the sets involved (`ValidSched`), leaves every definition holding;
* `C01_histories` — the same over histories of assignments, `unregister`, `cleanup`, `verify`, `refresh`;
* `C01_decided` — with every hypothesis replaced by the Boolean test the driver evaluates line by line
  (`goodRunB`: `scopeB`, `validSchedule`, the call completed): the number of generated histories that are
  inside the theorem is *measured* (evidence key `in_theorem_scope`).

The hypotheses `Scope` (H1: no cycle through two distinct tasks below the start set; H2: written locations
pairwise prefix-incomparable; H3: no task reads what it writes; refs of at least two steps with canonical
keys; no injected fault) are exactly where the property is *false* of the pinned code (known findings D1:
sibling cycles through a shared owner, D8: root-level computed keys), see `C01_partial_scope_needed`.
In-place operators count as the assignment they reduce to (`inplaceCall`).  Function tasks are covered by
`C01_set_value_function_tasks` and, over whole histories with `register` / `unregister`, by
`C01_histories_function_tasks`; linear knobs (integer values) by `C01_knob_*` in their own scene and, mixed with
expression / function tasks in one triggered set, by `C01_mixed_*` (plain int assignments on a static graph).

Knobs SHARING targets — several knobs acting on the SAME element, the normal use of knobs, and one knob listing a target
twice — are covered by `C01_knobs_sharing_targets*` (`XModel/ManagerKnobShared.lean`): for a family of knobs on integer data
(distinct ids, no knob target is a knob source; targets may overlap freely) every target `t` holds
`base t + Σ_k w_{k,t} * prev_k`, this is kept by running ANY knob of the family, and after any series of completed assignments
to sources `t` holds `base t + Σ_k w_{k,t} * (current value of source_k)`; completion is a conclusion.  Scope of those
theorems: the triggered tasks of each assignment are ALL knobs of the family, integer values, no injected fault.

Limits of the knob / mixed theorems, none of which carries `_partial` in its name: in `C01_knob_*` (single-knob scene) and
`C01_mixed_*` leaf targets of different tasks must be pairwise incomparable, so a triggered set that MIXES knobs with
expression / function tasks AND has two knobs on one element is still outside (shared targets are covered only for
knob-only triggered sets, above); non-int values (NaN, containers) in sources or targets of knobs are outside everywhere;
after an injected fault the knob clauses are FALSE, not merely unproved (recovery fails for knobs, C18,
`XModel/KnobFaultWitness.lean`); `KnobDecl` wants the whole owner chain of the source among the task's dependencies,
which holds for knobs on members of a top-level container only; the mixed invariant `ConsistentM` has no establishing
theorem along `register` / `setExpr` (`C01_knob_register` gives it for the new knob only).  Not covered by any theorem
(correspondence and oracles only): `load` inside a C01 history, values other than ints and NaN (the model's value domain),
a history-level "every other location keeps the last value assigned" (`C01_other_locations`, `MixedPost.frame` are one-step).
What the driver EVALUATES per assignment line: `scope` (`callScopeB`), `scope_f` (`callOKFB`), `scope_m` (`mixedScopeB` on
states holding a knob, int value, legal schedule, completed); the history-level tests (`goodRunFB`, `mixedRunB`,
`mixedStaticB`, `consistentMB`) are sound (`*_sound`, `*_decided`) but are not run by the driver.

**Which tree.**  The model transcribes `/repo` as it stands now: the pinned commit plus the `fix:` commits recorded in
`/verif/KNOWN_FINDINGS.json` (status `fixed`).  Where a theorem below rests on repaired code — the repaired `unregister` behind `MInv`, the iterative DFS without recursion limit — it is false of
the tree as first pinned; the witnesses are kept (`Index.pinned_unregister_stale`, defect D2/D3 in DESIGN.md).
-/
namespace Properties.C01
open Store Push Index Manager

/-- one completed update on abstract expression tasks (scheduling lemma on container trees) -/
theorem C01_push_consistent (sem : Sem) (triggered : List ETask) (others : ETask → Prop) (σ σf : Val)
    (hrun : runAll? (exprSys sem) triggered σ = some σf)
    (hgood : ∀ t ∈ triggered, (exprSys sem).good t)
    (hothers : ∀ t, others t → (exprSys sem).Q t σ)
    (hsafe : ∀ t, others t → ∀ u ∈ triggered, (exprSys sem).NI u t)
    (hord : List.Pairwise (fun t u => (exprSys sem).NI u t) triggered) :
    ∀ t, (others t ∨ t ∈ triggered) → ∃ v, eval sem σf t.expr = .ok v ∧ get σf t.target = .ok v :=
  push_consistent sem triggered others σ σf hrun hgood hothers hsafe hord

/-- **`set_value(ref, value)` on the executable manager.** -/
theorem C01_set_value (sched : Sched) (s : MState) (p : Path) (v : Val) (hi : MInv s) (hc : Consistent s)
    (sc : Scope (preState s p) p)
    (hvs : ValidSched (gOf (preState s p).idx) (findTaskids (preState s p).idx (chainR p))
      (sched (findTaskids (preState s p).idx (chainR p))))
    (s' : MState) (hok : setValue sched s p v = (s', none)) :
    ∀ t ∈ s'.defs, ∃ w, eval pySem s'.store (toE t).expr = .ok w ∧ get s'.store t.id = .ok w :=
  (setValue_consistent sched s p v hi hc sc hvs s' hok).1

/-- **`set_value(ref, expression)` on the executable manager** (the new definition included). -/
theorem C01_set_expr (sched : Sched) (s : MState) (p : Path) (e : Expr) (hi : MInv s) (hc : Consistent s)
    (sc : Scope (defPart s p e) p)
    (hvs : ValidSched (gOf (defPart s p e).idx) (findTaskids (defPart s p e).idx (chainR p))
      (sched (findTaskids (defPart s p e).idx (chainR p))))
    (s' : MState) (hok : setExpr sched s p e = (s', none)) :
    ∀ t ∈ s'.defs, ∃ w, eval pySem s'.store (toE t).expr = .ok w ∧ get s'.store t.id = .ok w :=
  (setExpr_consistent sched s p e hi hc sc hvs s' hok).1

/-- **every other location holds the last value assigned to it**: the assigned location holds the value, and what is
    neither assigned nor (above / below) a definition's target is unchanged -/
theorem C01_other_locations (sched : Sched) (s : MState) (p : Path) (v : Val) (hi : MInv s)
    (sc : Scope (preState s p) p) (s' : MState) (hok : setValue sched s p v = (s', none)) :
    get s'.store p = .ok v ∧
    ∀ q, canonPath q → Incomparable p q → (∀ t ∈ (preState s p).defs, Incomparable t.id q) →
      get s'.store q = get s.store q :=
  setValue_other_locations sched s p v hi sc s' hok

/-- **with function tasks**: "each target of a function task holds what that task prescribes".  A function task is a
    body of assignments `target := expression` (its items); if every task's declared dependencies and targets are
    sound (`DeclOK`) and the items do not disturb each other (`ScopeF`), a completed assignment of a value to a plain
    location leaves every item of every expression and function task holding. -/
theorem C01_set_value_function_tasks (sched : Sched) (s : MState) (p : Path) (v : Val) (hi : MInv s)
    (hnodef : lookDef s.defs p = none) (sc : ScopeF s p)
    (hvs : ValidSched (gOf s.idx) (findTaskids s.idx (chainR p)) (sched (findTaskids s.idx (chainR p))))
    (hc : ConsistentF s) (s' : MState) (hok : setValue sched s p v = (s', none)) : ConsistentF s' :=
  setValue_consistentF sched s p v hi hnodef sc hvs hc s' hok

/-- the decidable form of `ScopeF` is sound -/
theorem C01_function_scope_test_sound (s : MState) (hi : MInv s) (p : Path) (h : scopeFB s p = true) : ScopeF s p :=
  scopeFB_sound s hi p h

/-- **"independent of the order in which the definitions were made"**: two good runs from the same state that end with
    the same definitions (listed in a dependency order `ord`) and the same values at the plainly assigned locations `P`
    end with the same container tree, whatever the order of their calls and the schedulers used.  (A tree in which every
    definition holds is determined by the definitions, the plain values and what was never written:
    `Manager.unique_store`, from the normal form of `XModel/StoreNF.lean`.) -/
theorem C01_order_independent (sched1 sched2 : Sched) (s : MState) (cs1 cs2 : List Call) (hi : MInv s) (hc : Consistent s)
    (hk1 : ∀ c ∈ cs1, (∃ p v, c = .setValue p v) ∨ (∃ p e, c = .setExpr p e) ∨ c = .cleanup ∨ c = .verify ∨ c = .refresh)
    (hk2 : ∀ c ∈ cs2, (∃ p v, c = .setValue p v) ∨ (∃ p e, c = .setExpr p e) ∨ c = .cleanup ∨ c = .verify ∨ c = .refresh)
    (hg1 : GoodRun sched1 s cs1) (hg2 : GoodRun sched2 s cs2)
    (P : List Path) (ord : List ETask)
    (hd : ∀ t ∈ s.defs, t.id ∈ P ++ ord.map (·.target))
    (ha1 : ∀ p ∈ assigned cs1, p ∈ P ++ ord.map (·.target)) (ha2 : ∀ p ∈ assigned cs2, p ∈ P ++ ord.map (·.target))
    (hW : Family (P ++ ord.map (·.target))) (hne : ∀ w ∈ P ++ ord.map (·.target), w ≠ [])
    (hex : AllExist (P ++ ord.map (·.target)) s.store)
    (hdefs1 : ∀ t ∈ ord, ∃ d ∈ (applyAll sched1 s cs1).defs, toE d = t)
    (hdefs2 : ∀ t ∈ ord, ∃ d ∈ (applyAll sched2 s cs2).defs, toE d = t)
    (hP : ∀ p ∈ P, get (applyAll sched1 s cs1).store p = get (applyAll sched2 s cs2).store p)
    (hord : ∀ pre t post, ord = pre ++ t :: post → ∀ r ∈ leafRefs t.expr, canonPath r ∧
      ((∀ w ∈ P ++ ord.map (·.target), Incomparable w r) ∨ (∃ p ∈ P, ∃ q, r = p ++ q) ∨
       ∃ u ∈ pre, ∃ q, r = u.target ++ q)) :
    (applyAll sched1 s cs1).store = (applyAll sched2 s cs2).store :=
  order_independent sched1 sched2 s cs1 cs2 hi hc hk1 hk2 hg1 hg2 P ord hd ha1 ha2 hW hne hex hdefs1 hdefs2 hP hord

/-- **all histories** of in-scope, completed assignments and maintenance calls -/
theorem C01_histories (sched : Sched) (cs : List Call) (s : MState) (hi : MInv s) (hc : Consistent s)
    (hg : GoodRun sched s cs) : Consistent (applyAll sched s cs) :=
  (goodRun_consistent sched cs s hi hc hg).1

/-- the same with every hypothesis decided by the tests the driver runs on each line -/
theorem C01_decided (sched : Sched) (cs : List Call) (s : MState) (hi : MInv s) (hc : Consistent s)
    (h : goodRunB sched s cs = true) : Consistent (applyAll sched s cs) :=
  Manager.C01_decided sched cs s hi hc h

/-- the Boolean tests are sound for the propositional hypotheses -/
theorem C01_tests_sound (s : MState) (hi : MInv s) (p : Path) :
    (scopeB s p = true → Scope s p) ∧
    (∀ π, validSchedule s.idx (chainR p) π = true → acyclicFrom s.idx (startOf s.idx (chainR p)) = true →
      ValidSched (gOf s.idx) (findTaskids s.idx (chainR p)) π) :=
  ⟨scopeB_sound s hi p, fun π h1 h2 => validSchedule_sound s.idx (chainR p) π h1 h2⟩

/-- **histories with function tasks**: every call of the history is an assignment (value, expression, in-place) in
    the mixed scope `ScopeG` under a legal schedule, a `register` of a task with a sound declaration under a fresh id,
    an `unregister`, or a maintenance call; a task registered while its lines do not yet hold is tracked as *unsettled*
    until an assignment triggers it (`unsettledAfter`), and when none is left unsettled at the end every definition and
    every line of every function body holds in the final state -/
theorem C01_histories_function_tasks (sched : Sched) (s : MState) (cs : List Call) (hi : MInv s) (hc : ConsistentF s)
    (hg : GoodRunF sched s cs) : ConsistentF (applyAll sched s cs) ∧ MInv (applyAll sched s cs) :=
  goodRunF_consistentF sched s cs hi hc hg

/-- the same with the unsettled tasks listed: everything not in `unsettledAfter` holds after ANY good history -/
theorem C01_histories_function_tasks_unsettled (sched : Sched) (cs : List Call) (U : List Path) (s : MState)
    (hi : MInv s) (hc : ConsistentU U s) (hg : GoodRunU sched s cs) :
    ConsistentU (unsettledAfter sched U s cs) (applyAll sched s cs) ∧ MInv (applyAll sched s cs) :=
  goodRunU_consistentU sched cs U s hi hc hg

/-- … and decided: `goodRunFB` is the Boolean form of `GoodRunF` (the driver evaluates its assignment part, `callOKFB`, line
    by line; the `register` / `unregister` conditions and `unsettledAfter = []` are not evaluated on real histories) -/
theorem C01_function_histories_decided (sched : Sched) (cs : List Call) (s : MState) (hi : MInv s) (hc : ConsistentF s)
    (h : goodRunFB sched s cs = true) : ConsistentF (applyAll sched s cs) :=
  C01F_decided sched cs s hi hc h

/-- **what a linear-knob task prescribes**: one run of `t_i += w_i * (value(src) - prev); prev := value(src)` on integer
    values: each target moves by `w_i * (x - p0)`, `prev` becomes `x`, nothing else changes (no overflow side condition:
    Python's ints are unbounded and the model's guard only concerns NaN operands) -/
theorem C01_knob_one_run (s : MState) (t : MTask) (src : Path) (ws : List Int) (tars : List Path) (x p0 : Int)
    (as : List Int) (hk : t.kind = .knob src ws tars) (hwf : KnobWF src ws tars) (hf : s.faultIn = none)
    (hsrc : get s.store src = .ok (.int x)) (hprev : lookPrev s.prev t.id = .int p0)
    (htars : HoldInts s.store tars as) :
    ∃ s', runTask s t = (s', none) ∧
      HoldInts s'.store tars (List.zipWith (fun a w => a + w * (x - p0)) as ws) ∧
      lookPrev s'.prev t.id = .int x ∧
      (∀ q, canonPath q → (∀ a ∈ tars, Incomparable a q) → get s'.store q = get s.store q) ∧
      s'.idx = s.idx ∧ s'.defs = s.defs := by
  obtain ⟨s', h1, h2, h3, _, h5, h6, h7, _⟩ := runTask_knob s t src ws tars x p0 as hk hwf hf hsrc hprev htars
  exact ⟨s', h1, h2, h3, h5, h6, h7⟩

/-- **through the manager, any number of knob tasks, any schedule**: in a knob scene (the tasks an assignment to `p`
    triggers are well-formed knobs, pairwise apart, each in its invariant `target_i = b_i + w_i * prev`), after ANY
    sequence of integer assignments to `p` ending in `v`, every knob whose source is `p` has each target equal to
    `b_i + w_i * v` with the SAME bases as at registration — the targets hold what the task prescribes -/
theorem C01_knob_targets_follow {sched : Sched} {p : Path} {l : List MTask} {B : Path → List Int} {s : MState}
    (h : KnobScene sched p l B s) (vs : List Int) (v : Int) :
    KnobScene sched p l B (knobAssignAll sched s p (vs ++ [v])) ∧
      get (knobAssignAll sched s p (vs ++ [v])).store p = .ok (.int v) ∧
      (∀ t ∈ l, ∀ src ws tars, t.kind = .knob src ws tars → src = p →
        KnobAt t (B t.id) v (knobAssignAll sched s p (vs ++ [v]))) :=
  assignAll_knobs h vs v

/-- registration puts a knob in its invariant with bases `a_i - w_i * x0` -/
theorem C01_knob_register (s : MState) (t : MTask) (src : Path) (ws : List Int) (tars : List Path) (x0 : Int)
    (as : List Int) (hk : t.kind = .knob src ws tars) (hlen : ws.length = tars.length) (hfz : s.frozen = false)
    (hsrc : get s.store src = .ok (.int x0)) (htars : HoldInts s.store tars as) :
    (register s t).2 = none ∧ KnobAt t (knobBases as ws x0) x0 (register s t).1 := by
  obtain ⟨h1, _, _, _, h5⟩ := register_knob s t src ws tars x0 as hk hlen hfz hsrc htars
  exact ⟨h1, h5⟩

/-! ### non-vacuity: a concrete history inside the theorem (a chain of two definitions, an update of a
    source, a maintenance call, a definition overwritten by a value) -/
section example_
def da : Path := [.item (.str "d"), .item (.str "a")]
def db : Path := [.item (.str "d"), .item (.str "b")]
def dc : Path := [.item (.str "d"), .item (.str "c")]
def de : Path := [.item (.str "d"), .item (.str "e")]
def s0 : MState :=
  { MState.init with store := .dict [(.str "d", .dict [(.str "a", .int 1), (.str "b", .int 2), (.str "c", .none), (.str "e", .none)])] }
def hist : List Call :=
  [.setExpr dc (.bin "Add" (.ref da) (.ref db)), .setExpr de (.bin "Mul" (.ref dc) (.ref da)),
   .setValue da (.int 5), .cleanup, .inplace "Add" da (.lit (.int 1)), .inplace "Mul" dc (.ref db),
   .setValue dc (.int 7)]
theorem s0_inv : MInv s0 := MInv_of_sameGraph (s := MState.init) ⟨rfl, rfl, rfl⟩ MInv.init
example : goodRunB id s0 hist = true := by decide
theorem example_consistent : Consistent (applyAll id s0 hist) :=
  C01_decided id hist s0 s0_inv (fun _ h => by cases h) (by decide)
example : get (applyAll id s0 hist).store de = .ok (.int 42) := rfl

/-! consumer-before-producer: `e = c * a` defined before `c = a + b`, and the other way round -/
def histAB : List Call := [.setExpr dc (.bin "Add" (.ref da) (.ref db)), .setExpr de (.bin "Mul" (.ref dc) (.ref da)), .setValue da (.int 5)]
def histBA : List Call := [.setValue da (.int 5), .setExpr de (.bin "Mul" (.ref dc) (.ref da)), .setExpr dc (.bin "Add" (.ref da) (.ref db))]
def s0' : MState :=
  { MState.init with store := .dict [(.str "d", .dict [(.str "a", .int 1), (.str "b", .int 2), (.str "c", .int 0), (.str "e", .int 0)])] }
example : goodRunB id s0' histAB = true ∧ goodRunB id s0' histBA = true := by decide
example : (applyAll id s0' histAB).store = (applyAll id s0' histBA).store := rfl

/-! a function task `#F : e := c * 2 ; f := a + 1` next to the definition `c = a + b` -/
def df : Path := [.item (.str "d"), .item (.str "f")]
def sF0 : MState :=
  { MState.init with store := .dict [(.str "d", .dict [(.str "a", .int 1), (.str "b", .int 2), (.str "c", .none),
      (.str "e", .none), (.str "f", .none)])] }
def fTask : MTask :=
  ⟨[.item (.str "#F")], .func [(de, .bin "Mul" (.ref dc) (.lit (.int 2))), (df, .bin "Add" (.ref da) (.lit (.int 1)))],
   [dc, da], [de, df]⟩
def sF : MState := (setValue id (register (setExpr id sF0 dc (.bin "Add" (.ref da) (.ref db))).1 fTask).1 da (.int 5)).1
example : scopeFB sF da = true ∧
    validSchedule sF.idx (chainR da) (findTaskids sF.idx (chainR da)) = true := by decide
example : (setValue id sF da (.int 7)).2 = none ∧ get (setValue id sF da (.int 7)).1.store de = .ok (.int 18) ∧
    get (setValue id sF da (.int 7)).1.store df = .ok (.int 8) := ⟨rfl, rfl, rfl⟩

/-- outside the scope the statement is false of the model too (and of the code: known finding D1): two
    members of one nested container feeding each other — `d['n']['y'] = d['n']['x'] + 1`,
    `d['n']['x'] = d['n']['z'] * 2`, then `d['n']['z'] = 5` with the depth-first order: both tasks write below
    `d['n']` and read below it, the declared graph has the cycle x ⇄ y (H1 fails), and the completed run
    leaves `d['n']['y'] = 3` although `d['n']['x'] = 10`. -/
def nx : Path := [.item (.str "d"), .item (.str "n"), .item (.str "x")]
def ny : Path := [.item (.str "d"), .item (.str "n"), .item (.str "y")]
def nz : Path := [.item (.str "d"), .item (.str "n"), .item (.str "z")]
def s1 : MState :=
  { MState.init with store := .dict [(.str "d", .dict [(.str "n", .dict [(.str "x", .int 0), (.str "y", .int 0), (.str "z", .int 1)])])] }
def histD1 : List Call :=
  [.setExpr ny (.bin "Add" (.ref nx) (.lit (.int 1))), .setExpr nx (.bin "Mul" (.ref nz) (.lit (.int 2))), .setValue nz (.int 5)]
theorem C01_partial_scope_needed :
    goodRunB id s1 histD1 = false ∧
    get (applyAll id s1 histD1).store nx = .ok (.int 10) ∧ get (applyAll id s1 histD1).store ny = .ok (.int 3) := by
  refine ⟨by decide, rfl, rfl⟩
end example_


/-! ### knob tasks mixed with expression / function tasks in one triggered set (XModel/ManagerMixed.lean) -/

/-- **one assignment whose triggered set mixes linear knobs with expression / function tasks**: on a state in `ScopeM` (every task well declared, leaf targets of different tasks pairwise incomparable, no task writes a knob's source, the assignment touches no target), under any legal schedule, a completed assignment of an int to a plain location leaves every expression item holding (`ConsistentF`), every knob on the assigned location at the new value (`KnobAt`), every other triggered knob at its source's value, every knob invariant kept, and everything incomparable with the triggered targets unchanged (`MixedPost`) -/
theorem C01_mixed_knobs_and_expressions :
    ∀ (sched : Manager.Sched) (B : Manager.Path → List Int) (s : Manager.MState) (p : Manager.Path)
      (v : Int),
      Manager.MInv s →
        Manager.lookDef s.defs p = none →
          Manager.ScopeM s p →
            Manager.ValidSched (Manager.gOf s.idx) (Manager.findTaskids s.idx (Manager.chainR p))
                (sched (Manager.findTaskids s.idx (Manager.chainR p))) →
              (∀ (t : Manager.MTask),
                  t ∈ s.defs →
                    ¬t.id ∈ sched (Manager.findTaskids s.idx (Manager.chainR p)) →
                      ∀ (it : Push.ETask), it ∈ Manager.itemsOf t → (Push.exprSys Manager.pySem).Q it s.store) →
                (∀ (t : Manager.MTask), t ∈ s.defs → Manager.ReadyM B t s) →
                  ∀ (s' : Manager.MState),
                    Manager.setValue sched s p (Store.Val.int v) = (s', none) →
                      Manager.MixedPost B (sched (Manager.findTaskids s.idx (Manager.chainR p))) p v s s' :=
  @Manager.setValue_mixed

/-- the same over any series of plain int assignments, each in `ScopeM` at the state where it is made: consistency of expression items and of every knob is kept, and so are the index invariant and the graph -/
theorem C01_mixed_histories :
    ∀ (sched : Manager.Sched) (B : Manager.Path → List Int) (as : List (Manager.Path × Int))
      (s : Manager.MState),
      Manager.MInv s →
        Manager.ConsistentM B s →
          Manager.MixedRun sched s as →
            Manager.ConsistentM B (Manager.mixedAssignAll sched s as) ∧
              Manager.MInv (Manager.mixedAssignAll sched s as) ∧ Manager.SameGraph s (Manager.mixedAssignAll sched s as) :=
  @Manager.mixedRun_consistent

/-- on integer data (items built from `+ - *`, reads and targets holding ints) the run of a mixed triggered set COMPLETES — completion is a conclusion, not a hypothesis — and the post-condition holds -/
theorem C01_mixed_completes_on_int_data :
    ∀ (sched : Manager.Sched) (B : Manager.Path → List Int) (R : List Manager.Path),
      (∀ (q : Manager.Path), q ∈ R → Push.canonPath q) →
        ∀ (s : Manager.MState) (p : Manager.Path) (v : Int),
          Manager.MInv s →
            Manager.lookDef s.defs p = none →
              Manager.ScopeM s p →
                Manager.ValidSched (Manager.gOf s.idx) (Manager.findTaskids s.idx (Manager.chainR p))
                    (sched (Manager.findTaskids s.idx (Manager.chainR p))) →
                  (∀ (t : Manager.MTask),
                      t ∈ s.defs →
                        ¬t.id ∈ sched (Manager.findTaskids s.idx (Manager.chainR p)) →
                          ∀ (it : Push.ETask), it ∈ Manager.itemsOf t → (Push.exprSys Manager.pySem).Q it s.store) →
                    (∀ (t : Manager.MTask), t ∈ s.defs → Manager.ReadyM B t s) →
                      p ∈ R →
                        Manager.IntWorld R s.store →
                          (∀ (t : Manager.MTask),
                              t ∈ s.defs →
                                t.id ∈ sched (Manager.findTaskids s.idx (Manager.chainR p)) → Manager.IntTask R t) →
                            ∃ s',
                              Manager.setValue sched s p (Store.Val.int v) = (s', none) ∧
                                Manager.MixedPost B (sched (Manager.findTaskids s.idx (Manager.chainR p))) p v s s' ∧
                                  Manager.IntWorld R s'.store :=
  @Manager.setValue_mixed_total

/-- the hypotheses of the mixed-set theorem as decidable tests (`mixedScopeB`, `consistentMB`, `validSchedule`), sound -/
theorem C01_mixed_decided :
    ∀ (sched : Manager.Sched) (B : Manager.Path → List Int) (as : List (Manager.Path × Int))
      (s : Manager.MState),
      Manager.MInv s →
        Manager.consistentMB B s = true →
          Manager.mixedRunB sched s as = true → Manager.ConsistentM B (Manager.mixedAssignAll sched s as) :=
  @Manager.C01M_decided


/-! ### several knobs on the SAME element (XModel/ManagerKnobShared.lean) -/

/-- **knobs sharing targets, any series of assignments**: `F` is a family of linear knobs (`KnobFamily`: distinct ids,
    canonical sources, canonical non-empty targets, no knob target is a knob source — targets may be shared between knobs
    and repeated inside one knob, sources need not be distinct) that is settled in `s` for the bases `base` (`SharedAt`:
    remembered values, sources and targets are ints, every target `t` holds `base t + Σ_k wAt k t * prev_k`, every knob
    remembers the value its source holds); no fault is armed; every assignment `p := v` of the series is a `SharedCall` (`p` a
    non-empty plain location that is the source of a knob of `F`; the scheduled triggered tasks — whatever the scheduler
    returned — are knobs of `F` and comprise every knob on `p`; others may run too and find `Δ = 0`).  Then EVERY call
    completes, the family is settled again with the SAME bases, every source holds the value last assigned to it, and
    every target `t` holds `base t + Σ_{k ∈ F} wAt k t * (last value of source_k)`, where `wAt k t` is the sum of `k`'s
    weights at the positions where `t` is listed — "each target holds what the tasks prescribe".
    STILL OUTSIDE: a triggered set mixing knobs with expression / function tasks AND sharing targets; non-int values;
    injected faults (recovery is false for knobs, see C18). -/
theorem C01_knobs_sharing_targets (sched : Sched) {F : List MTask} {base : Path → Int} (hF : KnobFamily F)
    (as : List (Path × Int)) (s : MState) (hf : s.faultIn = none) (hat : SharedAt F base s)
    (hcalls : ∀ a ∈ as, SharedCall sched F s a.1) :
    allComplete sched s as ∧ SharedAt F base (mixedAssignAll sched s as) ∧
      (mixedAssignAll sched s as).faultIn = none ∧ SameGraph s (mixedAssignAll sched s as) ∧
      (∀ k ∈ F, srcI (mixedAssignAll sched s as) k = lastVal (knobSrc k) (srcI s k) as) ∧
      (∀ t ∈ famTargets F, get (mixedAssignAll sched s as).store t =
        .ok (.int (base t + famSum t (fun k => lastVal (knobSrc k) (srcI s k) as) F))) :=
  sharedAssignAll sched hF as s hf hat hcalls

/-- **the invariant is kept by running ANY knob of the family** (settled or not, triggered or not): in `SharedInv F base s`
    (ints; every target `t` holds `base t + Σ_k wAt k t * prev_k`), without an armed fault, `task.run()` of a knob `k ∈ F`
    completes, the invariant holds again with the same bases, `k` remembers the current value of its source, no other
    remembered value and no source changes, and an int location `q` moves by exactly `wAt k q * (value(src_k) - prev_k)`.
    Outside: non-int values, injected faults. -/
theorem C01_knobs_sharing_targets_one_run {F : List MTask} {base : Path → Int} {s : MState} (hF : KnobFamily F)
    (hf : s.faultIn = none) (hinv : SharedInv F base s) {k : MTask} (hk : k ∈ F) :
    ∃ s', runTask s k = (s', none) ∧ SharedInv F base s' ∧ s'.faultIn = none ∧ SameGraph s s' ∧
      lookPrev s'.prev k.id = .int (srcI s k) ∧
      (∀ id, id ≠ k.id → lookPrev s'.prev id = lookPrev s.prev id) ∧
      (∀ k' ∈ F, get s'.store (knobSrc k') = get s.store (knobSrc k')) ∧
      (∀ q a, canonPath q → get s.store q = .ok (.int a) →
        get s'.store q = .ok (.int (a + wAt k q * (srcI s k - prevI s k)))) := by
  obtain ⟨s', h1, h2, h3, h4, h5, h6, h7, h8, _⟩ := runTask_shared hF hf hinv hk
  exact ⟨s', h1, h2, h3, h4, h5, h6, h7, h8⟩

/-- **one completed assignment to a source**: in a settled family, `set_value(p, v)` on a plain int location `p` that is
    no target, with the scheduled triggered list `l` (hypothesis `htrig`: any order, repetitions allowed) consisting of
    knobs of `F` and containing every knob on `p`: the call completes, the family is settled again, the sources hold `v`
    (those on `p`) or their old values, and every target `t` holds `base t + Σ_k wAt k t * value(source_k)`.
    Outside: `p` with a definition of its own, mixed triggered sets, non-int values, injected faults. -/
theorem C01_knobs_sharing_targets_one_assignment (sched : Sched) {F : List MTask} {base : Path → Int} (hF : KnobFamily F)
    (s : MState) (p : Path) (v : Int) (l : List MTask) (hnodef : lookDef s.defs p = none) (hf : s.faultIn = none)
    (hat : SharedAt F base s) (hcp : canonPath p) (hne : p ≠ []) (hpint : ∃ x, get s.store p = .ok (.int x))
    (hpt : p ∉ famTargets F) (htrig : knobTriggered sched s p = .ok l) (hl : ∀ k ∈ l, k ∈ F)
    (hruns : ∀ k ∈ F, knobSrc k = p → k ∈ l) :
    ∃ s', setValue sched s p (.int v) = (s', none) ∧ SharedAt F base s' ∧ s'.faultIn = none ∧ SameGraph s s' ∧
      get s'.store p = .ok (.int v) ∧
      (∀ k ∈ F, srcI s' k = if knobSrc k = p then v else srcI s k) ∧
      (∀ t ∈ famTargets F, get s'.store t = .ok (.int (base t + famSum t (srcI s') F))) :=
  setValue_sharedAt sched hF s p v l hnodef hf hat hcp hne hpint hpt htrig hl hruns

/-- **establishing the invariant**: every integer state is in the invariant for its own bases (`baseOf`: what the target
    holds minus what the knobs have added), the bases of an invariant are unique on the targets, and `register` of one
    more knob whose source and targets hold ints keeps a settled family settled (the container tree is not touched). -/
theorem C01_knobs_sharing_targets_register {F : List MTask} {s : MState} :
    (IntData F s → SharedInv F (baseOf F s) s) ∧
    (∀ base, SharedInv F base s → ∀ t ∈ famTargets F, base t = baseOf F s t) ∧
    (∀ K, KnobFamily (F ++ [K]) → s.frozen = false → IntData F s → (∀ k ∈ F, KnobSettled k s) →
      (∃ x, get s.store (knobSrc K) = .ok (.int x)) → (∀ t ∈ leafTargets K, ∃ a, get s.store t = .ok (.int a)) →
      (register s K).2 = none ∧ (register s K).1.store = s.store ∧
        SharedAt (F ++ [K]) (baseOf (F ++ [K]) (register s K).1) (register s K).1) :=
  ⟨IntData.sharedInv, fun _ h => h.base_eq, fun K h1 h2 h3 h4 h5 h6 => by
    obtain ⟨a, b, _, c⟩ := register_sharedAt (K := K) h1 h2 h3 h4 h5 h6
    exact ⟨a, b, c⟩⟩

/-- the same as `C01_knobs_sharing_targets` with every hypothesis a Boolean test on the start state (the family is the set
    of ALL knob tasks of the manager, `knobsOf s`); the tests are not run by the driver -/
theorem C01_knobs_sharing_targets_decided (sched : Sched) (base : Path → Int) (as : List (Path × Int)) (s : MState)
    (hfam : knobFamilyB (knobsOf s) = true) (hat : sharedAtB (knobsOf s) base s = true) (hf : s.faultIn = none)
    (hcalls : as.all (fun a => sharedCallB sched s a.1) = true) :
    allComplete sched s as ∧ SharedAt (knobsOf s) base (mixedAssignAll sched s as) ∧
      (∀ t ∈ famTargets (knobsOf s), get (mixedAssignAll sched s as).store t =
        .ok (.int (base t + famSum t (fun k => lastVal (knobSrc k) (srcI s k) as) (knobsOf s)))) :=
  sharedAssignAll_decided sched base as s hfam hat hf hcalls

/-- non-vacuity (`Manager.SharedExample`): `#K1: a += 2Δx`, `#K2: a += 3Δy, b += Δy` share `d.a`; `#K3: c += Δz, c += 4Δz`
    lists `d.c` twice; registered at `x, y, z = 1, 2, 3` on `a, b, c = 10, 20, 30` the bases are `2, 18, 15`.  The
    hypotheses hold, so after ANY series of int assignments to `d.x`, `d.y`, `d.z`: `a = 2 + 2x + 3y`, `b = 18 + y`,
    `c = 15 + 5z`; and computed, `d.x := 5`, `d.y := 7` in both orders give `d.a = 33`. -/
example : KnobFamily SharedExample.F ∧ SharedAt SharedExample.F SharedExample.bases SharedExample.s1 ∧
    SharedCall id SharedExample.F SharedExample.s1 (SharedExample.d "x") ∧
    SharedCall id SharedExample.F SharedExample.s1 (SharedExample.d "y") :=
  ⟨SharedExample.family_F, SharedExample.at_s1, SharedExample.call_x, SharedExample.call_y⟩
example : get SharedExample.sXY.store (SharedExample.d "a") = .ok (.int (2 + 2 * 5 + 3 * 7)) ∧
    SharedExample.sXY.store = SharedExample.sYX.store := ⟨rfl, rfl⟩

end Properties.C01
