import XModel.Parse
import XModel.ManagerC11
import XModel.Acyclic
/-!
# C11 — printed expressions rebuild themselves
`C11_roundtrip_partial`: the language of the theorem is refs with string / integer keys, integer
literals and float literals (negative ones parenthesised on the left, as the repaired `__repr__` prints
them; a float is the opaque text of `repr(float)` carried by one NUMBER token — that distinct floats have
distinct texts which evaluate back to them is Python's guarantee, a recorded assumption outside the model),
every binary and unary operator, and calls with positional arguments followed by keyword arguments
`name=value` (distinct identifiers; which covers the builtin heads `round(x, n)`, `round(x, ndigits=n)`,
`abs(x)`, `math.floor(x)`).  Complex literal tokens and tuple keys are outside the theorem and covered by
the correspondence run and the eval oracle only.

`C11_load_dump_reacts_identically` is the second sentence of the property on the manager model (pairs already
parsed — the textual half is the round trip above): the dump of a manager, loaded into a fresh manager over the same
containers, gives the same definitions, and every later assignment to a plain location (C01's scope) ends with the
same container contents and definitions on both managers, whatever legal schedules the two use.
-/
namespace Properties.C11
open Parse

/-- parsing the printed form gives back the expression (for all sufficiently large fuel) -/
theorem C11_roundtrip_partial (e : Expr) (h : WFarg e) : Ev (fun n => parseExpr n (print e)) (e, []) :=
  parse_print e h

/-- hence printing is injective: two expressions with the same text are the same expression -/
theorem C11_print_injective (e₁ e₂ : Expr) (h₁ : WFarg e₁) (h₂ : WFarg e₂) (h : print e₁ = print e₂) : e₁ = e₂ :=
  print_injective e₁ e₂ h₁ h₂ h

/-! new coverage: a call with keyword arguments and a negative float on the left of `**`,
    `round(((-1.5) ** x), ndigits=2, tol=1e-07)` -/
section example_kw
def exKw : Expr :=
  .callkw (.root "round") [.bin "**" (.flit true "1.5") (.root "x")] [("ndigits", .lit 2), ("tol", .flit false "1e-07")]
def exKwToks : List Tok :=
  [.name "round", .lpar, .lpar, .lpar, .op "-", .fnum "1.5", .rpar, .op "**", .name "x", .rpar, .comma,
   .name "ndigits", .op "=", .num 2, .comma, .name "tol", .op "=", .fnum "1e-07", .rpar]
theorem exKw_wf : WFarg exKw := by
  simp [exKw, WFarg, WFpost, WFargs, WFkws, kwNames]
  decide
/-- the printed tokens -/
theorem exKw_print : print exKw = exKwToks := by
  simp [exKw, exKwToks, print, printLhs, printPos, printKws, printFloat, printInt]
/-- the general theorem applies -/
theorem C11_roundtrip_kw_float : Ev (fun n => parseExpr n (print exKw)) (exKw, []) :=
  C11_roundtrip_partial exKw exKw_wf
/-- and concretely, by evaluation of the parser -/
example : parseExpr 12 exKwToks = some (exKw, []) := rfl
/-- a negative float on the left of `**` alone: `((-1.5) ** x)` -/
example : print (.bin "**" (.flit true "1.5") (.root "x")) =
    [.lpar, .lpar, .op "-", .fnum "1.5", .rpar, .op "**", .name "x", .rpar] := by
  simp [print, printLhs, printFloat]
example : parseExpr 6 [.lpar, .lpar, .op "-", .fnum "1.5", .rpar, .op "**", .name "x", .rpar] =
    some (.bin "**" (.flit true "1.5") (.root "x"), []) := rfl
/-- a repeated keyword is not well formed, and (like Python) the parser rejects it -/
example : ¬ WFarg (.callkw (.root "f") [] [("k", .lit 1), ("k", .lit 2)]) := by
  simp [WFarg, kwNames]
example : parseExpr 12 [.name "f", .lpar, .name "k", .op "=", .num 1, .comma, .name "k", .op "=", .num 2, .rpar] = none := rfl
/-- a positional argument after a keyword argument is rejected -/
example : parseExpr 12 [.name "f", .lpar, .name "k", .op "=", .num 1, .comma, .name "a", .rpar] = none := rfl
end example_kw

open Manager in
/-- a dump loaded into a fresh manager over the same containers: same definitions, index invariant, and the new
    manager reacts to every later assignment (to a plain location, in C01's scope) exactly like the original -/
theorem C11_load_dump_reacts_identically (s : MState) (ow : Bool) (hi : MInv s) (hfz : s.frozen = false)
    (hex : ExprDefs s.defs) (hc : Consistent s) :
    ∃ s', load (freshOver s) ow (dump s) = (s', none) ∧ s'.defs = s.defs ∧ s'.store = s.store ∧ MInv s' ∧
      ∀ (sched1 sched2 : Sched) (p : Manager.Path) (v : Store.Val), lookDef s.defs p = none → Scope s p →
        ValidSched (gOf s.idx) (findTaskids s.idx (chainR p)) (sched1 (findTaskids s.idx (chainR p))) →
        ValidSched (gOf s'.idx) (findTaskids s'.idx (chainR p)) (sched2 (findTaskids s'.idx (chainR p))) →
        ∀ s1, setValue sched1 s p v = (s1, none) →
          ∃ s2, setValue sched2 s' p v = (s2, none) ∧ s2.store = s1.store ∧ s2.defs = s1.defs :=
  load_dump_reacts_identically s ow hi hfz hex hc

open Manager in
/-- the same for any re-derived index state of one task table (`refresh()`, `clone()`, a load in another order) -/
theorem C11_same_definitions_same_behaviour (sched1 sched2 : Sched) (s : MState) (m : Index.Mgr Manager.Path Manager.Path)
    (p : Manager.Path) (v : Store.Val) (hi : MInv s) (hi' : MInv { s with idx := m })
    (hc : Consistent s) (hnodef : lookDef s.defs p = none) (sc : Scope s p)
    (hvs1 : ValidSched (gOf s.idx) (findTaskids s.idx (chainR p)) (sched1 (findTaskids s.idx (chainR p))))
    (hvs2 : ValidSched (gOf m) (findTaskids m (chainR p)) (sched2 (findTaskids m (chainR p))))
    (s1 : MState) (hok : setValue sched1 s p v = (s1, none)) :
    ∃ s2, setValue sched2 { s with idx := m } p v = (s2, none) ∧ s2.store = s1.store ∧ s2.defs = s1.defs :=
  reindex_same_behaviour sched1 sched2 s m p v hi hi' hc hnodef sc hvs1 hvs2 s1 hok

/-! non-vacuity: `c = a + b`, `e = c * a`; dump, load into a fresh manager, assign `a` on both -/
section example_
open Manager Store
def da : Manager.Path := [.item (.str "d"), .item (.str "a")]
def db : Manager.Path := [.item (.str "d"), .item (.str "b")]
def dc : Manager.Path := [.item (.str "d"), .item (.str "c")]
def de : Manager.Path := [.item (.str "d"), .item (.str "e")]
def s0 : MState :=
  { MState.init with store := .dict [(.str "d", .dict [(.str "a", .int 1), (.str "b", .int 2), (.str "c", .int 0), (.str "e", .int 0)])] }
def sE : MState := applyAll id s0 [.setExpr de (.bin "Mul" (.ref dc) (.ref da)), .setExpr dc (.bin "Add" (.ref da) (.ref db))]
def sL : MState := (load (freshOver sE) true (dump sE)).1
example : (load (freshOver sE) true (dump sE)).2 = none ∧ sL.defs = sE.defs := ⟨rfl, rfl⟩
example : scopeB sE da = true ∧ validSchedule sE.idx (chainR da) (findTaskids sE.idx (chainR da)) = true ∧
    validSchedule sL.idx (chainR da) (findTaskids sL.idx (chainR da)) = true := by decide
example : (setValue id sL da (.int 5)).1.store = (setValue id sE da (.int 5)).1.store ∧
    get (setValue id sL da (.int 5)).1.store de = .ok (.int 35) := ⟨rfl, rfl⟩
end example_

end Properties.C11
