import XModel.Parse
import XModel.ParseKeys
import XModel.ManagerC11
import XModel.Acyclic
import XModel.ManagerLoad
import XModel.ParseBridge
/-!
# C11 — printed expressions rebuild themselves
`C11_roundtrip_partial`: the language of the theorem is refs with string / integer keys, integer
literals and float literals (negative ones parenthesised on the left, as the repaired `__repr__` prints
them; a float is the opaque text of `repr(float)` carried by one NUMBER token — that distinct floats have
distinct texts which evaluate back to them is Python's guarantee, a recorded assumption outside the model),
every binary and unary operator, and calls with positional arguments followed by keyword arguments
`name=value` (distinct identifiers; which covers the builtin heads `round(x, n)`, `round(x, ndigits=n)`,
`abs(x)`, `math.floor(x)`).  `C11_roundtrip_tuple_keys` (`XModel/ParseKeys.lean`) is the same theorem for the FULL key
language — the keys of C06's injectivity theorems, `KeyPrint.KeyX`: strings, ints, floats (opaque text), `True` /
`False` / `None` and tuples of keys of any arity (`d[(1, 'a')]`, `d[(3,)]`, `d[()]`, nested), printed as `repr(key)` by
the very printer C06 is about (`C11_key_printer_is_C06s`) and read back by a parser for parenthesised key displays
(`(k)` is just `k`, the 1-tuple needs its comma); `C11_tuple_keys_extend_roundtrip_partial`: it contains
`C11_roundtrip_partial`.  What REMAINS outside both theorems, covered by the correspondence run and the eval oracle only:
complex literal tokens (`-2j` reprints as `(-0-2j)`), `inf` / `nan` (NAME tokens), keys that are not
`str | int | float | bool | None | tuple` (bytes, numpy scalars, arbitrary objects: their `repr` is whatever the class
defines), computed keys (`L[(v1 % 4)]`: a key that is itself a deferred expression), and which NAME tokens Python treats
as keywords.

**Which tree / what has no formal content.**  The model transcribes `/repo` as it stands now (pinned commit plus the `fix:`
commits: the repaired `__repr__`, and `copy_expr_from` rebinding the namespace instead of replacing text).

**The bridge between the two languages** (`XModel/ParseBridge.lean`).  `Parse.Expr` is the printed language (calls,
builtins, floats); the manager model's expressions are `Push.Expr` (lit / ref / bin / un over ints).  The bridge
translates the MANAGER-MODEL FRAGMENT both ways: `ParseBridge.ofManager` / `pathToParse` (how a definition and its
target print: `d['c']`, `e['q1'].l`, `((-3) * d['a'])`) and the partial inverse `ParseBridge.toManager` / `refToPath`.
The fragment is the decidable predicate `ParseBridge.Printable`: integer literals (negative ones included), refs
that start with a container label (string / integer keys, attributes), the five binary operators `+ - * // %` and the
two unary operators `- +` that `Manager.pyBin` / `pyUn` evaluate, and no unary operator directly on a literal (the
text `(-3)` IS the literal).  On that fragment "dump text → parse → translate → load" is composed in Lean:
`C11_text_bridge_roundtrip`, `C11_text_same_value_and_dependencies`, `C11_load_text_is_load`,
`C11_load_dump_through_text`; `C11_printable_along_histories` shows that the fragment is closed under the manager's
API.  What stays on the `Parse` side only, with no manager-model counterpart: calls, builtins, keyword arguments, float
literals, the other Python operators (`/`, `**`, `~`, comparisons …) — for those the round trip is textual
(`C11_roundtrip_partial`) and "same value" is covered by the correspondence run only.  What stays on the manager side
only: the literals `nan` / `None` / containers (an in-place operator on a location holding NaN attaches one; its text
`nan` reads back as a NAME) and the model's non-ref task ids.  "For sufficiently large fuel" (`Parse.Ev`) is inherited
from the parser's round-trip theorem; no explicit fuel bound is proved (the examples read their text with fuel 8).
`Manager.load` never errors in the model because its pairs are already structure; the real `load` raises
on text that does not evaluate — a model artefact, not a claim.  `ParseBridge.loadText` returns `none` for text
outside the fragment (the real `load` would raise at that line after having loaded the earlier ones; that partial
effect is not modelled).  The bisimulation of a loaded dump with the original over
whole histories is `C03_fresh_manager_bisimilar` (in C03.lean).

`C11_load_dump_reacts_identically` is the second sentence of the property on the manager model with pairs already
parsed; `C11_load_dump_through_text` is the same sentence with the dump written as text and read back (definitions
in the bridge's fragment): the dump of a manager, loaded into a fresh manager over the same containers, gives the same
definitions, and every later assignment to a plain location (C01's scope) ends with the
same container contents and definitions on both managers, whatever legal schedules the two use.
-/
namespace Properties.C11
open Parse

/-- parsing the printed form gives back the expression (for all sufficiently large fuel).  Language: refs with
    `str | int` keys, int and float literals, every operator, calls with positional and keyword arguments.  Tuple / bool /
    `None` / float keys are NOT outside any more — they are `C11_roundtrip_tuple_keys` below, which contains this theorem
    (`C11_tuple_keys_extend_roundtrip_partial`).  `_partial` because of what REMAINS outside both: complex constants
    (`-2j` reprints as `(-0-2j)`), `inf` / `nan`, keys whose `repr` is not structural (bytes, numpy scalars, objects) and
    computed keys. -/
theorem C11_roundtrip_partial (e : Expr) (h : WFarg e) : Ev (fun n => parseExpr n (print e)) (e, []) :=
  parse_print e h

/-- hence printing is injective: two expressions with the same text are the same expression -/
theorem C11_print_injective (e₁ e₂ : Expr) (h₁ : WFarg e₁) (h₂ : WFarg e₂) (h : print e₁ = print e₂) : e₁ = e₂ :=
  print_injective e₁ e₂ h₁ h₂ h

/-! new coverage: a call with keyword arguments and a negative float on the left of `**`,
    `round(((-1.5) ** x), ndigits=2, tol=1e-07)` -/
section example_kw
def exKw : Expr :=
  .callkw (.root "round") [.bin "**" (.flit true "1.5") (.root "x")] [("ndigits", .lit 2), ("tol", .flit false "1e-07")]
def exKwToks : List Tok :=
  [.name "round", .lpar, .lpar, .lpar, .op "-", .fnum "1.5", .rpar, .op "**", .name "x", .rpar, .comma,
   .name "ndigits", .op "=", .num 2, .comma, .name "tol", .op "=", .fnum "1e-07", .rpar]
theorem exKw_wf : WFarg exKw := by
  simp [exKw, WFarg, WFpost, WFargs, WFkws, kwNames]
  decide
/-- the printed tokens -/
theorem exKw_print : print exKw = exKwToks := by
  simp [exKw, exKwToks, print, printLhs, printPos, printKws, printFloat, printInt]
/-- the general theorem applies -/
theorem C11_roundtrip_kw_float : Ev (fun n => parseExpr n (print exKw)) (exKw, []) :=
  C11_roundtrip_partial exKw exKw_wf
/-- and concretely, by evaluation of the parser -/
example : parseExpr 12 exKwToks = some (exKw, []) := rfl
/-- a negative float on the left of `**` alone: `((-1.5) ** x)` -/
example : print (.bin "**" (.flit true "1.5") (.root "x")) =
    [.lpar, .lpar, .op "-", .fnum "1.5", .rpar, .op "**", .name "x", .rpar] := by
  simp [print, printLhs, printFloat]
example : parseExpr 6 [.lpar, .lpar, .op "-", .fnum "1.5", .rpar, .op "**", .name "x", .rpar] =
    some (.bin "**" (.flit true "1.5") (.root "x"), []) := rfl
/-- a repeated keyword is not well formed, and (like Python) the parser rejects it -/
example : ¬ WFarg (.callkw (.root "f") [] [("k", .lit 1), ("k", .lit 2)]) := by
  simp [WFarg, kwNames]
example : parseExpr 12 [.name "f", .lpar, .name "k", .op "=", .num 1, .comma, .name "k", .op "=", .num 2, .rpar] = none := rfl
/-- a positional argument after a keyword argument is rejected -/
example : parseExpr 12 [.name "f", .lpar, .name "k", .op "=", .num 1, .comma, .name "a", .rpar] = none := rfl
end example_kw

/-! ### the full key language: tuple / bool / `None` / negative / float keys (`XModel/ParseKeys.lean`)

`ItemRef.__repr__` prints `f"{owner!r}[{key!r}]"`: a tuple key prints as Python's `repr` of the tuple and is read back by
Python's parser as a parenthesised tuple display inside the subscript.  `ParseKeys.Expr` is `Parse.Expr` with keys
`KeyPrint.KeyX`; `ParseKeys.print` prints a key with `KeyPrint.printKeyX`; `ParseKeys.parseExpr` reads a key between
`[` and `]` with `ParseKeys.parseKey`. -/

/-- **round trip with tuple keys**: for every well-formed expression whose item keys are strings, ints (negative
    too), floats, `True` / `False` / `None` or tuples of such keys (any arity, nested), parsing the printed tokens gives
    the expression back, for all sufficiently large fuel.  Keys carry no well-formedness condition: every `KeyX` is
    printable and reads back. -/
theorem C11_roundtrip_tuple_keys (e : ParseKeys.Expr) (h : ParseKeys.WFarg e) :
    Ev (fun n => ParseKeys.parseExpr n (ParseKeys.print e)) (e, []) :=
  ParseKeys.parse_print_keys e h

/-- hence printing is injective on the extended language: `d[(1, 2)]`, `d[(1,)][2]`, `d[1][2]`, `d['(1, 2)']`,
    `d[True]`, `d[1]`, `d[1.0]` … are pairwise different texts -/
theorem C11_print_injective_tuple_keys (e₁ e₂ : ParseKeys.Expr) (h₁ : ParseKeys.WFarg e₁) (h₂ : ParseKeys.WFarg e₂)
    (h : ParseKeys.print e₁ = ParseKeys.print e₂) : e₁ = e₂ :=
  ParseKeys.print_injective e₁ e₂ h₁ h₂ h

/-- a printed key alone reads back as the key, whatever tokens follow it (in particular the closing bracket) -/
theorem C11_printed_key_reads_back (k : KeyPrint.KeyX) (rest : List Tok) :
    Ev (fun n => ParseKeys.parseKey n (KeyPrint.printKeyX k ++ rest)) (k, rest) :=
  ParseKeys.parseKey_print k rest

/-- the extended theorem CONTAINS `C11_roundtrip_partial`: an expression of `Parse` (keys `str | int`) is, through
    `ParseKeys.embed`, a well-formed expression of the extended language with the same printed tokens, and the
    extended parser reads those tokens back as it -/
theorem C11_tuple_keys_extend_roundtrip_partial (e : Expr) (h : WFarg e) :
    ParseKeys.WFarg (ParseKeys.embed e) ∧ ParseKeys.print (ParseKeys.embed e) = print e ∧
      Ev (fun n => ParseKeys.parseExpr n (print e)) (ParseKeys.embed e, []) :=
  ⟨ParseKeys.wfarg_embed e h, ParseKeys.print_embed e, ParseKeys.parse_print_embed e h⟩

/-- **C11 and C06 talk about the same key printer.**  (1) an item step of the extended language prints its key with
    `KeyPrint.printKeyX`, the function `C06_key_print_injective` is about — the same definition, not a copy; (2) read off
    `print` as a function of the key (the tokens between the brackets) it is that function; (3) on the `str | int` keys
    of `C11_roundtrip_partial` it is `Parse.printKey`; (4) C06's path printer `KeyPrint.printPath`
    (`C06_path_print_injective`) is `ParseKeys.print` on the reference `ofPath p`, which is well formed — so (5) a printed
    access path is read back by the parser, and C06's path injectivity is a corollary of the round trip. -/
theorem C11_key_printer_is_C06s :
    (∀ (o : ParseKeys.Expr) (k : KeyPrint.KeyX),
        ParseKeys.print (.item o k) = ParseKeys.print o ++ [.lbr] ++ KeyPrint.printKeyX k ++ [.rbr]) ∧
      ParseKeys.printKey = KeyPrint.printKeyX ∧
      (∀ k : Key, ParseKeys.printKey (KeyPrint.embedKey k) = printKey k) ∧
      (∀ p : KeyPrint.PathX, ParseKeys.WFarg (ParseKeys.ofPath p) ∧
        ParseKeys.print (ParseKeys.ofPath p) = KeyPrint.printPath p ∧
        Ev (fun n => ParseKeys.parseExpr n (KeyPrint.printPath p)) (ParseKeys.ofPath p, [])) ∧
      (∀ p q : KeyPrint.PathX, KeyPrint.printPath p = KeyPrint.printPath q → p = q) :=
  ⟨ParseKeys.print_item, ParseKeys.printKey_is_C06_printer, ParseKeys.printKey_extends_parse,
   fun p => ⟨ParseKeys.wfarg_ofPath p, ParseKeys.print_ofPath p, ParseKeys.parse_printPath p⟩,
   ParseKeys.printPath_injective_from_roundtrip⟩

/-! non-vacuity: `(d[(1, 'a')][(3,)].x + f(d[()], k=d[None]))` -/
section example_tuple
open ParseKeys (exTuple exTupleToks)
theorem exTuple_wf : ParseKeys.WFarg exTuple := by
  simp [exTuple, ParseKeys.WFarg, ParseKeys.WFpost, ParseKeys.WFargs, ParseKeys.WFkws, ParseKeys.kwNames]
  decide
/-- the printed tokens -/
theorem exTuple_print : ParseKeys.print exTuple = exTupleToks := by
  simp [exTuple, exTupleToks, ParseKeys.print, ParseKeys.printLhs, ParseKeys.printPos, ParseKeys.printKws,
    KeyPrint.printKeyX, KeyPrint.printElems, KeyPrint.printMore, printInt]
/-- the general theorem applies -/
theorem C11_roundtrip_tuple_example : Ev (fun n => ParseKeys.parseExpr n (ParseKeys.print exTuple)) (exTuple, []) :=
  C11_roundtrip_tuple_keys exTuple exTuple_wf
/-- and concretely, by evaluation of the parser -/
example : ParseKeys.parseExpr 12 exTupleToks = some (exTuple, []) := rfl
/-- nested tuples, negative int and float, bools: `d[(1, (-2, -0.5), None, False)]` -/
example : ParseKeys.parseExpr 8
    [.name "d", .lbr, .lpar, .num 1, .comma, .lpar, .op "-", .num 2, .comma, .op "-", .fnum "0.5", .rpar, .comma,
     .name "None", .comma, .name "False", .rpar, .rbr] =
    some (.item (.root "d") (.tuple [.int 1, .tuple [.int (-2), .flt true "0.5"], .none, .bool false]), []) := rfl
/-- the 1-tuple needs its comma: `d[(3,)]` is the key `(3,)`, `d[(3)]` is the key `3` (as `d[3]`) -/
example : ParseKeys.parseExpr 6 [.name "d", .lbr, .lpar, .num 3, .comma, .rpar, .rbr] =
    some (.item (.root "d") (.tuple [.int 3]), []) := rfl
example : ParseKeys.parseExpr 6 [.name "d", .lbr, .lpar, .num 3, .rpar, .rbr] = some (.item (.root "d") (.int 3), []) := rfl
/-- injectivity separates `d[(1, 2)]` from `d[(1,)][2]` -/
example : (ParseKeys.Expr.item (.root "d") (.tuple [.int 1, .int 2])) ≠ .item (.item (.root "d") (.tuple [.int 1])) (.int 2) →
    ParseKeys.print (.item (.root "d") (.tuple [.int 1, .int 2])) ≠
      ParseKeys.print (.item (.item (.root "d") (.tuple [.int 1])) (.int 2)) :=
  fun hne h => hne (C11_print_injective_tuple_keys _ _ (by simp [ParseKeys.WFarg, ParseKeys.WFpost])
    (by simp [ParseKeys.WFarg, ParseKeys.WFpost]) h)
/-- the embedding on the keyword example above: same tokens -/
example : ParseKeys.print (ParseKeys.embed exKw) = exKwToks :=
  (C11_tuple_keys_extend_roundtrip_partial exKw exKw_wf).2.1.trans exKw_print
end example_tuple

open Manager in
/-- a dump loaded into a fresh manager over the same containers: same definitions, index invariant, and the new
    manager reacts to every later assignment (to a plain location, in C01's scope) exactly like the original -/
theorem C11_load_dump_reacts_identically (s : MState) (ow : Bool) (hi : MInv s) (hfz : s.frozen = false)
    (hex : ExprDefs s.defs) (hc : Consistent s) :
    ∃ s', load (freshOver s) ow (dump s) = (s', none) ∧ s'.defs = s.defs ∧ s'.store = s.store ∧ MInv s' ∧
      ∀ (sched1 sched2 : Sched) (p : Manager.Path) (v : Store.Val), lookDef s.defs p = none → Scope s p →
        ValidSched (gOf s.idx) (findTaskids s.idx (chainR p)) (sched1 (findTaskids s.idx (chainR p))) →
        ValidSched (gOf s'.idx) (findTaskids s'.idx (chainR p)) (sched2 (findTaskids s'.idx (chainR p))) →
        ∀ s1, setValue sched1 s p v = (s1, none) →
          ∃ s2, setValue sched2 s' p v = (s2, none) ∧ s2.store = s1.store ∧ s2.defs = s1.defs :=
  load_dump_reacts_identically s ow hi hfz hex hc

open Manager in
/-- the same for any re-derived index state of one task table (`refresh()`, `clone()`, a load in another order) -/
theorem C11_same_definitions_same_behaviour (sched1 sched2 : Sched) (s : MState) (m : Index.Mgr Manager.Path Manager.Path)
    (p : Manager.Path) (v : Store.Val) (hi : MInv s) (hi' : MInv { s with idx := m })
    (hc : Consistent s) (hnodef : lookDef s.defs p = none) (sc : Scope s p)
    (hvs1 : ValidSched (gOf s.idx) (findTaskids s.idx (chainR p)) (sched1 (findTaskids s.idx (chainR p))))
    (hvs2 : ValidSched (gOf m) (findTaskids m (chainR p)) (sched2 (findTaskids m (chainR p))))
    (s1 : MState) (hok : setValue sched1 s p v = (s1, none)) :
    ∃ s2, setValue sched2 { s with idx := m } p v = (s2, none) ∧ s2.store = s1.store ∧ s2.defs = s1.defs :=
  reindex_same_behaviour sched1 sched2 s m p v hi hi' hc hnodef sc hvs1 hvs2 s1 hok

/-! non-vacuity: `c = a + b`, `e = c * a`; dump, load into a fresh manager, assign `a` on both -/
section example_
open Manager Store
def da : Manager.Path := [.item (.str "d"), .item (.str "a")]
def db : Manager.Path := [.item (.str "d"), .item (.str "b")]
def dc : Manager.Path := [.item (.str "d"), .item (.str "c")]
def de : Manager.Path := [.item (.str "d"), .item (.str "e")]
def s0 : MState :=
  { MState.init with store := .dict [(.str "d", .dict [(.str "a", .int 1), (.str "b", .int 2), (.str "c", .int 0), (.str "e", .int 0)])] }
def sE : MState := applyAll id s0 [.setExpr de (.bin "Mul" (.ref dc) (.ref da)), .setExpr dc (.bin "Add" (.ref da) (.ref db))]
def sL : MState := (load (freshOver sE) true (dump sE)).1
example : (load (freshOver sE) true (dump sE)).2 = none ∧ sL.defs = sE.defs := ⟨rfl, rfl⟩
example : scopeB sE da = true ∧ validSchedule sE.idx (chainR da) (findTaskids sE.idx (chainR da)) = true ∧
    validSchedule sL.idx (chainR da) (findTaskids sL.idx (chainR da)) = true := by decide
example : (setValue id sL da (.int 5)).1.store = (setValue id sE da (.int 5)).1.store ∧
    get (setValue id sL da (.int 5)).1.store de = .ok (.int 35) := ⟨rfl, rfl⟩
end example_


/-! ### the bridge: dump as TEXT, parse, translate, load (XModel/ParseBridge.lean) -/

/-- **the textual and the structural half meet**: for every expression `e` of the manager model in the bridge's fragment (`Printable`: integer literals, rooted refs, `+ - * // %`, unary `- +` not directly on a literal), its printed form `ofManager e` is in the language of the round-trip theorem (`WFarg`); the parser gives the printed form back from its tokens; translating the printed form back gives `e`; hence reading the tokens (parse everything, translate) gives `e` — for all sufficiently large fuel -/
theorem C11_text_bridge_roundtrip (e : Push.Expr) (h : ParseBridge.Printable e) :
    WFarg (ParseBridge.ofManager e) ∧
      Ev (fun n => parseExpr n (print (ParseBridge.ofManager e))) (ParseBridge.ofManager e, []) ∧
      ParseBridge.toManager (ParseBridge.ofManager e) = some e ∧
      Ev (fun n => ParseBridge.readExpr n (print (ParseBridge.ofManager e))) e :=
  ⟨ParseBridge.wfarg_ofManager e h, parse_print _ (ParseBridge.wfarg_ofManager e h),
   ParseBridge.toManager_ofManager e h, ParseBridge.read_print e h⟩

/-- the same for the left-hand sides of a dump: the printed form of a ref that starts with a container label (`d['a']`, `v['a'][-1]`, `e['q1'].l`) reads back as the ref -/
theorem C11_text_bridge_roundtrip_ref (p : Manager.Path) (h : Manager.rooted p = true) :
    WFarg (ParseBridge.pathToParse p) ∧ ParseBridge.refToPath (ParseBridge.pathToParse p) = some p ∧
      Ev (fun n => ParseBridge.readPath n (print (ParseBridge.pathToParse p))) p :=
  ⟨ParseBridge.wfarg_pathToParse p, ParseBridge.refToPath_pathToParse p h, ParseBridge.readPath_print p h⟩

/-- the two translations are mutually inverse: whatever `toManager` reads from a printed expression is printed as exactly that expression, and (for text the printer can produce) it is in the fragment -/
theorem C11_text_bridge_inverse (x : Expr) (e : Push.Expr) (h : ParseBridge.toManager x = some e) :
    ParseBridge.ofManager e = x ∧ (WFarg x → ParseBridge.Printable e) :=
  ⟨ParseBridge.ofManager_toManager x e h, fun hw => (ParseBridge.printable_of_toManager x e hw h).1⟩

/-- **"an equal expression with the same value and dependencies"**: the expression read back from the text has, in every manager state, the value of the original (or raises the same error), and `ExprTask` declares the same dependencies for it — because it IS the original -/
theorem C11_text_same_value_and_dependencies (s : Manager.MState) (e : Push.Expr) (h : ParseBridge.Printable e) :
    Ev (fun n => (ParseBridge.readExpr n (print (ParseBridge.ofManager e))).map
        (fun e' => (Manager.evalE s e', Manager.exprDeps e'))) (Manager.evalE s e, Manager.exprDeps e) :=
  ParseBridge.read_print_value_deps s e h

/-- **loading the text IS loading the pairs**: for ANY pairs in the fragment (repeated targets, targets already defined), any manager and both values of `overwrite`, reading the printed lines and loading them gives exactly what `Manager.load` gives on the pairs — state and outcome; so `C11_load_is_the_fold`, `C11_overwrite_last_pair_wins`, `C11_no_overwrite_first_wins` … hold for text -/
theorem C11_load_text_is_load (s0 : Manager.MState) (ow : Bool) (pairs : List (Manager.Path × Push.Expr))
    (h : ParseBridge.PairsPrintable pairs) :
    Ev (fun n => ParseBridge.loadText n s0 ow (ParseBridge.textOf pairs)) (Manager.load s0 ow pairs) :=
  ParseBridge.loadText_textOf s0 ow pairs h

/-- the text of a dump determines its definitions: two lists of pairs in the fragment with the same printed lines are equal -/
theorem C11_dump_text_determines_definitions (a b : List (Manager.Path × Push.Expr))
    (ha : ParseBridge.PairsPrintable a) (hb : ParseBridge.PairsPrintable b)
    (h : ParseBridge.textOf a = ParseBridge.textOf b) : a = b :=
  ParseBridge.textOf_injective a b ha hb h

open Manager in
/-- **C11's second sentence THROUGH TEXT**: write the dump of `s` as text (`dumpText`: printed target and printed expression of every expression task, in table order), read it (parse both sides of every line, translate) and load it into a fresh manager over the same containers.  If the definitions of `s` are in the bridge's fragment (`DumpPrintable`, decidable), then for all sufficiently large fuel the text is read completely and the load raises nothing; the new manager has the same definitions and containers and satisfies the index invariant; and every later assignment to a plain location (C01's scope) ends with the same container contents and definitions on both managers, whatever legal schedules the two use -/
theorem C11_load_dump_through_text (s : MState) (ow : Bool) (hi : MInv s) (hfz : s.frozen = false)
    (hex : ExprDefs s.defs) (hc : Consistent s) (hp : ParseBridge.DumpPrintable s) :
    ∃ s', Ev (fun n => ParseBridge.loadText n (freshOver s) ow (ParseBridge.dumpText s)) (s', none) ∧
      s'.defs = s.defs ∧ s'.store = s.store ∧ MInv s' ∧
      ∀ (sched1 sched2 : Sched) (p : Manager.Path) (v : Store.Val), lookDef s.defs p = none → Scope s p →
        ValidSched (gOf s.idx) (findTaskids s.idx (chainR p)) (sched1 (findTaskids s.idx (chainR p))) →
        ValidSched (gOf s'.idx) (findTaskids s'.idx (chainR p)) (sched2 (findTaskids s'.idx (chainR p))) →
        ∀ s1, setValue sched1 s p v = (s1, none) →
          ∃ s2, setValue sched2 s' p v = (s2, none) ∧ s2.store = s1.store ∧ s2.defs = s1.defs :=
  ParseBridge.load_dump_through_text s ow hi hfz hex hc hp

/-- **the fragment is closed under the API**: start from definitions in the fragment (e.g. none) and make any calls whose expression arguments are in the fragment (`histPrintableB`, checked call by call in the state the call is made in: printable expressions at rooted targets for `set_value(ref, expr)`, `register`, `load`; for an in-place operator an operator of the table, a printable operand and — when the location holds a plain value that becomes a literal of the new definition — an integer value); then the dump of the resulting manager is in the fragment, so `C11_load_dump_through_text` applies to it -/
theorem C11_printable_along_histories (sched : Manager.Sched) (cs : List Manager.Call) (s : Manager.MState)
    (hs : ParseBridge.DumpPrintable s) (h : ParseBridge.histPrintableB sched s cs = true) :
    ParseBridge.DumpPrintable (Manager.applyAll sched s cs) :=
  ParseBridge.history_printable sched cs s hs h

/-! non-vacuity (`ParseBridge.Example`): containers `d`, `v`, `e`; definitions `d['c'] = ((-3) * d['a'])` (negative literal on
    the left) and `e['q1'].l = (v['a'][2] + (-e['q1'].k))` (nested item / attribute paths) -/
section example_text
open ParseBridge ParseBridge.Example
/-- the dump as token lists -/
example : dumpText sX =
    [([.name "d", .lbr, .str "c", .rbr],
      [.lpar, .lpar, .op "-", .num 3, .rpar, .op "*", .name "d", .lbr, .str "a", .rbr, .rpar]),
     ([.name "e", .lbr, .str "q1", .rbr, .dot, .name "l"],
      [.lpar, .name "v", .lbr, .str "a", .rbr, .lbr, .num 2, .rbr, .op "+",
         .lpar, .op "-", .name "e", .lbr, .str "q1", .rbr, .dot, .name "k", .rpar, .rpar])] := dumpText_sX
/-- every hypothesis of `C11_load_dump_through_text` holds for it, and the theorem applies -/
example : ∃ s', Ev (fun n => loadText n (Manager.freshOver sX) true (dumpText sX)) (s', none) ∧ s'.defs = sX.defs := by
  obtain ⟨s', h1, h2, _⟩ := C11_load_dump_through_text sX true sX_inv rfl sX_exprs sX_consistent sX_printable
  exact ⟨s', h1, h2⟩
/-- concretely, with fuel 8: the text reads back as the dump, loads without error into the fresh manager `sT`, and `d['a'] = 7` has the same effect on both -/
example : readLines 8 textX = some (Manager.dump sX) ∧
    loadText 8 (Manager.freshOver sX) true textX = some (Manager.load (Manager.freshOver sX) true (Manager.dump sX)) ∧
    sT.defs = sX.defs ∧
    (Manager.setValue id sT da (.int 7)).1.store = (Manager.setValue id sX da (.int 7)).1.store :=
  ⟨rfl, rfl, rfl, rfl⟩
/-- the bridge theorems on the two definitions -/
example : Printable defC ∧ Printable defL := by decide
example : Ev (fun n => readExpr n (print (ofManager defC))) defC := (C11_text_bridge_roundtrip defC (by decide)).2.2.2
/-- the history that built `sX` satisfies the hypothesis of `C11_printable_along_histories` -/
example : histPrintableB id s0 hist = true := by decide +kernel
/-- outside the fragment: the node `Neg(3)` prints as `(-3)`, which reads back as the literal; a `nan` literal prints as a name -/
example : ¬ Printable (.un "Neg" (.lit (.int 3))) ∧ readExpr 8 [.lpar, .op "-", .num 3, .rpar] = some (.lit (.int (-3))) :=
  ⟨by decide, rfl⟩
example : ¬ Printable (.lit .nan) ∧ toManager (ofManager (.lit .nan)) = some (.ref [.item (.str "nan")]) := ⟨by decide, rfl⟩
end example_text


/-! ### `load` for arbitrary dumps, `copy_expr_from` with re-bound labels (XModel/ManagerLoad.lean)

The textual half (printing and re-parsing each pair) is `Parse.parse_print`, connected to the structural half by the bridge
below (`C11_load_text_is_load`: for pairs in the fragment, loading the text IS loading the pairs, so every statement of this
section holds for text read back); here pairs are structure.  `copy_expr_from` takes its
pairs in dependency order in the code and in table order here: the copied targets are distinct, so every per-location
statement is independent of that order (`Manager.lookDef_loadSpec_order_indep`). -/

/-- **`load` for ARBITRARY pairs** (duplicates inside one dump, already defined targets, both values of `overwrite`): the task table afterwards is `loadSpec` — pairs processed left to right, each one deciding replace / skip against the table AS IT IS THEN — no error, index invariant kept -/
theorem C11_load_is_the_fold :
    ∀ (s : Manager.MState) (ow : Bool) (pairs : List (Manager.Path × Push.Expr)),
      Manager.MInv s →
        s.frozen = false →
          (Manager.load s ow pairs).fst.defs = Manager.loadSpec ow s.defs pairs ∧
            (Manager.load s ow pairs).snd = none ∧ Manager.MInv (Manager.load s ow pairs).fst :=
  @Manager.load_defs

/-- with `overwrite=True` a location gets the LAST pair for it in the dump, otherwise keeps what it had -/
theorem C11_overwrite_last_pair_wins :
    ∀ (pairs : List (Manager.Path × Push.Expr)) (defs : List Manager.MTask)
      (q : Manager.Path),
      Manager.lookDef (Manager.loadSpec true defs pairs) q =
        Option.or (Option.map (Manager.mkExprTask q) (Manager.lastFor pairs q)) (Manager.lookDef defs q) :=
  @Manager.lookDef_loadSpec_true

/-- with `overwrite=False` an already defined location keeps its definition and a new one gets the FIRST pair for it -/
theorem C11_no_overwrite_first_wins :
    ∀ (pairs : List (Manager.Path × Push.Expr)) (defs : List Manager.MTask)
      (q : Manager.Path),
      Manager.lookDef (Manager.loadSpec false defs pairs) q =
        Option.or (Manager.lookDef defs q) (Option.map (Manager.mkExprTask q) (Manager.firstFor pairs q)) :=
  @Manager.lookDef_loadSpec_false

/-- `load` registers definitions and changes nothing else: containers, remembered knob values, fault state and trace are as before -/
theorem C11_load_evaluates_nothing :
    ∀ (s : Manager.MState) (ow : Bool) (pairs : List (Manager.Path × Push.Expr)),
      Manager.MInv s →
        s.frozen = false →
          (Manager.load s ow pairs).fst.store = s.store ∧
            (Manager.load s ow pairs).fst.prev = s.prev ∧
              (Manager.load s ow pairs).fst.frozen = false ∧
                (Manager.load s ow pairs).fst.faultIn = s.faultIn ∧ (Manager.load s ow pairs).fst.trace = s.trace :=
  @Manager.load_frame

/-- loading the same dump a second time with `overwrite=True` reproduces the table exactly, order included -/
theorem C11_load_twice_is_once :
    ∀ (pairs : List (Manager.Path × Push.Expr)) (defs : List Manager.MTask),
      Manager.loadSpec true (Manager.loadSpec true defs pairs) pairs = Manager.loadSpec true defs pairs :=
  @Manager.loadSpec_true_idem

/-- **re-rooting** (`copy_expr_from` with `bindings`): an expression whose leading labels are re-bound evaluates, in a store, to what the original evaluates to in the store seen through the bindings -/
theorem C11_rebound_expression_means_the_same :
    ∀ (sem : Push.Sem) (σ σv : Store.Val) (b : String → Option Manager.Path) (e : Push.Expr),
      Manager.SeenThrough b σ σv →
        (∀ (r : List Store.Step), r ∈ Push.leafRefs e → Manager.rooted r = true) →
          Push.eval sem σ (Manager.rebindExpr b e) = Push.eval sem σv e :=
  @Manager.eval_rebind

/-- after `copy_expr_from(src, name, bindings)` (overwrite) the definition at a re-rooted target is the re-rooted definition of the source — decided by the LOCATION, not by how a definition prints -/
theorem C11_copy_definitions_are_the_rerooted_ones :
    ∀ (dst src : Manager.MState) (name : String) (b : String → Option Manager.Path),
      Manager.MInv dst →
        dst.frozen = false →
          List.Nodup (List.map (fun x => x.id) src.defs) →
            ∀ (p : Manager.Path) (e : Push.Expr),
              (p, e) ∈ Manager.dump src →
                Manager.underName name p = true →
                  Manager.exprOf (Manager.copyExprFrom dst src name b true).fst (Manager.rebindPath b p) =
                    some (Manager.rebindExpr b e) :=
  @Manager.copy_true_exprOf

/-- without overwrite a location of the destination that already has a definition keeps it — again by location: a definition elsewhere that merely prints like the copied one is irrelevant -/
theorem C11_copy_without_overwrite_keeps_old :
    ∀ (dst src : Manager.MState) (name : String) (b : String → Option Manager.Path),
      Manager.MInv dst →
        dst.frozen = false →
          ∀ (q : Manager.Path) (t : Manager.MTask),
            Manager.lookDef dst.defs q = some t →
              Manager.lookDef (Manager.copyExprFrom dst src name b false).fst.defs q = some t :=
  @Manager.copy_false_old

/-- C01's per-definition predicate transfers along re-rooting, ONE direction: if a definition holds in the source, its re-rooted form holds in the destination store seen through the bindings.  This is `eval_rebind` on the store that `copy_expr_from` leaves unchanged; it does not use which definitions the copy registered (that is `C11_copy_definitions_are_the_rerooted_ones`) and says nothing about later assignments.  `SeenThrough` asks the two root dictionaries to agree on ALL labels; the per-expression forms `Manager.copy_eval_agree` / `eval_rebind_on` need agreement on the labels that occur only. -/
theorem C11_copied_definition_holds :
    ∀ (dst src : Manager.MState) (name : String) (b : String → Option Manager.Path) (ow : Bool),
      Manager.MInv dst →
        dst.frozen = false →
          ∀ (p : Manager.Path) (e : Push.Expr),
            Manager.SeenThrough b dst.store src.store →
              Manager.rooted p = true →
                (∀ (r : List Store.Step), r ∈ Push.leafRefs e → Manager.rooted r = true) →
                  (Push.exprSys Manager.pySem).Q { target := p, expr := e } src.store →
                    (Push.exprSys Manager.pySem).Q { target := Manager.rebindPath b p, expr := Manager.rebindExpr b e }
                      (Manager.copyExprFrom dst src name b ow).fst.store :=
  @Manager.copy_holds

end Properties.C11
