import XModel.Parse
/-!
# C11 — printed expressions rebuild themselves
`C11_roundtrip_partial`: the language of the theorem is refs with string / integer keys, integer
literals (negative ones parenthesised on the left, as the repaired `__repr__` prints them), every
binary and unary operator, and calls with positional arguments (which covers the builtin heads
`round(x, n)`, `abs(x)`, `math.floor(x)`).  Keyword arguments, float / complex literal tokens and
tuple keys are outside the theorem and covered by the correspondence run and the eval oracle only.
-/
namespace Properties.C11
open Parse

/-- parsing the printed form gives back the expression (for all sufficiently large fuel) -/
theorem C11_roundtrip_partial (e : Expr) (h : WFarg e) : Ev (fun n => parseExpr n (print e)) (e, []) :=
  parse_print e h

/-- hence printing is injective: two expressions with the same text are the same expression -/
theorem C11_print_injective (e₁ e₂ : Expr) (h₁ : WFarg e₁) (h₂ : WFarg e₂) (h : print e₁ = print e₂) : e₁ = e₂ :=
  print_injective e₁ e₂ h₁ h₂ h

end Properties.C11
