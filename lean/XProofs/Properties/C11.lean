import XModel.Parse
import XModel.ManagerC11
import XModel.Acyclic
import XModel.ManagerLoad
/-!
# C11 — printed expressions rebuild themselves
`C11_roundtrip_partial`: the language of the theorem is refs with string / integer keys, integer
literals and float literals (negative ones parenthesised on the left, as the repaired `__repr__` prints
them; a float is the opaque text of `repr(float)` carried by one NUMBER token — that distinct floats have
distinct texts which evaluate back to them is Python's guarantee, a recorded assumption outside the model),
every binary and unary operator, and calls with positional arguments followed by keyword arguments
`name=value` (distinct identifiers; which covers the builtin heads `round(x, n)`, `round(x, ndigits=n)`,
`abs(x)`, `math.floor(x)`).  Complex literal tokens and tuple keys are outside the theorem and covered by
the correspondence run and the eval oracle only.

**Which tree / what has no formal content.**  The model transcribes `/repo` as it stands now (pinned commit plus the `fix:`
commits: the repaired `__repr__`, and `copy_expr_from` rebinding the namespace instead of replacing text).  There is no
translation between `Parse.Expr` (the printed language: calls, builtins, floats) and the manager model's expressions
(lit / ref / bin / un over ints): "dump text → parse → load" is not composed in Lean, the two halves meet in the
correspondence run only.  `load` never errors in the model because its pairs are already structure; the real `load` raises
on text that does not evaluate — a model artefact, not a claim.  The bisimulation of a loaded dump with the original over
whole histories is `C03_fresh_manager_bisimilar` (in C03.lean).

`C11_load_dump_reacts_identically` is the second sentence of the property on the manager model (pairs already
parsed — the textual half is the round trip above): the dump of a manager, loaded into a fresh manager over the same
containers, gives the same definitions, and every later assignment to a plain location (C01's scope) ends with the
same container contents and definitions on both managers, whatever legal schedules the two use.
-/
namespace Properties.C11
open Parse

/-- parsing the printed form gives back the expression (for all sufficiently large fuel) -/
theorem C11_roundtrip_partial (e : Expr) (h : WFarg e) : Ev (fun n => parseExpr n (print e)) (e, []) :=
  parse_print e h

/-- hence printing is injective: two expressions with the same text are the same expression -/
theorem C11_print_injective (e₁ e₂ : Expr) (h₁ : WFarg e₁) (h₂ : WFarg e₂) (h : print e₁ = print e₂) : e₁ = e₂ :=
  print_injective e₁ e₂ h₁ h₂ h

/-! new coverage: a call with keyword arguments and a negative float on the left of `**`,
    `round(((-1.5) ** x), ndigits=2, tol=1e-07)` -/
section example_kw
def exKw : Expr :=
  .callkw (.root "round") [.bin "**" (.flit true "1.5") (.root "x")] [("ndigits", .lit 2), ("tol", .flit false "1e-07")]
def exKwToks : List Tok :=
  [.name "round", .lpar, .lpar, .lpar, .op "-", .fnum "1.5", .rpar, .op "**", .name "x", .rpar, .comma,
   .name "ndigits", .op "=", .num 2, .comma, .name "tol", .op "=", .fnum "1e-07", .rpar]
theorem exKw_wf : WFarg exKw := by
  simp [exKw, WFarg, WFpost, WFargs, WFkws, kwNames]
  decide
/-- the printed tokens -/
theorem exKw_print : print exKw = exKwToks := by
  simp [exKw, exKwToks, print, printLhs, printPos, printKws, printFloat, printInt]
/-- the general theorem applies -/
theorem C11_roundtrip_kw_float : Ev (fun n => parseExpr n (print exKw)) (exKw, []) :=
  C11_roundtrip_partial exKw exKw_wf
/-- and concretely, by evaluation of the parser -/
example : parseExpr 12 exKwToks = some (exKw, []) := rfl
/-- a negative float on the left of `**` alone: `((-1.5) ** x)` -/
example : print (.bin "**" (.flit true "1.5") (.root "x")) =
    [.lpar, .lpar, .op "-", .fnum "1.5", .rpar, .op "**", .name "x", .rpar] := by
  simp [print, printLhs, printFloat]
example : parseExpr 6 [.lpar, .lpar, .op "-", .fnum "1.5", .rpar, .op "**", .name "x", .rpar] =
    some (.bin "**" (.flit true "1.5") (.root "x"), []) := rfl
/-- a repeated keyword is not well formed, and (like Python) the parser rejects it -/
example : ¬ WFarg (.callkw (.root "f") [] [("k", .lit 1), ("k", .lit 2)]) := by
  simp [WFarg, kwNames]
example : parseExpr 12 [.name "f", .lpar, .name "k", .op "=", .num 1, .comma, .name "k", .op "=", .num 2, .rpar] = none := rfl
/-- a positional argument after a keyword argument is rejected -/
example : parseExpr 12 [.name "f", .lpar, .name "k", .op "=", .num 1, .comma, .name "a", .rpar] = none := rfl
end example_kw

open Manager in
/-- a dump loaded into a fresh manager over the same containers: same definitions, index invariant, and the new
    manager reacts to every later assignment (to a plain location, in C01's scope) exactly like the original -/
theorem C11_load_dump_reacts_identically (s : MState) (ow : Bool) (hi : MInv s) (hfz : s.frozen = false)
    (hex : ExprDefs s.defs) (hc : Consistent s) :
    ∃ s', load (freshOver s) ow (dump s) = (s', none) ∧ s'.defs = s.defs ∧ s'.store = s.store ∧ MInv s' ∧
      ∀ (sched1 sched2 : Sched) (p : Manager.Path) (v : Store.Val), lookDef s.defs p = none → Scope s p →
        ValidSched (gOf s.idx) (findTaskids s.idx (chainR p)) (sched1 (findTaskids s.idx (chainR p))) →
        ValidSched (gOf s'.idx) (findTaskids s'.idx (chainR p)) (sched2 (findTaskids s'.idx (chainR p))) →
        ∀ s1, setValue sched1 s p v = (s1, none) →
          ∃ s2, setValue sched2 s' p v = (s2, none) ∧ s2.store = s1.store ∧ s2.defs = s1.defs :=
  load_dump_reacts_identically s ow hi hfz hex hc

open Manager in
/-- the same for any re-derived index state of one task table (`refresh()`, `clone()`, a load in another order) -/
theorem C11_same_definitions_same_behaviour (sched1 sched2 : Sched) (s : MState) (m : Index.Mgr Manager.Path Manager.Path)
    (p : Manager.Path) (v : Store.Val) (hi : MInv s) (hi' : MInv { s with idx := m })
    (hc : Consistent s) (hnodef : lookDef s.defs p = none) (sc : Scope s p)
    (hvs1 : ValidSched (gOf s.idx) (findTaskids s.idx (chainR p)) (sched1 (findTaskids s.idx (chainR p))))
    (hvs2 : ValidSched (gOf m) (findTaskids m (chainR p)) (sched2 (findTaskids m (chainR p))))
    (s1 : MState) (hok : setValue sched1 s p v = (s1, none)) :
    ∃ s2, setValue sched2 { s with idx := m } p v = (s2, none) ∧ s2.store = s1.store ∧ s2.defs = s1.defs :=
  reindex_same_behaviour sched1 sched2 s m p v hi hi' hc hnodef sc hvs1 hvs2 s1 hok

/-! non-vacuity: `c = a + b`, `e = c * a`; dump, load into a fresh manager, assign `a` on both -/
section example_
open Manager Store
def da : Manager.Path := [.item (.str "d"), .item (.str "a")]
def db : Manager.Path := [.item (.str "d"), .item (.str "b")]
def dc : Manager.Path := [.item (.str "d"), .item (.str "c")]
def de : Manager.Path := [.item (.str "d"), .item (.str "e")]
def s0 : MState :=
  { MState.init with store := .dict [(.str "d", .dict [(.str "a", .int 1), (.str "b", .int 2), (.str "c", .int 0), (.str "e", .int 0)])] }
def sE : MState := applyAll id s0 [.setExpr de (.bin "Mul" (.ref dc) (.ref da)), .setExpr dc (.bin "Add" (.ref da) (.ref db))]
def sL : MState := (load (freshOver sE) true (dump sE)).1
example : (load (freshOver sE) true (dump sE)).2 = none ∧ sL.defs = sE.defs := ⟨rfl, rfl⟩
example : scopeB sE da = true ∧ validSchedule sE.idx (chainR da) (findTaskids sE.idx (chainR da)) = true ∧
    validSchedule sL.idx (chainR da) (findTaskids sL.idx (chainR da)) = true := by decide
example : (setValue id sL da (.int 5)).1.store = (setValue id sE da (.int 5)).1.store ∧
    get (setValue id sL da (.int 5)).1.store de = .ok (.int 35) := ⟨rfl, rfl⟩
end example_


/-! ### `load` for arbitrary dumps, `copy_expr_from` with re-bound labels (XModel/ManagerLoad.lean)

The textual half (printing and re-parsing each pair) is `Parse.parse_print`; here pairs are structure.  `copy_expr_from` takes its
pairs in dependency order in the code and in table order here: the copied targets are distinct, so every per-location
statement is independent of that order (`Manager.lookDef_loadSpec_order_indep`). -/

/-- **`load` for ARBITRARY pairs** (duplicates inside one dump, already defined targets, both values of `overwrite`): the task table afterwards is `loadSpec` — pairs processed left to right, each one deciding replace / skip against the table AS IT IS THEN — no error, index invariant kept -/
theorem C11_load_is_the_fold :
    ∀ (s : Manager.MState) (ow : Bool) (pairs : List (Manager.Path × Push.Expr)),
      Manager.MInv s →
        s.frozen = false →
          (Manager.load s ow pairs).fst.defs = Manager.loadSpec ow s.defs pairs ∧
            (Manager.load s ow pairs).snd = none ∧ Manager.MInv (Manager.load s ow pairs).fst :=
  @Manager.load_defs

/-- with `overwrite=True` a location gets the LAST pair for it in the dump, otherwise keeps what it had -/
theorem C11_overwrite_last_pair_wins :
    ∀ (pairs : List (Manager.Path × Push.Expr)) (defs : List Manager.MTask)
      (q : Manager.Path),
      Manager.lookDef (Manager.loadSpec true defs pairs) q =
        Option.or (Option.map (Manager.mkExprTask q) (Manager.lastFor pairs q)) (Manager.lookDef defs q) :=
  @Manager.lookDef_loadSpec_true

/-- with `overwrite=False` an already defined location keeps its definition and a new one gets the FIRST pair for it -/
theorem C11_no_overwrite_first_wins :
    ∀ (pairs : List (Manager.Path × Push.Expr)) (defs : List Manager.MTask)
      (q : Manager.Path),
      Manager.lookDef (Manager.loadSpec false defs pairs) q =
        Option.or (Manager.lookDef defs q) (Option.map (Manager.mkExprTask q) (Manager.firstFor pairs q)) :=
  @Manager.lookDef_loadSpec_false

/-- `load` registers definitions and changes nothing else: containers, remembered knob values, fault state and trace are as before -/
theorem C11_load_evaluates_nothing :
    ∀ (s : Manager.MState) (ow : Bool) (pairs : List (Manager.Path × Push.Expr)),
      Manager.MInv s →
        s.frozen = false →
          (Manager.load s ow pairs).fst.store = s.store ∧
            (Manager.load s ow pairs).fst.prev = s.prev ∧
              (Manager.load s ow pairs).fst.frozen = false ∧
                (Manager.load s ow pairs).fst.faultIn = s.faultIn ∧ (Manager.load s ow pairs).fst.trace = s.trace :=
  @Manager.load_frame

/-- loading the same dump a second time with `overwrite=True` reproduces the table exactly, order included -/
theorem C11_load_twice_is_once :
    ∀ (pairs : List (Manager.Path × Push.Expr)) (defs : List Manager.MTask),
      Manager.loadSpec true (Manager.loadSpec true defs pairs) pairs = Manager.loadSpec true defs pairs :=
  @Manager.loadSpec_true_idem

/-- **re-rooting** (`copy_expr_from` with `bindings`): an expression whose leading labels are re-bound evaluates, in a store, to what the original evaluates to in the store seen through the bindings -/
theorem C11_rebound_expression_means_the_same :
    ∀ (sem : Push.Sem) (σ σv : Store.Val) (b : String → Option Manager.Path) (e : Push.Expr),
      Manager.SeenThrough b σ σv →
        (∀ (r : List Store.Step), r ∈ Push.leafRefs e → Manager.rooted r = true) →
          Push.eval sem σ (Manager.rebindExpr b e) = Push.eval sem σv e :=
  @Manager.eval_rebind

/-- after `copy_expr_from(src, name, bindings)` (overwrite) the definition at a re-rooted target is the re-rooted definition of the source — decided by the LOCATION, not by how a definition prints -/
theorem C11_copy_definitions_are_the_rerooted_ones :
    ∀ (dst src : Manager.MState) (name : String) (b : String → Option Manager.Path),
      Manager.MInv dst →
        dst.frozen = false →
          List.Nodup (List.map (fun x => x.id) src.defs) →
            ∀ (p : Manager.Path) (e : Push.Expr),
              (p, e) ∈ Manager.dump src →
                Manager.underName name p = true →
                  Manager.exprOf (Manager.copyExprFrom dst src name b true).fst (Manager.rebindPath b p) =
                    some (Manager.rebindExpr b e) :=
  @Manager.copy_true_exprOf

/-- without overwrite a location of the destination that already has a definition keeps it — again by location: a definition elsewhere that merely prints like the copied one is irrelevant -/
theorem C11_copy_without_overwrite_keeps_old :
    ∀ (dst src : Manager.MState) (name : String) (b : String → Option Manager.Path),
      Manager.MInv dst →
        dst.frozen = false →
          ∀ (q : Manager.Path) (t : Manager.MTask),
            Manager.lookDef dst.defs q = some t →
              Manager.lookDef (Manager.copyExprFrom dst src name b false).fst.defs q = some t :=
  @Manager.copy_false_old

/-- C01's per-definition predicate transfers along re-rooting, ONE direction: if a definition holds in the source, its re-rooted form holds in the destination store seen through the bindings.  This is `eval_rebind` on the store that `copy_expr_from` leaves unchanged; it does not use which definitions the copy registered (that is `C11_copy_definitions_are_the_rerooted_ones`) and says nothing about later assignments.  `SeenThrough` asks the two root dictionaries to agree on ALL labels; the per-expression forms `Manager.copy_eval_agree` / `eval_rebind_on` need agreement on the labels that occur only. -/
theorem C11_copied_definition_holds :
    ∀ (dst src : Manager.MState) (name : String) (b : String → Option Manager.Path) (ow : Bool),
      Manager.MInv dst →
        dst.frozen = false →
          ∀ (p : Manager.Path) (e : Push.Expr),
            Manager.SeenThrough b dst.store src.store →
              Manager.rooted p = true →
                (∀ (r : List Store.Step), r ∈ Push.leafRefs e → Manager.rooted r = true) →
                  (Push.exprSys Manager.pySem).Q { target := p, expr := e } src.store →
                    (Push.exprSys Manager.pySem).Q { target := Manager.rebindPath b p, expr := Manager.rebindExpr b e }
                      (Manager.copyExprFrom dst src name b ow).fst.store :=
  @Manager.copy_holds

end Properties.C11
