import XProofs.Limits
import XModel.OptBest2
/-!
# C15: `step(take_best=True)` with the index `i_start + argmin(penalties[i_start:])` taken on the model's own log

`XModel/OptBest2.lean` proves where the call ends for any position of a row of minimal penalty among the rows logged
during the call.  Here that position is `Argmin.argmin` (first minimum, as `np.argmin`) of the penalties `pen row` of
exactly those rows, for an arbitrary assignment `pen : Row R → K` into a linear order (`Argmin.argmin_min` is proved
over Mathlib's `LinearOrder`, which is why this file is under `XProofs/`).
-/
namespace Opt

variable {R : Type}

/-- `argmin` of the penalties of a non-empty list of rows is the position of a row of minimal penalty -/
theorem argmin_rows {K : Type} [LinearOrder K] (pen : Row R → K) (rows : List (Row R)) (hne : rows ≠ []) :
    Argmin.argmin (rows.map pen) < rows.length ∧
    ∃ r, rows[Argmin.argmin (rows.map pen)]? = some r ∧ ∀ r' ∈ rows, pen r ≤ pen r' := by
  obtain ⟨hlt, v, hv, hmin⟩ := Argmin.argmin_min (rows.map pen) (by simpa using hne)
  rw [List.getElem?_map] at hv
  obtain ⟨r, hr, hpr⟩ := Option.map_eq_some_iff.mp hv
  refine ⟨by simpa using hlt, r, hr, ?_⟩
  intro r' hr'
  rw [hpr]
  exact hmin (pen r') (List.mem_map_of_mem hr')

/-- **(3)** the index `n + argmin (penalties of the rows of the call)` satisfies `n ≤ · < sl.log.length`, points at a
    row of the call of minimal penalty, and satisfies the hypothesis `htb` of `optStep_disabled_fixed` and
    `optStep_rows_within_limits` -/
theorem take_best_argmin_index {K : Type} [LinearOrder K] (pen : Row R → K) (c : Cfg R) (its : List (Iter R))
    (s sl : St R) (hb : optBody c its s = (.ok (), sl)) :
    s.log.length ≤ s.log.length + Argmin.argmin ((sl.log.drop s.log.length).map pen) ∧
    s.log.length + Argmin.argmin ((sl.log.drop s.log.length).map pen) < sl.log.length ∧
    (∃ r, sl.log[s.log.length + Argmin.argmin ((sl.log.drop s.log.length).map pen)]? = some r ∧
      r ∈ sl.log.drop s.log.length ∧ ∀ r' ∈ sl.log.drop s.log.length, pen r ≤ pen r') ∧
    (∀ i, some (s.log.length + Argmin.argmin ((sl.log.drop s.log.length).map pen)) = some i → s.log.length ≤ i) := by
  obtain ⟨hne, _⟩ := optBody_rows_head c its s sl hb
  obtain ⟨_, r, hr, hmin⟩ := argmin_rows pen _ hne
  obtain ⟨h1, h2, h3⟩ := take_best_index_bounds _ _ _ r hr
  exact ⟨h1, h2, ⟨r, h3, List.mem_of_getElem? hr, hmin⟩, take_best_htb _ _⟩

/-- **(2)** `pen` is an arbitrary penalty assignment to log rows, `n = s.log.length`, `sl` the state the body of the
    call (start row, loop) leaves, `rows = sl.log.drop n` the rows logged during the call.  A normal return of
    `optStep` with the `take_best` index `n + argmin (rows.map pen)` ends

    * either on the loop's state with the tolerance flag set — a matched point,
    * or (flag off) on a row `r` of `rows`, the one at position `argmin`: the masks are `r`'s (the entry masks), the
      container is `r`'s round trip (each knob `r`'s value, or its image under `mulW ∘ divW`), a copy of `r` has been
      appended to the log, and `pen r ≤ pen r'` for every row `r'` of the call, in particular `pen r ≤ pen (rowOf s)`:
      the call does not end on a row of higher recorded penalty than its start row. -/
theorem optStep_take_best_argmin {K : Type} [LinearOrder K] (pen : Row R → K) (c : Cfg R) (its : List (Iter R))
    (s sl s' : St R)
    (hb : optBody c its s = (.ok (), sl))
    (h : optStep c its (some (s.log.length + Argmin.argmin ((sl.log.drop s.log.length).map pen))) s = (.ok (), s')) :
    (sl.lastWithin = true ∧ s' = sl ∧ ∃ res, c.f s'.knobs = some res ∧ c.within res s'.tAct = true) ∨
    (sl.lastWithin = false ∧ ∃ r, r ∈ sl.log.drop s.log.length ∧
      (sl.log.drop s.log.length)[Argmin.argmin ((sl.log.drop s.log.length).map pen)]? = some r ∧
      s'.vAct = r.vAct ∧ s'.tAct = r.tAct ∧ r.vAct = s.vAct ∧ r.tAct = s.tAct ∧
      s'.knobs = roundTrip c r.vAct r.knobs ∧
      (∀ j, s'.knobs j = r.knobs j ∨ s'.knobs j = c.mulW j (c.divW j (r.knobs j))) ∧
      s'.log = sl.log ++ [r] ∧
      (∀ r' ∈ sl.log.drop s.log.length, pen r ≤ pen r') ∧ pen r ≤ pen (rowOf s)) := by
  obtain ⟨hne, _⟩ := optBody_rows_head c its s sl hb
  obtain ⟨_, r, hr, hmin⟩ := argmin_rows pen _ hne
  rcases optStep_take_best_of_min pen c its s sl s' _ r hb hr hmin h with
    ⟨hw, he⟩ | ⟨hw, a1, a2, a3, a4, a5, a6, a7, a8, _, a10, a11⟩
  · refine Or.inl ⟨hw, he, ?_⟩
    subst he
    obtain ⟨_, _, _, _, _, _, _, coh, _⟩ := optBody_ok c its s s' hb
    exact matched_of_coh c s' coh hw
  · exact Or.inr ⟨hw, r, a1, hr, a2, a3, a4, a5, a6, a7, a8, a10, a11⟩

/-- the same when the weights round-trip on the rows' active knobs (e.g. unit weights): the container is the row's,
    bit for bit -/
theorem optStep_take_best_argmin_exact {K : Type} [LinearOrder K] (pen : Row R → K) (c : Cfg R)
    (its : List (Iter R)) (s sl s' : St R) (hunit : ∀ j x, c.mulW j (c.divW j x) = x)
    (hb : optBody c its s = (.ok (), sl))
    (h : optStep c its (some (s.log.length + Argmin.argmin ((sl.log.drop s.log.length).map pen))) s = (.ok (), s')) :
    (sl.lastWithin = true ∧ s' = sl) ∨
    (sl.lastWithin = false ∧ ∃ r, r ∈ sl.log.drop s.log.length ∧ rowOf s' = r ∧
      (∀ r' ∈ sl.log.drop s.log.length, pen r ≤ pen r') ∧ pen r ≤ pen (rowOf s)) := by
  rcases optStep_take_best_argmin pen c its s sl s' hb h with
    ⟨hw, he, _⟩ | ⟨hw, r, a1, _, a2, a3, _, _, a6, _, _, a10, a11⟩
  · exact Or.inl ⟨hw, he⟩
  · refine Or.inr ⟨hw, r, a1, ?_, a10, a11⟩
    rw [roundTrip_id c _ _ (fun j _ _ => hunit j _)] at a6
    simp only [rowOf, a2, a3, a6]

/-- the index `step(take_best=True)` hands to `reload`: `i_start + argmin(penalties[i_start:])`.  (A named form of
    the expression in the theorems above: written at a concrete `K`, `Argmin.argmin` picks the core `LT` instance of
    `K`, which the unifier then has to compare with the one derived from `LinearOrder K` by evaluating both sides;
    through this definition the instance is the one of the theorems.) -/
def takeBestIndex {K : Type} [LinearOrder K] (pen : Row R → K) (n : Nat) (log : List (Row R)) : Nat :=
  n + Argmin.argmin ((log.drop n).map pen)

theorem takeBestIndex_def {K : Type} [LinearOrder K] (pen : Row R → K) (n : Nat) (log : List (Row R)) :
    takeBestIndex pen n log = n + Argmin.argmin ((log.drop n).map pen) := rfl

/-! ### the hypotheses are satisfiable: run A of `Opt.BestExample` -/
namespace BestExample

/-- `argmin` of the penalties `[36, 1, 49]` of the rows of run A is 1, the index handed to `take_best` is `1 + 1` -/
example : takeBestIndex pen s0.log.length slA.log = 1 + 1 := by decide +kernel

theorem hA' : optStep cfg itsA (some (takeBestIndex pen s0.log.length slA.log)) s0 = (.ok (), endA) := by
  have e : takeBestIndex pen s0.log.length slA.log = s0.log.length + 1 := by decide +kernel
  rw [e]; exact hA

/-- so `optStep_take_best_argmin` applies; the flag is off, the call ends on the middle row (recorded knob 10,
    penalty 1, below the start row's 36) -/
example : ∃ r, r ∈ slA.log.drop s0.log.length ∧ endA.knobs = roundTrip cfg r.vAct r.knobs ∧
    pen r ≤ pen (rowOf s0) := by
  have h := hA'
  unfold takeBestIndex at h
  rcases optStep_take_best_argmin pen cfg itsA s0 slA endA hbA h with
    ⟨hw, _⟩ | ⟨_, r, a1, _, _, _, _, _, a6, _, _, _, a11⟩
  · exact absurd hw (by decide +kernel)
  · exact ⟨r, a1, a6, a11⟩

/-- and `take_best_argmin_index`: the index is within the rows of the call -/
example : s0.log.length ≤ takeBestIndex pen s0.log.length slA.log ∧
    takeBestIndex pen s0.log.length slA.log < slA.log.length :=
  ⟨(take_best_argmin_index pen cfg itsA s0 slA hbA).1, (take_best_argmin_index pen cfg itsA s0 slA hbA).2.1⟩

end BestExample

#print axioms argmin_rows
#print axioms take_best_argmin_index
#print axioms optStep_take_best_argmin
#print axioms optStep_take_best_argmin_exact
#print axioms optStep_take_best_of_min
#print axioms optBody_rows_head
#print axioms optBody_ok
#print axioms optStep_log_ok
#print axioms optStep_log_truthful
#print axioms addPoint_row_vs_eval
#print axioms optIter_ok
#print axioms reload_ok
#print axioms optStep_take_best_disabled_fixed
#print axioms optStep_take_best_rows_within_limits
#print axioms BestExample.hbA
#print axioms BestExample.hkA
#print axioms BestExample.hminA
#print axioms BestExample.hA
#print axioms BestExample.hA'

end Opt
