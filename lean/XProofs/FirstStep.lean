import XProofs.LeastSquares
import XProofs.LstsqNormal
import Mathlib.Data.Matrix.Mul
import Mathlib.Data.Matrix.Diagonal
import Mathlib.LinearAlgebra.Matrix.Notation
import Mathlib.Tactic.FinCases
import Mathlib.Algebra.Order.Field.Rat
import Mathlib.Algebra.Order.Field.Basic
import Mathlib.Tactic.Abel
import Mathlib.Tactic.NormNum
/-!
# The first Jacobian step of a consistent linear problem lands on the solution

Merit function `f x = A x - b` (Jacobian `A`).  One least-squares step from `x0` is `x1 = x0 - d` with `d`
a least-squares solution of `A d = f x0`.  If `A xs = b` has a solution at all, then `A x1 = b` — for every
least-squares solution `d`, whatever the shape or rank of `A`.
-/
open Matrix

namespace FirstStep
variable {K : Type} [Field K] [LinearOrder K] [IsStrictOrderedRing K]
variable {m n : Type} [Fintype m] [Fintype n]

/-- a vector in the range of `A` that is orthogonal to the range of `A` vanishes -/
theorem mulVec_eq_zero_of_normal (A : Matrix m n K) (e : n → K) (h : Aᵀ *ᵥ (A *ᵥ e) = 0) : A *ᵥ e = 0 := by
  apply LS.dot_self_eq_zero
  have : (A *ᵥ e) ⬝ᵥ (A *ᵥ e) = e ⬝ᵥ (Aᵀ *ᵥ (A *ᵥ e)) := by
    rw [Matrix.dotProduct_mulVec, ← Matrix.mulVec_transpose, dotProduct_comm]
  rw [this, h, dotProduct_zero]

/-- 1. normal equations + consistent system ⇒ the step lands on a solution -/
theorem first_step_lands (A : Matrix m n K) (b : m → K) (x0 d : n → K)
    (hN : Aᵀ *ᵥ (A *ᵥ d) = Aᵀ *ᵥ (A *ᵥ x0 - b)) (hC : ∃ xs, A *ᵥ xs = b) :
    A *ᵥ (x0 - d) = b := by
  obtain ⟨xs, hxs⟩ := hC
  have he : A *ᵥ (d - (x0 - xs)) = A *ᵥ d - (A *ᵥ x0 - b) := by
    rw [Matrix.mulVec_sub, Matrix.mulVec_sub, hxs]
  have h0 : A *ᵥ (d - (x0 - xs)) = 0 := by
    apply mulVec_eq_zero_of_normal
    rw [he, Matrix.mulVec_sub, hN, sub_self]
  rw [he] at h0
  rw [Matrix.mulVec_sub, sub_eq_zero.mp h0]
  abel

/-- 2a. the same with the normal equations written as in `C16_least_squares`
    (`Aᵀ (A d - r) = 0` with `r = A x0 - b` the current residual) -/
theorem first_step_lands_of_normal_residual (A : Matrix m n K) (b : m → K) (x0 d : n → K)
    (hN : Aᵀ *ᵥ (A *ᵥ d - (A *ᵥ x0 - b)) = 0) (hC : ∃ xs, A *ᵥ xs = b) :
    A *ᵥ (x0 - d) = b := by
  apply first_step_lands A b x0 d _ hC
  rw [Matrix.mulVec_sub] at hN
  exact sub_eq_zero.mp hN

/-- 2b. the same for `d` a least-squares solution proper: no `z` gives a smaller residual of `A z = f x0`
    (the conclusion of `C16_least_squares`) -/
theorem first_step_lands_of_minimiser (A : Matrix m n K) (b : m → K) (x0 d : n → K)
    (hM : ∀ z : n → K, (A *ᵥ d - (A *ᵥ x0 - b)) ⬝ᵥ (A *ᵥ d - (A *ᵥ x0 - b))
                      ≤ (A *ᵥ z - (A *ᵥ x0 - b)) ⬝ᵥ (A *ᵥ z - (A *ᵥ x0 - b)))
    (hC : ∃ xs, A *ᵥ xs = b) :
    A *ᵥ (x0 - d) = b := by
  obtain ⟨xs, hxs⟩ := hC
  have hz : A *ᵥ (x0 - xs) - (A *ᵥ x0 - b) = 0 := by
    rw [Matrix.mulVec_sub, hxs, sub_self]
  have h := hM (x0 - xs)
  rw [hz, dotProduct_zero] at h
  have h0 : A *ᵥ d - (A *ᵥ x0 - b) = 0 :=
    LS.dot_self_eq_zero (le_antisymm h (LS.dot_self_nonneg _))
  rw [Matrix.mulVec_sub, sub_eq_zero.mp h0]
  abel

/-- 2c. composed with the SVD formula of `lstsq`: the step `d = Vhᵀ diag(s_inv) Uᵀ f(x0)` computed from
    `A = U diag(s) Vh` lands on a solution of a consistent system -/
theorem first_step_lands_lstsq {k : Type} [Fintype k] [DecidableEq k] [DecidableEq m] [DecidableEq n]
    (U : Matrix m k K) (Vh : Matrix k n K) (s sinv : k → K) (b : m → K) (x0 : n → K)
    (hU : Uᵀ * U = 1) (hV : Vh * Vhᵀ = 1) (hs : ∀ i, s i * s i * sinv i = s i)
    (hC : ∃ xs, (U * diagonal s * Vh) *ᵥ xs = b) :
    (U * diagonal s * Vh) *ᵥ (x0 - Vhᵀ *ᵥ (diagonal sinv *ᵥ (Uᵀ *ᵥ ((U * diagonal s * Vh) *ᵥ x0 - b)))) = b :=
  first_step_lands _ b x0 _ (lstsq_normal U Vh s sinv ((U * diagonal s * Vh) *ᵥ x0 - b) hU hV hs) hC

/-- 3. weighted targets: the step solves `(W A) d = W f(x0)` in the least-squares sense with `W = diag w`,
    all `w i ≠ 0` (in particular positive); a consistent system is still solved exactly -/
theorem first_step_lands_weighted [DecidableEq m] (A : Matrix m n K) (w : m → K) (b : m → K) (x0 d : n → K)
    (hw : ∀ i, w i ≠ 0)
    (hN : (diagonal w * A)ᵀ *ᵥ ((diagonal w * A) *ᵥ d) = (diagonal w * A)ᵀ *ᵥ (diagonal w *ᵥ (A *ᵥ x0 - b)))
    (hC : ∃ xs, A *ᵥ xs = b) :
    A *ᵥ (x0 - d) = b := by
  obtain ⟨xs, hxs⟩ := hC
  have hN' : (diagonal w * A)ᵀ *ᵥ ((diagonal w * A) *ᵥ d)
      = (diagonal w * A)ᵀ *ᵥ ((diagonal w * A) *ᵥ x0 - diagonal w *ᵥ b) := by
    rw [hN, Matrix.mulVec_sub (diagonal w), Matrix.mulVec_mulVec]
  have hC' : ∃ xs, (diagonal w * A) *ᵥ xs = diagonal w *ᵥ b :=
    ⟨xs, by rw [← Matrix.mulVec_mulVec, hxs]⟩
  have h := first_step_lands (diagonal w * A) (diagonal w *ᵥ b) x0 d hN' hC'
  rw [← Matrix.mulVec_mulVec] at h
  funext i
  have hi := congrFun h i
  rw [Matrix.mulVec_diagonal, Matrix.mulVec_diagonal] at hi
  exact mul_left_cancel₀ (hw i) hi

/-- positive weights are a special case -/
theorem first_step_lands_weighted_pos [DecidableEq m] (A : Matrix m n K) (w : m → K) (b : m → K) (x0 d : n → K)
    (hw : ∀ i, 0 < w i)
    (hN : (diagonal w * A)ᵀ *ᵥ ((diagonal w * A) *ᵥ d) = (diagonal w * A)ᵀ *ᵥ (diagonal w *ᵥ (A *ᵥ x0 - b)))
    (hC : ∃ xs, A *ᵥ xs = b) :
    A *ᵥ (x0 - d) = b :=
  first_step_lands_weighted A w b x0 d (fun i => ne_of_gt (hw i)) hN hC

/-- 4. the hypotheses are satisfiable: a rank-deficient 2×2 system over `ℚ`, consistent, started away from
    the solution set, with the minimum-norm step `d = (1, 1)`; the step lands on `A x = b` -/
example :
    let A : Matrix (Fin 2) (Fin 2) ℚ := !![1, 1; 2, 2]
    let b : Fin 2 → ℚ := ![1, 2]
    let x0 : Fin 2 → ℚ := ![2, 1]
    let d : Fin 2 → ℚ := ![1, 1]
    Aᵀ *ᵥ (A *ᵥ d) = Aᵀ *ᵥ (A *ᵥ x0 - b) ∧ (∃ xs, A *ᵥ xs = b) ∧ A *ᵥ (x0 - d) = b := by
  intro A b x0 d
  have hN : Aᵀ *ᵥ (A *ᵥ d) = Aᵀ *ᵥ (A *ᵥ x0 - b) := by
    funext i; fin_cases i <;> simp [A, b, x0, d, Matrix.mulVec, dotProduct, Fin.sum_univ_two] <;> norm_num
  have hC : ∃ xs, A *ᵥ xs = b :=
    ⟨![1, 0], by funext i; fin_cases i <;> simp [A, b, Matrix.mulVec, dotProduct, Fin.sum_univ_two]⟩
  exact ⟨hN, hC, first_step_lands A b x0 d hN hC⟩

end FirstStep
