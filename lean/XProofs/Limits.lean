import Mathlib.Algebra.Order.Field.Basic
import Mathlib.Tactic.Linarith
import XModel.Argmin
/-! Order-only lemmas for the optimizer: the per-coordinate limit clamp of `JacobianSolver.step`, the
    weight scaling of `_x_to_knobs`, and `argmin` on a list of penalties. -/
namespace Limits
variable {K : Type} [Field K] [LinearOrder K] [IsStrictOrderedRing K]

/-- the clamp of the bisection loop: a sub-step that would leave the limits is zeroed -/
def clampStep (lo hi x s : K) : K := if x - s < lo then 0 else if x - s > hi then 0 else s

/-- C10: starting inside the limits, the accepted coordinate stays inside (order axioms and `x - 0 = x` only) -/
theorem clamp_inside (lo hi x s : K) (h : lo ≤ x ∧ x ≤ hi) :
    lo ≤ x - clampStep lo hi x s ∧ x - clampStep lo hi x s ≤ hi := by
  unfold clampStep
  split
  · simpa using h
  · split
    · simpa using h
    · next h1 h2 => exact ⟨not_lt.mp h1, not_lt.mp h2⟩

/-- knob limits translate to x limits by dividing by the positive weight: inside in x ⇔ inside in knob units -/
theorem weight_limits (w lo hi x : K) (hw : 0 < w) : (lo / w ≤ x ∧ x ≤ hi / w) ↔ (lo ≤ x * w ∧ x * w ≤ hi) := by
  constructor
  · rintro ⟨h1, h2⟩
    exact ⟨(div_le_iff₀ hw).mp h1, (le_div_iff₀ hw).mp h2⟩
  · rintro ⟨h1, h2⟩
    exact ⟨(div_le_iff₀ hw).mpr h1, (le_div_iff₀ hw).mpr h2⟩

/-- C16 / C09: the weight maps are inverse to each other -/
theorem weight_inverse (w k x : K) (hw : w ≠ 0) : (k / w) * w = k ∧ (x * w) / w = x :=
  ⟨div_mul_cancel₀ k hw, mul_div_cancel_right₀ x hw⟩

/-- max_step in knob units is max_step / weight in x units -/
theorem max_step_units (w m s : K) (hw : 0 < w) : |s| ≤ m / w ↔ |s * w| ≤ m := by
  rw [abs_mul, abs_of_pos hw, le_div_iff₀ hw]

end Limits

namespace Argmin
theorem argminAux_spec {K : Type} [LinearOrder K] (l : List K) (pre : List K) (cur : K) (best : Nat)
    (hb : best < pre.length) (hcur : pre[best]? = some cur) (hmin : ∀ y ∈ pre, cur ≤ y) :
    let r := argminAux l pre.length cur best
    r < (pre ++ l).length ∧ ∃ v, (pre ++ l)[r]? = some v ∧ ∀ y ∈ pre ++ l, v ≤ y := by
  induction l generalizing pre cur best with
  | nil =>
    simp only [argminAux, List.append_nil]
    exact ⟨hb, cur, hcur, hmin⟩
  | cons x rest ih =>
    simp only [argminAux]
    split
    · next hlt =>
      have := ih (pre ++ [x]) x pre.length (by simp) (by simp)
        (by
          intro y hy
          rcases List.mem_append.mp hy with hy | hy
          · exact le_trans (le_of_lt hlt) (hmin y hy)
          · simp at hy; rw [hy])
      simpa [List.append_assoc] using this
    · next hge =>
      have := ih (pre ++ [x]) cur best (by simp; omega)
        (by rw [List.getElem?_append_left hb]; exact hcur)
        (by
          intro y hy
          rcases List.mem_append.mp hy with hy | hy
          · exact hmin y hy
          · simp at hy; rw [hy]; exact not_lt.mp hge)
      simpa [List.append_assoc] using this

/-- C15: the row chosen by `take_best` has minimum penalty among the rows logged during the call -/
theorem argmin_min {K : Type} [LinearOrder K] (l : List K) (hne : l ≠ []) :
    argmin l < l.length ∧ ∃ v, l[argmin l]? = some v ∧ ∀ y ∈ l, v ≤ y := by
  cases l with
  | nil => exact absurd rfl hne
  | cons x rest =>
    have := argminAux_spec rest [x] x 0 (by simp) (by simp) (by intro y hy; simp at hy; rw [hy])
    simpa [argmin] using this

end Argmin
