import Mathlib.Data.Matrix.Mul
import Mathlib.Data.Matrix.Diagonal
import Mathlib.Tactic.Ring

open Matrix

variable {K : Type} [CommRing K] {m n k : Type} [Fintype m] [Fintype n] [Fintype k] [DecidableEq k] [DecidableEq m] [DecidableEq n]

/-- normal equations for the truncated-SVD least squares formula -/
theorem lstsq_normal (U : Matrix m k K) (Vh : Matrix k n K) (s sinv : k → K) (b : m → K)
    (hU : Uᵀ * U = 1) (hV : Vh * Vhᵀ = 1)
    (hs : ∀ i, s i * s i * sinv i = s i) :
    let A := U * diagonal s * Vh
    let x := Vhᵀ *ᵥ (diagonal sinv *ᵥ (Uᵀ *ᵥ b))
    Aᵀ *ᵥ (A *ᵥ x) = Aᵀ *ᵥ b := by
  intro A x
  have hd : diagonal s * diagonal s * diagonal sinv = diagonal s := by
    rw [diagonal_mul_diagonal, diagonal_mul_diagonal]
    congr 1; funext i; exact hs i
  have key : Aᵀ * A * Vhᵀ * diagonal sinv * Uᵀ = Aᵀ := by
    simp only [A, transpose_mul, diagonal_transpose, transpose_transpose]
    calc Vhᵀ * (diagonal s * Uᵀ) * (U * diagonal s * Vh) * Vhᵀ * diagonal sinv * Uᵀ
        = Vhᵀ * diagonal s * (Uᵀ * U) * diagonal s * (Vh * Vhᵀ) * diagonal sinv * Uᵀ := by
          simp only [Matrix.mul_assoc]
      _ = Vhᵀ * (diagonal s * diagonal s * diagonal sinv) * Uᵀ := by
          rw [hU, hV]; simp only [Matrix.mul_one, Matrix.mul_assoc]
      _ = Vhᵀ * (diagonal s * Uᵀ) := by rw [hd, Matrix.mul_assoc]
  have : Aᵀ *ᵥ (A *ᵥ x) = (Aᵀ * A * Vhᵀ * diagonal sinv * Uᵀ) *ᵥ b := by
    simp only [x, Matrix.mulVec_mulVec, Matrix.mul_assoc]
  rw [this, key]
