import XProofs.Limits
import XProofs.OptBest2
import XModel.OptBest3
/-!
# C15: `step(take_best=True)` with the decision the code makes, on penalties recorded PER POSITION

`XModel/OptBest3.lean` defines `takeBestArg pens start` (the code's rule: no reload when the first minimum of the
penalties of the call is at the last position) and proves the structural halves.  Here the order facts of
`Argmin.argmin` over a linear order (a minimum, and the FIRST one) are added and the two are put together:
`optStep_take_best_pens` and its two branches.  `pens` is an ARBITRARY list: the numbers the implementation recorded
for the rows of this call, one per row position (hypothesis `hlen`).  The skeleton has no penalty function: no
theorem here says what these numbers are — the oracle `harness/w_opt.py` recomputes every logged penalty from the
logged knobs.  The older content-based statement (`pen : Row R → K`) is the special case `pens := rows.map pen`
(`optStep_take_best_content`, `optStep_take_best_argmin_of_pens`).
-/
namespace Argmin

theorem argminAux_first {K : Type} [LinearOrder K] (l : List K) (pre : List K) (cur : K) (best : Nat)
    (hb : best < pre.length) (hcur : pre[best]? = some cur) (hmin : ∀ y ∈ pre, cur ≤ y)
    (hfirst : ∀ (j : Nat) (y : K), j < best → pre[j]? = some y → cur < y) :
    ∃ v, (pre ++ l)[argminAux l pre.length cur best]? = some v ∧
      ∀ (j : Nat) (y : K), j < argminAux l pre.length cur best → (pre ++ l)[j]? = some y → v < y := by
  induction l generalizing pre cur best with
  | nil =>
    simp only [argminAux, List.append_nil]
    exact ⟨cur, hcur, hfirst⟩
  | cons x rest ih =>
    simp only [argminAux]
    split
    · next hlt =>
      have := ih (pre ++ [x]) x pre.length (by simp) (by simp)
        (by
          intro y hy
          rcases List.mem_append.mp hy with hy | hy
          · exact le_trans (le_of_lt hlt) (hmin y hy)
          · simp at hy; rw [hy])
        (by
          intro j y hj hy
          rw [List.getElem?_append_left hj] at hy
          exact lt_of_lt_of_le hlt (hmin y (List.mem_of_getElem? hy)))
      simpa [List.append_assoc] using this
    · next hge =>
      have := ih (pre ++ [x]) cur best (by simp; omega)
        (by rw [List.getElem?_append_left hb]; exact hcur)
        (by
          intro y hy
          rcases List.mem_append.mp hy with hy | hy
          · exact hmin y hy
          · simp at hy; rw [hy]; exact not_lt.mp hge)
        (by
          intro j y hj hy
          rw [List.getElem?_append_left (by omega)] at hy
          exact hfirst j y hj hy)
      simpa [List.append_assoc] using this

/-- `np.argmin` returns the FIRST position of the minimum: every earlier entry is strictly larger -/
theorem argmin_first {K : Type} [LinearOrder K] (l : List K) (hne : l ≠ []) :
    ∃ v, l[argmin l]? = some v ∧ ∀ (j : Nat) (y : K), j < argmin l → l[j]? = some y → v < y := by
  cases l with
  | nil => exact absurd rfl hne
  | cons x rest =>
    have := argminAux_first rest [x] x 0 (by simp) (by simp) (by intro y hy; simp at hy; rw [hy])
      (by intro j y hj; omega)
    simpa [argmin] using this

/-- position form of both facts: in range, a minimum over all positions, strictly below every earlier position -/
theorem argmin_spec {K : Type} [LinearOrder K] (l : List K) (hne : l ≠ []) :
    argmin l < l.length ∧ ∃ v, l[argmin l]? = some v ∧ (∀ (j : Nat) (y : K), l[j]? = some y → v ≤ y) ∧
      (∀ (j : Nat) (y : K), j < argmin l → l[j]? = some y → v < y) := by
  obtain ⟨hlt, v, hv, hmin⟩ := argmin_min l hne
  obtain ⟨v', hv', hfirst⟩ := argmin_first l hne
  rw [hv] at hv'
  cases hv'
  exact ⟨hlt, v, hv, fun j y hy => hmin y (List.mem_of_getElem? hy), hfirst⟩

end Argmin

namespace Opt

variable {R : Type}

/-! ### the decision over a linear order -/

/-- **no reload** (and there is at least one penalty): the first minimum of `pens` is at the last position — that
    entry is ≤ every entry and strictly below every earlier one -/
theorem takeBestArg_none_spec {K : Type} [LinearOrder K] (pens : List K) (start : Nat) (hne : pens ≠ [])
    (h : takeBestArg pens start = none) :
    Argmin.argmin pens + 1 = pens.length ∧
    ∃ v, pens[pens.length - 1]? = some v ∧ (∀ (j : Nat) (y : K), pens[j]? = some y → v ≤ y) ∧
      (∀ (j : Nat) (y : K), j < pens.length - 1 → pens[j]? = some y → v < y) := by
  rcases (takeBestArg_none_iff pens start).mp h with h0 | h0
  · exact absurd h0 hne
  · obtain ⟨_, v, hv, hmin, hfirst⟩ := Argmin.argmin_spec pens hne
    have e : pens.length - 1 = Argmin.argmin pens := by omega
    rw [e]
    exact ⟨h0, v, hv, hmin, hfirst⟩

/-- **reload**: the index is `start + argmin`, `argmin` is the first position of the minimum of `pens` and is not the
    last position -/
theorem takeBestArg_some_spec {K : Type} [LinearOrder K] (pens : List K) (start i : Nat)
    (h : takeBestArg pens start = some i) :
    start ≤ i ∧ i = Argmin.argmin pens + start ∧ i - start = Argmin.argmin pens ∧
    Argmin.argmin pens + 1 < pens.length ∧
    ∃ v, pens[Argmin.argmin pens]? = some v ∧ (∀ (j : Nat) (y : K), pens[j]? = some y → v ≤ y) ∧
      (∀ (j : Nat) (y : K), j < Argmin.argmin pens → pens[j]? = some y → v < y) := by
  obtain ⟨hne, hnl, hi⟩ := (takeBestArg_some_iff pens start i).mp h
  obtain ⟨hlt, v, hv, hmin, hfirst⟩ := Argmin.argmin_spec pens hne
  exact ⟨by omega, hi, by omega, by omega, v, hv, hmin, hfirst⟩

/-! ### (2a) no reload -/

/-- **`take_best`, branch "the best row is the last one".**  `pens` are the implementation's recorded penalties of the
    rows the body of this call (start row, loop) appended, one per position (`hlen`); the decision
    `takeBestArg pens s.log.length` is `none`.  Then a normal return of the call appends nothing more and ends on the
    state `sl` the loop left; the last appended row `last` sits at position `pens.length - 1` of the call's rows and
    `sl` is the state of that row — its container and masks ARE the row when at least one iteration ran, and are the
    weight round trip of the row when none ran (the row is then the start row); and the penalty recorded at that
    position is ≤ the penalty at every position of the call, strictly below every earlier one. -/
theorem optStep_take_best_none_branch {K : Type} [LinearOrder K] (pens : List K) (c : Cfg R) (its : List (Iter R))
    (s sl s' : St R)
    (hb : optBody c its s = (.ok (), sl))
    (hlen : pens.length = (sl.log.drop s.log.length).length)
    (htb : takeBestArg pens s.log.length = none)
    (h : optStep c its (takeBestArg pens s.log.length) s = (.ok (), s')) :
    s' = sl ∧ s'.log = sl.log ∧
    (∃ last, (s'.log.drop s.log.length)[pens.length - 1]? = some last ∧ s'.log.getLast? = some last ∧
      s'.vAct = last.vAct ∧ s'.tAct = last.tAct ∧ last.vAct = s.vAct ∧ last.tAct = s.tAct ∧
      (rowOf s' = last ∨
       (s'.log.drop s.log.length = [rowOf s] ∧ last = rowOf s ∧
        rowOf s' = ⟨roundTrip c s.vAct s.knobs, s.vAct, s.tAct⟩))) ∧
    Argmin.argmin pens + 1 = pens.length ∧
    ∃ v, pens[pens.length - 1]? = some v ∧ (∀ (j : Nat) (y : K), pens[j]? = some y → v ≤ y) ∧
      (∀ (j : Nat) (y : K), j < pens.length - 1 → pens[j]? = some y → v < y) := by
  rw [htb, optStep_of_body_none c its s sl hb] at h
  have hs : s' = sl := ((Prod.mk.inj h).2).symm
  subst hs
  obtain ⟨last, hl1, hl2, a1, a2, a3, a4, hcase⟩ := optBody_last_row c its s s' hb
  have hne : pens ≠ [] := by
    intro h0
    rw [h0] at hlen
    obtain ⟨hne', _⟩ := optBody_rows_head c its s s' hb
    exact hne' (List.length_eq_zero_iff.mp hlen.symm)
  obtain ⟨b1, b2⟩ := takeBestArg_none_spec pens _ hne htb
  refine ⟨rfl, rfl, ⟨last, ?_, hl2, a3, a4, a1, a2, hcase⟩, b1, b2⟩
  rw [hlen, ← List.getLast?_eq_getElem?]
  exact hl1

/-! ### (2b) reload -/

/-- **`take_best`, branch "an earlier row is better".**  The tolerance flag is off after the loop and the decision
    `takeBestArg pens s.log.length` is `some i`, for `pens` the implementation's recorded penalties (ANY list: if it
    had more entries than the call has rows and pointed beyond them, `reload` would raise).  Then on normal return
    the call has reloaded log row `i`: `i - s.log.length = argmin pens` is a position of the call's rows that is not
    the last position of `pens`; masks are that row's (= the entry masks), the container is the row's weight round trip
    `k ↦ (k / w) * w` on the active knobs (so each knob is the row's value or its image), exactly one more row — a
    copy of it — has been appended; and the penalty recorded at that position is ≤ the penalty at every position,
    strictly below every earlier one (it is the FIRST minimum). -/
theorem optStep_take_best_reload_branch {K : Type} [LinearOrder K] (pens : List K) (c : Cfg R)
    (its : List (Iter R)) (s sl s' : St R) (i : Nat)
    (hb : optBody c its s = (.ok (), sl))
    (hw : sl.lastWithin = false)
    (htb : takeBestArg pens s.log.length = some i)
    (h : optStep c its (takeBestArg pens s.log.length) s = (.ok (), s')) :
    s.log.length ≤ i ∧ i - s.log.length = Argmin.argmin pens ∧ Argmin.argmin pens + 1 < pens.length ∧
    (∃ row, sl.log[i]? = some row ∧ (sl.log.drop s.log.length)[Argmin.argmin pens]? = some row ∧
      s'.log = sl.log ++ [row] ∧ s'.vAct = row.vAct ∧ s'.tAct = row.tAct ∧
      row.vAct = s.vAct ∧ row.tAct = s.tAct ∧
      s'.knobs = roundTrip c row.vAct row.knobs ∧
      (∀ j, s'.knobs j = row.knobs j ∨ s'.knobs j = c.mulW j (c.divW j (row.knobs j))) ∧ Coh c s') ∧
    ∃ v, pens[Argmin.argmin pens]? = some v ∧ (∀ (j : Nat) (y : K), pens[j]? = some y → v ≤ y) ∧
      (∀ (j : Nat) (y : K), j < Argmin.argmin pens → pens[j]? = some y → v < y) := by
  obtain ⟨b1, b2, b3, b4, b5⟩ := takeBestArg_some_spec pens _ i htb
  rw [htb, b2] at h
  obtain ⟨row, r1, r2, r3⟩ := optStep_reload_position c its s sl s' _ hb hw h
  rw [← b2] at r2
  exact ⟨b1, b3, b4, ⟨row, r2, r1, r3⟩, b5⟩

/-! ### both branches -/

/-- **`step(take_best=True)` as the code runs it**, penalties per position.  `sl` is the state the body of the call
    (start row, loop) leaves, `pens` the implementation's recorded penalties of the rows it appended (one per row:
    `hlen`), the `take_best` argument is the code's decision `takeBestArg pens s.log.length`.  A normal return ends
    * on `sl` with every active target within tolerance (flag set: nothing is reloaded), or
    * (flag off, decision `none`) on `sl`, nothing more appended, the last appended row at the position of the first
      minimum of `pens` — see `optStep_take_best_none_branch`, or
    * (flag off, decision `some i`) on the reloaded row `i` — see `optStep_take_best_reload_branch`. -/
theorem optStep_take_best_pens {K : Type} [LinearOrder K] (pens : List K) (c : Cfg R) (its : List (Iter R))
    (s sl s' : St R)
    (hb : optBody c its s = (.ok (), sl))
    (hlen : pens.length = (sl.log.drop s.log.length).length)
    (h : optStep c its (takeBestArg pens s.log.length) s = (.ok (), s')) :
    (sl.lastWithin = true ∧ s' = sl ∧ ∃ res, c.f s'.knobs = some res ∧ c.within res s'.tAct = true) ∨
    (sl.lastWithin = false ∧ takeBestArg pens s.log.length = none ∧ s' = sl ∧ s'.log = sl.log ∧
      (∃ last, (s'.log.drop s.log.length)[pens.length - 1]? = some last ∧ s'.log.getLast? = some last ∧
        s'.vAct = last.vAct ∧ s'.tAct = last.tAct ∧ last.vAct = s.vAct ∧ last.tAct = s.tAct ∧
        (rowOf s' = last ∨
         (s'.log.drop s.log.length = [rowOf s] ∧ last = rowOf s ∧
          rowOf s' = ⟨roundTrip c s.vAct s.knobs, s.vAct, s.tAct⟩))) ∧
      Argmin.argmin pens + 1 = pens.length ∧
      ∃ v, pens[pens.length - 1]? = some v ∧ (∀ (j : Nat) (y : K), pens[j]? = some y → v ≤ y) ∧
        (∀ (j : Nat) (y : K), j < pens.length - 1 → pens[j]? = some y → v < y)) ∨
    (sl.lastWithin = false ∧ ∃ i, takeBestArg pens s.log.length = some i ∧
      s.log.length ≤ i ∧ i - s.log.length = Argmin.argmin pens ∧ Argmin.argmin pens + 1 < pens.length ∧
      (∃ row, sl.log[i]? = some row ∧ (sl.log.drop s.log.length)[Argmin.argmin pens]? = some row ∧
        s'.log = sl.log ++ [row] ∧ s'.vAct = row.vAct ∧ s'.tAct = row.tAct ∧
        row.vAct = s.vAct ∧ row.tAct = s.tAct ∧
        s'.knobs = roundTrip c row.vAct row.knobs ∧
        (∀ j, s'.knobs j = row.knobs j ∨ s'.knobs j = c.mulW j (c.divW j (row.knobs j))) ∧ Coh c s') ∧
      ∃ v, pens[Argmin.argmin pens]? = some v ∧ (∀ (j : Nat) (y : K), pens[j]? = some y → v ≤ y) ∧
        (∀ (j : Nat) (y : K), j < Argmin.argmin pens → pens[j]? = some y → v < y)) := by
  cases hw : sl.lastWithin with
  | true =>
    left
    have hs : s' = sl := by
      cases htb : takeBestArg pens s.log.length with
      | none =>
        rw [htb, optStep_of_body_none c its s sl hb] at h
        exact ((Prod.mk.inj h).2).symm
      | some i =>
        rw [htb, optStep_of_body_some c its i s sl hb, if_pos hw] at h
        exact ((Prod.mk.inj h).2).symm
    subst hs
    obtain ⟨_, _, _, _, _, _, _, coh, _⟩ := optBody_ok c its s s' hb
    exact ⟨rfl, rfl, matched_of_coh c s' coh hw⟩
  | false =>
    right
    cases htb : takeBestArg pens s.log.length with
    | none =>
      left
      obtain ⟨a1, a2, a3, a4, a5⟩ := optStep_take_best_none_branch pens c its s sl s' hb hlen htb h
      exact ⟨rfl, rfl, a1, a2, a3, a4, a5⟩
    | some i =>
      right
      obtain ⟨a1, a2, a3, a4, a5⟩ := optStep_take_best_reload_branch pens c its s sl s' i hb hw htb h
      exact ⟨rfl, i, rfl, a1, a2, a3, a4, a5⟩

/-! ### (3) the content-based statement is the special case `pens := rows.map pen` -/

/-- position facts about `rows.map pen` read on the rows -/
theorem pens_of_rows {K : Type} [LinearOrder K] (pen : Row R → K) (rows : List (Row R)) (k : Nat) (r : Row R)
    (v : K) (hr : rows[k]? = some r) (hv : (rows.map pen)[k]? = some v)
    (hmin : ∀ (j : Nat) (y : K), (rows.map pen)[j]? = some y → v ≤ y) :
    v = pen r ∧ ∀ r' ∈ rows, pen r ≤ pen r' := by
  rw [List.getElem?_map, hr] at hv
  have e : v = pen r := by simpa using hv.symm
  refine ⟨e, ?_⟩
  intro r' hr'
  obtain ⟨j, hj⟩ := List.getElem?_of_mem hr'
  rw [← e]
  exact hmin j (pen r') (by rw [List.getElem?_map, hj]; rfl)

/-- **the content-based form, with the code's decision**: for a penalty that is a function of the row content,
    `pens := rows.map pen` (the length hypothesis holds by construction) — the conclusions of
    `optStep_take_best_pens` read on the rows: in the no-reload branch the last appended row has minimal `pen`, in the
    reload branch the reloaded row has (as in `optStep_take_best_argmin`). -/
theorem optStep_take_best_content {K : Type} [LinearOrder K] (pen : Row R → K) (c : Cfg R) (its : List (Iter R))
    (s sl s' : St R)
    (hb : optBody c its s = (.ok (), sl))
    (h : optStep c its (takeBestArg ((sl.log.drop s.log.length).map pen) s.log.length) s = (.ok (), s')) :
    (sl.lastWithin = true ∧ s' = sl ∧ ∃ res, c.f s'.knobs = some res ∧ c.within res s'.tAct = true) ∨
    (sl.lastWithin = false ∧ takeBestArg ((sl.log.drop s.log.length).map pen) s.log.length = none ∧ s' = sl ∧
      ∃ last, s'.log.getLast? = some last ∧ last ∈ sl.log.drop s.log.length ∧
        (rowOf s' = last ∨
          (last = rowOf s ∧ rowOf s' = ⟨roundTrip c s.vAct s.knobs, s.vAct, s.tAct⟩)) ∧
        (∀ r' ∈ sl.log.drop s.log.length, pen last ≤ pen r') ∧ pen last ≤ pen (rowOf s)) ∨
    (sl.lastWithin = false ∧ ∃ r, r ∈ sl.log.drop s.log.length ∧
      takeBestArg ((sl.log.drop s.log.length).map pen) s.log.length =
        some (Argmin.argmin ((sl.log.drop s.log.length).map pen) + s.log.length) ∧
      (sl.log.drop s.log.length)[Argmin.argmin ((sl.log.drop s.log.length).map pen)]? = some r ∧
      s'.vAct = r.vAct ∧ s'.tAct = r.tAct ∧ r.vAct = s.vAct ∧ r.tAct = s.tAct ∧
      s'.knobs = roundTrip c r.vAct r.knobs ∧
      (∀ j, s'.knobs j = r.knobs j ∨ s'.knobs j = c.mulW j (c.divW j (r.knobs j))) ∧
      s'.log = sl.log ++ [r] ∧
      (∀ r' ∈ sl.log.drop s.log.length, pen r ≤ pen r') ∧ pen r ≤ pen (rowOf s)) := by
  obtain ⟨_, _, _, _, _, hstart, _⟩ := optBody_rows_head c its s sl hb
  rcases optStep_take_best_pens ((sl.log.drop s.log.length).map pen) c its s sl s' hb (by simp) h with
    h1 | ⟨hw, htb, hs, _, ⟨last, l1, l2, _, _, _, _, l7⟩, _, v, hv, hmin, _⟩ |
    ⟨hw, i, htb, _, _, _, ⟨row, _, r2, r3, r4, r5, r6, r7, r8, r9, _⟩, v, hv, hmin, _⟩
  · exact Or.inl h1
  · subst hs
    simp only [List.length_map] at l1 hv
    obtain ⟨_, hm⟩ := pens_of_rows pen _ _ last v l1 hv hmin
    refine Or.inr (Or.inl ⟨hw, htb, rfl, last, l2, List.mem_of_getElem? l1, ?_, hm, hm _ hstart⟩)
    rcases l7 with l7 | ⟨_, l8, l9⟩
    · exact Or.inl l7
    · exact Or.inr ⟨l8, l9⟩
  · obtain ⟨_, hm⟩ := pens_of_rows pen _ _ row v r2 hv hmin
    obtain ⟨_, hi, _⟩ := takeBestArg_some_spec _ _ i htb
    refine Or.inr (Or.inr ⟨hw, row, List.mem_of_getElem? r2, by rw [htb, hi], r2, r4, r5, r6, r7, r8, r9, r3, hm,
      hm _ hstart⟩)

/-- **the older theorem `optStep_take_best_argmin`, reload branch, re-derived from the per-position one**: its call
    (`some (n + argmin (rows.map pen))`) is the code's call exactly when the argmin is not the last position (`hnl`);
    under that hypothesis its conclusion is the instance `pens := rows.map pen` of `optStep_take_best_pens`.  (Without
    `hnl` the older theorem describes a call the code does not make: see the `[…, 8, 8]` example in
    `XModel/OptBest3.lean`.) -/
theorem optStep_take_best_argmin_of_pens {K : Type} [LinearOrder K] (pen : Row R → K) (c : Cfg R)
    (its : List (Iter R)) (s sl s' : St R)
    (hb : optBody c its s = (.ok (), sl))
    (hnl : Argmin.argmin ((sl.log.drop s.log.length).map pen) + 1 ≠ (sl.log.drop s.log.length).length)
    (hw : sl.lastWithin = false)
    (h : optStep c its (some (s.log.length + Argmin.argmin ((sl.log.drop s.log.length).map pen))) s = (.ok (), s')) :
    ∃ r, r ∈ sl.log.drop s.log.length ∧
      (sl.log.drop s.log.length)[Argmin.argmin ((sl.log.drop s.log.length).map pen)]? = some r ∧
      s'.vAct = r.vAct ∧ s'.tAct = r.tAct ∧ r.vAct = s.vAct ∧ r.tAct = s.tAct ∧
      s'.knobs = roundTrip c r.vAct r.knobs ∧
      (∀ j, s'.knobs j = r.knobs j ∨ s'.knobs j = c.mulW j (c.divW j (r.knobs j))) ∧
      s'.log = sl.log ++ [r] ∧
      (∀ r' ∈ sl.log.drop s.log.length, pen r ≤ pen r') ∧ pen r ≤ pen (rowOf s) := by
  obtain ⟨hne, _⟩ := optBody_rows_head c its s sl hb
  have htb : takeBestArg ((sl.log.drop s.log.length).map pen) s.log.length =
      some (s.log.length + Argmin.argmin ((sl.log.drop s.log.length).map pen)) := by
    rw [takeBestArg_some_iff]
    exact ⟨by simpa using hne, by simpa using hnl, Nat.add_comm _ _⟩
  rw [← htb] at h
  rcases optStep_take_best_content pen c its s sl s' hb h with ⟨hw', _⟩ | ⟨_, hn, _⟩ | ⟨_, r, a1, _, a3, a4⟩
  · rw [hw] at hw'; cases hw'
  · rw [htb] at hn; cases hn
  · exact ⟨r, a1, a3, a4⟩

/-! ### the hypotheses are satisfiable: runs L and A of `Opt.BestExample` -/
namespace BestExample

def pensL : List Int := [36, 1]
def endL : St Int := (optStep cfg itsL (takeBestArg pensL s0.log.length) s0).2

theorem hlenL : pensL.length = (slL.log.drop s0.log.length).length := by decide +kernel
theorem htbL : takeBestArg pensL s0.log.length = none := by decide +kernel
theorem hL : optStep cfg itsL (takeBestArg pensL s0.log.length) s0 = (.ok (), endL) :=
  ok_eta _ (by decide +kernel)

/-- run L, recorded penalties `[36, 1]`: the hypotheses of the no-reload branch hold; the call ends on the loop's
    state, whose container and masks are the last appended row -/
example : endL = slL ∧ ∃ last, endL.log.getLast? = some last ∧ rowOf endL = last := by
  obtain ⟨a1, _, ⟨last, _, l2, _, _, _, _, l7⟩, _⟩ :=
    optStep_take_best_none_branch pensL cfg itsL s0 slL endL hbL hlenL htbL hL
  refine ⟨a1, last, l2, ?_⟩
  rcases l7 with l7 | ⟨l8, _⟩
  · exact l7
  · -- the call's rows are not just the start row: one iteration ran
    have : (endL.log.drop s0.log.length).length = 1 := by rw [l8]; rfl
    exact absurd this (by decide +kernel)

example : endL.log.map (fun r => r.knobs 0) = [100, 3, 8] ∧ endL.knobs 0 = 8 := by decide +kernel

def pensA : List Int := [36, 1, 49]
def endA3 : St Int := (optStep cfg itsA (takeBestArg pensA s0.log.length) s0).2

theorem hwA : slA.lastWithin = false := by decide +kernel
theorem htbA : takeBestArg pensA s0.log.length = some 2 := by decide +kernel
theorem hA3 : optStep cfg itsA (takeBestArg pensA s0.log.length) s0 = (.ok (), endA3) :=
  ok_eta _ (by decide +kernel)

/-- run A, recorded penalties `[36, 1, 49]`: the hypotheses of the reload branch hold; log row 2 (position 1 of the
    call) is reloaded -/
example : ∃ row, slA.log[2]? = some row ∧ endA3.log = slA.log ++ [row] ∧
    endA3.knobs = roundTrip cfg row.vAct row.knobs := by
  obtain ⟨_, _, _, ⟨row, r1, _, r3, _, _, _, _, r8, _⟩, _⟩ :=
    optStep_take_best_reload_branch pensA cfg itsA s0 slA endA3 2 hbA hwA htbA hA3
  exact ⟨row, r1, r3, r8⟩

example : endA3.log.map (fun r => r.knobs 0) = [100, 3, 10, 2, 10] ∧ endA3.knobs 0 = 10 := by decide +kernel

/-- the combined theorem on run A -/
example : True := by
  have := optStep_take_best_pens pensA cfg itsA s0 slA endA3 hbA (by decide +kernel) hA3
  trivial

/-- the content-based special case on run A with `pen` = squared distance to 9: the decision computed from
    `rows.map pen = [36, 1, 49]` is the same -/
example : takeBestArg ((slA.log.drop s0.log.length).map pen) s0.log.length = some 2 := by decide +kernel

end BestExample

#print axioms Argmin.argmin_first
#print axioms Argmin.argmin_spec
#print axioms takeBestArg_none_spec
#print axioms takeBestArg_some_spec
#print axioms optStep_take_best_none_branch
#print axioms optStep_take_best_reload_branch
#print axioms optStep_take_best_pens
#print axioms optStep_take_best_content
#print axioms optStep_take_best_argmin_of_pens
#print axioms BestExample.hL
#print axioms BestExample.hA3

end Opt
