import Mathlib.Data.Matrix.Mul
import Mathlib.Data.Matrix.Diagonal
import Mathlib.Algebra.Order.Field.Basic
import Mathlib.Algebra.Order.BigOperators.Ring.Finset
import Mathlib.Tactic.Ring
import Mathlib.Tactic.Abel
import Mathlib.Tactic.Linarith

open Matrix

namespace LS
variable {K : Type} [Field K] [LinearOrder K] [IsStrictOrderedRing K]
variable {m n : Type} [Fintype m] [Fintype n]

theorem dot_self_nonneg (v : m → K) : 0 ≤ v ⬝ᵥ v := by
  unfold dotProduct
  exact Finset.sum_nonneg (fun i _ => mul_self_nonneg (v i))

theorem dot_self_eq_zero {v : m → K} (h : v ⬝ᵥ v = 0) : v = 0 := by
  unfold dotProduct at h
  have := (Finset.sum_eq_zero_iff_of_nonneg (fun i _ => mul_self_nonneg (v i))).mp h
  funext i
  exact mul_self_eq_zero.mp (this i (Finset.mem_univ i))

/-- normal equations ⇒ least squares -/
theorem ls_of_normal (A : Matrix m n K) (b : m → K) (x : n → K)
    (hN : Aᵀ *ᵥ (A *ᵥ x - b) = 0) (z : n → K) :
    (A *ᵥ x - b) ⬝ᵥ (A *ᵥ x - b) ≤ (A *ᵥ z - b) ⬝ᵥ (A *ᵥ z - b) := by
  set r := A *ᵥ x - b with hr
  set d := z - x with hd
  have hz : A *ᵥ z - b = r + A *ᵥ d := by
    rw [hd, Matrix.mulVec_sub, hr]; abel
  have hcross : r ⬝ᵥ (A *ᵥ d) = 0 := by
    rw [Matrix.dotProduct_mulVec, ← Matrix.mulVec_transpose, hN, zero_dotProduct]
  rw [hz, add_dotProduct, dotProduct_add, dotProduct_add, hcross, dotProduct_comm (A *ᵥ d) r, hcross]
  have := dot_self_nonneg (A *ᵥ d)
  linarith

/-- among all solutions of the normal equations, one that lies in the row space has minimal norm -/
theorem minnorm_of_range (A : Matrix m n K) (b : m → K) (x : n → K) (w : m → K)
    (hx : x = Aᵀ *ᵥ w) (hN : Aᵀ *ᵥ (A *ᵥ x) = Aᵀ *ᵥ b)
    (z : n → K) (hz : Aᵀ *ᵥ (A *ᵥ z) = Aᵀ *ᵥ b) : x ⬝ᵥ x ≤ z ⬝ᵥ z := by
  set d := z - x with hd
  have hAd : Aᵀ *ᵥ (A *ᵥ d) = 0 := by
    rw [hd, Matrix.mulVec_sub, Matrix.mulVec_sub, hz, hN, sub_self]
  have hAd0 : A *ᵥ d = 0 := by
    apply dot_self_eq_zero
    have : (A *ᵥ d) ⬝ᵥ (A *ᵥ d) = d ⬝ᵥ (Aᵀ *ᵥ (A *ᵥ d)) := by
      rw [Matrix.dotProduct_mulVec, ← Matrix.mulVec_transpose, dotProduct_comm]
    rw [this, hAd, dotProduct_zero]
  have hxd : x ⬝ᵥ d = 0 := by
    rw [hx, dotProduct_comm, Matrix.dotProduct_mulVec, ← Matrix.mulVec_transpose, Matrix.transpose_transpose,
      hAd0, zero_dotProduct]
  have hzx : z = x + d := by rw [hd]; abel
  rw [hzx, add_dotProduct, dotProduct_add, dotProduct_add, hxd, dotProduct_comm d x, hxd]
  have := dot_self_nonneg d
  linarith

#print axioms ls_of_normal
#print axioms minnorm_of_range
end LS
