import Mathlib.Algebra.Order.Field.Basic
import Mathlib.Algebra.Order.AbsoluteValue.Basic
import Mathlib.Tactic.Linarith
import Mathlib.Tactic.FieldSimp
import Mathlib.Tactic.Ring
import XModel.OptNum
import XModel.OptMaxStep
import XProofs.Clip
/-!
# C10, `max_step`: connected to the control skeleton of `Optimize.step`

`OptNum.clip` / `OptNum.trialPoint` are the functions the driver replays bit for bit on IEEE doubles against the recorded
calls of `_clip_to_max_steps` and the recorded trial points of `JacobianSolver.step`.  Instantiated with exact arithmetic:

* the clipped step respects every `max_step / weight`; a trial point `x - 2^-alpha * xstep` (coordinates that would
  leave the limits stay put) is no further from `x` than the clipped step;
* on the skeleton of `Optimize.step`, the row an iteration appends differs from the container it started from by at most
  `max_step` per knob (plus the slack `e` the code allows between container and `solver.x` when it does not re-assign
  `solver.x`: `np.allclose(..., atol=1e-12)`; zero from the second iteration on), and so do consecutive rows of the loop.
-/
namespace MaxStep
open OptNum

variable {K : Type} [Field K] [LinearOrder K] [IsStrictOrderedRing K]

/-- exact arithmetic -/
def fo : Ops K := ⟨(· - ·), (· * ·), (· / ·), abs, fun a b => decide (a < b), 0⟩

theorem clipAt_eq (maxs : Nat → Option K) (out : Nat → K) (i : Nat) :
    OptNum.clipAt fo maxs out i = Clip.clipAt maxs out i := by
  unfold OptNum.clipAt Clip.clipAt
  cases maxs i with
  | none => rfl
  | some m =>
    simp only [fo, decide_eq_true_eq, gt_iff_lt]

theorem clip_eq (maxs : Nat → Option K) (n : Nat) (x : Nat → K) : OptNum.clip fo maxs n x = Clip.clip maxs n x := by
  unfold OptNum.clip Clip.clip
  congr 1
  funext out i
  exact clipAt_eq maxs out i

/-- the clipped step respects every bound -/
theorem clip_bound (maxs : Nat → Option K) (n : Nat) (x : Nat → K)
    (hpos : ∀ k m, maxs k = some m → 0 ≤ m) (i : Nat) (hi : i < n) (m : K) (hm : maxs i = some m) :
    |OptNum.clip fo maxs n x i| ≤ m := by
  rw [clip_eq]; exact Clip.clip_bound maxs n x hpos i hi m hm

/-- a sub-step is no longer than the step it scales -/
theorem trialStep_le (lo hi x xs : Nat → K) (scal : K) (h0 : 0 ≤ scal) (h1 : scal ≤ 1) (i : Nat) :
    |trialStep fo lo hi x xs scal i| ≤ |xs i| := by
  unfold trialStep
  simp only [fo, decide_eq_true_eq]
  split
  · simp
  · split
    · simp
    · rw [abs_mul, abs_of_nonneg h0]
      calc scal * |xs i| ≤ 1 * |xs i| := mul_le_mul_of_nonneg_right h1 (abs_nonneg _)
        _ = |xs i| := one_mul _

theorem trialPoint_move (lo hi x xs : Nat → K) (scal : K) (h0 : 0 ≤ scal) (h1 : scal ≤ 1) (i : Nat) :
    |trialPoint fo lo hi x xs scal i - x i| ≤ |xs i| := by
  have h := trialStep_le lo hi x xs scal h0 h1 i
  have e : trialPoint fo lo hi x xs scal i - x i = - trialStep fo lo hi x xs scal i := by
    simp only [trialPoint, fo]; ring
  rw [e, abs_neg]; exact h

/-- a trial point stays inside limits that hold at `x` -/
theorem trialPoint_inside (lo hi x xs : Nat → K) (scal : K) (i : Nat) (hx : lo i ≤ x i ∧ x i ≤ hi i) :
    lo i ≤ trialPoint fo lo hi x xs scal i ∧ trialPoint fo lo hi x xs scal i ≤ hi i := by
  unfold trialPoint trialStep
  simp only [fo, decide_eq_true_eq]
  split
  · simpa using hx
  · next h1 =>
    split
    · simpa using hx
    · next h2 => exact ⟨not_lt.mp h1, not_lt.mp h2⟩

/-- **one Jacobian step, in knob units**: the point the solver moves to — a trial point of the clipped step — is, times
    the weight, within `max_step` of the start point times the weight -/
theorem step_within_max_step (maxStep wt : Nat → Option K) (n : Nat) (raw lo hi x : Nat → K) (scal : K)
    (h0 : 0 ≤ scal) (h1 : scal ≤ 1) (hms : ∀ k m, maxStep k = some m → 0 ≤ m) (hw : ∀ k w, wt k = some w → 0 < w)
    (i : Nat) (hi' : i < n) (m : K) (hm : maxStep i = some m) :
    |trialPoint fo lo hi x (OptNum.clip fo (maxsOf fo maxStep wt) n raw) scal i - x i| * (wt i).getD 1 ≤ m := by
  have hpos : ∀ k mk, maxsOf fo maxStep wt k = some mk → 0 ≤ mk := by
    intro k mk hk
    unfold maxsOf at hk
    cases hmk : maxStep k with
    | none => simp [hmk] at hk
    | some m' =>
      cases hwk : wt k with
      | none => simp [hmk, hwk] at hk; rw [← hk]; exact hms k m' hmk
      | some w =>
        simp only [hmk, hwk, Option.some.injEq] at hk
        rw [← hk]
        exact div_nonneg (hms k m' hmk) (le_of_lt (hw k w hwk))
  have hmove := trialPoint_move lo hi x (OptNum.clip fo (maxsOf fo maxStep wt) n raw) scal h0 h1 i
  cases hwi : wt i with
  | none =>
    have hb := clip_bound (maxsOf fo maxStep wt) n raw hpos i hi' m (by simp [maxsOf, hm, hwi])
    simp only [Option.getD_none, mul_one]
    exact le_trans hmove hb
  | some w =>
    have hwpos := hw i w hwi
    have hb := clip_bound (maxsOf fo maxStep wt) n raw hpos i hi' (m / w) (by simp [maxsOf, hm, hwi, fo])
    simp only [Option.getD_some]
    have := le_trans hmove hb
    calc _ ≤ (m / w) * w := mul_le_mul_of_nonneg_right this (le_of_lt hwpos)
      _ = m := div_mul_cancel₀ m (ne_of_gt hwpos)

/-! ### on the skeleton of `Optimize.step` -/

open Opt

/-- the configuration multiplies / divides by positive weights -/
structure Weights (c : Cfg K) (W : Nat → K) : Prop where
  mul : ∀ i x, c.mulW i x = x * W i
  div : ∀ i k, c.divW i k = k / W i
  pos : ∀ i, 0 < W i

/-- the solver's move of one iteration is bounded in knob units (for a solver step: by `step_within_max_step`) -/
def StepOK (c : Cfg K) (W : Nat → K) (ms : Nat → Option K) (s : St K) (it : Iter K) : Prop :=
  it.early = false → ∀ i, i < c.n → ∀ m, ms i = some m → |it.last i - iterX0 c it.resync s i| * W i ≤ m

/-- container and `solver.x` agree up to `e` on the active knobs -/
def Near (c : Cfg K) (W : Nat → K) (e : K) (s : St K) : Prop :=
  ∀ i, i < c.n → s.vAct i = true → |s.knobs i - s.solverX i * W i| ≤ e

/-- **one iteration**: the appended row is within `max_step + e` of the container the iteration started from, and
    afterwards container and `solver.x` agree exactly -/
theorem optIter_move (c : Cfg K) (W : Nat → K) (ms : Nat → Option K) (hc : Weights c W) (e : K) (he : 0 ≤ e)
    (hms : ∀ k m, ms k = some m → 0 ≤ m) (it : Iter K) (s s' : St K)
    (hnear : it.resync = false → Near c W e s) (hstep : StepOK c W ms s it)
    (h : optIter c it.resync it.early it.jac it.trials it.last it.pe s = (.ok (), s')) :
    (∃ row, s'.log = s.log ++ [row] ∧ row.knobs = s'.knobs ∧ row.vAct = s.vAct) ∧
    (∀ i, i < c.n → s.vAct i = true → ∀ m, ms i = some m → |s'.knobs i - s.knobs i| ≤ m + e) ∧
    Near c W 0 s' ∧ s'.vAct = s.vAct := by
  obtain ⟨hx, hv, _, hl, hk⟩ := optIter_row c it.resync it.early it.jac it.trials it.last it.pe s s' h
  refine ⟨⟨_, hl, rfl, hv⟩, ?_, ?_, hv⟩
  · intro i hi ha m hm
    have hm0 := hms i m hm
    have hWi := hc.pos i
    rw [hk i hi ha, hc.mul]
    -- distance between the new and the old solver point, in knob units
    have hd : |iterX1 c it.resync it.early it.last s i - iterX0 c it.resync s i| * W i ≤ m := by
      cases hearly : it.early with
      | true => simp [iterX1, hm0]
      | false => simpa [iterX1, hearly] using hstep hearly i hi m hm
    have hd' : |iterX1 c it.resync it.early it.last s i * W i - iterX0 c it.resync s i * W i| ≤ m := by
      rw [← sub_mul, abs_mul, abs_of_pos hWi]; exact hd
    -- distance between the old solver point and the container
    have h0 : |iterX0 c it.resync s i * W i - s.knobs i| ≤ e := by
      cases hres : it.resync with
      | true =>
        simp only [iterX0, if_true, extractX, hc.div]
        rw [div_mul_cancel₀ _ (ne_of_gt hWi)]
        simpa using he
      | false =>
        simp only [iterX0, Bool.false_eq_true, if_false]
        rw [abs_sub_comm]
        exact hnear hres i hi ha
    calc |iterX1 c it.resync it.early it.last s i * W i - s.knobs i|
        = |(iterX1 c it.resync it.early it.last s i * W i - iterX0 c it.resync s i * W i)
            + (iterX0 c it.resync s i * W i - s.knobs i)| := by ring_nf
      _ ≤ _ := abs_add_le _ _
      _ ≤ m + e := add_le_add hd' h0
  · intro i hi ha
    have ha0 : s.vAct i = true := by rw [← hv]; exact ha
    rw [hk i hi ha0, hx, hc.mul]
    simp

/-- every executed iteration takes a bounded move -/
def LoopOK (c : Cfg K) (W : Nat → K) (ms : Nat → Option K) : St K → List (Iter K) → Prop
  | _, [] => True
  | s, it :: rest => StepOK c W ms s it ∧
      ∀ s', optIter c it.resync it.early it.jac it.trials it.last it.pe s = (.ok (), s') → s'.lastWithin = false →
        LoopOK c W ms s' rest

/-- consecutive rows: each is within `max_step` (plus `e` for the first) of its predecessor on the active knobs -/
def Chain (n : Nat) (act : Nat → Bool) (ms : Nat → Option K) : K → (Nat → K) → List (Row K) → Prop
  | _, _, [] => True
  | e, prev, r :: rs =>
    (∀ i, i < n → act i = true → ∀ m, ms i = some m → |r.knobs i - prev i| ≤ m + e) ∧ Chain n act ms 0 r.knobs rs

/-- **the loop of `Optimize.step`**, whatever its outcome: the rows it appends form a chain of moves bounded by
    `max_step`, starting from the container at loop entry -/
theorem optLoop_chain (c : Cfg K) (W : Nat → K) (ms : Nat → Option K) (hc : Weights c W)
    (hms : ∀ k m, ms k = some m → 0 ≤ m) : ∀ (its : List (Iter K)) (e : K) (s s' : St K) (r : Except Err Unit),
    0 ≤ e → (∀ it rest, its = it :: rest → it.resync = false → Near c W e s) → LoopOK c W ms s its →
    optLoop c its s = (r, s') → ∃ suf, s'.log = s.log ++ suf ∧ Chain c.n s.vAct ms e s.knobs suf
  | [], e, s, s', r, _, _, _, h => by
    simp only [optLoop, pure'] at h; cases h; exact ⟨[], by simp, trivial⟩
  | it :: rest, e, s, s', r, he, hnear, hok, h => by
    simp only [optLoop, bind'] at h
    cases h1 : optIter c it.resync it.early it.jac it.trials it.last it.pe s with
    | mk r1 s1 =>
      rw [h1] at h
      cases r1 with
      | error e1 =>
        simp only at h; cases h
        exact ⟨[], by simp [optIter_error_log c _ _ _ _ _ _ s _ e1 h1], trivial⟩
      | ok u =>
        obtain ⟨⟨row, hl, hrk, _⟩, hmove, hnear1, hv1⟩ :=
          optIter_move c W ms hc e he hms it s s1 (hnear it rest rfl) hok.1 h1
        simp only at h
        by_cases hw : s1.lastWithin = true
        · simp only [hw, if_true] at h; cases h
          refine ⟨[row], hl, ?_, trivial⟩
          intro i hi ha m hm; rw [hrk]; exact hmove i hi ha m hm
        · simp only [hw] at h
          have hw' : s1.lastWithin = false := by simpa using hw
          obtain ⟨suf, hs, hch⟩ := optLoop_chain c W ms hc hms rest 0 s1 s' r (le_refl 0)
            (fun _ _ _ _ => hnear1) (hok.2 s1 h1 hw') h
          refine ⟨row :: suf, by rw [hs, hl]; simp, ?_, ?_⟩
          · intro i hi ha m hm; rw [hrk]; exact hmove i hi ha m hm
          · rw [hrk, ← hv1]; exact hch


/-- in exact arithmetic `add_point_to_log` leaves the container as it was -/
theorem addPoint_knobs (c : Cfg K) (W : Nat → K) (hc : Weights c W) (s s' : St K) (h : addPoint c s = (.ok (), s')) :
    s'.knobs = s.knobs := by
  obtain ⟨_, _, _, k1, k2⟩ := addPoint_row c s s' h
  funext i
  by_cases hi : i < c.n ∧ s.vAct i = true
  · rw [k1 i hi.1 hi.2, hc.mul, hc.div, div_mul_cancel₀ _ (ne_of_gt (hc.pos i))]
  · refine k2 i ?_
    by_cases h1 : i < c.n
    · right; simpa using fun h2 => hi ⟨h1, h2⟩
    · left; omega

/-- **`Optimize.step`, whatever its outcome**: the log is unchanged (the start evaluation raised), or the rows appended
    are: the container at the start of the call, then a chain of moves each bounded by `max_step` on every active knob
    (the first one up to the slack `e` between container and `solver.x` when `solver.x` was not re-assigned), then at
    most one row of the `take_best` reload -/
theorem optStep_chain (c : Cfg K) (W : Nat → K) (ms : Nat → Option K) (hc : Weights c W)
    (hms : ∀ k m, ms k = some m → 0 ≤ m) (its : List (Iter K)) (tb : Option Nat) (e : K) (he : 0 ≤ e)
    (s s' : St K) (r : Except Err Unit)
    (hnear : ∀ it rest, its = it :: rest → it.resync = false → Near c W e s)
    (hok : ∀ s1, addPoint c s = (.ok (), s1) → LoopOK c W ms s1 its)
    (h : optStep c its tb s = (r, s')) :
    s'.log = s.log ∨ ∃ suf tail, s'.log = s.log ++ (⟨s.knobs, s.vAct, s.tAct⟩ :: suf) ++ tail ∧
      Chain c.n s.vAct ms e s.knobs suf ∧ tail.length ≤ 1 := by
  simp only [optStep, bind'] at h
  cases h1 : addPoint c s with
  | mk r1 s1 =>
    rw [h1] at h
    cases r1 with
    | error e1 =>
      simp only at h; cases h
      rcases addPoint_log_cases c s _ _ h1 with hl | hl
      · exact Or.inl hl
      · exact Or.inr ⟨[], [], by simp [hl], trivial, by simp⟩
    | ok u =>
      obtain ⟨l1, v1, x1, _, _⟩ := addPoint_row c s s1 h1
      have k1 := addPoint_knobs c W hc s s1 h1
      simp only at h
      have hnear1 : ∀ it rest, its = it :: rest → it.resync = false → Near c W e s1 := by
        intro it rest hits hres i hi ha
        rw [k1, x1]; exact hnear it rest hits hres i hi (by rw [← v1]; exact ha)
      cases h2 : optLoop c its s1 with
      | mk r2 s2 =>
        rw [h2] at h
        obtain ⟨suf, hs, hch⟩ := optLoop_chain c W ms hc hms its e s1 s2 r2 he hnear1 (hok s1 h1) h2
        rw [k1, v1] at hch
        right
        cases r2 with
        | error e2 =>
          simp only at h; cases h
          exact ⟨suf, [], by simp [hs, l1], hch, by simp⟩
        | ok u2 =>
          simp only at h
          cases tb with
          | none => simp only at h; cases h; exact ⟨suf, [], by simp [hs, l1], hch, by simp⟩
          | some i =>
            simp only at h
            by_cases hw : s2.lastWithin = true
            · simp only [hw, if_true] at h; cases h; exact ⟨suf, [], by simp [hs, l1], hch, by simp⟩
            · simp only [hw] at h
              rcases reload_log_cases c i s2 s' r h with h3 | ⟨row, h3⟩
              · exact ⟨suf, [], by simp [h3, hs, l1], hch, by simp⟩
              · exact ⟨suf, [row], by simp [h3, hs, l1], hch, by simp⟩

end MaxStep
