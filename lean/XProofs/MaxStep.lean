import Mathlib.Algebra.Order.Field.Basic
import Mathlib.Algebra.Order.AbsoluteValue.Basic
import Mathlib.Tactic.Linarith
import Mathlib.Tactic.FieldSimp
import Mathlib.Tactic.Ring
import XModel.OptNum
import XModel.OptMaxStep
import XProofs.Clip
/-!
# C10, `max_step`: connected to the control skeleton of `Optimize.step`

`OptNum.clip` / `OptNum.trialPoint` are the functions the driver replays bit for bit on IEEE doubles against the recorded
calls of `_clip_to_max_steps` and the recorded trial points of `JacobianSolver.step`.  Instantiated with exact arithmetic:

* the clipped step respects every `max_step / weight`; a trial point `x - 2^-alpha * xstep` (coordinates that would
  leave the limits stay put) is no further from `x` than the clipped step;
* on the skeleton of `Optimize.step`, the row an iteration appends differs from the container it started from by at most
  `max_step` per knob (plus the slack `e` the code allows between container and `solver.x` when it does not re-assign
  `solver.x`: `np.allclose(..., atol=1e-12)`; zero from the second iteration on), and so do consecutive rows of the loop;
* the bound on each executed solver step is not assumed: the hypothesis is `LoopTrialOK` — the last point of every executed
  non-early iteration is `OptNum.trialPoint` of the model's start point and of `OptNum.clip` of some raw step, scaling in
  `[0, 1]` — i.e. the equalities the driver checks on doubles, in exact arithmetic (`TrialOK.stepOK` derives the bound);
* the rows are pinned (`optStep_chain`): start row, then exactly the rows the loop appended (one per iteration that returned
  normally, `doneIters`), then at most the copy of a row made by the `take_best` reload, and only then;
* calls compose (`optStep_near`, `optStep_two_calls`); `Ex` is a concrete instance over `ℚ`.

Everything here is over a linear ordered field: rounding is outside (the Float runs satisfy the EQUALITIES bit for bit, which
says nothing about the INEQUALITY on doubles beyond the exact-arithmetic reading).
-/
namespace MaxStep
open OptNum

variable {K : Type} [Field K] [LinearOrder K] [IsStrictOrderedRing K]

/-- exact arithmetic -/
def fo : Ops K := ⟨(· - ·), (· * ·), (· / ·), abs, fun a b => decide (a < b), 0⟩

theorem clipAt_eq (maxs : Nat → Option K) (out : Nat → K) (i : Nat) :
    OptNum.clipAt fo maxs out i = Clip.clipAt maxs out i := by
  unfold OptNum.clipAt Clip.clipAt
  cases maxs i with
  | none => rfl
  | some m =>
    simp only [fo, decide_eq_true_eq, gt_iff_lt]

theorem clip_eq (maxs : Nat → Option K) (n : Nat) (x : Nat → K) : OptNum.clip fo maxs n x = Clip.clip maxs n x := by
  unfold OptNum.clip Clip.clip
  congr 1
  funext out i
  exact clipAt_eq maxs out i

/-- the clipped step respects every bound -/
theorem clip_bound (maxs : Nat → Option K) (n : Nat) (x : Nat → K)
    (hpos : ∀ k m, maxs k = some m → 0 ≤ m) (i : Nat) (hi : i < n) (m : K) (hm : maxs i = some m) :
    |OptNum.clip fo maxs n x i| ≤ m := by
  rw [clip_eq]; exact Clip.clip_bound maxs n x hpos i hi m hm

/-- a sub-step is no longer than the step it scales -/
theorem trialStep_le (lo hi x xs : Nat → K) (scal : K) (h0 : 0 ≤ scal) (h1 : scal ≤ 1) (i : Nat) :
    |trialStep fo lo hi x xs scal i| ≤ |xs i| := by
  unfold trialStep
  simp only [fo, decide_eq_true_eq]
  split
  · simp
  · split
    · simp
    · rw [abs_mul, abs_of_nonneg h0]
      calc scal * |xs i| ≤ 1 * |xs i| := mul_le_mul_of_nonneg_right h1 (abs_nonneg _)
        _ = |xs i| := one_mul _

theorem trialPoint_move (lo hi x xs : Nat → K) (scal : K) (h0 : 0 ≤ scal) (h1 : scal ≤ 1) (i : Nat) :
    |trialPoint fo lo hi x xs scal i - x i| ≤ |xs i| := by
  have h := trialStep_le lo hi x xs scal h0 h1 i
  have e : trialPoint fo lo hi x xs scal i - x i = - trialStep fo lo hi x xs scal i := by
    simp only [trialPoint, fo]; ring
  rw [e, abs_neg]; exact h

/-- a trial point stays inside limits that hold at `x` -/
theorem trialPoint_inside (lo hi x xs : Nat → K) (scal : K) (i : Nat) (hx : lo i ≤ x i ∧ x i ≤ hi i) :
    lo i ≤ trialPoint fo lo hi x xs scal i ∧ trialPoint fo lo hi x xs scal i ≤ hi i := by
  unfold trialPoint trialStep
  simp only [fo, decide_eq_true_eq]
  split
  · simpa using hx
  · next h1 =>
    split
    · simpa using hx
    · next h2 => exact ⟨not_lt.mp h1, not_lt.mp h2⟩

/-- **one Jacobian step, in knob units**: the point the solver moves to — a trial point of the clipped step — is, times
    the weight, within `max_step` of the start point times the weight -/
theorem step_within_max_step (maxStep wt : Nat → Option K) (n : Nat) (raw lo hi x : Nat → K) (scal : K)
    (h0 : 0 ≤ scal) (h1 : scal ≤ 1) (hms : ∀ k m, maxStep k = some m → 0 ≤ m) (hw : ∀ k w, wt k = some w → 0 < w)
    (i : Nat) (hi' : i < n) (m : K) (hm : maxStep i = some m) :
    |trialPoint fo lo hi x (OptNum.clip fo (maxsOf fo maxStep wt) n raw) scal i - x i| * (wt i).getD 1 ≤ m := by
  have hpos : ∀ k mk, maxsOf fo maxStep wt k = some mk → 0 ≤ mk := by
    intro k mk hk
    unfold maxsOf at hk
    cases hmk : maxStep k with
    | none => simp [hmk] at hk
    | some m' =>
      cases hwk : wt k with
      | none => simp [hmk, hwk] at hk; rw [← hk]; exact hms k m' hmk
      | some w =>
        simp only [hmk, hwk, Option.some.injEq] at hk
        rw [← hk]
        exact div_nonneg (hms k m' hmk) (le_of_lt (hw k w hwk))
  have hmove := trialPoint_move lo hi x (OptNum.clip fo (maxsOf fo maxStep wt) n raw) scal h0 h1 i
  cases hwi : wt i with
  | none =>
    have hb := clip_bound (maxsOf fo maxStep wt) n raw hpos i hi' m (by simp [maxsOf, hm, hwi])
    simp only [Option.getD_none, mul_one]
    exact le_trans hmove hb
  | some w =>
    have hwpos := hw i w hwi
    have hb := clip_bound (maxsOf fo maxStep wt) n raw hpos i hi' (m / w) (by simp [maxsOf, hm, hwi, fo])
    simp only [Option.getD_some]
    have := le_trans hmove hb
    calc _ ≤ (m / w) * w := mul_le_mul_of_nonneg_right this (le_of_lt hwpos)
      _ = m := div_mul_cancel₀ m (ne_of_gt hwpos)

/-! ### on the skeleton of `Optimize.step` -/

open Opt

/-- the configuration multiplies / divides by positive weights -/
structure Weights (c : Cfg K) (W : Nat → K) : Prop where
  mul : ∀ i x, c.mulW i x = x * W i
  div : ∀ i k, c.divW i k = k / W i
  pos : ∀ i, 0 < W i

/-- the solver's move of one iteration is bounded in knob units.  This is the CONCLUSION one wants for a solver step; it is
    derived from `TrialOK` (the form the driver checks) by `TrialOK.stepOK` -/
def StepOK (c : Cfg K) (W : Nat → K) (ms : Nat → Option K) (s : St K) (it : Iter K) : Prop :=
  it.early = false → ∀ i, i < c.n → ∀ m, ms i = some m → |it.last i - iterX0 c it.resync s i| * W i ≤ m

/-- `OptNum.trialPoint` at coordinate `i` reads the start point at coordinate `i` only -/
theorem trialPoint_congr {R : Type} (o : Ops R) (lo hi x x' xs : Nat → R) (scal : R) (i : Nat) (h : x i = x' i) :
    trialPoint o lo hi x xs scal i = trialPoint o lo hi x' xs scal i := by
  simp only [trialPoint, trialStep, h]

/-- **what the driver checks of an executed solver step, in exact arithmetic**: the point the solver moves to (`it.last`,
    the last recorded trial point) is `OptNum.trialPoint` of the MODEL's start point `iterX0`, of `OptNum.clip` of some raw
    step, and of a scaling in `[0, 1]` (the driver: `2^-k`, `k` the number of earlier trials).  Nothing is asked of an
    iteration whose solver stopped after its first evaluation (`early`), nor of the raw step, nor of the limits. -/
def TrialOK (c : Cfg K) (maxStep wt : Nat → Option K) (lo hi : Nat → K) (s : St K) (it : Iter K) : Prop :=
  it.early = false → ∃ (raw : Nat → K) (scal : K), 0 ≤ scal ∧ scal ≤ 1 ∧ ∀ i, i < c.n →
    it.last i = trialPoint fo lo hi (iterX0 c it.resync s) (OptNum.clip fo (maxsOf fo maxStep wt) c.n raw) scal i

/-- the driver's scaling `2^-k` is in `[0, 1]` -/
theorem TrialOK.of_halves (c : Cfg K) (maxStep wt : Nat → Option K) (lo hi : Nat → K) (s : St K) (it : Iter K)
    (raw : Nat → K) (k : Nat)
    (h : ∀ i, i < c.n → it.last i =
      trialPoint fo lo hi (iterX0 c it.resync s) (OptNum.clip fo (maxsOf fo maxStep wt) c.n raw) ((1 / 2) ^ k) i) :
    TrialOK c maxStep wt lo hi s it := by
  intro _
  refine ⟨raw, (1 / 2) ^ k, by positivity, ?_, h⟩
  exact pow_le_one₀ (by norm_num) (by norm_num)

/-- positive weights in the optional form `OptNum.maxsOf` takes -/
theorem Weights.wt_pos {c : Cfg K} {W : Nat → K} (hc : Weights c W) (wt : Nat → Option K)
    (hW : ∀ i, W i = (wt i).getD 1) : ∀ k w, wt k = some w → 0 < w := by
  intro k w h
  have := hc.pos k
  rw [hW k, h] at this
  simpa using this

/-- **the bound is discharged**: a solver step of the checked form moves every knob with a `max_step` by at most it -/
theorem TrialOK.stepOK {c : Cfg K} {W : Nat → K} {maxStep wt : Nat → Option K} {lo hi : Nat → K} {s : St K} {it : Iter K}
    (hW : ∀ i, W i = (wt i).getD 1) (hms : ∀ k m, maxStep k = some m → 0 ≤ m) (hw : ∀ k w, wt k = some w → 0 < w)
    (h : TrialOK c maxStep wt lo hi s it) : StepOK c W maxStep s it := by
  intro he i hi' m hm
  obtain ⟨raw, scal, h0, h1, hl⟩ := h he
  rw [hl i hi', hW i]
  exact step_within_max_step maxStep wt c.n raw lo hi _ scal h0 h1 hms hw i hi' m hm

/-- container and `solver.x` agree up to `e` on the active knobs -/
def Near (c : Cfg K) (W : Nat → K) (e : K) (s : St K) : Prop :=
  ∀ i, i < c.n → s.vAct i = true → |s.knobs i - s.solverX i * W i| ≤ e

/-- after an iteration that returns normally container and `solver.x` agree exactly on the active knobs, and the last row
    of the log is the container (no hypothesis on the numerics) -/
theorem optIter_near (c : Cfg K) (W : Nat → K) (hc : Weights c W) (it : Iter K) (s s' : St K)
    (h : optIter c it.resync it.early it.jac it.trials it.last it.pe s = (.ok (), s')) :
    Near c W 0 s' ∧ s'.log = s.log ++ [⟨s'.knobs, s'.vAct, s'.tAct⟩] := by
  obtain ⟨hx, hv, _, hl, hk⟩ := optIter_row c it.resync it.early it.jac it.trials it.last it.pe s s' h
  refine ⟨?_, hl⟩
  intro i hi ha
  have ha0 : s.vAct i = true := by rw [← hv]; exact ha
  rw [hk i hi ha0, hx, hc.mul]
  simp

/-- **one iteration**: the appended row is within `max_step + e` of the container the iteration started from, and
    afterwards container and `solver.x` agree exactly -/
theorem optIter_move (c : Cfg K) (W : Nat → K) (ms : Nat → Option K) (hc : Weights c W) (e : K) (he : 0 ≤ e)
    (hms : ∀ k m, ms k = some m → 0 ≤ m) (it : Iter K) (s s' : St K)
    (hnear : it.resync = false → Near c W e s) (hstep : StepOK c W ms s it)
    (h : optIter c it.resync it.early it.jac it.trials it.last it.pe s = (.ok (), s')) :
    (∃ row, s'.log = s.log ++ [row] ∧ row.knobs = s'.knobs ∧ row.vAct = s.vAct) ∧
    (∀ i, i < c.n → s.vAct i = true → ∀ m, ms i = some m → |s'.knobs i - s.knobs i| ≤ m + e) ∧
    Near c W 0 s' ∧ s'.vAct = s.vAct := by
  obtain ⟨hx, hv, _, hl, hk⟩ := optIter_row c it.resync it.early it.jac it.trials it.last it.pe s s' h
  refine ⟨⟨_, hl, rfl, hv⟩, ?_, (optIter_near c W hc it s s' h).1, hv⟩
  intro i hi ha m hm
  have hm0 := hms i m hm
  have hWi := hc.pos i
  rw [hk i hi ha, hc.mul]
  -- distance between the new and the old solver point, in knob units
  have hd : |iterX1 c it.resync it.early it.last s i - iterX0 c it.resync s i| * W i ≤ m := by
    cases hearly : it.early with
    | true => simp [iterX1, hm0]
    | false => simpa [iterX1, hearly] using hstep hearly i hi m hm
  have hd' : |iterX1 c it.resync it.early it.last s i * W i - iterX0 c it.resync s i * W i| ≤ m := by
    rw [← sub_mul, abs_mul, abs_of_pos hWi]; exact hd
  -- distance between the old solver point and the container
  have h0 : |iterX0 c it.resync s i * W i - s.knobs i| ≤ e := by
    cases hres : it.resync with
    | true =>
      simp only [iterX0, if_true, extractX, hc.div]
      rw [div_mul_cancel₀ _ (ne_of_gt hWi)]
      simpa using he
    | false =>
      simp only [iterX0, Bool.false_eq_true, if_false]
      rw [abs_sub_comm]
      exact hnear hres i hi ha
  calc |iterX1 c it.resync it.early it.last s i * W i - s.knobs i|
      = |(iterX1 c it.resync it.early it.last s i * W i - iterX0 c it.resync s i * W i)
          + (iterX0 c it.resync s i * W i - s.knobs i)| := by ring_nf
    _ ≤ _ := abs_add_le _ _
    _ ≤ m + e := add_le_add hd' h0

/-- every executed iteration takes a bounded move (the intermediate form; see `LoopTrialOK`) -/
def LoopOK (c : Cfg K) (W : Nat → K) (ms : Nat → Option K) : St K → List (Iter K) → Prop
  | _, [] => True
  | s, it :: rest => StepOK c W ms s it ∧
      ∀ s', optIter c it.resync it.early it.jac it.trials it.last it.pe s = (.ok (), s') → s'.lastWithin = false →
        LoopOK c W ms s' rest

/-- **every executed solver step has the checked form** `TrialOK`, along the states the MODEL goes through (this is the
    recursion of the driver's `checkLoop`: iteration `k+1` is looked at only when iteration `k` returned normally without
    meeting the tolerance, in the state iteration `k` left) -/
def LoopTrialOK (c : Cfg K) (ms wt : Nat → Option K) (lo hi : Nat → K) : St K → List (Iter K) → Prop
  | _, [] => True
  | s, it :: rest => TrialOK c ms wt lo hi s it ∧
      ∀ s', optIter c it.resync it.early it.jac it.trials it.last it.pe s = (.ok (), s') → s'.lastWithin = false →
        LoopTrialOK c ms wt lo hi s' rest

theorem LoopTrialOK.loopOK {c : Cfg K} {W : Nat → K} {ms wt : Nat → Option K} {lo hi : Nat → K}
    (hW : ∀ i, W i = (wt i).getD 1) (hms : ∀ k m, ms k = some m → 0 ≤ m) (hw : ∀ k w, wt k = some w → 0 < w) :
    ∀ (its : List (Iter K)) (s : St K), LoopTrialOK c ms wt lo hi s its → LoopOK c W ms s its
  | [], _, _ => trivial
  | _ :: rest, _, h =>
    ⟨h.1.stepOK hW hms hw, fun s' h1 h2 => LoopTrialOK.loopOK hW hms hw rest s' (h.2 s' h1 h2)⟩

/-- consecutive rows: each is within `max_step` (plus `e` for the first) of its predecessor on the active knobs -/
def Chain (n : Nat) (act : Nat → Bool) (ms : Nat → Option K) : K → (Nat → K) → List (Row K) → Prop
  | _, _, [] => True
  | e, prev, r :: rs =>
    (∀ i, i < n → act i = true → ∀ m, ms i = some m → |r.knobs i - prev i| ≤ m + e) ∧ Chain n act ms 0 r.knobs rs

/-- the number of iterations of the loop that return normally (each of them appends one row): the loop stops at the first
    iteration that raises, and after the first one that meets the tolerance -/
def doneIters {R : Type} (c : Cfg R) : List (Iter R) → St R → Nat
  | [], _ => 0
  | it :: rest, s =>
    match optIter c it.resync it.early it.jac it.trials it.last it.pe s with
    | (.ok _, s1) => if s1.lastWithin then 1 else 1 + doneIters c rest s1
    | (.error _, _) => 0

theorem doneIters_le {R : Type} (c : Cfg R) : ∀ (its : List (Iter R)) (s : St R), doneIters c its s ≤ its.length
  | [], _ => Nat.le_refl 0
  | it :: rest, s => by
    simp only [doneIters, List.length_cons]
    cases h1 : optIter c it.resync it.early it.jac it.trials it.last it.pe s with
    | mk r1 s1 =>
      cases r1 with
      | error e => simp
      | ok u =>
        simp only
        have := doneIters_le c rest s1
        split <;> omega

/-- after a normal return of the loop that ran at least one iteration, container and `solver.x` agree exactly on the
    active knobs and the last row of the log is the container (no hypothesis on the numerics) -/
theorem optLoop_near (c : Cfg K) (W : Nat → K) (hc : Weights c W) : ∀ (its : List (Iter K)) (s s' : St K),
    optLoop c its s = (.ok (), s') →
    (its = [] ∧ s' = s) ∨ (Near c W 0 s' ∧ ∃ pre, s'.log = pre ++ [⟨s'.knobs, s'.vAct, s'.tAct⟩])
  | [], s, s', h => by simp only [optLoop, pure'] at h; cases h; exact Or.inl ⟨rfl, rfl⟩
  | it :: rest, s, s', h => by
    simp only [optLoop, bind'] at h
    cases h1 : optIter c it.resync it.early it.jac it.trials it.last it.pe s with
    | mk r1 s1 =>
      rw [h1] at h
      cases r1 with
      | error e1 => simp at h
      | ok u =>
        obtain ⟨hn1, hl1⟩ := optIter_near c W hc it s s1 h1
        simp only at h
        by_cases hw : s1.lastWithin = true
        · simp only [hw, if_true] at h; cases h; exact Or.inr ⟨hn1, _, hl1⟩
        · simp only [hw] at h
          rcases optLoop_near c W hc rest s1 s' h with ⟨_, rfl⟩ | h2
          · exact Or.inr ⟨hn1, _, hl1⟩
          · exact Or.inr h2

/-- **the loop of `Optimize.step`**, whatever its outcome: the rows it appends — one per iteration that returned normally —
    form a chain of moves bounded by `max_step`, starting from the container at loop entry (`LoopOK` form) -/
theorem optLoop_chain (c : Cfg K) (W : Nat → K) (ms : Nat → Option K) (hc : Weights c W)
    (hms : ∀ k m, ms k = some m → 0 ≤ m) : ∀ (its : List (Iter K)) (e : K) (s s' : St K) (r : Except Err Unit),
    0 ≤ e → (∀ it rest, its = it :: rest → it.resync = false → Near c W e s) → LoopOK c W ms s its →
    optLoop c its s = (r, s') →
    ∃ suf, s'.log = s.log ++ suf ∧ suf.length = doneIters c its s ∧ Chain c.n s.vAct ms e s.knobs suf
  | [], e, s, s', r, _, _, _, h => by
    simp only [optLoop, pure'] at h; cases h; exact ⟨[], by simp, rfl, trivial⟩
  | it :: rest, e, s, s', r, he, hnear, hok, h => by
    simp only [optLoop, bind'] at h
    cases h1 : optIter c it.resync it.early it.jac it.trials it.last it.pe s with
    | mk r1 s1 =>
      rw [h1] at h
      cases r1 with
      | error e1 =>
        simp only at h; cases h
        exact ⟨[], by simp [optIter_error_log c _ _ _ _ _ _ s _ e1 h1], by simp [doneIters, h1], trivial⟩
      | ok u =>
        obtain ⟨⟨row, hl, hrk, _⟩, hmove, hnear1, hv1⟩ :=
          optIter_move c W ms hc e he hms it s s1 (hnear it rest rfl) hok.1 h1
        simp only at h
        by_cases hw : s1.lastWithin = true
        · simp only [hw, if_true] at h; cases h
          refine ⟨[row], hl, by simp [doneIters, h1, hw], ?_, trivial⟩
          intro i hi ha m hm; rw [hrk]; exact hmove i hi ha m hm
        · simp only [hw] at h
          have hw' : s1.lastWithin = false := by simpa using hw
          obtain ⟨suf, hs, hlen, hch⟩ := optLoop_chain c W ms hc hms rest 0 s1 s' r (le_refl 0)
            (fun _ _ _ _ => hnear1) (hok.2 s1 h1 hw') h
          refine ⟨row :: suf, by rw [hs, hl]; simp, by simp [doneIters, h1, hw', hlen, Nat.add_comm], ?_, ?_⟩
          · intro i hi ha m hm; rw [hrk]; exact hmove i hi ha m hm
          · rw [hrk, ← hv1]; exact hch

/-- in exact arithmetic `add_point_to_log` leaves the container as it was -/
theorem addPoint_knobs (c : Cfg K) (W : Nat → K) (hc : Weights c W) (s s' : St K) (h : addPoint c s = (.ok (), s')) :
    s'.knobs = s.knobs := by
  obtain ⟨_, _, _, k1, k2⟩ := addPoint_row c s s' h
  funext i
  by_cases hi : i < c.n ∧ s.vAct i = true
  · rw [k1 i hi.1 hi.2, hc.mul, hc.div, div_mul_cancel₀ _ (ne_of_gt (hc.pos i))]
  · refine k2 i ?_
    by_cases h1 : i < c.n
    · right; simpa using fun h2 => hi ⟨h1, h2⟩
    · left; omega

/-- `add_point_to_log` that raises leaves the log as it was -/
theorem addPoint_error_log {R : Type} (c : Cfg R) (s s' : St R) (e : Err) (h : addPoint c s = (.error e, s')) :
    s'.log = s.log := by
  simp only [addPoint] at h
  cases hm : merit c true (extractX c s) s with
  | mk r1 s1 =>
    rw [hm] at h
    have l1 := LK_merit c true _ s r1 s1 hm
    cases r1 with
    | error e1 => simp only at h; cases h; exact l1
    | ok u => simp at h

/-- whatever its outcome, `reload i` appends nothing or a copy of row `i` -/
theorem reload_log_row {R : Type} (c : Cfg R) (i : Nat) (s s' : St R) (r : Except Err Unit)
    (h : reload c i s = (r, s')) : s'.log = s.log ∨ ∃ row, s.log[i]? = some row ∧ s'.log = s.log ++ [row] := by
  simp only [reload] at h
  cases hl : s.log[i]? with
  | none => simp only [hl] at h; cases h; exact Or.inl rfl
  | some row =>
    simp only [hl] at h
    rcases addPoint_log_cases c _ s' r h with h1 | h1
    · exact Or.inl h1
    · exact Or.inr ⟨row, rfl, h1⟩

/-- **`Optimize.step`, whatever its outcome, rows pinned** (`LoopOK` form; the main theorem is `optStep_chain`) -/
theorem optStep_chain_of_loopOK (c : Cfg K) (W : Nat → K) (ms : Nat → Option K) (hc : Weights c W)
    (hms : ∀ k m, ms k = some m → 0 ≤ m) (its : List (Iter K)) (tb : Option Nat) (e : K) (he : 0 ≤ e)
    (s s' : St K) (r : Except Err Unit)
    (hnear : ∀ it rest, its = it :: rest → it.resync = false → Near c W e s)
    (hok : ∀ s1, addPoint c s = (.ok (), s1) → LoopOK c W ms s1 its)
    (h : optStep c its tb s = (r, s')) :
    (∃ e1, addPoint c s = (.error e1, s') ∧ r = .error e1 ∧ s'.log = s.log) ∨
    ∃ (s1 s2 : St K) (r2 : Except Err Unit) (suf tail : List (Row K)),
      addPoint c s = (.ok (), s1) ∧ optLoop c its s1 = (r2, s2) ∧
      s1.log = s.log ++ [⟨s.knobs, s.vAct, s.tAct⟩] ∧ s2.log = s1.log ++ suf ∧ s'.log = s2.log ++ tail ∧
      suf.length = doneIters c its s1 ∧
      Chain c.n s.vAct ms e s.knobs suf ∧
      (r2 = .ok () → its ≠ [] → Near c W 0 s2) ∧
      ((tail = [] ∧ s' = s2 ∧ r = r2) ∨
       ∃ i, tb = some i ∧ r2 = .ok () ∧ s2.lastWithin = false ∧ reload c i s2 = (r, s') ∧
         (tail = [] ∨ ∃ row, s2.log[i]? = some row ∧ tail = [row])) := by
  simp only [optStep, bind'] at h
  cases h1 : addPoint c s with
  | mk r1 s1 =>
    rw [h1] at h
    cases r1 with
    | error e1 =>
      simp only at h; cases h
      exact Or.inl ⟨e1, rfl, rfl, addPoint_error_log c s _ e1 h1⟩
    | ok u =>
      obtain ⟨l1, v1, x1, _, _⟩ := addPoint_row c s s1 h1
      have k1 := addPoint_knobs c W hc s s1 h1
      simp only at h
      have hnear1 : ∀ it rest, its = it :: rest → it.resync = false → Near c W e s1 := by
        intro it rest hits hres i hi ha
        rw [k1, x1]; exact hnear it rest hits hres i hi (by rw [← v1]; exact ha)
      cases h2 : optLoop c its s1 with
      | mk r2 s2 =>
        rw [h2] at h
        obtain ⟨suf, hs, hlen, hch⟩ := optLoop_chain c W ms hc hms its e s1 s2 r2 he hnear1 (hok s1 h1) h2
        rw [k1, v1] at hch
        have hnear2 : r2 = .ok () → its ≠ [] → Near c W 0 s2 := by
          intro hr hne
          subst hr
          rcases optLoop_near c W hc its s1 s2 h2 with ⟨h3, _⟩ | h3
          · exact absurd h3 hne
          · exact h3.1
        right
        refine ⟨s1, s2, r2, suf, ?_⟩
        cases r2 with
        | error e2 =>
          simp only at h; cases h
          exact ⟨[], rfl, h2, l1, hs, by simp, hlen, hch, hnear2, Or.inl ⟨rfl, rfl, rfl⟩⟩
        | ok u2 =>
          simp only at h
          cases tb with
          | none =>
            simp only at h; cases h
            exact ⟨[], rfl, h2, l1, hs, by simp, hlen, hch, hnear2, Or.inl ⟨rfl, rfl, rfl⟩⟩
          | some i =>
            simp only at h
            by_cases hw : s2.lastWithin = true
            · simp only [hw, if_true] at h; cases h
              exact ⟨[], rfl, h2, l1, hs, by simp, hlen, hch, hnear2, Or.inl ⟨rfl, rfl, rfl⟩⟩
            · simp only [hw] at h
              have hw' : s2.lastWithin = false := by simpa using hw
              rcases reload_log_row c i s2 s' r h with h3 | ⟨row, hrow, h3⟩
              · exact ⟨[], rfl, h2, l1, hs, by simp [h3], hlen, hch, hnear2,
                  Or.inr ⟨i, rfl, rfl, hw', h, Or.inl rfl⟩⟩
              · exact ⟨[row], rfl, h2, l1, hs, h3, hlen, hch, hnear2,
                  Or.inr ⟨i, rfl, rfl, hw', h, Or.inr ⟨row, hrow, rfl⟩⟩⟩

/-- **`Optimize.step`, whatever its outcome** (main theorem).  Hypotheses: positive exact weights; non-negative
    `max_step`; the slack `e` between container and `solver.x` at entry, needed only when the first iteration does not
    re-assign `solver.x`; and `LoopTrialOK`: every executed solver step is a trial point of the clipped step — the
    equalities the driver checks bit for bit on doubles, here in exact arithmetic.  Conclusion: either the start
    evaluation raised and the log is unchanged; or the call appended exactly: the start row (the container at entry);
    then `suf`, EXACTLY the rows the loop appended — one per iteration that returned normally — each within `max_step` of
    its predecessor on every active knob (`Chain`; the first one compared with the start row, up to `e`); then `tail`,
    which is empty unless `take_best` reloaded (`tb = some i`, loop returned normally, tolerance not met), in which case it
    is empty (the reload raised) or a copy of log row `i`.  After a normal return of a loop of at least one iteration,
    container and `solver.x` agree exactly on the active knobs. -/
theorem optStep_chain (c : Cfg K) (W : Nat → K) (ms wt : Nat → Option K) (lo hi : Nat → K) (hc : Weights c W)
    (hW : ∀ i, W i = (wt i).getD 1)
    (hms : ∀ k m, ms k = some m → 0 ≤ m) (its : List (Iter K)) (tb : Option Nat) (e : K) (he : 0 ≤ e)
    (s s' : St K) (r : Except Err Unit)
    (hnear : ∀ it rest, its = it :: rest → it.resync = false → Near c W e s)
    (hok : ∀ s1, addPoint c s = (.ok (), s1) → LoopTrialOK c ms wt lo hi s1 its)
    (h : optStep c its tb s = (r, s')) :
    (∃ e1, addPoint c s = (.error e1, s') ∧ r = .error e1 ∧ s'.log = s.log) ∨
    ∃ (s1 s2 : St K) (r2 : Except Err Unit) (suf tail : List (Row K)),
      addPoint c s = (.ok (), s1) ∧ optLoop c its s1 = (r2, s2) ∧
      s1.log = s.log ++ [⟨s.knobs, s.vAct, s.tAct⟩] ∧ s2.log = s1.log ++ suf ∧ s'.log = s2.log ++ tail ∧
      suf.length = doneIters c its s1 ∧
      Chain c.n s.vAct ms e s.knobs suf ∧
      (r2 = .ok () → its ≠ [] → Near c W 0 s2) ∧
      ((tail = [] ∧ s' = s2 ∧ r = r2) ∨
       ∃ i, tb = some i ∧ r2 = .ok () ∧ s2.lastWithin = false ∧ reload c i s2 = (r, s') ∧
         (tail = [] ∨ ∃ row, s2.log[i]? = some row ∧ tail = [row])) :=
  optStep_chain_of_loopOK c W ms hc hms its tb e he s s' r hnear
    (fun s1 h1 => LoopTrialOK.loopOK hW hms (hc.wt_pos wt hW) its s1 (hok s1 h1)) h

/-! ### composing calls -/

/-- after a normal return of `step` without `take_best` that ran at least one iteration, container and `solver.x` agree
    exactly on the active knobs, and the last row of the log is the container (no hypothesis on the numerics) -/
theorem optStep_near (c : Cfg K) (W : Nat → K) (hc : Weights c W) (its : List (Iter K)) (hne : its ≠ [])
    (s s' : St K) (h : optStep c its none s = (.ok (), s')) :
    Near c W 0 s' ∧ ∃ pre, s'.log = pre ++ [⟨s'.knobs, s'.vAct, s'.tAct⟩] := by
  simp only [optStep, bind'] at h
  cases h1 : addPoint c s with
  | mk r1 s1 =>
    rw [h1] at h
    cases r1 with
    | error e1 => simp at h
    | ok u =>
      simp only at h
      cases h2 : optLoop c its s1 with
      | mk r2 s2 =>
        rw [h2] at h
        cases r2 with
        | error e2 => simp at h
        | ok u2 =>
          simp only at h; cases h
          rcases optLoop_near c W hc its s1 _ h2 with ⟨h3, _⟩ | h3
          · exact absurd h3 hne
          · exact h3

/-- **two calls in a row**: after `step` (no `take_best`, at least one iteration, normal return) a second `step` that does
    not re-assign `solver.x` needs no hypothesis on the agreement of container and `solver.x`: its chain has slack `0`,
    and its start row repeats the last row of the first call -/
theorem optStep_two_calls (c : Cfg K) (W : Nat → K) (ms wt : Nat → Option K) (lo hi : Nat → K) (hc : Weights c W)
    (hW : ∀ i, W i = (wt i).getD 1) (hms : ∀ k m, ms k = some m → 0 ≤ m)
    (its1 its2 : List (Iter K)) (hne : its1 ≠ []) (tb2 : Option Nat) (s sm s' : St K) (r : Except Err Unit)
    (h1 : optStep c its1 none s = (.ok (), sm))
    (hok : ∀ s1, addPoint c sm = (.ok (), s1) → LoopTrialOK c ms wt lo hi s1 its2)
    (h2 : optStep c its2 tb2 sm = (r, s')) :
    (∃ pre, sm.log = pre ++ [⟨sm.knobs, sm.vAct, sm.tAct⟩]) ∧
    ((∃ e1, addPoint c sm = (.error e1, s') ∧ r = .error e1 ∧ s'.log = sm.log) ∨
    ∃ (s1 s2 : St K) (r2 : Except Err Unit) (suf tail : List (Row K)),
      addPoint c sm = (.ok (), s1) ∧ optLoop c its2 s1 = (r2, s2) ∧
      s1.log = sm.log ++ [⟨sm.knobs, sm.vAct, sm.tAct⟩] ∧ s2.log = s1.log ++ suf ∧ s'.log = s2.log ++ tail ∧
      suf.length = doneIters c its2 s1 ∧
      Chain c.n sm.vAct ms 0 sm.knobs suf ∧
      (r2 = .ok () → its2 ≠ [] → Near c W 0 s2) ∧
      ((tail = [] ∧ s' = s2 ∧ r = r2) ∨
       ∃ i, tb2 = some i ∧ r2 = .ok () ∧ s2.lastWithin = false ∧ reload c i s2 = (r, s') ∧
         (tail = [] ∨ ∃ row, s2.log[i]? = some row ∧ tail = [row]))) := by
  obtain ⟨hn, hlast⟩ := optStep_near c W hc its1 hne s sm h1
  exact ⟨hlast, optStep_chain c W ms wt lo hi hc hW hms its2 tb2 0 (le_refl 0) sm s' r (fun _ _ _ _ => hn) hok h2⟩


/-! ### non-vacuity: a concrete call over `ℚ`

Two knobs with weights 1 and 4, `max_step = (1, none)`, start at `(0, 0)`, two iterations whose last points ARE trial points
of a clipped raw step: the first raw step `(-3, -2)` is clipped to `(-1, -2/3)` and taken in full, the second
`(-1/2, -1)` is not clipped and taken at scaling `1/2`.  The user function never raises and the tolerance is never met. -/
namespace Ex

def W : Nat → ℚ := fun i => if i = 0 then 1 else 4
def wt : Nat → Option ℚ := fun i => some (W i)
def ms : Nat → Option ℚ := fun i => if i = 0 then some 1 else none
def lo : Nat → ℚ := fun _ => -100
def hi : Nat → ℚ := fun _ => 100
def cfg : Cfg ℚ := ⟨2, fun i x => x * W i, fun i k => k / W i, fun _ _ => true, fun k => some k, fun _ _ => false, false, false⟩
def s0 : St ℚ := ⟨fun _ => 0, fun _ => true, fun _ => true, fun _ => 0, false, [], fun _ => 0, fun _ => 0, fun _ => true⟩
def raw1 : Nat → ℚ := fun i => if i = 0 then -3 else -2
def raw2 : Nat → ℚ := fun i => if i = 0 then -1/2 else -1
def x1 : Nat → ℚ := trialPoint fo lo hi (fun _ => 0) (clip fo (maxsOf fo ms wt) 2 raw1) 1
def x2 : Nat → ℚ := trialPoint fo lo hi x1 (clip fo (maxsOf fo ms wt) 2 raw2) (1/2)
def its : List (Iter ℚ) := [⟨true, false, [], [], x1, false⟩, ⟨false, false, [], [], x2, false⟩]

/-- the first raw step `(-3, -2)` is rescaled by `1/3`: knob 0 has `max_step = 1` and weight 1 -/
theorem clip1 : clip fo (maxsOf fo ms wt) 2 raw1 0 = -1 ∧ clip fo (maxsOf fo ms wt) 2 raw1 1 = -2/3 := by
  norm_num [clip, clipAt, maxsOf, fo, ms, wt, W, raw1, List.range_succ, List.foldl]

/-- the second raw step is within `max_step` and is not rescaled -/
theorem clip2 : clip fo (maxsOf fo ms wt) 2 raw2 0 = -1/2 ∧ clip fo (maxsOf fo ms wt) 2 raw2 1 = -1 := by
  norm_num [clip, clipAt, maxsOf, fo, ms, wt, W, raw2, List.range_succ, List.foldl]

theorem x1_val : x1 0 = 1 ∧ x1 1 = 2/3 := by
  norm_num [x1, trialPoint, trialStep, clip, clipAt, maxsOf, fo, ms, wt, W, raw1, lo, hi, List.range_succ, List.foldl]

theorem x2_val : x2 0 = 5/4 ∧ x2 1 = 7/6 := by
  norm_num [x2, x1, trialPoint, trialStep, clip, clipAt, maxsOf, fo, ms, wt, W, raw1, raw2, lo, hi, List.range_succ, List.foldl]

/-- the model's run on this input: normal return, three rows (start row and one per iteration), in knob units -/
theorem run_ok : (optStep cfg its none s0).1 = .ok () := by decide +kernel
theorem run_len : (optStep cfg its none s0).2.log.length = 3 := by decide +kernel
theorem run_rows : (optStep cfg its none s0).2.log.map (fun r => (r.knobs 0, r.knobs 1)) = [(0,0), (1, 8/3), (5/4, 14/3)] := by decide +kernel


theorem pair_eta {α β : Type} (p : α × β) : p = (p.1, p.2) := rfl

theorem weights : Weights cfg W :=
  ⟨fun _ _ => rfl, fun _ _ => rfl, fun i => by unfold W; split <;> norm_num⟩

theorem hW : ∀ i, W i = (wt i).getD 1 := fun _ => rfl

theorem hms : ∀ k m, ms k = some m → 0 ≤ m := by
  intro k m h
  unfold ms at h
  split at h
  · cases h; norm_num
  · cases h

/-- both iterations have the checked form, in the states the model goes through -/
theorem loopTrialOK (s1 : St ℚ) (h1 : addPoint cfg s0 = (.ok (), s1)) : LoopTrialOK cfg ms wt lo hi s1 its := by
  refine ⟨fun _ => ⟨raw1, 1, by norm_num, le_refl 1, fun i _ => ?_⟩, fun s2 h2 _ =>
    ⟨fun _ => ⟨raw2, 1 / 2, by norm_num, by norm_num, fun i _ => ?_⟩, fun _ _ _ => trivial⟩⟩
  · -- the first iteration re-assigns `solver.x` from the container, which `add_point_to_log` left at 0
    show trialPoint fo lo hi (fun _ => 0) _ 1 i = trialPoint fo lo hi (iterX0 cfg true s1) _ 1 i
    refine trialPoint_congr fo lo hi _ _ _ 1 i ?_
    show (0 : ℚ) = s1.knobs i / W i
    rw [addPoint_knobs cfg W weights s0 s1 h1]
    simp [s0]
  · -- the second one starts from the point the first one moved to
    show trialPoint fo lo hi x1 _ (1 / 2) i = trialPoint fo lo hi (iterX0 cfg false s2) _ (1 / 2) i
    refine trialPoint_congr fo lo hi _ _ _ (1 / 2) i ?_
    show x1 i = s2.solverX i
    rw [(optIter_row cfg true false [] [] x1 false s1 s2 h2).1]
    rfl

/-- the main theorem applies to the run of the model on this input ... -/
example := optStep_chain cfg W ms wt lo hi weights hW hms its none 0 (le_refl 0) s0
    (optStep cfg its none s0).2 (optStep cfg its none s0).1 (fun _ _ h => by cases h; intro h; cases h) loopTrialOK (pair_eta _)

/-- ... and says of its rows (computed above: `(0,0)`, `(1, 8/3)`, `(5/4, 14/3)`) that the two rows after the start row
    form a chain: knob 0 (`max_step = 1`) moves by `1` (the clipped step, the bound is attained) and then by `1/4` -/
theorem run_chain : ((optStep cfg its none s0).2.log.drop 1).length = 2 ∧
    Chain cfg.n s0.vAct ms 0 s0.knobs ((optStep cfg its none s0).2.log.drop 1) := by
  rcases optStep_chain cfg W ms wt lo hi weights hW hms its none 0 (le_refl 0) s0
    (optStep cfg its none s0).2 (optStep cfg its none s0).1 (fun _ _ h => by cases h; intro h; cases h) loopTrialOK (pair_eta _)
    with ⟨e1, _, hr, _⟩ | ⟨s1, s2, r2, suf, tail, _, _, l1, l2, l3, _, hch, _, ht⟩
  · rw [run_ok] at hr; cases hr
  · have htail : tail = [] := by
      rcases ht with ⟨h, _⟩ | ⟨i, hi, _⟩
      · exact h
      · cases hi
    have hlog : (optStep cfg its none s0).2.log = ⟨s0.knobs, s0.vAct, s0.tAct⟩ :: suf := by
      rw [l3, l2, l1, htail]; simp [s0]
    have hlen := run_len
    rw [hlog] at hlen ⊢
    exact ⟨by simpa using hlen, hch⟩

/-- `LoopTrialOK` can fail: a step to `x0 + 100` is not a trial point of a clipped step -/
theorem loopTrialOK_refutable :
    ¬ LoopTrialOK cfg ms wt lo hi s0 [⟨false, false, [], [], fun i => s0.solverX i + 100, false⟩] := by
  intro h
  have h1 := (LoopTrialOK.loopOK hW hms (weights.wt_pos wt hW) _ _ h).1 rfl 0 (by decide) 1 rfl
  norm_num [iterX0, W] at h1

/-! the same two iterations as two calls of one iteration each -/

/-- the state after a first call that runs the first iteration only -/
def sm : St ℚ := (optStep cfg [⟨true, false, [], [], x1, false⟩] none s0).2

theorem first_call : optStep cfg [⟨true, false, [], [], x1, false⟩] none s0 = (.ok (), sm) := by
  have h : (optStep cfg [⟨true, false, [], [], x1, false⟩] none s0).1 = .ok () := by decide +kernel
  rw [← h]; exact pair_eta _

theorem sm_x : ∀ i, i < 2 → sm.solverX i = x1 i
  | 0, _ => by decide +kernel
  | 1, _ => by decide +kernel

/-- the second call runs the second iteration WITHOUT re-assigning `solver.x`; it has the checked form -/
theorem second_loopTrialOK (s1 : St ℚ) (h1 : addPoint cfg sm = (.ok (), s1)) :
    LoopTrialOK cfg ms wt lo hi s1 [⟨false, false, [], [], x2, false⟩] := by
  refine ⟨fun _ => ⟨raw2, 1 / 2, by norm_num, by norm_num, fun i hi' => ?_⟩, fun _ _ _ => trivial⟩
  show trialPoint fo lo hi x1 _ (1 / 2) i = trialPoint fo lo hi (iterX0 cfg false s1) _ (1 / 2) i
  refine trialPoint_congr fo lo hi _ _ _ (1 / 2) i ?_
  show x1 i = s1.solverX i
  rw [(addPoint_row cfg sm s1 h1).2.2.1, sm_x i hi']

/-- the two-call corollary applies -/
example := optStep_two_calls cfg W ms wt lo hi weights hW hms _ [⟨false, false, [], [], x2, false⟩] (by simp) none s0 sm
  _ _ first_call second_loopTrialOK (pair_eta _)

end Ex

end MaxStep
