import XProofs.LeastSquares
import XProofs.LstsqNormal
import XProofs.FirstStep
import Mathlib.Data.Matrix.Mul
import Mathlib.Data.Matrix.Diagonal
import Mathlib.LinearAlgebra.Matrix.Notation
import Mathlib.Tactic.FinCases
import Mathlib.Algebra.Order.Field.Rat
import Mathlib.Algebra.Order.Field.Basic
import Mathlib.Tactic.Abel
import Mathlib.Tactic.NormNum
import Mathlib.Tactic.Linarith
import Mathlib.Tactic.FieldSimp
/-!
# The `lstsq` formula IS the minimum-norm least-squares solution of the truncated matrix

`lstsq` computes `x = Vhᵀ diag(s_inv) Uᵀ b` from SVD factors `U`, `s`, `Vh` (already sliced to the first
`sing_val_cutoff` triples: that slice is the index type `k`), where `s_inv i` is `1 / s i` on the KEPT singular
values and `0` on the dropped ones (`s i = 0`, or `s i < rcond * s 0`).

* The kept set is represented by `s_inv` itself: `i` is kept iff `sinv i ≠ 0`.  The truncation rule
  `TruncRule s sinv` says: for every `i`, `sinv i = 0` (dropped), or `s i ≠ 0 ∧ sinv i = (s i)⁻¹` (kept).
* `keptSing s sinv i = if sinv i = 0 then 0 else s i` are the singular values restricted to the kept set and
  `keptMatrix U Vh s sinv = U * diagonal (keptSing s sinv) * Vh` is the truncated matrix `A'`.
* `lstsqSol U Vh sinv b = Vhᵀ *ᵥ (diagonal sinv *ᵥ (Uᵀ *ᵥ b))` is the value `lstsq` returns.

Main results (`K` a linearly ordered field, `Uᵀ U = 1`, `Vh Vhᵀ = 1`, `TruncRule s sinv`):
`lstsq_isLeastSq` (1), `lstsq_isMinNormLeastSq` (1 + 2), `lstsq_unique_of_norm_le` and `lstsq_unique` (3).
-/
open Matrix

namespace LstsqMinNorm
variable {K : Type} [Field K] [LinearOrder K] [IsStrictOrderedRing K]
variable {m n k : Type} [Fintype m] [Fintype n] [Fintype k]

/-! ## What "minimum-norm least-squares solution" means -/

/-- `x` minimises the squared residual `‖A z - b‖²` over all `z` -/
def IsLeastSq (A : Matrix m n K) (b : m → K) (x : n → K) : Prop :=
  ∀ z : n → K, (A *ᵥ x - b) ⬝ᵥ (A *ᵥ x - b) ≤ (A *ᵥ z - b) ⬝ᵥ (A *ᵥ z - b)

/-- `x` is a least-squares solution and no least-squares solution has a smaller `‖z‖²` -/
def IsMinNormLeastSq (A : Matrix m n K) (b : m → K) (x : n → K) : Prop :=
  IsLeastSq A b x ∧ ∀ z : n → K, IsLeastSq A b z → x ⬝ᵥ x ≤ z ⬝ᵥ z

/-! ## General facts (any matrix) -/

omit [LinearOrder K] [IsStrictOrderedRing K] in
/-- the two forms of the normal equations (`C16_normal_eq` yields the first, `C16_least_squares` takes the
    second) are the same statement -/
theorem normal_residual_iff (A : Matrix m n K) (b : m → K) (x : n → K) :
    Aᵀ *ᵥ (A *ᵥ x - b) = 0 ↔ Aᵀ *ᵥ (A *ᵥ x) = Aᵀ *ᵥ b := by
  rw [Matrix.mulVec_sub, sub_eq_zero]

omit [LinearOrder K] [IsStrictOrderedRing K] in
/-- Pythagoras around a solution of the normal equations -/
theorem residual_split (A : Matrix m n K) (b : m → K) (x : n → K)
    (hN : Aᵀ *ᵥ (A *ᵥ x - b) = 0) (z : n → K) :
    (A *ᵥ z - b) ⬝ᵥ (A *ᵥ z - b)
      = (A *ᵥ x - b) ⬝ᵥ (A *ᵥ x - b) + (A *ᵥ (z - x)) ⬝ᵥ (A *ᵥ (z - x)) := by
  have hz : A *ᵥ z - b = (A *ᵥ x - b) + A *ᵥ (z - x) := by
    rw [Matrix.mulVec_sub]; abel
  have hcross : (A *ᵥ x - b) ⬝ᵥ (A *ᵥ (z - x)) = 0 := by
    rw [Matrix.dotProduct_mulVec, ← Matrix.mulVec_transpose, hN, zero_dotProduct]
  rw [hz, add_dotProduct, dotProduct_add, dotProduct_add, hcross,
    dotProduct_comm (A *ᵥ (z - x)) (A *ᵥ x - b), hcross]
  ring

/-- a point whose residual is not larger than that of a solution of the normal equations has the same image -/
theorem mulVec_eq_of_residual_le (A : Matrix m n K) (b : m → K) (x : n → K)
    (hN : Aᵀ *ᵥ (A *ᵥ x) = Aᵀ *ᵥ b) (z : n → K)
    (hz : (A *ᵥ z - b) ⬝ᵥ (A *ᵥ z - b) ≤ (A *ᵥ x - b) ⬝ᵥ (A *ᵥ x - b)) :
    A *ᵥ z = A *ᵥ x := by
  have hs := residual_split A b x ((normal_residual_iff A b x).mpr hN) z
  have h0 : A *ᵥ (z - x) = 0 :=
    LS.dot_self_eq_zero (le_antisymm (by linarith) (LS.dot_self_nonneg _))
  rw [Matrix.mulVec_sub] at h0
  exact sub_eq_zero.mp h0

/-- once the normal equations have a solution `x`, every least-squares solution satisfies them -/
theorem normal_of_isLeastSq (A : Matrix m n K) (b : m → K) (x : n → K)
    (hN : Aᵀ *ᵥ (A *ᵥ x) = Aᵀ *ᵥ b) (z : n → K) (hz : IsLeastSq A b z) :
    Aᵀ *ᵥ (A *ᵥ z) = Aᵀ *ᵥ b := by
  rw [mulVec_eq_of_residual_le A b x hN z (hz x), hN]

/-- a solution of the normal equations is a least-squares solution (`LS.ls_of_normal`) -/
theorem isLeastSq_of_normal (A : Matrix m n K) (b : m → K) (x : n → K)
    (hN : Aᵀ *ᵥ (A *ᵥ x) = Aᵀ *ᵥ b) : IsLeastSq A b x :=
  fun z => LS.ls_of_normal A b x ((normal_residual_iff A b x).mpr hN) z

/-- a solution of the normal equations in the row space is a minimum-norm least-squares solution -/
theorem isMinNormLeastSq_of_range (A : Matrix m n K) (b : m → K) (x : n → K) (w : m → K)
    (hx : x = Aᵀ *ᵥ w) (hN : Aᵀ *ᵥ (A *ᵥ x) = Aᵀ *ᵥ b) : IsMinNormLeastSq A b x :=
  ⟨isLeastSq_of_normal A b x hN,
   fun z hz => LS.minnorm_of_range A b x w hx hN z (normal_of_isLeastSq A b x hN z hz)⟩

/-- uniqueness: a solution of the normal equations whose norm does not exceed that of the row-space
    solution is the row-space solution -/
theorem eq_of_range_of_norm_le (A : Matrix m n K) (b : m → K) (x : n → K) (w : m → K)
    (hx : x = Aᵀ *ᵥ w) (hN : Aᵀ *ᵥ (A *ᵥ x) = Aᵀ *ᵥ b)
    (z : n → K) (hz : Aᵀ *ᵥ (A *ᵥ z) = Aᵀ *ᵥ b) (hle : z ⬝ᵥ z ≤ x ⬝ᵥ x) : z = x := by
  have hAd : Aᵀ *ᵥ (A *ᵥ (z - x)) = 0 := by
    rw [Matrix.mulVec_sub, Matrix.mulVec_sub, hz, hN, sub_self]
  have hAd0 : A *ᵥ (z - x) = 0 := FirstStep.mulVec_eq_zero_of_normal A (z - x) hAd
  have hxd : x ⬝ᵥ (z - x) = 0 := by
    calc x ⬝ᵥ (z - x) = (Aᵀ *ᵥ w) ⬝ᵥ (z - x) := by rw [← hx]
      _ = 0 := by
        rw [dotProduct_comm, Matrix.dotProduct_mulVec, ← Matrix.mulVec_transpose,
          Matrix.transpose_transpose, hAd0, zero_dotProduct]
  have hzx : z = x + (z - x) := by abel
  have hsplit : z ⬝ᵥ z = x ⬝ᵥ x + (z - x) ⬝ᵥ (z - x) := by
    conv_lhs => rw [hzx]
    rw [add_dotProduct, dotProduct_add, dotProduct_add, hxd, dotProduct_comm (z - x) x, hxd]
    ring
  have hd0 : z - x = 0 :=
    LS.dot_self_eq_zero (le_antisymm (by linarith) (LS.dot_self_nonneg _))
  exact sub_eq_zero.mp hd0

/-! ## The truncation rule and the truncated matrix -/

/-- for every index: dropped (`sinv i = 0`) or kept (`s i ≠ 0` and `sinv i` is its reciprocal) -/
def TruncRule (s sinv : k → K) : Prop :=
  ∀ i, sinv i = 0 ∨ (s i ≠ 0 ∧ sinv i = (s i)⁻¹)

/-- singular values restricted to the kept set `{i | sinv i ≠ 0}` -/
def keptSing (s sinv : k → K) : k → K := fun i => if sinv i = 0 then 0 else s i

/-- the truncated matrix `A' = U diag(s restricted to the kept set) Vh` -/
def keptMatrix [DecidableEq k] (U : Matrix m k K) (Vh : Matrix k n K) (s sinv : k → K) : Matrix m n K :=
  U * diagonal (keptSing s sinv) * Vh

/-- the value `lstsq` returns -/
def lstsqSol [DecidableEq k] (U : Matrix m k K) (Vh : Matrix k n K) (sinv : k → K) (b : m → K) : n → K :=
  Vhᵀ *ᵥ (diagonal sinv *ᵥ (Uᵀ *ᵥ b))

omit [IsStrictOrderedRing K] [Fintype k] in
/-- `s_i² · sinv_i = s_i · [i kept]` -/
theorem keptSing_sq_mul_sinv {s sinv : k → K} (hT : TruncRule s sinv) (i : k) :
    keptSing s sinv i * keptSing s sinv i * sinv i = keptSing s sinv i := by
  unfold keptSing
  split_ifs with h
  · simp
  · rcases hT i with h0 | ⟨hne, hinv⟩
    · exact absurd h0 h
    · rw [hinv]; field_simp

omit [IsStrictOrderedRing K] [Fintype k] in
/-- the same with the unrestricted `s` on the left: `s_i² · sinv_i = s_i · [i kept]` -/
theorem sq_mul_sinv_eq_keptSing {s sinv : k → K} (hT : TruncRule s sinv) (i : k) :
    s i * s i * sinv i = keptSing s sinv i := by
  unfold keptSing
  split_ifs with h
  · rw [h, mul_zero]
  · rcases hT i with h0 | ⟨hne, hinv⟩
    · exact absurd h0 h
    · rw [hinv]; field_simp

omit [LinearOrder K] [IsStrictOrderedRing K] [Fintype k] in
/-- `sinv_i = s_i · sinv_i²` (with the unrestricted `s`) -/
theorem sinv_eq_mul_sq {s sinv : k → K} (hT : TruncRule s sinv) (i : k) :
    sinv i = s i * (sinv i * sinv i) := by
  rcases hT i with h0 | ⟨hne, hinv⟩
  · rw [h0]; ring
  · rw [hinv]; field_simp

omit [IsStrictOrderedRing K] [Fintype k] in
/-- `sinv_i = s'_i · sinv_i²` with `s'` restricted to the kept set -/
theorem sinv_eq_keptSing_mul_sq {s sinv : k → K} (hT : TruncRule s sinv) (i : k) :
    sinv i = keptSing s sinv i * (sinv i * sinv i) := by
  unfold keptSing
  split_ifs with h
  · rw [h]; ring
  · exact sinv_eq_mul_sq hT i

omit [IsStrictOrderedRing K] [Fintype k] in
/-- when only exact zeros are dropped nothing is lost: `A' = U diag(s) Vh` -/
theorem keptSing_eq_self {s sinv : k → K} (h0 : ∀ i, sinv i = 0 → s i = 0) : keptSing s sinv = s := by
  funext i
  unfold keptSing
  split_ifs with h
  · exact (h0 i h).symm
  · rfl

omit [IsStrictOrderedRing K] [Fintype k] in
/-- what the code does (`s_inv[s > 0] = 1 / s[s > 0]`, then `s_inv[s < c] = 0` with `c = rcond * s[0]`)
    obeys the truncation rule, for any cut `c` -/
theorem truncRule_of_rcond (s : k → K) (c : K) :
    TruncRule s (fun i => if 0 < s i ∧ ¬ s i < c then 1 / s i else 0) := by
  intro i
  by_cases h : 0 < s i ∧ ¬ s i < c
  · right
    refine ⟨ne_of_gt h.1, ?_⟩
    simp only [if_pos h, one_div]
  · left
    simp only [if_neg h]

omit [IsStrictOrderedRing K] [Fintype k] in
/-- without `rcond`: `s_inv[s > 0] = 1 / s[s > 0]` -/
theorem truncRule_of_pos (s : k → K) :
    TruncRule s (fun i => if 0 < s i then 1 / s i else 0) := by
  intro i
  by_cases h : 0 < s i
  · right
    refine ⟨ne_of_gt h, ?_⟩
    simp only [if_pos h, one_div]
  · left
    simp only [if_neg h]

omit [IsStrictOrderedRing K] [Fintype k] in
/-- the Boolean form used in `C16_sinv_rule` (`s' = if kept then s else 0`,
    `sinv = if kept ∧ s > 0 then 1 / s else 0`, `s ≥ 0`) is the same restriction -/
theorem keptSing_eq_of_bool (s : k → K) (kept : k → Bool) (hs : ∀ i, 0 ≤ s i) :
    keptSing s (fun i => if kept i = true ∧ s i > 0 then 1 / s i else 0)
      = fun i => if kept i = true then s i else 0 := by
  funext i
  unfold keptSing
  by_cases h : kept i = true ∧ s i > 0
  · have hne : (1 / s i) ≠ 0 := one_div_ne_zero (ne_of_gt h.2)
    simp only [if_pos h, if_neg hne, if_pos h.1]
  · simp only [if_neg h, if_true]
    by_cases hk : kept i = true
    · have hz : s i = 0 := le_antisymm (not_lt.mp (fun hp => h ⟨hk, hp⟩)) (hs i)
      simp only [if_pos hk, hz]
    · simp only [if_neg hk]

omit [IsStrictOrderedRing K] [Fintype k] in
theorem truncRule_of_bool (s : k → K) (kept : k → Bool) :
    TruncRule s (fun i => if kept i = true ∧ s i > 0 then 1 / s i else 0) := by
  intro i
  by_cases h : kept i = true ∧ s i > 0
  · right
    refine ⟨ne_of_gt h.2, ?_⟩
    simp only [if_pos h, one_div]
  · left
    simp only [if_neg h]

/-! ## The algebraic core: normal equations and row space -/

section core
variable [DecidableEq k] [DecidableEq m] [DecidableEq n]

omit [LinearOrder K] [IsStrictOrderedRing K] [Fintype n] [DecidableEq m] [DecidableEq n] in
/-- the row-space hypothesis of `C16_min_norm`, discharged: `x = A'ᵀ w` with `w = U diag(sinv²) Uᵀ b`,
    whenever `sinv_i = s'_i · sinv_i²` (only `Uᵀ U = 1` is used) -/
theorem lstsq_in_rowSpace (U : Matrix m k K) (Vh : Matrix k n K) (s' sinv : k → K) (b : m → K)
    (hU : Uᵀ * U = 1) (h2 : ∀ i, sinv i = s' i * (sinv i * sinv i)) :
    Vhᵀ *ᵥ (diagonal sinv *ᵥ (Uᵀ *ᵥ b))
      = (U * diagonal s' * Vh)ᵀ *ᵥ (U *ᵥ (diagonal (fun i => sinv i * sinv i) *ᵥ (Uᵀ *ᵥ b))) := by
  have hd : diagonal s' * diagonal (fun i => sinv i * sinv i) = diagonal sinv := by
    rw [diagonal_mul_diagonal]
    congr 1; funext i; exact (h2 i).symm
  have key : (U * diagonal s' * Vh)ᵀ * (U * (diagonal (fun i => sinv i * sinv i) * Uᵀ))
      = Vhᵀ * (diagonal sinv * Uᵀ) := by
    simp only [transpose_mul, diagonal_transpose]
    calc Vhᵀ * (diagonal s' * Uᵀ) * (U * (diagonal (fun i => sinv i * sinv i) * Uᵀ))
        = Vhᵀ * (diagonal s' * ((Uᵀ * U) * (diagonal (fun i => sinv i * sinv i) * Uᵀ))) := by
          simp only [Matrix.mul_assoc]
      _ = Vhᵀ * ((diagonal s' * diagonal (fun i => sinv i * sinv i)) * Uᵀ) := by
          rw [hU, Matrix.one_mul, Matrix.mul_assoc]
      _ = Vhᵀ * (diagonal sinv * Uᵀ) := by rw [hd]
  simp only [Matrix.mulVec_mulVec]
  rw [key]

/-- core statement with the two algebraic facts as hypotheses -/
theorem lstsq_core (U : Matrix m k K) (Vh : Matrix k n K) (s' sinv : k → K) (b : m → K)
    (hU : Uᵀ * U = 1) (hV : Vh * Vhᵀ = 1)
    (h1 : ∀ i, s' i * s' i * sinv i = s' i) (h2 : ∀ i, sinv i = s' i * (sinv i * sinv i)) :
    IsMinNormLeastSq (U * diagonal s' * Vh) b (Vhᵀ *ᵥ (diagonal sinv *ᵥ (Uᵀ *ᵥ b)))
    ∧ ∀ z : n → K, IsLeastSq (U * diagonal s' * Vh) b z →
        z ⬝ᵥ z ≤ (Vhᵀ *ᵥ (diagonal sinv *ᵥ (Uᵀ *ᵥ b))) ⬝ᵥ (Vhᵀ *ᵥ (diagonal sinv *ᵥ (Uᵀ *ᵥ b))) →
        z = Vhᵀ *ᵥ (diagonal sinv *ᵥ (Uᵀ *ᵥ b)) := by
  have hN := lstsq_normal U Vh s' sinv b hU hV h1
  have hR := lstsq_in_rowSpace U Vh s' sinv b hU h2
  exact ⟨isMinNormLeastSq_of_range _ b _ _ hR hN,
    fun z hz hle => eq_of_range_of_norm_le _ b _ _ hR hN z (normal_of_isLeastSq _ b _ hN z hz) hle⟩

/-! ## The composed theorems -/

omit [IsStrictOrderedRing K] in
/-- the `lstsq` value satisfies the normal equations of the truncated matrix -/
theorem lstsq_normal_kept (U : Matrix m k K) (Vh : Matrix k n K) (s sinv : k → K) (b : m → K)
    (hU : Uᵀ * U = 1) (hV : Vh * Vhᵀ = 1) (hT : TruncRule s sinv) :
    (keptMatrix U Vh s sinv)ᵀ *ᵥ (keptMatrix U Vh s sinv *ᵥ lstsqSol U Vh sinv b)
      = (keptMatrix U Vh s sinv)ᵀ *ᵥ b :=
  lstsq_normal U Vh (keptSing s sinv) sinv b hU hV (keptSing_sq_mul_sinv hT)

omit [IsStrictOrderedRing K] [Fintype n] [DecidableEq m] [DecidableEq n] in
/-- the `lstsq` value lies in the row space of the truncated matrix -/
theorem lstsq_rowSpace_kept (U : Matrix m k K) (Vh : Matrix k n K) (s sinv : k → K) (b : m → K)
    (hU : Uᵀ * U = 1) (hT : TruncRule s sinv) :
    lstsqSol U Vh sinv b
      = (keptMatrix U Vh s sinv)ᵀ *ᵥ (U *ᵥ (diagonal (fun i => sinv i * sinv i) *ᵥ (Uᵀ *ᵥ b))) :=
  lstsq_in_rowSpace U Vh (keptSing s sinv) sinv b hU (sinv_eq_keptSing_mul_sq hT)

/-- (1) the `lstsq` value minimises the residual of the truncated matrix -/
theorem lstsq_isLeastSq (U : Matrix m k K) (Vh : Matrix k n K) (s sinv : k → K) (b : m → K)
    (hU : Uᵀ * U = 1) (hV : Vh * Vhᵀ = 1) (hT : TruncRule s sinv) :
    IsLeastSq (keptMatrix U Vh s sinv) b (lstsqSol U Vh sinv b) :=
  (lstsq_core U Vh (keptSing s sinv) sinv b hU hV (keptSing_sq_mul_sinv hT)
    (sinv_eq_keptSing_mul_sq hT)).1.1

/-- (1) + (2) the `lstsq` value is a minimum-norm least-squares solution of the truncated matrix -/
theorem lstsq_isMinNormLeastSq (U : Matrix m k K) (Vh : Matrix k n K) (s sinv : k → K) (b : m → K)
    (hU : Uᵀ * U = 1) (hV : Vh * Vhᵀ = 1) (hT : TruncRule s sinv) :
    IsMinNormLeastSq (keptMatrix U Vh s sinv) b (lstsqSol U Vh sinv b) :=
  (lstsq_core U Vh (keptSing s sinv) sinv b hU hV (keptSing_sq_mul_sinv hT)
    (sinv_eq_keptSing_mul_sq hT)).1

/-- (3) a least-squares solution whose norm does not exceed that of the `lstsq` value IS the `lstsq` value -/
theorem lstsq_unique_of_norm_le (U : Matrix m k K) (Vh : Matrix k n K) (s sinv : k → K) (b : m → K)
    (hU : Uᵀ * U = 1) (hV : Vh * Vhᵀ = 1) (hT : TruncRule s sinv)
    (z : n → K) (hz : IsLeastSq (keptMatrix U Vh s sinv) b z)
    (hle : z ⬝ᵥ z ≤ lstsqSol U Vh sinv b ⬝ᵥ lstsqSol U Vh sinv b) :
    z = lstsqSol U Vh sinv b :=
  (lstsq_core U Vh (keptSing s sinv) sinv b hU hV (keptSing_sq_mul_sinv hT)
    (sinv_eq_keptSing_mul_sq hT)).2 z hz hle

/-- (3') THE minimum-norm least-squares solution: any minimum-norm least-squares solution of the truncated
    matrix equals the `lstsq` value -/
theorem lstsq_unique (U : Matrix m k K) (Vh : Matrix k n K) (s sinv : k → K) (b : m → K)
    (hU : Uᵀ * U = 1) (hV : Vh * Vhᵀ = 1) (hT : TruncRule s sinv)
    (z : n → K) (hz : IsMinNormLeastSq (keptMatrix U Vh s sinv) b z) :
    z = lstsqSol U Vh sinv b :=
  lstsq_unique_of_norm_le U Vh s sinv b hU hV hT z hz.1
    (hz.2 _ (lstsq_isLeastSq U Vh s sinv b hU hV hT))

/-- characterisation: `z` is a minimum-norm least-squares solution of the truncated matrix iff it is the
    `lstsq` value -/
theorem isMinNormLeastSq_iff_eq_lstsq (U : Matrix m k K) (Vh : Matrix k n K) (s sinv : k → K) (b : m → K)
    (hU : Uᵀ * U = 1) (hV : Vh * Vhᵀ = 1) (hT : TruncRule s sinv) (z : n → K) :
    IsMinNormLeastSq (keptMatrix U Vh s sinv) b z ↔ z = lstsqSol U Vh sinv b :=
  ⟨lstsq_unique U Vh s sinv b hU hV hT z,
   fun h => h ▸ lstsq_isMinNormLeastSq U Vh s sinv b hU hV hT⟩

omit [IsStrictOrderedRing K] [Fintype m] [Fintype n] [DecidableEq m] [DecidableEq n] in
/-- when only exact zeros are dropped, the truncated matrix is the matrix itself -/
theorem keptMatrix_eq_self (U : Matrix m k K) (Vh : Matrix k n K) (s sinv : k → K)
    (h0 : ∀ i, sinv i = 0 → s i = 0) : keptMatrix U Vh s sinv = U * diagonal s * Vh := by
  unfold keptMatrix
  rw [keptSing_eq_self h0]

end core

/-! ## A concrete instance: a 2×2 matrix of full rank whose small singular value is cut

`U = 1/5 [3 -4; 4 3]`, `Vh = 1/5 [4 3; -3 4]`, `s = (5, 1/100)`; the cut drops the second singular value:
`sinv = (1/5, 0)`.  `A = U diag(s) Vh` has rank 2, the truncated `A' = 1/5 [12 9; 16 12]` has rank 1, so its
least-squares solutions form a line; `lstsq` returns `(44/25, 33/25)`, the point of that line nearest to 0.
`(119/25, -67/25)` is another least-squares solution (same image under `A'`), of larger norm. -/

section example_
def exU : Matrix (Fin 2) (Fin 2) ℚ := !![3/5, -4/5; 4/5, 3/5]
def exVh : Matrix (Fin 2) (Fin 2) ℚ := !![4/5, 3/5; -3/5, 4/5]
def exS : Fin 2 → ℚ := ![5, 1/100]
def exSinv : Fin 2 → ℚ := ![1/5, 0]
def exB : Fin 2 → ℚ := ![5, 10]

theorem exU_orth : exUᵀ * exU = 1 := by decide +kernel
theorem exVh_orth : exVh * exVhᵀ = 1 := by decide +kernel
theorem ex_truncRule : TruncRule exS exSinv := by
  intro i
  fin_cases i
  · right; constructor <;> norm_num [exS, exSinv]
  · left; rfl

/-- the second singular value is not zero, it is cut: `s 1 = 1/100` but `keptSing 1 = 0` -/
example : exS 1 ≠ 0 ∧ keptSing exS exSinv = ![5, 0] := by decide +kernel

example : keptMatrix exU exVh exS exSinv = !![12/5, 9/5; 16/5, 12/5] := by decide +kernel
example : exU * diagonal exS * exVh ≠ keptMatrix exU exVh exS exSinv := by decide +kernel
example : lstsqSol exU exVh exSinv exB = ![44/25, 33/25] := by decide +kernel

/-- all hypotheses hold, hence all conclusions; and the least-squares solution is NOT unique (a second one
    with the same residual is exhibited), so (2) and (3) say something -/
example :
    IsMinNormLeastSq (keptMatrix exU exVh exS exSinv) exB ![44/25, 33/25]
    ∧ (∀ z, IsMinNormLeastSq (keptMatrix exU exVh exS exSinv) exB z → z = ![44/25, 33/25])
    ∧ IsLeastSq (keptMatrix exU exVh exS exSinv) exB ![119/25, -67/25]
    ∧ (![44/25, 33/25] : Fin 2 → ℚ) ⬝ᵥ ![44/25, 33/25] < (![119/25, -67/25] : Fin 2 → ℚ) ⬝ᵥ ![119/25, -67/25] := by
  have hx : lstsqSol exU exVh exSinv exB = ![44/25, 33/25] := by decide +kernel
  have hM := lstsq_isMinNormLeastSq exU exVh exS exSinv exB exU_orth exVh_orth ex_truncRule
  refine ⟨hx ▸ hM, fun z hz => hx ▸ lstsq_unique exU exVh exS exSinv exB exU_orth exVh_orth ex_truncRule z hz,
    ?_, by decide +kernel⟩
  have himg : keptMatrix exU exVh exS exSinv *ᵥ ![119/25, -67/25]
      = keptMatrix exU exVh exS exSinv *ᵥ lstsqSol exU exVh exSinv exB := by decide +kernel
  intro y
  rw [himg]
  exact hM.1 y
end example_

#print axioms lstsq_isLeastSq
#print axioms lstsq_isMinNormLeastSq
#print axioms lstsq_unique_of_norm_le
#print axioms lstsq_unique
#print axioms isMinNormLeastSq_iff_eq_lstsq
end LstsqMinNorm
