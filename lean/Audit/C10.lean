import XProofs.Properties.C10
#print axioms Properties.C10.C10_clip_bound
#print axioms Properties.C10.C10_max_step_units
#print axioms Properties.C10.C10_limit_clamp
#print axioms Properties.C10.C10_weight_limits
#print axioms Properties.C10.C10_inactive_knob_untouched
#print axioms Properties.C10.C10_disabled_knob_never_changed
#print axioms Properties.C10.C10_rows_within_limits
#print axioms Properties.C10.C10_rows_within_limits_active
#print axioms Properties.C10.C10_step_within_max_step
#print axioms Properties.C10.C10_trial_point_inside
#print axioms Properties.C10.C10_consecutive_rows_within_max_step

#print axioms Properties.C10.C10_checked_step_is_bounded
#print axioms Properties.C10.C10_consecutive_rows_of_bounded_steps
#print axioms Properties.C10.C10_solver_x_agrees_after_step
#print axioms Properties.C10.C10_two_calls_within_max_step
#print axioms MaxStep.optStep_chain
#print axioms MaxStep.optStep_chain_of_loopOK
#print axioms MaxStep.optStep_two_calls
#print axioms MaxStep.LoopTrialOK.loopOK
#print axioms MaxStep.Ex.run_chain
#print axioms MaxStep.Ex.loopTrialOK_refutable
