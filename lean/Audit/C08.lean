import XProofs.Properties.C08
#print axioms Properties.C08.C08_pattern_plain
#print axioms Properties.C08.C08_mask_rows_from_indices
