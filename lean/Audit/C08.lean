import XProofs.Properties.C08
#print axioms Properties.C08.C08_pattern_plain
#print axioms Properties.C08.C08_mask_rows_from_indices
#print axioms Properties.C08.C08_pattern_plain_spec
#print axioms Properties.C08.C08_mask_selector
#print axioms Properties.C08.C08_value_range
#print axioms Properties.C08.C08_value_range_is
#print axioms Properties.C08.C08_compose
#print axioms Properties.C08.C08_count_selector
#print axioms Properties.C08.C08_name_span
#print axioms Properties.C08.C08_name_span_by_column
#print axioms Properties.C08.C08_name_span_general
#print axioms Properties.C08.C08_name_span_error
#print axioms Properties.C08.C08_name_span_rows
