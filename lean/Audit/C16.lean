import XProofs.Properties.C16
#print axioms Properties.C16.C16_normal_eq
#print axioms Properties.C16.C16_sinv_rule
#print axioms Properties.C16.C16_least_squares
#print axioms Properties.C16.C16_min_norm
#print axioms Properties.C16.C16_weights_inverse
#print axioms Properties.C16.C16_rescale_inverse
#print axioms Properties.C16.C16_view_chain_factor
#print axioms Properties.C16.C16_affine_fd_exact
#print axioms Properties.C16.C16_first_step_lands
#print axioms Properties.C16.C16_first_step_lands_of_normal_residual
#print axioms Properties.C16.C16_first_step_lands_of_minimiser
#print axioms Properties.C16.C16_first_step_lands_lstsq
#print axioms Properties.C16.C16_first_step_lands_weighted
