import XProofs.Properties.C12
#print axioms Properties.C12.C12_reduce_covers_universe
#print axioms Properties.C12.C12_reduce_rebuild
#print axioms Properties.C12.C12_reduce_rebuild_rows
#print axioms Properties.C12.C12_restored_same_behaviour
#print axioms Properties.C12.C12_copies_independent
#print axioms Properties.C12.C12_restored_isomorphic
#print axioms Properties.C12.C12_no_shared_object
#print axioms Properties.C12.C12_sharing_preserved
#print axioms Properties.C12.C12_restored_same_contents_under_assignments
#print axioms Properties.C12.C12_copy_well_formed
#print axioms Properties.C12.C12_canonical_form_preserved
#print axioms Properties.C12.C12_pickled_manager_is_the_original
#print axioms Properties.C12.C12_pickled_manager_same_table
#print axioms Properties.C12.C12_pickled_manager_passes_verify
#print axioms Properties.C12.C12_pickled_manager_same_dump
#print axioms Properties.C12.C12_pickled_manager_same_behaviour
#print axioms Properties.C12.C12_pickled_manager_same_outcomes_per_call
