import XProofs.Properties.C12
#print axioms Properties.C12.C12_reduce_rebuild
#print axioms Properties.C12.C12_restored_same_behaviour
