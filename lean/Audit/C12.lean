import XProofs.Properties.C12
#print axioms Properties.C12.C12_reduce_rebuild
