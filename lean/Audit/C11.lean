import XProofs.Properties.C11
#print axioms Properties.C11.C11_roundtrip_partial
#print axioms Properties.C11.C11_print_injective
#print axioms Properties.C11.C11_load_dump_reacts_identically
#print axioms Properties.C11.C11_same_definitions_same_behaviour
