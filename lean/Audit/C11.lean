import XProofs.Properties.C11
#print axioms Properties.C11.C11_roundtrip_partial
#print axioms Properties.C11.C11_print_injective
#print axioms Properties.C11.C11_load_dump_reacts_identically
#print axioms Properties.C11.C11_same_definitions_same_behaviour
#print axioms Properties.C11.C11_load_is_the_fold
#print axioms Properties.C11.C11_overwrite_last_pair_wins
#print axioms Properties.C11.C11_no_overwrite_first_wins
#print axioms Properties.C11.C11_load_evaluates_nothing
#print axioms Properties.C11.C11_load_twice_is_once
#print axioms Properties.C11.C11_rebound_expression_means_the_same
#print axioms Properties.C11.C11_copy_definitions_are_the_rerooted_ones
#print axioms Properties.C11.C11_copy_without_overwrite_keeps_old
#print axioms Properties.C11.C11_copied_definition_holds
