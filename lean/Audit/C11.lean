import XProofs.Properties.C11
#print axioms Properties.C11.C11_roundtrip_partial
#print axioms Properties.C11.C11_print_injective
