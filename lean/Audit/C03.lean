import XProofs.Properties.C03
#print axioms Properties.C03.C03_register_inv
#print axioms Properties.C03.C03_unregister_inv
