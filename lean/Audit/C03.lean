import XProofs.Properties.C03
#print axioms Properties.C03.C03_register_inv
#print axioms Properties.C03.C03_unregister_inv
#print axioms Properties.C03.C03_init
#print axioms Properties.C03.C03_one_call
#print axioms Properties.C03.C03_all_histories
#print axioms Properties.C03.C03_refresh
#print axioms Properties.C03.C03_no_stale_ids
#print axioms Properties.C03.C03_refresh_same_behaviour
#print axioms Properties.C03.C03_edges_from_tasks
#print axioms Properties.C03.C03_like_fresh_manager
