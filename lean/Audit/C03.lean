import XProofs.Properties.C03
#print axioms Properties.C03.C03_register_inv
#print axioms Properties.C03.C03_unregister_inv
#print axioms Properties.C03.C03_init
#print axioms Properties.C03.C03_one_call
#print axioms Properties.C03.C03_all_histories
#print axioms Properties.C03.C03_refresh
#print axioms Properties.C03.C03_no_stale_ids
#print axioms Properties.C03.C03_refresh_same_behaviour
#print axioms Properties.C03.C03_edges_from_tasks
#print axioms Properties.C03.C03_like_fresh_manager
#print axioms Properties.C03.C03_self_check_passes
#print axioms Properties.C03.C03_one_call_bisimulation
#print axioms Properties.C03.C03_history_same_outcomes
#print axioms Properties.C03.C03_history_same_final_state
#print axioms Properties.C03.C03_fresh_manager_bisimilar
