import XProofs.Properties.C07
#print axioms Properties.C07.C07_makeCache_spec
#print axioms Properties.C07.C07_makeCache_counts
#print axioms Properties.C07.C07_lookup_refines_scan
#print axioms Properties.C07.C07_lookup_keeps_coherence
#print axioms Properties.C07.C07_setCol_keeps_coherence
#print axioms Properties.C07.C07_new_coherent
#print axioms Properties.C07.C07_setCell_keeps_coherence
#print axioms Properties.C07.C07_delCol_keeps_coherence
#print axioms Properties.C07.C07_history_coherent
#print axioms Properties.C07.C07_lookup_after_history
#print axioms Properties.C07.C07_string_forms_resolve_by_scan
#print axioms Properties.C07.C07_cell_access_agrees_with_get_index
#print axioms Properties.C07.C07_unique_labels_resolve
#print axioms Properties.C07.C07_unique_labels_distinct
#print axioms Properties.C07.C07_unique_labels_after_history
#print axioms Properties.C07.C07_string_forms_after_history
