import XProofs.Properties.C05
#print axioms Properties.C05.C05_valid_table_covers_universe
#print axioms Properties.C05.C05_deps_exact
#print axioms Properties.C05.C05_deps_exact_rows
#print axioms Properties.C05.C05_valid_covers
#print axioms Properties.C05.C05_value_depends_only_on_reported
#print axioms Properties.C05.C05_changed_location_reported
#print axioms Properties.C05.C05_value_depends_only_on_reported_rows
#print axioms Properties.C05.C05_changed_location_reported_rows
