import XProofs.Properties.C05
#print axioms Properties.C05.C05_deps_exact
#print axioms Properties.C05.C05_valid_covers
