import XProofs.Properties.C02
#print axioms Properties.C02.C02_once
#print axioms Properties.C02.C02_exact
#print axioms Properties.C02.C02_order
#print axioms Properties.C02.C02_findTaskids
#print axioms Properties.C02.C02_runs_in_order
#print axioms Properties.C02.C02_findTaskids_once_exact
#print axioms Properties.C02.C02_acyclic_test_sound
