import XProofs.Properties.C02
#print axioms Properties.C02.C02_once
#print axioms Properties.C02.C02_exact
#print axioms Properties.C02.C02_order
#print axioms Properties.C02.C02_findTaskids
#print axioms Properties.C02.C02_runs_in_order
#print axioms Properties.C02.C02_findTaskids_once_exact
#print axioms Properties.C02.C02_acyclic_test_sound
#print axioms Properties.C02.C02_execution
#print axioms Properties.C02.C02_execution_any_order
#print axioms Properties.C02.C02_any_set_order_is_legal
#print axioms Properties.C02.C02_triggered_iff_declared_chain
#print axioms Properties.C02.C02_failing_call_runs_a_prefix
