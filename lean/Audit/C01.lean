import XProofs.Properties.C01
#print axioms Properties.C01.C01_push_consistent
#print axioms Capstone.setValue_consistent
#print axioms Link.edge_of_inv
#print axioms Link.start_of_inv
#print axioms Unique.consistent_unique
