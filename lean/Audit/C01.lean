import XProofs.Properties.C01
#print axioms Properties.C01.C01_push_consistent
#print axioms Properties.C01.C01_set_value
#print axioms Properties.C01.C01_set_expr
#print axioms Properties.C01.C01_other_locations
#print axioms Properties.C01.C01_set_value_function_tasks
#print axioms Properties.C01.C01_function_scope_test_sound
#print axioms Properties.C01.C01_order_independent
#print axioms Properties.C01.C01_histories
#print axioms Properties.C01.C01_decided
#print axioms Properties.C01.C01_tests_sound
#print axioms Properties.C01.example_consistent
#print axioms Properties.C01.C01_partial_scope_needed
#print axioms Capstone.setValue_consistent
#print axioms Capstone.consistent_of_order
#print axioms Link.edge_of_inv
#print axioms Link.start_of_inv
#print axioms Unique.consistent_unique
