import XProofs.Properties.C18
#print axioms Properties.C18.C18_prefix
#print axioms Properties.C18.C18_graph_untouched_while_running
#print axioms Properties.C18.C18_definitions_committed
#print axioms Properties.C18.C18_value_assignment_graph
#print axioms Properties.C18.C18_recover
#print axioms Properties.C18.C18_outside_untouched
#print axioms Properties.C18.C18_recover_exec
#print axioms Properties.C18.C18_recover_function_tasks
#print axioms Properties.C18.C18_writes_only_triggered_targets
#print axioms Properties.C18.C18_recover_after_several_faults
#print axioms Properties.C18.C18_recover_after_several_faults_expr
#print axioms Properties.C18.C18_knob_recovery_fails
#print axioms Properties.C18.C18_recover_expression_assignment
#print axioms Properties.C18.C18_recover_expression_assignment_decided
#print axioms Properties.C18.C18_recover_expression_after_several_faults
#print axioms Properties.C18.C18_recover_expression_after_several_faults_by_value
#print axioms Properties.C18.C18_expression_self_read_outside_scope
