import XProofs.Properties.C15
#print axioms Properties.C15.C15_take_best_minimum
#print axioms Properties.C15.C15_never_worse
#print axioms Properties.C15.C15_reload_row
#print axioms Properties.C15.C15_log_append_only
#print axioms Properties.C15.C15_take_best_spec
#print axioms Properties.C15.C15_reload_row_unit_weights
#print axioms Properties.C15.C15_take_best_on_the_log
#print axioms Properties.C15.C15_take_best_exact_unit_weights
#print axioms Properties.C15.C15_log_rows_are_evaluated_points
#print axioms Properties.C15.C15_take_best_index_in_call
