import XProofs.Properties.C09
#print axioms Properties.C09.C09_return_matched
#print axioms Properties.C09.C09_restore
#print axioms Properties.C09.C09_coherent
#print axioms Properties.C09.C09_restore_unit_weights
