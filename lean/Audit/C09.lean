import XProofs.Properties.C09
#print axioms Properties.C09.C09_return_matched
#print axioms Properties.C09.C09_restore
#print axioms Properties.C09.C09_coherent
#print axioms Properties.C09.C09_restore_unit_weights
#print axioms Properties.C09.C09_matched_means_within_current_tolerances
#print axioms Properties.C09.C09_return_matched_within_tolerances
