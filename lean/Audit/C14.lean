import XProofs.Properties.C14
#print axioms Properties.C14.C14_rows_rect_partial
#print axioms Properties.C14.C14_source_unchanged
