import XProofs.Properties.C14
#print axioms Properties.C14.C14_rows_rect_partial
#print axioms Properties.C14.C14_source_unchanged
#print axioms Properties.C14.C14_copy_rect
#print axioms Properties.C14.C14_mul_rect
#print axioms Properties.C14.C14_add_rect
#print axioms Properties.C14.C14_cols_rect
#print axioms Properties.C14.C14_step_rect
#print axioms Properties.C14.C14_chain_rect
#print axioms Properties.C14.C14_transpose_rect
#print axioms Properties.C14.C14_concat_rect
