import XProofs.Properties.C20
#print axioms Properties.C20.C20_order_independent_partial
#print axioms Capstone.setValue_consistent
