import XProofs.Properties.C20
#print axioms Properties.C20.C20_order_independent_partial
#print axioms Properties.C20.C20_writes_commute
#print axioms Properties.C20.C20_set_value
#print axioms Properties.C20.C20_set_expr
#print axioms Properties.C20.C20_histories
#print axioms Properties.C20.C20_order_matters_outside_scope
#print axioms Properties.C20.C20_function_tasks
#print axioms Properties.C20.C20_function_tasks_decided
#print axioms Properties.C20.C20_histories_per_call
#print axioms Properties.C20.C20_histories_per_call_expr
#print axioms Properties.C20.C20_histories_final_state
#print axioms Properties.C20.C20_indices_independent_of_order
