import XProofs.Properties.C04
#print axioms Properties.C04.C04_eval_homomorphism
#print axioms Properties.C04.C04_inplace_complete
#print axioms Properties.C04.C04_builtins
#print axioms Properties.C04.C04_other_exceptions_propagate
#print axioms Properties.C04.C04_eval_homomorphism_full
#print axioms Properties.C04.C04_full_extends_fragment
#print axioms Properties.C04.C04_table_complete
#print axioms Properties.C04.C04_propagate_covers_universe
#print axioms Properties.C04.C04_eval_homomorphism_universe
