import XProofs.Properties.C19
#print axioms Properties.C19.C19_agree
#print axioms Properties.C19.C19_div_guard
#print axioms Properties.C19.C19_full_paren_parse
#print axioms Properties.C19.C19_full_paren_value
#print axioms Properties.C19.C19_parser_range
#print axioms Properties.C19.C19_minimal_paren_parse
#print axioms Properties.C19.C19_minimal_paren_in_position
#print axioms Properties.C19.C19_reads_parse
#print axioms Properties.C19.C19_minimal_paren_injective
#print axioms Properties.C19.C19_no_paren_iff_flat
#print axioms Properties.C19.C19_left_associative
#print axioms Properties.C19.C19_left_associative_explicit
#print axioms Properties.C19.C19_left_associative_chain
#print axioms Properties.C19.C19_precedence
#print axioms Properties.C19.C19_precedence_explicit
#print axioms Properties.C19.C19_two_operator_table
#print axioms Properties.C19.C19_unary_minus
