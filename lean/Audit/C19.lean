import XProofs.Properties.C19
#print axioms Properties.C19.C19_agree
#print axioms Properties.C19.C19_div_guard
