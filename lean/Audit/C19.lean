import XProofs.Properties.C19
#print axioms Properties.C19.C19_agree
#print axioms Properties.C19.C19_div_guard
#print axioms Properties.C19.C19_full_paren_parse
#print axioms Properties.C19.C19_full_paren_value
#print axioms Properties.C19.C19_parser_range
