import XProofs.Properties.C06
#print axioms Properties.C06.C06_eq_iff_same_path
#print axioms Properties.C06.C06_expr_eq_iff
#print axioms Properties.C06.C06_hash_of_eq
#print axioms Properties.C06.C06_key_print_injective
#print axioms Properties.C06.C06_path_print_injective
#print axioms Properties.C06.C06_extends_parse_paths
#print axioms Properties.C06.C06_eq_iff_same_path_from_extension
#print axioms Properties.C06.C06_key_text_injective
#print axioms Properties.C06.C06_path_text_injective
