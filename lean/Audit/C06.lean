import XProofs.Properties.C06
#print axioms Properties.C06.C06_eq_iff_same_path
#print axioms Properties.C06.C06_expr_eq_iff
#print axioms Properties.C06.C06_hash_of_eq
