import XProofs.Properties.C13
#print axioms Properties.C13.C13_single_argument
#print axioms Properties.C13.C13_graph_untouched
