import XProofs.Properties.C13
#print axioms Properties.C13.C13_single_argument
#print axioms Properties.C13.C13_graph_untouched
#print axioms Properties.C13.C13_equivalent
#print axioms Properties.C13.C13_generated_consistent
#print axioms Properties.C13.C13_listing
#print axioms Properties.C13.C13_scope_test_sound
#print axioms Properties.C13.C13_equivalent_function_tasks
#print axioms Properties.C13.C13_equivalent_function_tasks_decided
#print axioms Properties.C13.C13_single_argument_function_tasks
#print axioms Properties.C13.C13_single_argument_function_tasks_indep
#print axioms Properties.C13.C13_manager_completes_implies_generated_completes
#print axioms Properties.C13.C13_manager_completes_implies_generated_completes_decided
#print axioms Properties.C13.C13_converse_fails_witness
#print axioms Properties.C13.C13_converse_fails
