import XProofs.Properties.C13
#print axioms Properties.C13.C13_single_argument
#print axioms Properties.C13.C13_graph_untouched
#print axioms Properties.C13.C13_equivalent
#print axioms Properties.C13.C13_generated_consistent
#print axioms Properties.C13.C13_listing
#print axioms Properties.C13.C13_scope_test_sound
#print axioms Properties.C13.C13_equivalent_function_tasks
#print axioms Properties.C13.C13_equivalent_function_tasks_decided
#print axioms Properties.C13.C13_single_argument_function_tasks
