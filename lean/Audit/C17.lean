import XProofs.Properties.C17
#print axioms Properties.C17.C17_structural_calls_rejected
#print axioms Properties.C17.C17_frozen_step
#print axioms Properties.C17.C17_frozen_history
#print axioms Properties.C17.C17_values_propagate
#print axioms Properties.C17.C17_unfreeze
#print axioms Properties.C17.C17_as_if_never_frozen
#print axioms Properties.C17.C17_frozen_call
#print axioms Properties.C17.C17_frozen_load_rejected_iff
#print axioms Properties.C17.C17_frozen_call_explicit
#print axioms Properties.C17.C17_frozen_copy_expr_from
#print axioms Properties.C17.C17_flag_is_boolean
#print axioms Properties.C17.C17_history_as_if_never_frozen
#print axioms Properties.C17.C17_history_call_by_call
#print axioms Properties.C17.C17_after_last_unfreeze
#print axioms Properties.C17.C17_one_bracket_is_an_instance
